#!/usr/bin/env python3
"""T4 — command-line tables.  Reads the `main` of the command-line tools of /repo's *current* working tree and
emits coq/Gen/GenCli.v : `gen_tools : list tool` (records defined in coq/Geom/Cli.v).

Per tool:
  * typed option declarations   `const T var = cmd.option("-x",default,"usage");`
  * the early-return checks     `if (argc<k || cmd.help_mode() || var=="") { [help(argv[0]);] return c; }`
    and whether `help()` itself calls `exit(c)`
  * positional uses             `argv[k]` (k a literal; argv[0] is ignored)
  * option blocks               `if (char** opt_parms = cmd.option({aliases}|"name", parms)) { ... }` with, for every
    `opt_parms[k]` in the block: k, the guard it sits under (conjunction of `cmd.num_args(opt_parms) ==|!=|<|>= c`
    atoms collected from `if`, `switch/case`, `?:` and boolean variables initialised from such a comparison), and
    the sink (the call or variable receiving the value, with the argument position)
  * the alias subset that selects a variant inside a block (a brace list of aliases in the body)
  * the final `if (num_options==0) { ... exit(c); }`

Anything outside the recognised shapes is returned as a problem string (and nothing is guessed).
`parse_all(repo)` returns the same tables as python data for the runner."""
import os, re, sys
SERVES = ("C20",)   # properties whose check reports this translator's problems (lib/gencoq.py, core.Check.proofs)

TOOLS = [("om_assemble", "apps/assemble.cpp"), ("om_gain", "apps/gain.cpp"), ("om_minverser", "apps/minverser.cpp"),
         ("om_forward", "apps/forward.cpp"), ("om_matrix_convert", "apps/tools/matrix_convert.cpp"),
         ("om_check_geom", "apps/tools/check_geom.cpp"), ("om_mesh_convert", "apps/tools/mesh_convert.cpp"),
         ("om_mesh_concat", "apps/tools/mesh_concat.cpp")]

TOK = re.compile(r"""
    (?P<ws>\s+) | (?P<lc>//[^\n]*) | (?P<bc>/\*.*?\*/) | (?P<pp>^[ \t]*\#[^\n]*$)
  | (?P<str>"(?:[^"\\\n]|\\.)*") | (?P<chr>'(?:[^'\\\n]|\\.)+')
  | (?P<num>(?:\d+\.\d*|\.\d+|\d+)(?:[eE][+-]?\d+)?[uUlLfF]*)
  | (?P<id>[A-Za-z_][A-Za-z0-9_]*)
  | (?P<op>::|->|\+\+|--|<<|>>|<=|>=|==|!=|&&|\|\||[-+*/%<>=!&|^~?:;,.(){}\[\]])
""", re.X | re.S | re.M)

class Problem(Exception):
    pass

def tokenize(src, fname):
    toks = []; i = 0
    while i < len(src):
        m = TOK.match(src, i)
        if not m:
            raise Problem("%s: cannot tokenize at offset %d: %r" % (fname, i, src[i:i + 20]))
        i = m.end()
        k = m.lastgroup
        if k in ("ws", "lc", "bc", "pp"): continue
        toks.append((k, m.group(k)))
    return toks

OPEN = {"(": ")", "[": "]", "{": "}"}
CLOSE = {")": "(", "]": "[", "}": "{"}

def unq(s):
    assert s[0] == '"' and s[-1] == '"'
    body = s[1:-1]
    if "\\" in body:
        body = body.replace('\\"', '"').replace("\\\\", "\\").replace("\\n", "\n").replace("\\t", "\t")
    return body

class Src:
    def __init__(self, fname, text):
        self.fname = fname
        self.t = tokenize(text, fname)
        self.v = [x[1] for x in self.t]
        self.k = [x[0] for x in self.t]
        self.match = {}
        st = []
        for i, x in enumerate(self.v):
            if self.k[i] != "op": continue
            if x in OPEN: st.append(i)
            elif x in CLOSE:
                if not st or self.v[st[-1]] != CLOSE[x]:
                    raise Problem("%s: unbalanced %s at token %d" % (fname, x, i))
                j = st.pop(); self.match[j] = i; self.match[i] = j
        if st: raise Problem("%s: unbalanced brackets" % fname)

    def txt(self, lo, hi):
        return " ".join(self.v[lo:hi])

    def find_seq(self, seq, lo=0, hi=None):
        hi = len(self.v) if hi is None else hi
        n = len(seq)
        for i in range(lo, hi - n + 1):
            if self.v[i:i + n] == seq: return i
        return -1

    def stmt_end(self, lo, hi):
        """index of the `;` ending the simple statement that starts at lo (brackets skipped)"""
        i = lo
        while i < hi:
            x = self.v[i]
            if self.k[i] == "op" and x in OPEN: i = self.match[i] + 1; continue
            if self.k[i] == "op" and x == ";": return i
            i += 1
        raise Problem("%s: statement starting `%s` has no end" % (self.fname, self.txt(lo, min(hi, lo + 8))))

# ------------------------------------------------------------------------------------------------ guards
NEG = {"==": "!=", "!=": "==", "<": ">=", ">=": "<", ">": "<=", "<=": ">"}
def atom(op, c):
    """normalise to the four atom kinds of Cli.v: eq ne ge lt"""
    if op == "==": return ("eq", c)
    if op == "!=": return ("ne", c)
    if op == ">=": return ("ge", c)
    if op == "<": return ("lt", c)
    if op == ">": return ("ge", c + 1)
    if op == "<=": return ("lt", c + 1)
    raise Problem("comparison %s" % op)
def neg_atom(a):
    k, c = a
    return {"eq": ("ne", c), "ne": ("eq", c), "ge": ("lt", c), "lt": ("ge", c)}[k]

class BlockScan:
    """walks the body of one option block, collecting uses of opt_parms[k] with their guards"""
    def __init__(self, s, lo, hi, pvar="opt_parms"):
        self.s = s; self.pvar = pvar; self.uses = []; self.env = {}; self.lo = lo; self.hi = hi
        self.brace_lists = []
        self.stmts(lo, hi, [])

    # --- conditions
    def strip_parens(self, lo, hi):
        s = self.s
        while hi - lo >= 2 and s.v[lo] == "(" and s.match[lo] == hi - 1:
            lo += 1; hi -= 1
        return lo, hi

    def num_args_cmp(self, lo, hi):
        """tokens lo:hi == cmd.num_args(opt_parms) OP literal  ->  atom, else None"""
        s = self.s
        lo, hi = self.strip_parens(lo, hi)
        if s.v[lo:lo + 7] == ["cmd", ".", "num_args", "(", self.pvar, ")"] + [s.v[lo + 6]] and hi - lo == 8 \
           and s.v[lo + 6] in NEG and s.k[lo + 7] == "num" and s.v[lo + 7].isdigit():
            return atom(s.v[lo + 6], int(s.v[lo + 7]))
        return None

    def cond(self, lo, hi):
        """-> list of atoms (conjunction) for the true branch and for the false branch, or (None,None) for a
        condition that does not depend on the command line (data dependent)."""
        s = self.s
        lo, hi = self.strip_parens(lo, hi)
        a = self.num_args_cmp(lo, hi)
        if a is not None: return [a], [neg_atom(a)]
        if hi - lo == 1 and s.v[lo] in self.env:
            a = self.env[s.v[lo]]; return [a], [neg_atom(a)]
        if hi - lo == 2 and s.v[lo] == "!" and s.v[lo + 1] in self.env:
            a = self.env[s.v[lo + 1]]; return [neg_atom(a)], [a]
        words = set(s.v[lo:hi])
        if words & ({"num_args", "argc", "argv"} | set(self.env)):
            raise Problem("%s: condition `%s` involves the argument count in an unrecognised form" % (s.fname, s.txt(lo, hi)))
        return None, None

    # --- statements
    def stmts(self, lo, hi, g):
        i = lo
        while i < hi:
            i = self.stmt(i, hi, g)

    def stmt(self, i, hi, g):
        """scans one statement starting at i; returns the index after it"""
        s = self.s; x = s.v[i]
        if x == "{" and s.k[i] == "op":
            self.stmts(i + 1, s.match[i], g); return s.match[i] + 1
        if x == "if" and s.k[i] == "id":
            if s.v[i + 1] != "(": raise Problem("%s: if without (" % s.fname)
            c0, c1 = i + 2, s.match[i + 1]
            gt, gf = self.cond(c0, c1)
            self.expr(c0, c1, g)
            j = self.stmt(c1 + 1, hi, g + gt if gt is not None else g)
            if j < hi and s.v[j] == "else" and s.k[j] == "id":
                j = self.stmt(j + 1, hi, g + gf if gf is not None else g)
            return j
        if x == "switch" and s.k[i] == "id":
            c0, c1 = i + 2, s.match[i + 1]
            if s.v[c0:c1] != ["cmd", ".", "num_args", "(", self.pvar, ")"]:
                if set(s.v[c0:c1]) & {"num_args", "argc", "argv", self.pvar}:
                    raise Problem("%s: switch on `%s` not recognised" % (s.fname, s.txt(c0, c1)))
                b0 = c1 + 1
                if s.v[b0] != "{": raise Problem("%s: switch without block" % s.fname)
                self.stmts(b0 + 1, s.match[b0], g); return s.match[b0] + 1
            b0 = c1 + 1
            if s.v[b0] != "{": raise Problem("%s: switch without block" % s.fname)
            b1 = s.match[b0]
            # split into cases at depth 0
            marks = []; j = b0 + 1
            while j < b1:
                if s.k[j] == "op" and s.v[j] in OPEN: j = s.match[j] + 1; continue
                if s.k[j] == "id" and s.v[j] == "case":
                    if not (s.k[j + 1] == "num" and s.v[j + 1].isdigit() and s.v[j + 2] == ":"):
                        raise Problem("%s: case label `%s` not a literal" % (s.fname, s.txt(j, j + 3)))
                    marks.append((j, int(s.v[j + 1]), j + 3)); j += 3; continue
                if s.k[j] == "id" and s.v[j] == "default":
                    marks.append((j, None, j + 2)); j += 2; continue
                j += 1
            if not marks or marks[0][0] != b0 + 1:
                raise Problem("%s: statements before the first case label" % s.fname)
            consts = [c for _, c, _ in marks if c is not None]
            for n, (m0, c, body0) in enumerate(marks):
                body1 = marks[n + 1][0] if n + 1 < len(marks) else b1
                # the case must end with break (no fall-through)
                e = body1
                if s.v[e - 1] == "}" and s.match[e - 1] == body0:
                    inner = (body0 + 1, e - 1)
                else:
                    inner = (body0, e)
                if not (inner[1] - inner[0] >= 2 and s.v[inner[1] - 2:inner[1]] == ["break", ";"]):
                    if n + 1 < len(marks) or True:
                        raise Problem("%s: case %s does not end with break (fall-through not supported)" % (s.fname, c))
                gg = g + ([("eq", c)] if c is not None else [("ne", k) for k in consts])
                self.stmts(inner[0], inner[1] - 2, gg)
            return b1 + 1
        if x in ("for", "while") and s.k[i] == "id":
            c0, c1 = i + 2, s.match[i + 1]
            self.expr(c0, c1, g)
            return self.stmt(c1 + 1, hi, g)
        if x in ("break", "continue") and s.k[i] == "id" and s.v[i + 1] == ";":
            return i + 2
        if x in ("do", "goto", "try", "catch") and s.k[i] == "id":
            raise Problem("%s: `%s` statement inside an option block is not supported" % (s.fname, x))
        # simple statement
        e = s.stmt_end(i, hi)
        self.simple(i, e, g)
        return e + 1

    def simple(self, lo, hi, g):
        s = self.s
        # boolean guard variable:  const bool X = (cmd.num_args(opt_parms)==c) [? true : false] ;
        if s.v[lo:lo + 2] == ["const", "bool"] and s.k[lo + 2] == "id" and s.v[lo + 3] == "=":
            name = s.v[lo + 2]; r0 = lo + 4
            q = None
            j = r0
            while j < hi:
                if s.k[j] == "op" and s.v[j] in OPEN: j = s.match[j] + 1; continue
                if s.v[j] == "?" and s.k[j] == "op": q = j; break
                j += 1
            a = None
            if q is None:
                a = self.num_args_cmp(r0, hi)
            else:
                a = self.num_args_cmp(r0, q)
                rest = s.v[q + 1:hi]
                if a is not None:
                    if rest == ["true", ":", "false"]: pass
                    elif rest == ["false", ":", "true"]: a = neg_atom(a)
                    else: raise Problem("%s: boolean `%s` initialised in an unrecognised form" % (s.fname, name))
            if a is not None:
                if g: a = None if False else a
                if g:
                    raise Problem("%s: guard variable `%s` defined under a guard" % (s.fname, name))
                self.env[name] = a
                return
            if set(s.v[r0:hi]) & {"num_args", "argc"}:
                raise Problem("%s: boolean `%s` depends on the argument count in an unrecognised form" % (s.fname, name))
        self.expr(lo, hi, g, stmt_lo=lo)

    # --- expressions
    def expr(self, lo, hi, g, stmt_lo=None):
        s = self.s
        stmt_lo = lo if stmt_lo is None else stmt_lo
        i = lo
        while i < hi:
            x = s.v[i]; k = s.k[i]
            if k == "op" and x == "?":
                if s.v[i - 1] != ")":
                    c0 = c1 = None
                else:
                    c0, c1 = s.match[i - 1] + 1, i - 1
                # matching ':' and the end of the else branch
                j = i + 1; nest = 0; colon = None
                while j < hi:
                    if s.k[j] == "op" and s.v[j] in OPEN: j = s.match[j] + 1; continue
                    if s.k[j] == "op" and s.v[j] == "?": nest += 1
                    elif s.k[j] == "op" and s.v[j] == ":":
                        if nest == 0: colon = j; break
                        nest -= 1
                    elif s.k[j] == "op" and s.v[j] in (",", ";"):
                        break
                    j += 1
                if colon is None:
                    raise Problem("%s: `?` without `:` in `%s`" % (s.fname, s.txt(lo, hi)))
                j = colon + 1; e = hi
                while j < hi:
                    if s.k[j] == "op" and s.v[j] in OPEN: j = s.match[j] + 1; continue
                    if s.k[j] == "op" and s.v[j] in (",", ";"): e = j; break
                    j += 1
                uses_inside = self.pvar in s.v[i + 1:e]
                if c0 is None:
                    if uses_inside: raise Problem("%s: `?:` with an unparenthesised condition around %s" % (s.fname, self.pvar))
                    gt = gf = None
                else:
                    gt, gf = self.cond(c0, c1)
                self.expr(i + 1, colon, g + gt if gt is not None else g, stmt_lo)
                self.expr(colon + 1, e, g + gf if gf is not None else g, stmt_lo)
                i = e; continue
            if k == "id" and x == self.pvar:
                if i + 1 < len(s.v) and s.v[i + 1] == "[":
                    b0, b1 = i + 1, s.match[i + 1]
                    sink = self.sink(i, stmt_lo)
                    skind = self.sink_kind(i, stmt_lo)
                    for kk, gg in self.index(b0 + 1, b1, g):
                        self.uses.append(dict(k=kk, guard=list(gg), sink=sink[0], argpos=sink[1], kind=skind))
                    i = b1 + 1; continue
                # bare use: only as the argument of cmd.num_args( . )
                if not (s.v[i - 1] == "(" and s.v[i - 2] == "num_args" and s.v[i + 1] == ")"):
                    raise Problem("%s: `%s` used other than by literal index or in num_args: `%s`" % (s.fname, self.pvar, s.txt(max(lo, i - 4), min(hi, i + 4))))
            if k == "op" and x == "{":
                # a brace list of string literals (candidate alias subset), or a lambda / nested block
                b1 = s.match[i]
                inner = s.t[i + 1:b1]
                if inner and all((kk == "str") or (kk == "op" and vv == ",") for kk, vv in inner):
                    self.brace_lists.append([unq(vv) for kk, vv in inner if kk == "str"])
                    i = b1 + 1; continue
                if s.v[i - 1] == ")" :
                    # lambda body: scan as statements (no guard change)
                    self.stmts(i + 1, b1, g); i = b1 + 1; continue
            i += 1

    def index(self, lo, hi, g):
        s = self.s
        if hi - lo == 1 and s.k[lo] == "num" and s.v[lo].isdigit():
            return [(int(s.v[lo]), g)]
        # ( X ) ? a : b
        if s.v[lo] == "(" and s.v[s.match[lo] + 1] == "?" and hi - (s.match[lo] + 1) == 4 and s.v[hi - 2] == ":" \
           and s.k[hi - 3] == "num" and s.k[hi - 1] == "num" and s.v[hi - 3].isdigit() and s.v[hi - 1].isdigit():
            gt, gf = self.cond(lo + 1, s.match[lo])
            if gt is None:
                raise Problem("%s: index `%s` depends on data" % (s.fname, s.txt(lo, hi)))
            return [(int(s.v[hi - 3]), g + gt), (int(s.v[hi - 1]), g + gf)]
        raise Problem("%s: index `%s[%s]` is not a literal" % (s.fname, self.pvar, s.txt(lo, hi)))

    def sink_kind(self, i, stmt_lo):
        """kind of what receives opt_parms[k] at token i, from the TYPE / callee in the source (not from variable names):
        geom cond (Geometry constructor argument 0 / 1), matrix sym sparse sensors mesh (constructor of that type),
        out (save/saveEEG/saveMEG), name (copied into a string, a stringstream, an interface or domain name argument)"""
        s = self.s
        j = i - 1; commas = 0
        while j >= stmt_lo:
            x = s.v[j]; k = s.k[j]
            if k == "op" and x in CLOSE: j = s.match[j] - 1; continue
            if k == "op" and x == "(":
                if j - 1 >= stmt_lo and s.k[j - 1] == "id":
                    callee = s.v[j - 1]
                    if j - 2 >= stmt_lo and s.v[j - 2] == "." :
                        if callee in ("save", "saveEEG", "saveMEG"): return "out"
                        if callee in ("interface", "str"): return "name"
                        raise Problem("%s: opt_parms passed to method `%s` of unknown meaning" % (s.fname, callee))
                    typ = s.v[j - 2] if j - 2 >= stmt_lo and s.k[j - 2] == "id" else None
                    if typ == "Geometry": return ["geom", "cond"][commas] if commas < 2 else "name"
                    TY = {"Matrix": "matrix", "SymMatrix": "sym", "SparseMatrix": "sparse", "Sensors": "sensors", "Mesh": "mesh", "stringstream": "name", "string": "name"}
                    if typ in TY and commas == 0: return TY[typ]
                    if typ is None or typ in ("return",) or s.v[j - 2] in ("?", ":", "=", "(", ","):
                        if callee in ("CorticalMat", "CorticalMat2") and commas == 2: return "name"
                    raise Problem("%s: cannot tell what `%s %s(...)` does with opt_parms (argument %d)" % (s.fname, typ, callee, commas))
                commas = 0; j -= 1; continue
            if k == "op" and x == ",": commas += 1
            if k == "op" and x == "=":
                return "name"          # copied into a variable (std::string / const char*)
            j -= 1
        raise Problem("%s: opt_parms used in a statement of unknown shape `%s`" % (s.fname, s.txt(stmt_lo, i + 4)))

    def sink(self, i, stmt_lo):
        """(name, argument position) of the call/constructor/variable that receives opt_parms[k] at token i"""
        s = self.s
        j = i - 1; commas = 0
        while j >= stmt_lo:
            x = s.v[j]; k = s.k[j]
            if k == "op" and x in CLOSE: j = s.match[j] - 1; continue
            if k == "op" and x == "(":
                if j - 1 >= stmt_lo and s.k[j - 1] == "id":
                    return (s.v[j - 1], commas)
                commas = 0; j -= 1; continue      # a grouping parenthesis: keep looking outwards
            if k == "op" and x == ",": commas += 1
            if k == "op" and x == "=" :
                if s.k[j - 1] == "id": return (s.v[j - 1], 0)
            j -= 1
        return ("?", 0)

# ------------------------------------------------------------------------------------------------ one tool
def find_function(s, name):
    """(body_lo, body_hi) of the definition `name ( ... ) [try] { ... }`"""
    for i in range(len(s.v) - 1):
        if s.v[i] == name and s.k[i] == "id" and s.v[i + 1] == "(":
            j = s.match[i + 1] + 1
            if j < len(s.v) and s.v[j] == "try": j += 1
            if j < len(s.v) and s.v[j] == "{":
                return j + 1, s.match[j]
    return None

HARMLESS_START = [["print_version", "("], ["cmd", ".", "print", "("], ["constexpr", "char"], ["const", "auto", "start_time"],
                  ["unsigned", "num_options", "=", "0"], ["const", "auto", "end_time"], ["dispEllapsed", "("]]

def parse_tool(repo, name, rel):
    path = os.path.join(repo, rel)
    s = Src(rel, open(path).read())
    tool = dict(name=name, file=rel, decls=[], help_exit=None, pre=[], argv_uses=[], blocks=[], unknown_exit=None, has_blocks=False, documented=[], doc_lines=[])
    mf = find_function(s, "main")
    if mf is None: raise Problem("%s: no main" % rel)
    lo, hi = mf
    hf = find_function(s, "help")
    in_args = False
    if hf is not None:
        j = hf[0]
        while j < hf[1]:
            if s.v[j] == "exit" and s.v[j + 1] == "(":
                if not (s.k[j + 2] == "num" and s.v[j + 3] == ")"):
                    raise Problem("%s: exit(%s) in help() is not a literal" % (rel, s.txt(j + 2, s.match[j + 1])))
                tool["help_exit"] = int(s.v[j + 2])
            if s.v[j] in ("argc", "argv", "cmd"): raise Problem("%s: help() looks at the command line" % rel)
            if s.k[j] == "str":
                # a help line that introduces an option: leading blanks, then -Name[,| or] -Alias ... up to the first ':'
                lit = unq(s.v[j])
                m = re.match(r"^\s+(-[A-Za-z][A-Za-z0-9]*(?:\s*(?:,|or|\s)\s*-[A-Za-z][A-Za-z0-9]*)*)\s*:", lit)
                if m:
                    tool["documented"].append(re.findall(r"-[A-Za-z][A-Za-z0-9]*", m.group(1)))
                    tool["doc_lines"].append([]); in_args = False
                elif tool["doc_lines"]:
                    line = lit.strip()
                    if re.match(r"^(Arguments|Filepaths are in order)\s*:?$", line): in_args = True
                    elif in_args and line: tool["doc_lines"][-1].append(line)
            j += 1
    consts = {}; parmlists = {}
    recognised_option_calls = 0; recognised_argc = 0
    i = lo
    seen_work = False
    while i < hi:
        x = s.v[i]
        # ---- constexpr char NAME[] = "..." ;
        if s.v[i:i + 2] == ["constexpr", "char"] and s.k[i + 2] == "id" and s.v[i + 3:i + 6] == ["[", "]", "="] and s.k[i + 6] == "str" and s.v[i + 7] == ";":
            consts[s.v[i + 2]] = unq(s.v[i + 6]); i += 8; continue
        # ---- const auto& XXX = { items } ;
        if s.v[i:i + 3] == ["const", "auto", "&"] and s.k[i + 3] == "id" and s.v[i + 4:i + 6] == ["=", "{"]:
            b0 = i + 5; b1 = s.match[b0]; items = []
            j = b0 + 1
            while j < b1:
                if s.k[j] == "str": items.append(unq(s.v[j]))
                elif s.k[j] == "id":
                    if s.v[j] not in consts: raise Problem("%s: parameter name `%s` is not a known constant" % (rel, s.v[j]))
                    items.append(consts[s.v[j]])
                elif s.v[j] != ",": raise Problem("%s: parameter list %s has an unexpected item `%s`" % (rel, s.v[i + 3], s.v[j]))
                j += 1
            if s.v[b1 + 1] != ";": raise Problem("%s: parameter list %s not terminated" % (rel, s.v[i + 3]))
            parmlists[s.v[i + 3]] = items; i = b1 + 2; continue
        # ---- const std::vector<const char*> XXX = { items } ;   (a named list usable as alias list or parameter list)
        if i + 12 < len(s.v) and s.v[i:i + 9] == ["const", "std", "::", "vector", "<", "const", "char", "*", ">"] and s.k[i + 9] == "id" and s.v[i + 10:i + 12] == ["=", "{"]:
            b0 = i + 11; b1 = s.match[b0]; items = []
            for j in range(b0 + 1, b1):
                if s.k[j] == "str": items.append(unq(s.v[j]))
                elif s.k[j] == "id":
                    if s.v[j] not in consts: raise Problem("%s: list %s has an unknown item `%s`" % (rel, s.v[i + 9], s.v[j]))
                    items.append(consts[s.v[j]])
                elif s.v[j] != ",": raise Problem("%s: list %s has an unexpected item `%s`" % (rel, s.v[i + 9], s.v[j]))
            if s.v[b1 + 1] != ";": raise Problem("%s: list %s not terminated" % (rel, s.v[i + 9]))
            parmlists[s.v[i + 9]] = items; i = b1 + 2; continue
        # ---- CommandLine cmd(argc,argv[,usage]);
        if s.v[i:i + 2] == ["const", "CommandLine"] and s.v[i + 2] == "cmd" and s.v[i + 3] == "(":
            b1 = s.match[i + 3]
            if s.v[i + 4:i + 7] != ["argc", ",", "argv"]: raise Problem("%s: CommandLine not built from (argc,argv)" % rel)
            recognised_argc += 1
            i = b1 + 2; continue
        # ---- typed option declaration
        if x == "const" and "cmd" in s.v[i:s.stmt_end(i, hi)] and s.v[i:i+2] != ["const", "CommandLine"]:
            e = s.stmt_end(i, hi)
            q = s.find_seq(["=", "cmd", ".", "option", "("], i, e)
            if q > 0 and s.k[q - 1] == "id":
                var = s.v[q - 1]; a0 = q + 4; a1 = s.match[a0]
                if s.k[a0 + 1] != "str" or s.v[a0 + 2] != ",": raise Problem("%s: option declaration of `%s` has no literal name" % (rel, var))
                oname = unq(s.v[a0 + 1]); d0 = a0 + 3
                # default value up to the next top-level comma
                j = d0
                while j < a1:
                    if s.k[j] == "op" and s.v[j] in OPEN: j = s.match[j] + 1; continue
                    if s.v[j] == ",": break
                    j += 1
                dflt = s.v[d0:j]
                if dflt == ["std", "::", "string", "(", ")"]: kind, dv = "string", ""
                elif len(dflt) == 1 and s.k[d0] == "num": kind, dv = "double", dflt[0]
                elif dflt == ["-"] + dflt[1:] and len(dflt) == 2 and s.k[d0 + 1] == "num": kind, dv = "double", "-" + dflt[1]
                elif dflt in (["false"], ["true"]): kind, dv = "bool", dflt[0]
                else: raise Problem("%s: default value `%s` of option %s not recognised" % (rel, " ".join(dflt), oname))
                tool["decls"].append(dict(var=var, name=oname, kind=kind, default=dv))
                recognised_option_calls += 1
                i = e + 1; continue
        # ---- option block
        if s.v[i:i + 9] == ["if", "(", "char", "*", "*", "opt_parms", "=", "cmd", "."] and s.v[i + 9:i + 11] == ["option", "("]:
            a0 = i + 10; a1 = s.match[a0]; alias_var = None
            if s.match[i + 1] != a1 + 1: raise Problem("%s: option block condition not of the expected shape" % rel)
            if s.v[a0 + 1] == "{":
                l1 = s.match[a0 + 1]; aliases = []
                for kk, vv in s.t[a0 + 2:l1]:
                    if kk == "str": aliases.append(unq(vv))
                    elif vv != ",": raise Problem("%s: alias list has an unexpected item `%s`" % (rel, vv))
                multi = True; j = l1 + 1
            elif s.k[a0 + 1] == "str":
                aliases = [unq(s.v[a0 + 1])]; multi = False; j = a0 + 2
            elif s.k[a0 + 1] == "id" and s.v[a0 + 1] in parmlists and s.v[a0 + 2] == ",":
                aliases = list(parmlists[s.v[a0 + 1]]); multi = True; j = a0 + 2; alias_var = s.v[a0 + 1]     # option(const Strings&,const Strings&)
            else:
                raise Problem("%s: option name is neither a literal nor a brace list: `%s`" % (rel, s.txt(a0, a1)))
            if not (s.v[j] == "," and s.k[j + 1] == "id" and j + 2 == a1):
                raise Problem("%s: option %s: parameter list argument not a named list" % (rel, aliases[0]))
            if s.v[j + 1] not in parmlists: raise Problem("%s: option %s: unknown parameter list %s" % (rel, aliases[0], s.v[j + 1]))
            parms = parmlists[s.v[j + 1]]
            b0 = a1 + 2
            if s.v[b0] != "{": raise Problem("%s: option %s: body is not a block" % (rel, aliases[0]))
            b1 = s.match[b0]
            # first statement must be assert_non_conflicting_options(argv[0],++num_options);
            exp = ["assert_non_conflicting_options", "(", "argv", "[", "0", "]", ",", "++", "num_options", ")", ";"]
            if s.v[b0 + 1:b0 + 1 + len(exp)] != exp:
                raise Problem("%s: option %s: block does not start with assert_non_conflicting_options(argv[0],++num_options)" % (rel, aliases[0]))
            bs = BlockScan(s, b0 + 1 + len(exp), b1)
            # every Geometry built in the block: does the ordering flag (a declared boolean option variable) reach the constructor?
            geos = []
            flagvars = {d["var"] for d in tool["decls"] if d["kind"] == "bool"}
            for q in range(b0, b1):
                if s.v[q] == "Geometry" and s.k[q] == "id" and s.k[q + 1] == "id" and s.v[q + 2] == "(":
                    e = s.match[q + 2]; args = []; cur = []; depth_j = q + 3
                    while depth_j <= e:
                        if depth_j == e or (s.v[depth_j] == "," ):
                            args.append(cur); cur = []
                        elif s.k[depth_j] == "op" and s.v[depth_j] in OPEN:
                            cur += s.v[depth_j:s.match[depth_j] + 1]; depth_j = s.match[depth_j]
                        else: cur.append(s.v[depth_j])
                        depth_j += 1
                    if len(args) == 2: geos.append("")
                    elif len(args) == 3 and len(args[2]) == 1 and args[2][0] in flagvars: geos.append(args[2][0])
                    elif len(args) == 3 and args[2] in (["false"], ["true"]): geos.append("")
                    else: raise Problem("%s: option %s: Geometry built with unrecognised arguments `%s`" % (rel, aliases[0], s.txt(q + 3, e)))
                elif s.v[q] == "Geometry" and s.k[q] == "id" and s.v[q - 1] not in ("const", ";", "{", "}") and s.v[q + 1] != "&":
                    pass
            variant = []
            for bl in bs.brace_lists:
                inter = [a for a in bl if a in aliases]
                if inter and len(inter) != len(bl):
                    raise Problem("%s: option %s: brace list %r mixes aliases and other strings" % (rel, aliases[0], bl))
                if inter:
                    if variant: raise Problem("%s: option %s: more than one alias subset in the body" % (rel, aliases[0]))
                    variant = bl
            # variant selected by position in the alias list:  std::find(L.begin()+N,L.end(),V)!=L.end()  with V = opt_parms[0]
            for q in range(b0, b1 - 3):
                if s.v[q:q + 4] == ["std", "::", "find", "("]:
                    e = s.match[q + 3]; toks = s.v[q + 4:e]
                    m2 = None
                    if alias_var is not None and len(toks) >= 13 and toks[:5] == [alias_var, ".", "begin", "(", ")"]:
                        rest = toks[5:]
                        n0 = 0
                        if rest[:1] == ["+"] and rest[1].isdigit(): n0 = int(rest[1]); rest = rest[2:]
                        if rest[:7] == [",", alias_var, ".", "end", "(", ")", ","] and len(rest) == 8 and s.v[e + 1:e + 7] == ["!=", alias_var, ".", "end", "(", ")"]:
                            m2 = (n0, rest[7])
                    if m2 is None:
                        if set(toks) & ({alias_var} if alias_var else set()) or any(u["k"] == 0 for u in bs.uses):
                            raise Problem("%s: option %s: std::find over the alias list in an unrecognised form `%s`" % (rel, aliases[0], " ".join(toks)))
                        continue
                    if not any(u["k"] == 0 and u["sink"] == m2[1] for u in bs.uses):
                        raise Problem("%s: option %s: `%s` searched in the alias list is not opt_parms[0]" % (rel, aliases[0], m2[1]))
                    if variant: raise Problem("%s: option %s: more than one alias subset in the body" % (rel, aliases[0]))
                    variant = aliases[m2[0]:]
            if variant and not any(u["k"] == 0 for u in bs.uses):
                raise Problem("%s: option %s: alias subset without a read of opt_parms[0]" % (rel, aliases[0]))
            tool["blocks"].append(dict(aliases=aliases, multi=multi, parms=parms, uses=bs.uses, variant=variant, geos=geos))
            tool["has_blocks"] = True
            recognised_option_calls += 1
            if s.v[b1 + 1] == "else": raise Problem("%s: option %s: else branch on an option block" % (rel, aliases[0]))
            i = b1 + 1; continue
        # ---- if (...) early return / unknown-option exit
        if x == "if" and s.k[i] == "id" and s.v[i + 1] == "(":
            c0, c1 = i + 2, s.match[i + 1]
            ctoks = s.v[c0:c1]
            if ctoks == ["num_options", "==", "0"]:
                b0 = c1 + 1
                if s.v[b0] != "{": raise Problem("%s: num_options==0 branch is not a block" % rel)
                q = s.find_seq(["exit", "("], b0, s.match[b0])
                if q < 0 or s.k[q + 2] != "num" or s.v[q + 3] != ")": raise Problem("%s: num_options==0 branch does not exit(literal)" % rel)
                tool["unknown_exit"] = int(s.v[q + 2]); i = s.match[b0] + 1; continue
            if set(ctoks) & {"argc", "help_mode", "unknown_argument"} or s.find_seq(["cmd", ".", "num_options", "("], c0, c1) >= 0 or (not seen_work and any(d["var"] in ctoks for d in tool["decls"]) and "==" in ctoks and '""' in ctoks):
                # disjunction of atoms
                conds = []; j = c0; cur = []
                parts = []
                while j <= c1:
                    if j == c1 or s.v[j] == "||":
                        parts.append(cur); cur = []
                    else: cur.append(s.v[j])
                    j += 1
                for p in parts:
                    if len(p) == 3 and p[0] == "argc" and p[1] == "<" and p[2].isdigit(): conds.append(("argc_lt", int(p[2]))); recognised_argc += 1
                    elif p == ["cmd", ".", "help_mode", "(", ")"]: conds.append(("help", 0))
                    elif p == ["const", "char", "*", "arg", "=", "cmd", ".", "unknown_argument", "(", ")"]: conds.append(("unknown", 0))
                    elif p[:4] == ["cmd", ".", "num_options", "("] and p[-3:] == [")", ">", "1"]:
                        inner = p[4:-3]
                        if inner and not (inner[0] == "{" and inner[-1] == "}" and all(x == "," or (x.startswith('"') and x.endswith('"')) for x in inner[1:-1])):
                            raise Problem("%s: num_options argument `%s` not a brace list of literals" % (rel, " ".join(inner)))
                        conds.append(("many", [unq(x) for x in inner[1:-1] if x != ","] if inner else []))
                    elif len(p) == 3 and p[1] == "==" and p[2] == '""' and any(d["var"] == p[0] and d["kind"] == "string" for d in tool["decls"]):
                        conds.append(("empty", p[0]))
                    else: raise Problem("%s: early-return condition `%s` not recognised" % (rel, " ".join(p)))
                b0 = c1 + 1
                if s.v[b0] == "{": r0, r1, nxt = b0 + 1, s.match[b0], s.match[b0] + 1
                else: r1 = s.stmt_end(b0, hi) + 1; r0 = b0; nxt = r1
                calls_help = False; ret = None; j = r0
                while j < r1:
                    e = s.stmt_end(j, r1)
                    st = s.v[j:e]
                    if st[:2] == ["help", "("] and st[2:] == ["argv", "[", "0", "]", ")"]: calls_help = True
                    elif st[:1] == ["return"] and len(st) == 2 and s.k[j + 1] == "num": ret = int(st[1])
                    elif st[:1] == ["return"] and len(st) == 3 and st[1] == "-" and s.k[j + 2] == "num": ret = -int(st[2])
                    elif st[:3] == ["std", "::", "cerr"] or st[:3] == ["std", "::", "cout"]:
                        if set(st) & {"argc", "exit", "return"}: raise Problem("%s: unexpected print statement `%s`" % (rel, " ".join(st)))
                    else: raise Problem("%s: statement `%s` in an early-return branch not recognised" % (rel, " ".join(st)))
                    j = e + 1
                if ret is None: raise Problem("%s: early-return branch on `%s` does not return a literal" % (rel, " ".join(ctoks)))
                if s.v[nxt] == "else": raise Problem("%s: early-return with else" % rel)
                if tool["blocks"] or seen_work: raise Problem("%s: early-return check `%s` after the work started" % (rel, " ".join(ctoks)))
                if any(c[0] == "unknown" for c in conds): tool["_unknown_after"] = len(tool["decls"])
                tool["pre"].append(dict(conds=conds, calls_help=calls_help, ret=ret))
                i = nxt; continue
        # ---- anything else: one statement / block; remember positional uses
        if x == "{" and s.k[i] == "op": e = s.match[i]
        elif x in ("if", "for", "while", "switch", "try", "catch") and s.k[i] == "id":
            # compound: take header and following statement roughly - walk to the end of the construct
            j = i + 1
            if s.v[j] == "(": j = s.match[j] + 1
            if s.v[j] == "{": e = s.match[j]
            else: e = s.stmt_end(j, hi)
            while e + 1 < hi and s.v[e + 1] in ("else", "catch"):
                j = e + 2
                if s.v[j] == "(": j = s.match[j] + 1
                if s.v[j] == "if": j += 1; j = s.match[j] + 1
                if s.v[j] == "{": e = s.match[j]
                else: e = s.stmt_end(j, hi)
        else:
            e = s.stmt_end(i, hi)
        st = s.v[i:e + 1]
        harmless = any(st[:len(h)] == h for h in HARMLESS_START)
        if not harmless: seen_work = True
        j = i
        while j <= e:
            if s.v[j] == "argv" and s.k[j] == "id":
                if not (s.v[j + 1] == "[" and s.k[j + 2] == "num" and s.v[j + 2].isdigit() and s.v[j + 3] == "]"):
                    raise Problem("%s: argv used other than by literal index: `%s`" % (rel, s.txt(j, j + 5)))
                kk = int(s.v[j + 2])
                if kk != 0:
                    # sink
                    sink = ("?", 0)
                    q = j - 1
                    if s.v[q] == "(" and s.k[q - 1] == "id": sink = (s.v[q - 1], 0)
                    tool["argv_uses"].append(dict(k=kk, sink=sink[0]))
            if s.v[j] == "argc": raise Problem("%s: argc used in an unrecognised statement `%s`" % (rel, " ".join(st[:12])))
            if s.v[j:j + 3] == ["cmd", ".", "option"] or s.v[j:j + 3] == ["cmd", ".", "num_args"]:
                raise Problem("%s: cmd.%s used in an unrecognised statement `%s`" % (rel, s.v[j + 2], " ".join(st[:12])))
            if s.v[j] == "opt_parms": raise Problem("%s: opt_parms outside an option block" % rel)
            j += 1
        i = e + 1
    tool["conv"] = parse_conversion(s, tool, lo, hi, rel)
    # cross-checks: every textual occurrence was accounted for
    n_opt = sum(1 for j in range(lo, hi - 2) if s.v[j:j + 3] == ["cmd", ".", "option"])
    if n_opt != recognised_option_calls:
        raise Problem("%s: %d cmd.option calls in main, %d recognised" % (rel, n_opt, recognised_option_calls))
    if tool.pop("_unknown_after", len(tool["decls"])) != len(tool["decls"]):
        raise Problem("%s: an option is declared after the unknown_argument() check" % rel)
    if tool["has_blocks"] and tool["unknown_exit"] is None:
        raise Problem("%s: no `if (num_options==0) exit` after the option blocks" % rel)
    if tool["argv_uses"] and tool["has_blocks"]:
        raise Problem("%s: both positional argv[k] and option blocks" % rel)
    return tool

def parse_conversion(s, tool, lo, hi, rel):
    """matrix_convert: which option variables feed the input / output format of the conversion (template `conversion`)"""
    cf = None
    for i in range(len(s.v) - 1):
        if s.v[i] == "conversion" and s.k[i] == "id" and s.v[i + 1] == "(" and s.v[s.match[i + 1] + 1] == "{":
            cf = (i + 1, s.match[i + 1], s.match[i + 1] + 1, s.match[s.match[i + 1] + 1]); break
    if cf is None: return None
    p0, p1, b0, b1 = cf
    params = []; cur = []
    for j in range(p0 + 1, p1 + 1):
        if j == p1 or s.v[j] == ",":
            ids = [x for x, k in zip(cur, [s.k[q] for q in range(j - len(cur), j)]) if k == "id"]
            params.append(ids[-1]); cur = []
        else: cur.append(s.v[j])
    body = s.v[b0:b1]
    def after(seq):
        res = []
        for j in range(b0, b1 - len(seq)):
            if s.v[j:j + len(seq)] == seq:
                e = s.match[j + len(seq) - 1]; res.append(s.v[j + len(seq):e])
        return res
    ins = after(["ifs", ">>", "maths", "::", "format", "("]); outs = after(["ofs", "<<", "maths", "::", "format", "("])
    if len(ins) != 1 or len(ins[0]) != 1: raise Problem("%s: conversion(): input format selection not recognised" % rel)
    named = [o for o in outs if len(o) == 1]; suff = [o for o in outs if len(o) > 1 and o[-1] == "FromSuffix"]
    if len(named) != 1 or len(suff) != 1: raise Problem("%s: conversion(): output format selection not recognised" % rel)
    in_p, out_p, suf_p = ins[0][0], named[0][0], suff[0][0]
    # guards: if (P!="") ... else ...
    for P in (in_p, out_p):
        if s.find_seq(["if", "(", P, "!=", '""', ")"], b0, b1) < 0: raise Problem("%s: conversion(): `%s` is not tested against the empty string" % (rel, P))
    calls = []
    for j in range(lo, hi):
        if s.v[j] == "conversion" and s.v[j + 1] == "<":
            q = j + 1
            while s.v[q] != "(": q += 1
            args = [x for x in s.v[q + 1:s.match[q]] if x != ","]
            calls.append(args)
    if not calls or any(c != calls[0] for c in calls) or len(calls[0]) != len(params):
        raise Problem("%s: the calls of conversion() differ or do not match its parameters" % rel)
    m = dict(zip(params, calls[0]))
    files = {}
    for strm in ("ifs", "ofs"):
        q = s.find_seq(["maths", "::", strm[0] + "fstream", strm, "("], lo, hi)
        if q < 0 or s.v[q + 6:q + 10] != [".", "c_str", "(", ")"]: raise Problem("%s: stream %s not built from an option" % (rel, strm))
        files[strm] = s.v[q + 5]
    dv = {d["var"] for d in tool["decls"]}
    res = dict(in_file=files["ifs"], out_file=files["ofs"], in_fmt=m[in_p], out_fmt=m[out_p], suffix=m[suf_p])
    for k, v in res.items():
        if v not in dv: raise Problem("%s: conversion(): `%s` (%s) is not an option variable" % (rel, v, k))
    return res

def suffix_formats(repo):
    """(suffix, format name) pairs of the maths IO classes"""
    res = []
    for X in ("AsciiIO", "TrivialBinIO", "MatlabIO", "BrainVisaTextureIO"):
        try:
            c = open(os.path.join(repo, "OpenMEEGMaths", "src", X + ".C")).read(); h = open(os.path.join(repo, "OpenMEEGMaths", "include", X + ".H")).read()
        except OSError: continue
        m = re.search(X + r'::Identity\("(\w+)"\)', c)
        if not m: continue
        for sfx in re.findall(r'push_back\("(\w+)"\)', h): res.append((sfx, m.group(1)))
    return res

DOC_RULES = [   # (regex on the lower-cased documented line, role, kind) -- first match wins
    (r"^\[optional (parameter|filename)", "opt", "any"),
    (r"geometry file", "geom", "geom"), (r"conductivity file", "cond", "cond"),
    (r"domain name", "domain", "name"), (r"name of the interface", "iface", "name"),
    (r"^output|gainmatrix$|gain matrix", "out", "out"),
    (r"eit electrodes", "eit", "sensors"), (r"ecog electrodes", "ecog", "sensors"), (r"eeg electrodes", "elec", "sensors"),
    (r"meg sensors|\.squids", "squids", "sensors"),
    (r"point positions", "points", "matrix"),
    (r"^mesh (of|file for) ?(distributed )?sources|mesh of sources", "srcmesh", "mesh"),
    (r"^dipoles positions", "dip", "matrix"),
    (r"^headmatinv$", "hminv", "sym"), (r"^headmat$", "hm", "sym"), (r"^sourcemat$", "dsm", "matrix"),
    (r"^head2eegmat$", "h2em", "sparse"), (r"^head2megmat$", "h2mm", "matrix"), (r"^source2megmat$", "ds2mm", "matrix"),
    (r"^head2ipmat$", "h2ipm", "matrix"), (r"^source2ipmat$", "ds2ipm", "matrix"),
]
def classify_doc(line, rel):
    d = line.lower()
    for rx, role, kind in DOC_RULES:
        if re.search(rx, d): return role, kind
    raise Problem("%s: documented parameter `%s` not recognised" % (rel, line))

def attach_docs(tool):
    """documented parameter order of every option block, from the lines its help text prints"""
    rel = tool["file"]
    for b in tool["blocks"]:
        grp = [k for k, g in enumerate(tool["documented"]) if any(a in b["aliases"] for a in g)]
        if not grp:
            b["doc"] = None; continue          # an option the help text does not mention (reported by the check as undocumented)
        lines = []
        for l in tool["doc_lines"][grp[0]]:
            parts = [x.strip() for x in l.split(",")]
            if len(parts) > 1 and all(re.match(r"^[A-Za-z0-9]+$", x) for x in parts): lines += parts
            else: lines.append(l)
        if lines and re.match(r"^(bin Matrix|Matrix \(.*\))$", lines[-1]): lines.pop()      # a remark on the format, not a parameter
        doc = []
        for n, l in enumerate(lines):
            role, kind = classify_doc(l, rel)
            optional = l.lower().startswith(("[optional", "(optional")) or (n < len(b["parms"]) and b["multi"] and b["parms"][n].startswith("["))
            doc.append(dict(text=l, role=role, kind=kind, optional=optional))
        if len(doc) < len(b["parms"]):
            raise Problem("%s: option %s: the help text documents %d parameters, the parser expects %d" % (rel, b["aliases"][0], len(doc), len(b["parms"])))
        b["doc"] = doc

def parse_all(repo):
    tools = []; problems = []
    for name, rel in TOOLS:
        try:
            t = parse_tool(repo, name, rel)
            attach_docs(t)
            tools.append(t)
        except Problem as e:
            problems.append(str(e))
        except (IndexError, KeyError) as e:
            problems.append("%s: source shape not recognised (%r)" % (rel, e))
        except OSError as e:
            problems.append("%s: %s" % (rel, e))
    return tools, problems

# ------------------------------------------------------------------------------------------------ Coq output
def cstr(x):
    """a C string as a token (list of byte codes); the text is in the definition name table at the top of the file"""
    if any(ord(c) < 32 or ord(c) > 126 for c in x): raise Problem("non printable character in string %r" % x)
    if x not in CSTR:
        CSTR[x] = "s%d" % len(CSTR)
    return CSTR[x]
CSTR = {}
def clist(xs): return "[" + "; ".join(xs) + "]"
def catom(a): return {"eq": "AEq", "ne": "ANe", "ge": "AGe", "lt": "ALt"}[a[0]] + " " + str(a[1])
def cz(n): return "(%d)%%Z" % n

PK = {"geom": "PGeom", "cond": "PCond", "matrix": "PMatrix", "sym": "PSym", "sparse": "PSparse", "sensors": "PSensors",
      "mesh": "PMesh", "name": "PName", "out": "POut", "any": "PAny"}

def emit(tools):
    CSTR.clear()
    o = []
    names = []
    for t in tools:
        ident = "tool_" + t["name"]
        names.append(ident)
        o.append("Definition %s : tool := {|" % ident)
        o.append("  t_name := %s;" % cstr(t["name"]))
        o.append("  t_decls := %s;" % clist(["{| d_var := %s; d_name := %s; d_kind := %s; d_default := %s |}" % (
            cstr(d["var"]), cstr(d["name"]), {"string": "KString", "double": "KDouble", "bool": "KBool"}[d["kind"]], cstr(d["default"])) for d in t["decls"]]))
        o.append("  t_help_exit := %s;" % ("None" if t["help_exit"] is None else "Some " + cz(t["help_exit"])))
        pcs = []
        for p in t["pre"]:
            cs = []
            for c in p["conds"]:
                if c[0] == "argc_lt": cs.append("CArgcLt %d" % c[1])
                elif c[0] == "help": cs.append("CHelp")
                elif c[0] == "unknown": cs.append("CUnknown")
                elif c[0] == "many": cs.append("CManyOptions %s" % clist([cstr(x) for x in c[1]]))
                else: cs.append("CEmpty %s" % cstr(c[1]))
            pcs.append("{| pc_conds := %s; pc_calls_help := %s; pc_ret := %s |}" % (clist(cs), "true" if p["calls_help"] else "false", cz(p["ret"])))
        o.append("  t_pre := %s;" % clist(pcs))
        o.append("  t_argv_uses := %s;" % clist(["(%d, %s)" % (u["k"], cstr(u["sink"])) for u in t["argv_uses"]]))
        bl = []
        for b in t["blocks"]:
            us = ["{| u_k := %d; u_guard := %s; u_sink := %s; u_argpos := %d; u_kind := %s |}" % (u["k"], clist([catom(a) for a in u["guard"]]), cstr(u["sink"]), u["argpos"], PK[u["kind"]]) for u in b["uses"]]
            bl.append("{| b_aliases := %s;\n       b_multi := %s;\n       b_parms := %s;\n       b_variant := %s;\n       b_geo := %s;\n       b_doc := %s;\n       b_uses := %s |}" % (
                clist([cstr(a) for a in b["aliases"]]), "true" if b["multi"] else "false", clist([cstr(p) for p in b["parms"]]),
                clist([cstr(a) for a in b["variant"]]), clist([cstr(g) for g in b.get("geos", [])]),
                clist(["(%s, %s)" % (PK[d["kind"]], "true" if d["optional"] else "false") for d in (b.get("doc") or [])]), clist(us)))
        o.append("  t_blocks := [" + ";\n    ".join(bl) + "];")
        o.append("  t_unknown_exit := %s;" % ("None" if t["unknown_exit"] is None else "Some " + cz(t["unknown_exit"])))
        o.append("  t_documented := %s;" % clist([cstr(a) for grp in t["documented"] for a in grp]))
        cv = t.get("conv")
        o.append("  t_conv := %s |}." % ("None" if not cv else "Some {| cv_in_file := %s; cv_out_file := %s; cv_in_fmt := %s; cv_out_fmt := %s; cv_suffix := %s |}" % tuple(cstr(cv[k]) for k in ("in_file", "out_file", "in_fmt", "out_fmt", "suffix"))))
        o.append("")
    o.append("Definition gen_tools : list tool := %s." % clist(names))
    o.append("(* file suffix -> format name, from the maths IO classes *)")
    o.append("Definition gen_suffix_formats : list (tok * tok) := %s." % clist(["(%s, %s)" % (cstr(a), cstr(b)) for a, b in SUFFIX_FORMATS]))
    head = ["(* GENERATED by translators/t_cli.py from the command-line tools of the working tree -- do not edit. *)",
            "From Coq Require Import List ZArith.", "From OM Require Import Geom.Cli.", "Import ListNotations.",
            "Local Open Scope Z_scope.", "", "(* C strings of the sources as byte lists *)"]
    for x, ident in CSTR.items():
        safe = x.replace("(*", "( *").replace("*)", "* )")
        head.append("Definition %s : tok := %s.  (* %s *)" % (ident, clist([str(ord(c)) for c in x]), safe))
    head.append("Local Open Scope nat_scope.")
    head.append("")
    return "\n".join(head + o) + "\n"

SUFFIX_FORMATS = []

def generate(repo_root, out_dir):
    sys.path.insert(0, os.path.join(os.path.dirname(os.path.dirname(os.path.abspath(__file__))), "lib"))
    import gencoq
    tools, problems = parse_all(repo_root)
    SUFFIX_FORMATS[:] = suffix_formats(repo_root)
    if not SUFFIX_FORMATS: problems.append("no suffix/format table found in the maths IO classes")
    try:
        txt = emit(tools)
    except Problem as e:
        problems.append(str(e)); txt = None
    if txt is not None:
        # with problems the table is partial (tools that did not parse are absent); the problems are reported by the check
        gencoq.put(os.path.join(out_dir, "GenCli.v"), txt)
    return problems

if __name__ == "__main__":
    import json
    tools, problems = parse_all(sys.argv[1] if len(sys.argv) > 1 else os.environ.get("OMVERIF_REPO", "/repo"))
    print(json.dumps(tools, indent=1))
    for p in problems: print("PROBLEM", p, file=sys.stderr)
