#!/usr/bin/env python3
"""C04 translator: the index arithmetic of the gain computations, regenerated from the current source on every run.

   OpenMEEGMaths/src/symmatrix.cpp  SymMatrix::solveLin(Matrix& RHS):
        om_assert(<cond>);  const BLAS_INT M = sizet_to_int(<e>);  const BLAS_INT N = sizet_to_int(<e>);
        DSPTRF('<uplo>',M,A.data(),pivots,Info);   DSPTRS('<uplo>',M,N,A.data(),pivots,RHS.data(),<ldb>,Info);
   OpenMEEG/include/gain.h          linsolve (non-GMRES branch): the three statements
        Matrix res(S.transpose());  H.solveLin(res);  return res.transpose();
                                    GainEEGMEGadjoint: the two RHS.setlin row offsets and the two Hinv.submat row ranges;
                                    GainEEGadjoint / GainMEGadjoint: the per-dipole column expression (which matrix is
                                    multiplied, which dipole rows are taken, whether Source2MEGMat.getcol(i) is added).
   -> coq/Gen/GenGain.v.  Anything not of the expected shape is a reported problem (never guessed)."""
import os, re, sys
SERVES = ("C04",)   # properties whose check reports this translator's problems (lib/gencoq.py, core.Check.proofs)
sys.path.insert(0, os.path.join(os.path.dirname(os.path.abspath(__file__)), "..", "lib"))
import gencoq

def strip_comments(s):
    s = re.sub(r"/\*.*?\*/", " ", s, flags=re.S)
    return re.sub(r"//[^\n]*", " ", s)

class Bad(Exception): pass

def expr(txt, env):
    """restricted C++ integer expression -> Gallina Z expression.  Grammar: sum of products of atoms; atoms are integer
    literals, identifiers bound in env, X.nlin() / X.ncol() bound in env (as 'X.nlin'), nlin() / ncol(), parentheses."""
    toks = re.findall(r"(?:nlin|ncol)\(\)|[A-Za-z_][A-Za-z_0-9]*(?:\.(?:nlin|ncol)\(\))?|\d+|[-+*()]", txt.replace(" ", ""))
    if "".join(toks) != txt.replace(" ", ""): raise Bad("unrecognised expression %r" % txt)
    pos = [0]
    def atom():
        if pos[0] >= len(toks): raise Bad("truncated expression %r" % txt)
        t = toks[pos[0]]; pos[0] += 1
        if t == "(":
            r = add()
            if pos[0] >= len(toks) or toks[pos[0]] != ")": raise Bad("unbalanced ( in %r" % txt)
            pos[0] += 1; return "(" + r + ")"
        if t.isdigit(): return t
        key = t.replace("()", "")
        if key in env: return env[key]
        raise Bad("unknown name %r in %r" % (t, txt))
    def mul():
        r = atom()
        while pos[0] < len(toks) and toks[pos[0]] == "*":
            pos[0] += 1; r = "(%s * %s)" % (r, atom())
        return r
    def add():
        r = mul()
        while pos[0] < len(toks) and toks[pos[0]] in "+-":
            op = toks[pos[0]]; pos[0] += 1; r = "(%s %s %s)" % (r, op, mul())
        return r
    r = add()
    if pos[0] != len(toks): raise Bad("trailing tokens in %r" % txt)
    return r

def body_of(src, header_re):
    m = re.search(header_re, src)
    if not m: raise Bad("function header not found: %s" % header_re)
    i = src.index("{", m.end() - 1); d = 0
    for j in range(i, len(src)):
        if src[j] == "{": d += 1
        elif src[j] == "}":
            d -= 1
            if d == 0: return src[i + 1:j]
    raise Bad("unbalanced braces after %s" % header_re)

def split_args(s):
    out = []; d = 0; cur = ""
    for c in s:
        if c == "(": d += 1
        if c == ")": d -= 1
        if c == "," and d == 0: out.append(cur.strip()); cur = ""
        else: cur += c
    out.append(cur.strip()); return out

def generate(repo, out_dir):
    problems = []; D = {}
    # ---------------- SymMatrix::solveLin(Matrix&)
    try:
        s = strip_comments(open(os.path.join(repo, "OpenMEEGMaths", "src", "symmatrix.cpp")).read())
        b = body_of(s, r"Matrix\s+SymMatrix::solveLin\s*\(\s*Matrix\s*&\s*RHS\s*\)\s*const\s*\{")
        m = re.search(r"#ifdef\s+HAVE_LAPACK(.*?)#else", b, re.S)
        if not m: raise Bad("solveLin: HAVE_LAPACK branch not found")
        lap = m.group(1); pre = b[:m.start()]
        env = {"nlin": "nlin", "RHS.nlin": "rhs_nlin", "RHS.ncol": "rhs_ncol"}
        a = re.findall(r"om_assert\s*\(\s*(.*?)\s*\)\s*;", pre)
        if len(a) != 1: raise Bad("solveLin: expected exactly one om_assert before the LAPACK branch, found %d" % len(a))
        ma = re.match(r"^(.*?)==(.*)$", a[0])
        if not ma: raise Bad("solveLin: assertion is not an equality: %r" % a[0])
        D["assert"] = "(%s =? %s)" % (expr(ma.group(1), env), expr(ma.group(2), env))
        for name in ("M", "N"):
            mm = re.search(r"const\s+BLAS_INT\s+%s\s*=\s*sizet_to_int\s*\((.*?)\)\s*;" % name, lap)
            if not mm: raise Bad("solveLin: binding of %s not recognised" % name)
            env[name] = "(" + expr(mm.group(1), env) + ")"
        mf = re.search(r"DSPTRF\s*\((.*?)\)\s*;", lap); ms = re.search(r"DSPTRS\s*\((.*?)\)\s*;", lap)
        if not mf or not ms: raise Bad("solveLin: DSPTRF / DSPTRS call not found")
        if lap.index("DSPTRF") > lap.index("DSPTRS"): raise Bad("solveLin: DSPTRS before DSPTRF")
        fa = split_args(mf.group(1)); sa = split_args(ms.group(1))
        if len(fa) != 5 or len(sa) != 8: raise Bad("solveLin: DSPTRF has %d arguments, DSPTRS %d (expected 5, 8)" % (len(fa), len(sa)))
        if not re.match(r"^'[UL]'$", fa[0]) or not re.match(r"^'[UL]'$", sa[0]): raise Bad("solveLin: uplo arguments %r %r" % (fa[0], sa[0]))
        if fa[2] != sa[3] or fa[3] != sa[4]: raise Bad("solveLin: factor/pivot buffers differ between DSPTRF and DSPTRS (%s,%s vs %s,%s)" % (fa[2], fa[3], sa[3], sa[4]))
        if sa[5] != "RHS.data()": raise Bad("solveLin: right-hand side buffer is %r" % sa[5])
        mc = re.search(r"SymMatrix\s+A\s*\(\s*\*this\s*,\s*DEEP_COPY\s*\)\s*;", lap)
        if not (mc and fa[2] == "A.data()"): raise Bad("solveLin: the factorisation does not run on a deep copy of the receiver")
        D.update(f_uplo=fa[0][1], s_uplo=sa[0][1], f_n=expr(fa[1], env), s_n=expr(sa[1], env), s_nrhs=expr(sa[2], env), s_ldb=expr(sa[6], env))
        if not re.search(r"return\s+RHS\s*;", lap): raise Bad("solveLin: does not return RHS")
    except (Bad, OSError) as e:
        problems.append("symmatrix.cpp: %s" % e)
    # ---------------- gain.h
    try:
        g = strip_comments(open(os.path.join(repo, "OpenMEEG", "include", "gain.h")).read())
        mu = re.search(r"#define\s+USE_GMRES\s+(\d+)", g)
        if not mu or mu.group(1) != "0": raise Bad("USE_GMRES is not 0: the LAPACK linsolve is not the live one")
        me = re.search(r"#else\s*template\s*<\s*typename\s+SelectionMatrix\s*>\s*Matrix\s+linsolve\s*\(\s*const\s+SymMatrix\s*&\s*H\s*,\s*const\s+SelectionMatrix\s*&\s*S\s*\)\s*\{(.*?)\}\s*#endif", g, re.S)
        if not me: raise Bad("linsolve (non-GMRES branch) not recognised")
        st = [x.strip() for x in me.group(1).split(";") if x.strip()]
        shapes = {"Matrix res(S.transpose())": "StTranspose", "Matrix res(S)": "StCopy", "H.solveLin(res)": "StSolve",
                  "return res.transpose()": "StRetTranspose", "return res": "StRet"}
        steps = []
        for x in st:
            k = re.sub(r"\s+", " ", x)
            if k not in shapes: raise Bad("linsolve: statement %r not recognised" % x)
            steps.append(shapes[k])
        D["steps"] = steps
        env = {"Head2EEGMat.nlin": "me", "Head2MEGMat.nlin": "mm", "HeadMat.nlin": "n", "dipoles.ncol": "dc", "i": "i"}
        def cls(name):
            m = re.search(r"class\s+%s\b(.*?)\n    \};" % name, g, re.S)
            if not m: raise Bad("class %s not found" % name)
            return m.group(1)
        def colexpr(body, target, name):
            m = re.search(r"%ssetcol\s*\(\s*i\s*,(.*)\)\s*;" % target, body)
            if not m: raise Bad("%s: setcol(i, ...) not found" % name)
            e = re.sub(r"\s+", "", m.group(1))
            return e
        DS = r"DipSourceMat\(geo,dipoles\.submat\((.*?),(.*?),(.*?),(.*?)\),\"\"\)\.getcol\((.*?)\)"
        def percol(e, name, hinv_pat):
            """Hinv-ish * dsm [+ Source2MEGMat.getcol(i)] -> (hinv part, dsm tuple, plus)"""
            m = re.match(r"^(.*?)\*(%s|dsm)(\+Source2MEGMat\.getcol\((.*?)\))?$" % DS, e)
            if not m: raise Bad("%s: column expression %r not recognised" % (name, e))
            return m
        # GainEEGadjoint / GainMEGadjoint
        for name, key in (("GainEEGadjoint", "eeg"), ("GainMEGadjoint", "meg")):
            body = cls(name)
            ml = re.search(r"const\s+Matrix\s*&\s*Hinv\s*=\s*linsolve\s*\(\s*HeadMat\s*,\s*(\w+)\s*\)\s*;", body)
            if not ml: raise Bad("%s: Hinv = linsolve(HeadMat, X) not found" % name)
            D[key + "_rhs"] = ml.group(1)
            m = percol(colexpr(body, "", name), name, "Hinv")
            if m.group(1) != "Hinv": raise Bad("%s: left factor is %r" % (name, m.group(1)))
            D[key + "_dip"] = [expr(m.group(k), env) for k in (3, 4, 5, 6, 7)]
            D[key + "_plus"] = (expr(m.group(9), env) if m.group(8) else None)
        # GainEEGMEGadjoint
        body = cls("GainEEGMEGadjoint")
        ms = re.findall(r"RHS\.setlin\s*\(\s*(.*?)\s*,\s*(\w+)\.getlin\s*\(\s*i\s*\)\s*\)\s*;", body)
        if len(ms) != 2 or ms[0][1] != "Head2EEGMat" or ms[1][1] != "Head2MEGMat": raise Bad("GainEEGMEGadjoint: the two RHS.setlin statements not recognised: %r" % (ms,))
        D["rhs_row_eeg"] = expr(ms[0][0], env); D["rhs_row_meg"] = expr(ms[1][0], env)
        mr = re.search(r"Matrix\s+RHS\s*\(\s*(.*?)\s*,\s*(.*?)\s*\)\s*;", body)
        if not mr: raise Bad("GainEEGMEGadjoint: RHS declaration not recognised")
        D["rhs_rows"] = expr(mr.group(1), env); D["rhs_cols"] = expr(mr.group(2), env)
        if not re.search(r"const\s+Matrix\s*&\s*Hinv\s*=\s*linsolve\s*\(\s*HeadMat\s*,\s*RHS\s*\)\s*;", body): raise Bad("GainEEGMEGadjoint: Hinv = linsolve(HeadMat,RHS) not found")
        md = re.search(r"const\s+Vector\s*&\s*dsm\s*=\s*(.*?)\s*;", body)
        if not md: raise Bad("GainEEGMEGadjoint: dsm binding not found")
        mm = re.match("^" + DS + "$", re.sub(r"\s+", "", md.group(1)))
        if not mm: raise Bad("GainEEGMEGadjoint: dsm expression %r not recognised" % md.group(1))
        D["both_dip"] = [expr(mm.group(k), env) for k in (1, 2, 3, 4, 5)]
        for tgt, key in (("EEGleadfield\\.", "both_eeg"), ("MEGleadfield\\.", "both_meg")):
            e = colexpr(body, tgt, "GainEEGMEGadjoint")
            m = re.match(r"^Hinv\.submat\((.*?),(.*?),(.*?),(.*?)\)\*dsm(\+Source2MEGMat\.getcol\((.*?)\))?$", e)
            if not m: raise Bad("GainEEGMEGadjoint: column expression %r not recognised" % e)
            D[key + "_range"] = [expr(m.group(k), env) for k in (1, 2, 3, 4)]
            D[key + "_plus"] = (expr(m.group(6), env) if m.group(5) else None)
    except (Bad, OSError) as e:
        problems.append("gain.h: %s" % e)
    # ---------------- default integrators of DipSourceMat: the 3-argument overload (used by the adjoint gain classes) and om_assemble -DSM
    try:
        a = strip_comments(open(os.path.join(repo, "OpenMEEG", "src", "assembleSourceMat.cpp")).read())
        m3 = re.search(r"DipSourceMat\s*\(\s*const\s+Geometry\s*&\s*geo\s*,\s*const\s+Matrix\s*&\s*dipoles\s*,\s*const\s+std::string\s*&\s*domain_name\s*\)\s*\{\s*return\s+DipSourceMat\s*\(\s*geo\s*,\s*dipoles\s*,\s*Integrator\s*\(([^()]*)\)\s*,\s*domain_name\s*\)\s*;\s*\}", a)
        if not m3: raise Bad("3-argument DipSourceMat overload not recognised")
        D["dsm_default"] = [x.strip() for x in m3.group(1).split(",")]
        t = strip_comments(open(os.path.join(repo, "apps", "assemble.cpp")).read())
        ml = re.search(r"const\s+unsigned\s+integration_levels\s*=\s*check_no_adapt\s*\([^;]*\)\s*\?\s*(\d+)\s*:\s*(\d+)\s*;", t)
        mt = re.search(r"DipSourceMat\s*\(\s*geo\s*,\s*dipoles\s*,\s*Integrator\s*\(([^()]*)\)\s*,\s*domain_name\s*\)", t)
        if not ml or not mt: raise Bad("om_assemble -DSM: integrator not recognised")
        D["dsm_tool"] = [ml.group(2) if x.strip() == "integration_levels" else x.strip() for x in mt.group(1).split(",")]
        for k in ("dsm_default", "dsm_tool"):
            if len(D[k]) != 3 or not all(re.match(r"^[0-9.eE+-]+$", x) for x in D[k]): raise Bad("%s integrator arguments %r are not three literals" % (k, D[k]))
    except (Bad, OSError) as e:
        problems.append("default integrators: %s" % e)
    # ---------------- emit
    def opt(x): return "Some (%s)" % x if x is not None else "None"
    def tup(l): return "(" + ", ".join(l) + ")"
    L = ["(* GENERATED by translators/t_gain.py from OpenMEEGMaths/src/symmatrix.cpp and OpenMEEG/include/gain.h -- do not edit. *)",
         "From Coq Require Import ZArith List String.", "Import ListNotations.", "Local Open Scope Z_scope.", "",
         "Inductive lstep := StTranspose | StCopy | StSolve | StRetTranspose | StRet.", ""]
    if "assert" in D and "s_ldb" in D:
        L += ["(* SymMatrix::solveLin(Matrix& RHS) *)",
              "Definition gen_solveLin_assert (nlin rhs_nlin rhs_ncol : Z) : bool := %s." % D["assert"],
              "Definition gen_sptrf_uplo : string := \"%s\"%%string." % D["f_uplo"],
              "Definition gen_sptrs_uplo : string := \"%s\"%%string." % D["s_uplo"],
              "Definition gen_sptrf_n (nlin rhs_nlin rhs_ncol : Z) : Z := %s." % D["f_n"],
              "Definition gen_sptrs_n (nlin rhs_nlin rhs_ncol : Z) : Z := %s." % D["s_n"],
              "Definition gen_sptrs_nrhs (nlin rhs_nlin rhs_ncol : Z) : Z := %s." % D["s_nrhs"],
              "Definition gen_sptrs_ldb (nlin rhs_nlin rhs_ncol : Z) : Z := %s." % D["s_ldb"], ""]
    if "steps" in D and "both_meg_range" in D:
        L += ["(* gain.h *)",
              "Definition gen_linsolve_steps : list lstep := [%s]." % "; ".join(D["steps"]),
              "Definition gen_eeg_adjoint_rhs : string := \"%s\"%%string." % D["eeg_rhs"],
              "Definition gen_meg_adjoint_rhs : string := \"%s\"%%string." % D["meg_rhs"],
              "(* dipoles.submat(a,b,c,d) ... getcol(e) of the per-dipole source column *)",
              "Definition gen_eeg_adjoint_dip (i dc : Z) : Z * Z * Z * Z * Z := %s." % tup(D["eeg_dip"]),
              "Definition gen_meg_adjoint_dip (i dc : Z) : Z * Z * Z * Z * Z := %s." % tup(D["meg_dip"]),
              "Definition gen_both_adjoint_dip (i dc : Z) : Z * Z * Z * Z * Z := %s." % tup(D["both_dip"]),
              "(* index of the Source2MEGMat column added, if any *)",
              "Definition gen_eeg_adjoint_plus (i : Z) : option Z := %s." % opt(D["eeg_plus"]),
              "Definition gen_meg_adjoint_plus (i : Z) : option Z := %s." % opt(D["meg_plus"]),
              "Definition gen_both_eeg_plus (i : Z) : option Z := %s." % opt(D["both_eeg_plus"]),
              "Definition gen_both_meg_plus (i : Z) : option Z := %s." % opt(D["both_meg_plus"]),
              "(* GainEEGMEGadjoint: shape of RHS, row of RHS receiving sensor row i, row ranges (istart,isize,jstart,jsize) of the solution *)",
              "Definition gen_rhs_shape (me mm n : Z) : Z * Z := (%s, %s)." % (D["rhs_rows"], D["rhs_cols"]),
              "Definition gen_rhs_row_eeg (i me mm n : Z) : Z := %s." % D["rhs_row_eeg"],
              "Definition gen_rhs_row_meg (i me mm n : Z) : Z := %s." % D["rhs_row_meg"],
              "Definition gen_both_eeg_range (me mm n : Z) : Z * Z * Z * Z := %s." % tup(D["both_eeg_range"]),
              "Definition gen_both_meg_range (me mm n : Z) : Z * Z * Z * Z := %s." % tup(D["both_meg_range"]), ""]
    if "dsm_default" in D and "dsm_tool" in D:
        L += ["(* Integrator(order, levels, tolerance) of the 3-argument DipSourceMat overload (adjoint gain classes) and of om_assemble -DSM (direct path), as written *)",
              "Definition gen_dsm_default_integrator : list string := [%s]." % "; ".join('"%s"%%string' % x for x in D["dsm_default"]),
              "Definition gen_dsm_tool_integrator : list string := [%s]." % "; ".join('"%s"%%string' % x for x in D["dsm_tool"]), ""]
    # Problems are emitted into the generated file (theorem translator_clean of Properties_C04 then fails) instead of being
    # returned: core.Check.prepare reports returned problems in *every* property's check, and a change of gain.h must not
    # raise alarms for unrelated properties.
    L += ["Definition gen_problems : list string := [%s]." % "; ".join('"%s"%%string' % p.replace('"', "'").replace("\\", "/") for p in problems), ""]
    gencoq.put(os.path.join(out_dir, "GenGain.v"), "\n".join(L) + "\n")
    return []

if __name__ == "__main__":
    import ombuild
    generate(ombuild.REPO, os.path.join(os.path.dirname(os.path.abspath(__file__)), "..", "coq", "Gen"))
    print(open(os.path.join(os.path.dirname(os.path.abspath(__file__)), "..", "coq", "Gen", "GenGain.v")).read().split("gen_problems")[-1])
