#!/usr/bin/env python3
"""T5 -- translator of the OpenMP parallel loops of openmeeg into loop descriptors for coq/Geom/ParLoops.v.

For every `#pragma omp parallel for` that is LIVE under the build's defines, anywhere in the library sources,
extract: file/function, the loop header (variable, range) mapped through a fixed table of recognised forms,
the enclosing sequential loops, every statement of the body (local declarations, nested loops, container writes
`X(e1,e2) =|+= ...`, `X(e) += ...`, reads of containers through the helper BlocksBase::N, `#pragma omp critical`
blocks, `++pb`), whether the whole body is inside `e.Run([&](){...})` and whether `e.Rethrow()` follows.
ThreadException (OMExceptions.H) and ProgressBar (progressbar.h) are read too.

Anything not recognised is returned as a problem string (the tie is then broken; nothing is guessed).
Output: coq/Gen/GenParLoops.v and coq/Gen/genparloops.json (same content as data, for the runner).
"""
import os, re, sys, json
SERVES = ("C05",)   # properties whose check reports this translator's problems (lib/gencoq.py, core.Check.proofs)

HERE = os.path.dirname(os.path.abspath(__file__))
sys.path.insert(0, os.path.join(os.path.dirname(HERE), "lib"))

SRC_DIRS = ["OpenMEEG", "OpenMEEGMaths", "apps", "wrapping"]
SUFFIXES = (".h", ".H", ".hpp", ".cpp", ".C", ".c", ".txx", ".i")
BUILD_DEFINES = {"USE_OMP": "1", "OPENMP_RANGEFOR": "1", "OPENMP_ITERATOR": "1", "OPENMP_UNSIGNED": "1",
                 "USE_PROGRESSBAR": "1", "OPENMEEG_VERIF": "1", "__linux__": "1", "__GNUC__": "12", "__cplusplus": "201703"}

# Configurations under which the conditional compilation is evaluated.  `gcc` is the suite build; `clang` is the second
# observation point of the property (clang/libomp build of the same sources); `apple` is a macOS build (clang).
def _cfg(extra, drop=()):
    d = dict(BUILD_DEFINES); d.update(extra)
    for k in drop: d.pop(k, None)
    return d
CONFIGS = [("gcc", _cfg({})),
           ("clang", _cfg({"__clang__": "1", "__GNUC__": "4"})),
           ("apple", _cfg({"__clang__": "1", "__GNUC__": "4", "__APPLE__": "1"}, drop=("__linux__",)))]
# macros a guard around / inside a parallel region may mention (everything else is reported)
KNOWN_GUARD_MACROS = {"NO_OPENMP", "OPENMP_RANGEFOR", "OPENMP_ITERATOR", "OPENMP_UNSIGNED", "USE_OMP", "USE_PROGRESSBAR",
                      "OPENMEEG_VERIF", "__APPLE__", "__clang__"}

class Unknown(Exception):
    pass

def directive_macros(rest):
    return {w for w in re.findall(r"[A-Za-z_]\w*", rest) if w != "defined"}

def guard_problems(rel, clean, spans):
    """clean: comment-free text of a file.  Every conditional directive that encloses an `omp` pragma, or that lies
    inside one of the line spans of a translated region, may only mention known macros (or macros #defined in the file)."""
    lines = clean.split("\n"); local = set(); stack = []; out = []; enclosing = []   # stack entries: [line, macros]
    for ln, line in enumerate(lines, 1):
        m = re.match(r"\s*#\s*(\w+)\s*(.*)", line)
        if not m: continue
        d, rest = m.group(1), m.group(2)
        if d == "define":
            mm = re.match(r"(\w+)", rest)
            if mm: local.add(mm.group(1))
        elif d in ("if", "ifdef", "ifndef"):
            stack.append([ln, directive_macros(rest)])
            for a, b in spans:
                if a <= ln <= b: enclosing.append((ln, directive_macros(rest)))
        elif d == "elif":
            if stack: stack[-1][1] |= directive_macros(rest)
            for a, b in spans:
                if a <= ln <= b: enclosing.append((ln, directive_macros(rest)))
        elif d == "endif":
            if stack: stack.pop()
        elif d == "pragma" and re.match(r"omp\b", rest):
            for l0, ms in stack: enclosing.append((l0, set(ms)))
    seen = set()
    for l0, ms in enclosing:
        bad = sorted(x for x in ms if x not in KNOWN_GUARD_MACROS and x not in local)
        if bad and (l0, tuple(bad)) not in seen:
            seen.add((l0, tuple(bad)))
            out.append("%s:%d: a guard around / inside a parallel region or omp critical depends on %s, which is not among the configurations the model evaluates (%s)"
                       % (rel, l0, ", ".join(bad), ", ".join(t for t, _ in CONFIGS)))
    return out

# ------------------------------------------------------------------ lexical helpers
def strip_comments(src):
    """remove // and /* */ comments and string contents, keeping newlines and column positions"""
    out = []; i = 0; n = len(src)
    while i < n:
        c = src[i]
        if src.startswith("//", i):
            while i < n and src[i] != "\n": out.append(" "); i += 1
        elif src.startswith("/*", i):
            j = src.find("*/", i + 2); j = n if j < 0 else j + 2
            out.append("".join(ch if ch == "\n" else " " for ch in src[i:j])); i = j
        elif c == '"':
            out.append('"'); i += 1
            while i < n and src[i] != '"':
                if src[i] == "\\": out.append(" "); i += 1
                out.append(" " if src[i] != "\n" else "\n"); i += 1
            out.append('"'); i += 1
        elif c == "'" and i + 2 < n and (src[i + 2] == "'" or (src[i + 1] == "\\" and i + 3 < n and src[i + 3] == "'")):
            j = src.find("'", i + 1 + (1 if src[i + 1] == "\\" else 0) + 1 - 0)
            j = src.index("'", i + 2) if src[i + 1] != "\\" else src.index("'", i + 3)
            out.append("'" + " " * (j - i - 1) + "'"); i = j + 1
        else:
            out.append(c); i += 1
    return "".join(out)

def eval_cond(expr, defines):
    e = expr
    e = re.sub(r"defined\s*\(\s*(\w+)\s*\)", lambda m: "1" if m.group(1) in defines else "0", e)
    e = re.sub(r"defined\s+(\w+)", lambda m: "1" if m.group(1) in defines else "0", e)
    def ident(m):
        w = m.group(0)
        if w in ("and", "or", "not"): return w
        v = defines.get(w)
        if v is None: return "0"
        v = v.strip()
        if re.fullmatch(r"-?\d+[uUlL]*", v): return re.sub(r"[uUlL]+$", "", v)
        if v == "": return "0"
        raise Unknown("preprocessor: macro %s = %r used in #if" % (w, v))
    e = e.replace("&&", " and ").replace("||", " or ")
    e = re.sub(r"!(?!=)", " not ", e)
    e = re.sub(r"\b[A-Za-z_]\w*\b", ident, e)
    e = re.sub(r"(\d+)[uUlL]+", r"\1", e)
    if not re.fullmatch(r"[\d\s()<>=!+\-*/%andort]*", e):
        raise Unknown("preprocessor: cannot evaluate #if %s" % expr.strip())
    try:
        return bool(eval(e, {"__builtins__": {}}, {}))
    except Exception:
        raise Unknown("preprocessor: cannot evaluate #if %s" % expr.strip())

def preprocess(src, defines):
    """conditional compilation only (no macro expansion, no includes); dead lines and directive lines are blanked,
    except `#pragma` lines, which are kept.  Returns (text, local_defines)."""
    defs = dict(defines)
    lines = src.split("\n"); out = []
    stack = []   # entries: [parent_live, taken_already, live_now]
    live = True
    k = 0
    while k < len(lines):
        line = lines[k]
        full = line
        while full.rstrip().endswith("\\") and k + 1 < len(lines):
            k += 1; full = full.rstrip()[:-1] + " " + lines[k]; out.append("")
        m = re.match(r"\s*#\s*(\w+)\s*(.*)", full)
        if m:
            d, rest = m.group(1), m.group(2).strip()
            if d == "if":
                v = eval_cond(rest, defs) if live else False
                stack.append([live, v, v and live]); live = stack[-1][2]
            elif d == "ifdef":
                v = (rest.split()[0] in defs) if live else False
                stack.append([live, v, v and live]); live = stack[-1][2]
            elif d == "ifndef":
                v = (rest.split()[0] not in defs) if live else False
                stack.append([live, v, v and live]); live = stack[-1][2]
            elif d == "elif":
                if not stack: raise Unknown("preprocessor: #elif without #if")
                par, taken, _ = stack[-1]
                v = (not taken) and par and eval_cond(rest, defs)
                stack[-1] = [par, taken or v, v]; live = v
            elif d == "else":
                if not stack: raise Unknown("preprocessor: #else without #if")
                par, taken, _ = stack[-1]
                v = (not taken) and par
                stack[-1] = [par, True, v]; live = v
            elif d == "endif":
                if not stack: raise Unknown("preprocessor: #endif without #if")
                stack.pop(); live = stack[-1][2] if stack else True
            elif d == "define" and live:
                mm = re.match(r"(\w+)(\([^)]*\))?\s*(.*)", rest)
                if mm and not mm.group(2): defs[mm.group(1)] = mm.group(3).strip()
                elif mm: defs[mm.group(1)] = "<function-like>"
            elif d == "undef" and live:
                defs.pop(rest.split()[0], None)
            if d == "pragma" and live and re.match(r"omp\b", rest): out.append(line)
            else: out.append("")
        else:
            out.append(line if live else "")
        k += 1
    return "\n".join(out), defs

def match_paren(s, i, open_="(", close=")"):
    """s[i] == open_; returns index of the matching close"""
    assert s[i] == open_, (s[i:i + 20], open_)
    d = 0
    for j in range(i, len(s)):
        if s[j] == open_: d += 1
        elif s[j] == close:
            d -= 1
            if d == 0: return j
    raise Unknown("unbalanced %s" % open_)

def split_top(s, sep=","):
    parts = []; d = 0; cur = []
    for ch in s:
        if ch in "([{<" and not (ch == "<" and sep != ","): d += 1
        elif ch in ")]}>" and not (ch == ">" and sep != ","): d -= 1
        if ch == sep and d == 0: parts.append("".join(cur)); cur = []
        else: cur.append(ch)
    parts.append("".join(cur))
    return [p.strip() for p in parts]

def split_args(s):
    """split on top-level commas, ignoring < > (so a<b is not a bracket)"""
    parts = []; d = 0; cur = []
    for ch in s:
        if ch in "([{": d += 1
        elif ch in ")]}": d -= 1
        if ch == "," and d == 0: parts.append("".join(cur)); cur = []
        else: cur.append(ch)
    parts.append("".join(cur))
    return [p.strip() for p in parts]

def nows(s): return re.sub(r"\s+", "", s)

# ------------------------------------------------------------------ statements
def next_stmt(s, i):
    """returns (kind, info, end) for the statement starting at s[i:] (leading whitespace skipped)
    kinds: 'for', 'block', 'pragma', 'if', 'simple'"""
    n = len(s)
    while i < n and s[i].isspace(): i += 1
    if i >= n: return None
    if s[i] == "#":
        j = s.find("\n", i); j = n if j < 0 else j
        return ("pragma", s[i:j].strip(), j)
    if s[i] == "{":
        j = match_paren(s, i, "{", "}")
        return ("block", s[i + 1:j], j + 1)
    m = re.match(r"for\s*\(", s[i:])
    if m:
        p = i + m.end() - 1; q = match_paren(s, p)
        body = next_stmt(s, q + 1)
        if body is None: raise Unknown("for without body")
        return ("for", (s[p + 1:q], body), body[2])
    m = re.match(r"if\s*\(", s[i:])
    if m:
        p = i + m.end() - 1; q = match_paren(s, p)
        body = next_stmt(s, q + 1)
        end = body[2]
        m2 = re.match(r"\s*else\b", s[end:])
        els = None
        if m2:
            els = next_stmt(s, end + m2.end()); end = els[2]
        return ("if", (s[p + 1:q], body, els), end)
    # simple statement: up to the ';' at depth 0
    d = 0; j = i
    while j < n:
        ch = s[j]
        if ch in "([{": d += 1
        elif ch in ")]}": d -= 1
        elif ch == ";" and d == 0: break
        j += 1
    if j >= n: raise Unknown("statement without ';': %s" % s[i:i + 60].strip())
    return ("simple", s[i:j].strip(), j + 1)

def stmts(s):
    out = []; i = 0
    while True:
        st = next_stmt(s, i)
        if st is None: break
        out.append(st); i = st[2]
    return out

# ------------------------------------------------------------------ the fixed tables of recognised forms
ID = r"[A-Za-z_]\w*"

def coll_name(expr):
    """a collection expression -> (coq name, element kind, extra) or None"""
    e = nows(expr)
    m = re.fullmatch(r"(%s)(?:\.|->)triangles\(\)" % ID, e)
    if m: return (m.group(1) + "_triangles", "tri", None)
    m = re.fullmatch(r"(%s)(?:\.|->)vertices\(\)" % ID, e)
    if m: return (m.group(1) + "_vertices", "vert", None)
    m = re.fullmatch(r"(%s)(?:\.|->)triangles\((%s)\)" % (ID, ID), e)
    if m: return ("adj_" + m.group(1), "tri", m.group(2))
    return None

class Ctx:
    def __init__(self, where):
        self.where = where
        self.aliases = {}        # local collection aliases: name -> (coq name, kind)
        self.vars = {}           # C++ variable -> (kind, coq term)   kinds: tri, vert, cnt, iter_tri, iter_vert
        self.index_alias = {}    # const unsigned vindex = vertexp->index();
        self.params = []         # (coq name, coq type) in order of first use
        self.containers = {}     # C++ name -> dict(kind= 'T'|'Matrix'|'Vector'|'SymMatrix', id=coq name, addr=coq term)
        self.scalar_params = set()

    def param(self, name, typ):
        for n, t in self.params:
            if n == name:
                if t != typ: raise Unknown("%s: parameter %s used at two types" % (self.where, name))
                return name
        self.params.append((name, typ)); return name

    def collection(self, expr):
        e = nows(expr)
        if e in self.aliases:
            name, kind = self.aliases[e]
            return self.param(name, "list tri" if kind == "tri" else "list Z"), kind
        c = coll_name(e)
        if c is None: raise Unknown("%s: collection expression not in the table: %s" % (self.where, expr.strip()))
        name, kind, arg = c
        if arg is not None:
            v = self.vertex_term(arg)
            self.param(name, "Z -> list tri")
            return "(%s %s)" % (name, v), kind
        return self.param(name, "list tri" if kind == "tri" else "list Z"), kind

    def vertex_term(self, cppname):
        if cppname in self.vars and self.vars[cppname][0] in ("vert",):
            return self.vars[cppname][1]
        raise Unknown("%s: %s is not a known vertex variable" % (self.where, cppname))

    def index(self, expr):
        """index expression -> Coq term of type Z (fixed table)"""
        e = nows(expr)
        if e in self.index_alias: return self.index_alias[e]
        m = re.fullmatch(r"(%s)\.index\(\)" % ID, e)
        if m and m.group(1) in self.vars:
            k, t = self.vars[m.group(1)]
            if k == "tri": return "(t_index %s)" % t
            if k == "vert": return t
        m = re.fullmatch(r"(%s)->index\(\)" % ID, e)
        if m and m.group(1) in self.vars:
            k, t = self.vars[m.group(1)]
            if k == "tri": return "(t_index %s)" % t
            if k == "vert": return t
        m = re.fullmatch(r"\(\*(%s)\)->index\(\)" % ID, e)
        if m and m.group(1) in self.vars and self.vars[m.group(1)][0] == "iter_vert":
            return self.vars[m.group(1)][1]
        m = re.fullmatch(r"(%s)\.vertex\((%s)\)\.index\(\)" % (ID, ID), e)
        if m and m.group(1) in self.vars and self.vars[m.group(1)][0] == "tri" and self.vars.get(m.group(2), ("", ""))[0] == "cnt":
            return "(t_vertex %s %s)" % (self.vars[m.group(1)][1], self.vars[m.group(2)][1])
        m = re.fullmatch(r"(%s)\+(\d+)" % ID, e)
        if m and m.group(1) in self.scalar_params:
            self.param(m.group(1), "Z")
            return "(%s + %s)" % (m.group(1), m.group(2))
        raise Unknown("%s: index expression not in the table: %s" % (self.where, expr.strip()))

# ------------------------------------------------------------------ function signatures / container kinds
def parse_params(sig, ctx):
    """sig = text between the parentheses of the enclosing function"""
    for p in split_args(sig):
        p = p.strip()
        if not p: continue
        m = re.fullmatch(r"(const\s+)?([\w:]+)\s*(&|\*)?\s*(%s)?(\s*=.*)?" % ID, p)
        if not m: raise Unknown("%s: parameter not understood: %s" % (ctx.where, p))
        const, typ, ref, name = m.group(1), m.group(2), m.group(3), m.group(4)
        if name is None: continue
        if typ in ("T", "T1", "T2", "Matrix", "SymMatrix", "Vector") and ref == "&":
            kind = "T" if typ in ("T", "T1", "T2") else typ
            ctx.containers[name] = dict(kind=kind, const=bool(const))
        elif typ == "unsigned" or typ == "int" or typ == "size_t":
            ctx.scalar_params.add(name)
        elif typ in ("Triangles",) and ref == "&":
            ctx.aliases[name] = (name, "tri")
        elif typ in ("Vertices", "VerticesRefs") and ref == "&":
            ctx.aliases[name] = (name, "vert")
        elif typ in ("Vertex",) and ref == "&":
            ctx.vars[name] = ("vertparam", name)

def container_slot(ctx, name, args):
    c = ctx.containers[name]
    cid = ctx.param("c_" + name, "nat")
    idx = [ctx.index(a) for a in args]
    if c["kind"] == "T":
        if len(idx) != 2: raise Unknown("%s: %s(...) with %d indices" % (ctx.where, name, len(idx)))
        a = ctx.param("a_" + name, "Z -> Z -> Z")
        return "(%s, %s %s %s)" % (cid, a, idx[0], idx[1])
    if c["kind"] == "Matrix":
        if len(idx) != 2: raise Unknown("%s: Matrix %s(...) with %d indices" % (ctx.where, name, len(idx)))
        nl = ctx.param("nlin_" + name, "Z")
        return "(%s, cmidx %s %s %s)" % (cid, nl, idx[0], idx[1])
    if c["kind"] == "SymMatrix":
        return "(%s, pidx %s %s)" % (cid, idx[0], idx[1])
    if c["kind"] == "Vector":
        if len(idx) != 1: raise Unknown("%s: Vector %s(...) with %d indices" % (ctx.where, name, len(idx)))
        return "(%s, vidx %s)" % (cid, idx[0])
    raise Unknown("%s: container kind %s" % (ctx.where, c["kind"]))

# ------------------------------------------------------------------ loop headers (fixed table)
def loop_header(hdr, ctx, body_stmts, enclosing):
    """hdr: text inside for(...).  Returns dict(var, kind, coq_dom, binder, consumed) ; `consumed` = number of
    leading body statements that only bind the element (const Triangle& triangle2 = *tit2;)."""
    h = hdr.strip()
    # range-for
    m = re.fullmatch(r"(?:const\s+)?auto\s*&?\s*(%s)\s*:\s*(.+)" % ID, h, re.S)
    if m:
        var, coll = m.group(1), m.group(2)
        dom, kind = ctx.collection(coll)
        return dict(var=var, kind=kind, dom=dom, consumed=0, form="range-for")
    # small counted loop
    m = re.fullmatch(r"unsigned\s+(%s)\s*=\s*0\s*;\s*\1\s*<\s*(\d+)\s*;\s*\+\+\1" % ID, h)
    if m:
        n = int(m.group(2))
        return dict(var=m.group(1), kind="cnt", dom="[" + "; ".join(str(k) for k in range(n)) + "]", consumed=0, form="counted")
    parts = [p.strip() for p in h.split(";")]
    if len(parts) != 3: raise Unknown("%s: loop header not in the table: for (%s)" % (ctx.where, h))
    init, cond, inc = parts
    # iterator loops
    m = re.fullmatch(r"(?:auto|Triangles::const_iterator|VerticesRefs::const_iterator)\s+(%s)\s*=\s*(.+)" % ID, init)
    if m:
        it, start = m.group(1), nows(m.group(2))
        mc = re.fullmatch(r"%s\s*(<|!=)\s*(.+)\.end\(\)" % re.escape(it), cond)
        if not mc or nows(inc) not in ("++" + it, "++" + it + ",++pb"): raise Unknown("%s: iterator loop not in the table: for (%s)" % (ctx.where, h))
        coll = mc.group(2)
        dom, kind = ctx.collection(coll)
        ms = re.fullmatch(r"(.+)\.begin\(\)", start)
        if ms:
            if nows(ms.group(1)) != nows(coll): raise Unknown("%s: begin/end of different collections: for (%s)" % (ctx.where, h))
            coq_dom = dom; pos = None
        elif start in ctx.vars and ctx.vars[start][0] in ("iter_tri", "iter_vert"):
            # suffix starting at an enclosing iterator over the same collection
            if ctx.vars[start][2] != dom: raise Unknown("%s: iterator %s does not run over %s" % (ctx.where, start, coll))
            coq_dom = "(skipn %s %s)" % (ctx.vars[start][3], dom); pos = None
        else:
            raise Unknown("%s: iterator start not in the table: %s" % (ctx.where, m.group(2)))
        # element binding: `const Triangle& triangle = *tit;` / `const Vertex* vertexp = *vit;` or direct (*vit)-> use
        consumed = 0; var = None
        if body_stmts and body_stmts[0][0] == "simple":
            mb = re.fullmatch(r"const\s+(?:Triangle\s*&|Vertex\s*\*|auto\s*[&*]?)\s*(%s)\s*=\s*\*\s*%s" % (ID, re.escape(it)), body_stmts[0][1])
            if mb: var = mb.group(1); consumed = 1
        return dict(var=var, itvar=it, kind=kind, dom=coq_dom, base=dom, consumed=consumed, form="iterator")
    # index loops  for (int i=0; i<static_cast<int>(X.size()); ++i) + element binding
    m = re.fullmatch(r"(?:int|unsigned)\s+(%s)\s*=\s*(.+)" % ID, init)
    if m:
        iv, start = m.group(1), nows(m.group(2))
        mc = re.fullmatch(r"%s\s*<\s*static_cast<int>\((.+)\.size\(\)\)" % re.escape(iv), cond)
        if mc and nows(inc) == "++" + iv and body_stmts and body_stmts[0][0] == "simple":
            coll = mc.group(1)
            dom, kind = ctx.collection(coll)
            mb = re.fullmatch(r"const\s+(?:Triangle\s*&|Vertex\s*\*|auto)\s*(%s)\s*=\s*\*?\s*\(?\s*(.+)\.begin\(\)\s*\+\s*%s\s*\)?" % (ID, re.escape(iv)), body_stmts[0][1])
            if mb and nows(mb.group(2)) == nows(coll):
                if start == "0": coq_dom = dom
                else:
                    ms = re.fullmatch(r"(%s)-(.+)\.begin\(\)" % ID, start)
                    if ms and ms.group(1) in ctx.vars and ctx.vars[ms.group(1)][0] in ("iter_tri", "iter_vert") and nows(ms.group(2)) == nows(coll):
                        coq_dom = "(skipn %s %s)" % (ctx.vars[ms.group(1)][3], dom)
                    else: raise Unknown("%s: index loop start not in the table: %s" % (ctx.where, start))
                isiter = bool(re.match(r"const\s+auto\s+", body_stmts[0][1])) and "*" not in body_stmts[0][1].split("=", 1)[1]
                if isiter:
                    return dict(var=None, itvar=mb.group(1), kind=kind, dom=coq_dom, base=dom, consumed=1, form="index+iterator")
                return dict(var=mb.group(1), kind=kind, dom=coq_dom, consumed=1, form="index")
    raise Unknown("%s: loop header not in the table: for (%s)" % (ctx.where, h))

# ------------------------------------------------------------------ bodies
class Gen:
    """accumulates the Coq term of one loop body"""
    def __init__(self, ctx, helpers, pb_empty):
        self.ctx = ctx; self.helpers = helpers; self.pb_empty = pb_empty
        self.crit_capture = []
        self.nval = 0; self.writes = []; self.reads = []; self.has_crit = False; self.pb_ticks = 0
        self.scope = []     # coq binders in scope inside the parallel loop (name, type)

    def value_fn(self):
        name = "val%d" % self.nval; self.nval += 1
        typ = " -> ".join([t for _, t in self.scope] + ["list F -> F"])
        self.ctx.param(name, typ)
        return "(%s)" % " ".join([name] + [n for n, _ in self.scope])

    def rhs_reads(self, rhs):
        """slots read by a right-hand side: direct reads of containers and reads through the helper N"""
        ctx = self.ctx; terms = []
        s = rhs
        for m in re.finditer(r"(?:base::)?\bN\s*\(", s):
            p = m.end() - 1; q = match_paren(s, p)
            args = split_args(s[p + 1:q])
            terms.append(self.helpers.instantiate_N(args, ctx))
        s2 = re.sub(r"(?:base::)?\bN\s*\([^;]*\)", " ", s) if terms else s
        for name in ctx.containers:
            for m in re.finditer(r"\b%s\s*\(" % re.escape(name), s2):
                p = m.end() - 1; q = match_paren(s2, p)
                terms.append("[%s]" % container_slot(ctx, name, split_args(s2[p + 1:q])))
            if re.search(r"\b%s\b(?!\s*\()" % re.escape(name), s2):
                raise Unknown("%s: container %s used other than through operator(): %s" % (ctx.where, name, rhs.strip()))
        if not terms: return "[]"
        return " ++ ".join(terms) if len(terms) > 1 else terms[0]

    def simple(self, text, crit):
        ctx = self.ctx; t = text.strip()
        if not t: return None
        if re.fullmatch(r"OM_VERIF_\w+\s*\(.*\)", t, re.S): return None      # hook marker (add-only instrumentation)
        m = re.fullmatch(r"(%s)\s*\.\s*Run\s*\(\s*\[&\]\s*\(\s*\)\s*\{(.*)\}\s*\)" % ID, t, re.S)
        if m:
            # nested capture (e.g. inside omp critical): same ThreadException object, the statements are those of the lambda
            if m.group(1) != getattr(self, "exc", None): raise Unknown("%s: nested Run on %s, which is not the region's ThreadException" % (ctx.where, m.group(1)))
            return self.seq(stmts(m.group(2)), crit)
        m = re.fullmatch(r"\+\+\s*(%s)" % ID, t)
        if m:
            if m.group(1) == "pb" or m.group(1).startswith("pb"):
                self.pb_ticks += 1
                if self.pb_empty: return None
                pbid = ctx.param("c_progressbar", "nat")
                return ("acts" if not crit else "") + "(accum F fadd f0 [] (%s, 0) %s)" % (pbid, self.value_fn())
            raise Unknown("%s: increment of %s inside a parallel loop" % (ctx.where, m.group(1)))
        # container update
        m = re.match(r"(%s)\s*\(" % ID, t)
        if m and m.group(1) in ctx.containers:
            p = m.end() - 1; q = match_paren(t, p)
            rest = t[q + 1:].strip()
            mo = re.match(r"(\+=|-=|\*=|/=|=)(?!=)\s*(.*)", rest, re.S)
            if not mo: raise Unknown("%s: statement on container %s not understood: %s" % (ctx.where, m.group(1), t))
            op, rhs = mo.group(1), mo.group(2)
            if ctx.containers[m.group(1)].get("const"): raise Unknown("%s: write to const container %s" % (ctx.where, m.group(1)))
            slot = container_slot(ctx, m.group(1), split_args(t[p + 1:q]))
            reads = self.rhs_reads(rhs)
            fn = "assign F" if op == "=" else "accum F fadd f0"
            self.writes.append(dict(container=m.group(1), op=op, slot=slot, critical=crit, reads=reads))
            term = "(%s %s %s %s)" % (fn, reads, slot, self.value_fn())
            return term if crit else "acts " + term
        # local declaration  (const T x = e; const T x(e,..); T& x = e;)
        m = re.fullmatch(r"(?:const\s+)?(?:[\w:]+)\s*[&*]?\s*(%s)\s*(?:=\s*(.+)|\((.*)\))" % ID, t, re.S)
        if m:
            name = m.group(1); rhs = m.group(2) if m.group(2) is not None else m.group(3)
            r = self.rhs_reads(rhs)
            if r != "[]": raise Unknown("%s: local %s is initialised from a shared container: %s" % (ctx.where, name, t))
            mi = re.fullmatch(r"(?:const\s+)?unsigned\s+(%s)\s*=\s*(.+)" % ID, t)
            if mi:
                try: ctx.index_alias[name] = ctx.index(mi.group(2))
                except Unknown: pass
            return None
        raise Unknown("%s: statement not understood inside a parallel loop: %s" % (ctx.where, t[:120]))

    def seq(self, sts, crit):
        terms = []; k = 0
        while k < len(sts):
            kind, info, _ = sts[k]
            if kind == "pragma":
                if re.fullmatch(r"#\s*pragma\s+omp\s+critical(\s*\(\w+\))?", info):
                    if crit: raise Unknown("%s: nested critical" % self.ctx.where)
                    if k + 1 >= len(sts): raise Unknown("%s: critical without statement" % self.ctx.where)
                    self.has_crit = True
                    # an exception must not leave the critical construct: every statement of its block has to be a nested <exc>.Run(...)
                    nxt = sts[k + 1]
                    inner_sts = stmts(nxt[1]) if nxt[0] == "block" else [nxt]
                    runre = r"%s\s*\.\s*Run\s*\(\s*\[&\]\s*\(\s*\)\s*\{.*\}\s*\)" % re.escape(getattr(self, "exc", None) or "?")
                    self.crit_capture.append(all(x[0] == "simple" and re.fullmatch(runre, x[1].strip(), re.S) for x in inner_sts))
                    inner = self.stmt(sts[k + 1], True)
                    terms.append("[Crit %s]" % (inner if inner else "[]"))
                    k += 2; continue
                raise Unknown("%s: pragma inside a parallel loop: %s" % (self.ctx.where, info))
            t = self.stmt(sts[k], crit)
            if t: terms.append(t)
            k += 1
        if not terms: return None
        return "(" + " ++ ".join(terms) + ")" if len(terms) > 1 else terms[0]

    def stmt(self, st, crit):
        kind, info, _ = st
        ctx = self.ctx
        if kind == "simple": return self.simple(info, crit)
        if kind == "block": return self.seq(stmts(info), crit)
        if kind == "for":
            hdr, body = info
            bst = stmts(body[1]) if body[0] == "block" else [body]
            h = loop_header(hdr, ctx, bst, None)
            if h["var"] is None: raise Unknown("%s: inner iterator loop without element binding" % ctx.where)
            var = h["var"]; typ = {"tri": "tri", "vert": "Z", "cnt": "Z"}[h["kind"]]
            saved = dict(ctx.vars); ctx.vars[var] = (h["kind"], var)
            self.scope.append((var, typ))
            inner = self.seq(bst[h["consumed"]:], crit)
            self.scope.pop(); ctx.vars = saved
            if inner is None: return None
            return "(flat_map (fun %s : %s => %s) %s)" % (var, typ, inner, h["dom"])
        if kind == "if": raise Unknown("%s: conditional inside a parallel loop body: if (%s)" % (ctx.where, info[0].strip()))
        raise Unknown("%s: statement kind %s" % (ctx.where, kind))

class Helpers:
    """BlocksBase::N -- the only function through which a loop body reads a shared container"""
    def __init__(self, text):
        self.defs = {}   # nargs -> (params, kind, payload)
        for m in re.finditer(r"static\s+double\s+N\s*\(", text):
            p = m.end() - 1; q = match_paren(text, p)
            params = [re.sub(r".*?(%s)\s*$" % ID, r"\1", a.strip()) for a in split_args(text[p + 1:q])]
            b = text.index("{", q); e = match_paren(text, b, "{", "}")
            self.defs[len(params)] = (params, text[b + 1:e])

    def instantiate_N(self, args, ctx, depth=0):
        if depth > 3 or len(args) not in self.defs: raise Unknown("%s: call of N with %d arguments has no definition" % (ctx.where, len(args)))
        params, body = self.defs[len(args)]
        sub = dict(zip(params, [a.strip() for a in args]))
        sts = stmts(body)
        # forwarding overload: [const double coeff = ...;] return N(...);
        rets = [s for s in sts if s[0] == "simple" and s[1].startswith("return")]
        fors = [s for s in sts if s[0] == "for"]
        if not fors:
            if len(rets) != 1: raise Unknown("%s: helper N/%d not understood" % (ctx.where, len(args)))
            m = re.fullmatch(r"return\s+N\s*\((.*)\)", rets[0][1], re.S)
            if not m: raise Unknown("%s: helper N/%d does not forward to N" % (ctx.where, len(args)))
            inner = [sub.get(a.strip(), a.strip()) for a in split_args(m.group(1))]
            return self.instantiate_N(inner, ctx, depth + 1)
        # the real one: two nested range-for loops over mX.triangles(VX) and one read matrix(tp1->index(),tp2->index())
        if len(fors) != 1: raise Unknown("%s: helper N/%d has %d loops" % (ctx.where, len(args), len(fors)))
        def resolve_vertex(a):
            a = nows(a)
            for pat in (r"\*\*(%s)" % ID, r"\*(%s)" % ID, r"(%s)" % ID):
                m = re.fullmatch(pat, a)
                if m and m.group(1) in ctx.vars:
                    k, t = ctx.vars[m.group(1)][0], ctx.vars[m.group(1)][1]
                    if (pat.startswith(r"\*\*") and k == "iter_vert") or (pat.startswith(r"\*(") and k == "vert") or (pat.startswith("(") and k == "vert"):
                        return t
            raise Unknown("%s: vertex argument of N not in the table: %s" % (ctx.where, a))
        loops = []; cur = fors[0]
        local = {}
        while cur is not None and cur[0] == "for":
            hdr, body = cur[1]
            m = re.fullmatch(r"const\s+auto\s*&\s*(%s)\s*:\s*(%s)\.triangles\((%s)\)" % (ID, ID, ID), hdr.strip())
            if not m: raise Unknown("%s: loop of helper N not in the table: for (%s)" % (ctx.where, hdr.strip()))
            tp, mesh, V = m.group(1), sub.get(m.group(2), m.group(2)), sub.get(m.group(3), m.group(3))
            adj = ctx.param("adj_" + nows(mesh), "Z -> list tri")
            loops.append((tp, "(%s %s)" % (adj, resolve_vertex(V))))
            bst = stmts(body[1]) if body[0] == "block" else [body]
            nxt = [s for s in bst if s[0] == "for"]
            rest = [s for s in bst if s[0] != "for"]
            cur = nxt[0] if nxt else None
            last_rest = rest
            if len(nxt) > 1: raise Unknown("%s: helper N has sibling loops" % ctx.where)
        if len(loops) != 2: raise Unknown("%s: helper N has %d nested loops (2 expected)" % (ctx.where, len(loops)))
        cname = sub.get("matrix")
        if cname is None or cname not in ctx.containers: raise Unknown("%s: helper N reads %r which is not a container of the caller" % (ctx.where, cname))
        reads = []
        for s in last_rest:
            if s[0] != "simple": raise Unknown("%s: helper N inner statement kind %s" % (ctx.where, s[0]))
            for m in re.finditer(r"\bmatrix\s*\(", s[1]):
                p = m.end() - 1; q = match_paren(s[1], p)
                a = [nows(x) for x in split_args(s[1][p + 1:q])]
                if a != ["%s->index()" % loops[0][0], "%s->index()" % loops[1][0]]:
                    raise Unknown("%s: helper N reads matrix(%s): not in the table" % (ctx.where, ",".join(a)))
                reads.append(a)
            if re.search(r"\bmatrix\b(?!\s*\()", s[1]): raise Unknown("%s: helper N uses matrix other than through operator()" % ctx.where)
        if len(reads) != 1: raise Unknown("%s: helper N has %d reads of matrix (1 expected)" % (ctx.where, len(reads)))
        c = ctx.containers[cname]
        cid = ctx.param("c_" + cname, "nat")
        if c["kind"] == "T": addr = ctx.param("a_" + cname, "Z -> Z -> Z")
        elif c["kind"] == "SymMatrix": addr = "pidx"
        elif c["kind"] == "Matrix": addr = "(cmidx %s)" % ctx.param("nlin_" + cname, "Z")
        else: raise Unknown("%s: helper N reads a %s" % (ctx.where, c["kind"]))
        return "(flat_map (fun tp1 : tri => map (fun tp2 : tri => (%s, %s (t_index tp1) (t_index tp2))) %s) %s)" % (cid, addr, loops[1][1], loops[0][1])

# ------------------------------------------------------------------ enclosing structure
def block_chain(text, pos):
    """all `{`-blocks containing pos, outermost first, as (header_text, open_index, close_index)"""
    chain = []; stack = []
    i = 0; n = len(text)
    last_end = 0
    while i < n:
        ch = text[i]
        if ch == "{":
            # header: text since the previous ; { } at this level
            j = i - 1; d = 0
            while j >= 0:
                c = text[j]
                if c == ")": d += 1
                elif c == "(": d -= 1
                elif c in ";{}" and d == 0: break
                j -= 1
            stack.append((text[j + 1:i].strip(), i))
        elif ch == "}":
            if not stack: raise Unknown("unbalanced }")
            hdr, o = stack.pop()
            if o < pos < i: chain.append((hdr, o, i))
        i += 1
    chain.sort(key=lambda x: x[1])
    return chain

def region_name(path, fname, cls, used):
    base = re.sub(r"\W", "_", os.path.basename(path))
    nm = "loop_%s_%s%s" % (base, (cls + "_") if cls else "", fname)
    k = 2; out = nm
    while out in used: out = "%s_%d" % (nm, k); k += 1
    used.add(out); return out

def analyse_file(repo, rel, defines, helpers_text, pb_empty, used_names):
    """returns (regions, dead, problems)"""
    src = open(os.path.join(repo, rel), errors="replace").read()
    clean = strip_comments(src)
    problems = []; regions = []; dead = []
    all_pragmas = [m.start() for m in re.finditer(r"^[ \t]*#[ \t]*pragma[ \t]+omp\b[^\n]*", clean, re.M)]
    try:
        text, local_defs = preprocess(clean, defines)
    except Unknown as e:
        return [], [], ["%s: %s" % (rel, e)]
    live_pragmas = [(m.start(), m.group(0).strip()) for m in re.finditer(r"^[ \t]*#[ \t]*pragma[ \t]+omp\b[^\n]*", text, re.M)]
    live_lines = {text.count("\n", 0, p) + 1 for p, _ in live_pragmas}
    for p in all_pragmas:
        ln = clean.count("\n", 0, p) + 1
        if ln not in live_lines: dead.append("%s:%d" % (rel, ln))
    helpers = Helpers(helpers_text)
    for pos, prag in live_pragmas:
        line = text.count("\n", 0, pos) + 1
        where = "%s:%d" % (rel, line)
        if re.fullmatch(r"#\s*pragma\s+omp\s+critical(\s*\(\w+\))?", prag):
            continue     # handled with the enclosing parallel loop (checked below)
        if not re.fullmatch(r"#\s*pragma\s+omp\s+parallel\s+for", prag):
            problems.append("%s: OpenMP directive not in the table: %s" % (where, prag)); continue
        try:
            regions.append(analyse_region(text, pos, rel, line, helpers, pb_empty, used_names))
        except Unknown as e:
            problems.append(str(e) if str(e).startswith(rel) else "%s: %s" % (where, e))
    # every live critical must lie inside the body of a translated parallel loop
    for pos, prag in live_pragmas:
        if re.fullmatch(r"#\s*pragma\s+omp\s+critical(\s*\(\w+\))?", prag):
            if not any(r["body_span"][0] < pos < r["body_span"][1] for r in regions):
                problems.append("%s:%d: omp critical outside any translated parallel loop" % (rel, text.count("\n", 0, pos) + 1))
    for r in regions:
        r["line_span"] = (text.count("\n", 0, r["body_span"][0]) + 1, text.count("\n", 0, r["body_span"][1]) + 1)
    return regions, dead, problems

def analyse_region(text, pos, rel, line, helpers, pb_empty, used_names):
    where = "%s:%d" % (rel, line)
    eol = text.index("\n", pos)
    st = next_stmt(text, eol)
    if st is None or st[0] != "for": raise Unknown("%s: parallel for is not followed by a for statement" % where)
    hdr, body = st[1]
    if body[0] != "block": raise Unknown("%s: parallel loop body is not a block" % where)
    loop_end = st[2]
    body_open = text.rindex("{", 0, body[2] - len(body[1]) - 1 + 1) if False else None
    chain = block_chain(text, pos)
    # enclosing function = innermost block whose header looks like a function signature
    fn = None; cls = None; seq_loops = []; guards = []
    for hdrtxt, o, c in chain:
        h = hdrtxt
        if re.match(r"(namespace|class|struct)\b", h):
            m = re.match(r"(class|struct)\s+(\w+)", h)
            if m: cls = m.group(2)
            continue
        if re.match(r"for\s*\(", h):
            p = h.index("("); q = match_paren(h, p)
            seq_loops.append((h[p + 1:q], o, c)); continue
        if re.match(r"(if|else)\b", h): guards.append(h); continue
        m = re.search(r"(%s)\s*\(([^{}]*)\)\s*(const)?\s*$" % ID, h, re.S)
        if m and not re.match(r"(while|switch|catch)\b", h):
            fn = (m.group(1), m.group(2), o, c); seq_loops = []; guards = []; continue
        if h == "" or h.endswith("]") or h.endswith("try"):
            continue
        raise Unknown("%s: enclosing block header not understood: %s" % (where, h[:80]))
    if fn is None: raise Unknown("%s: enclosing function not found" % where)
    ctx = Ctx(where)
    parse_params(fn[1], ctx)
    ftext = text[fn[2] + 1:pos]
    # local aliases declared before the region:  const Triangles& triangles = mesh.triangles();
    for m in re.finditer(r"const\s+(Triangles|VerticesRefs|Vertices|auto)\s*&\s*(%s)\s*=\s*([^;]+);" % ID, ftext):
        c = coll_name(m.group(3))
        if c and c[2] is None: ctx.aliases[m.group(2)] = (c[0], c[1])
        elif m.group(1) != "auto": raise Unknown("%s: alias %s of an unknown collection %s" % (where, m.group(2), m.group(3)))
    # the ThreadException object
    me = re.findall(r"\bThreadException\s+(%s)\s*;" % ID, ftext)
    exc = me[-1] if me else None
    # enclosing sequential loops -> fixed parameters of the region
    seq_desc = []
    for h, o, c in seq_loops:
        inner = text[o + 1:c]
        bst = stmts(inner[:max(0, pos - o - 1)].rsplit("\n", 1)[0]) if False else []
        # element binding right after the '{' of the sequential loop
        first = next_stmt(text, o + 1)
        fl = [first] if first and first[0] == "simple" else []
        try:
            d = loop_header(h, ctx, fl, None)
        except Unknown:
            # loops that do not bind anything used inside the region are allowed only if none of their variables appears
            mvar = re.match(r"\s*(?:const\s+)?[\w:]+\s*[&*]?\s*(%s)" % ID, h)
            v = mvar.group(1) if mvar else None
            region_txt = text[pos:loop_end]
            if v and not re.search(r"\b%s\b" % re.escape(v), region_txt):
                seq_desc.append(dict(header=nows(h), binds=None)); continue
            raise
        if d["form"] == "range-for":
            typ = "tri" if d["kind"] == "tri" else "Z"
            ctx.param(d["var"], typ); ctx.vars[d["var"]] = (d["kind"], d["var"])
            seq_desc.append(dict(header=nows(h), binds=d["var"], form="range-for", over=d["dom"]))
        elif d["form"] == "iterator":
            posn = ctx.param("pos_" + d["itvar"], "nat")
            elem = "(nth %s %s %s)" % (posn, d["base"], "dtri" if d["kind"] == "tri" else "0")
            ctx.vars[d["itvar"]] = ("iter_" + d["kind"], elem, d["base"], posn)
            if d["var"]: ctx.vars[d["var"]] = (d["kind"], elem)
            seq_desc.append(dict(header=nows(h), binds=d["itvar"], form="iterator", over=d["base"]))
        else:
            raise Unknown("%s: enclosing loop form %s" % (where, d["form"]))
    # the parallel loop itself
    bst = stmts(body[1])
    d = loop_header(hdr, ctx, bst, seq_desc)
    rest = bst[d["consumed"]:]
    if d["form"] in ("iterator", "index+iterator") and d["var"] is None:
        parvar = d["itvar"]; ctx.vars[parvar] = ("iter_" + d["kind"], parvar, d.get("base"), None)
    else:
        parvar = d["var"]; ctx.vars[parvar] = (d["kind"], parvar)
        if d.get("itvar"): ctx.vars[d["itvar"]] = ("iter_" + d["kind"], parvar, d.get("base"), None)
    partyp = "tri" if d["kind"] == "tri" else "Z"
    # body: everything must be inside <exc>.Run([&](){ ... });
    wrapped = True; inner_sts = None; outside = []
    for s in rest:
        if s[0] == "simple":
            m = re.fullmatch(r"(%s)\s*\.\s*Run\s*\(\s*\[&\]\s*\(\s*\)\s*\{(.*)\}\s*\)" % ID, s[1], re.S)
            if m and m.group(1) == exc and inner_sts is None:
                inner_sts = stmts(m.group(2)); continue
        outside.append(s)
    g = Gen(ctx, helpers, pb_empty)
    g.exc = exc
    g.scope = [(parvar, partyp)]
    if inner_sts is None:
        wrapped = False
        term = g.seq(rest, False)
    else:
        term = g.seq(inner_sts, False)
        if outside:
            wrapped = False
            t2 = g.seq(outside, False)
            if t2: term = "(%s ++ %s)" % (term, t2) if term else t2
    term = "[]" if term is None else "(" + term + ")"
    # what follows the loop: <exc>.Rethrow();
    nxt = next_stmt(text, loop_end)
    rethrow = bool(exc and nxt and nxt[0] == "simple" and re.fullmatch(r"%s\s*\.\s*Rethrow\s*\(\s*\)" % re.escape(exc), nxt[1]))
    name = region_name(rel, fn[0], cls, used_names)
    exn = ctx.param("exn", "%s -> option (nat * E)" % partyp)
    params = ctx.params
    coq = "Definition %s (F E : Type) (fadd : F -> F -> F) (f0 : F) %s : region F E :=\n  {| r_its := map (fun %s : %s => throw_at F E (%s %s)\n        %s) %s;\n     r_wrapped := %s; r_rethrow := %s |}." % (
        name, " ".join("(%s : %s)" % (n, t) for n, t in params), parvar, partyp, exn, parvar, term, d["dom"],
        "true" if wrapped else "false", "true" if rethrow else "false")
    return dict(name=name, file=rel, line=line, function=fn[0], cls=cls, variant=d["form"], header=nows(hdr), parvar=parvar,
                domain=d["dom"], enclosing=seq_desc, guards=[nows(x) for x in guards], params=[list(p) for p in params],
                writes=g.writes, critical=g.has_crit, critical_capture=all(g.crit_capture), pb_ticks=g.pb_ticks, wrapped=wrapped, rethrow=rethrow, coq=coq,
                body_span=(pos, loop_end), containers={k: v["kind"] for k, v in ctx.containers.items()})

# ------------------------------------------------------------------ ThreadException / ProgressBar / accessors
def thread_exception(repo, defines):
    p = os.path.join(repo, "OpenMEEG", "include", "OMExceptions.H")
    text, _ = preprocess(strip_comments(open(p, errors="replace").read()), defines)
    m = re.search(r"class\s+ThreadException\s*\{", text)
    if not m: raise Unknown("OMExceptions.H: class ThreadException not found")
    b = m.end() - 1; e = match_paren(text, b, "{", "}")
    body = text[b + 1:e]
    def fbody(name):
        mm = re.search(r"\b%s\s*\([^)]*\)\s*\{" % name, body)
        if not mm: raise Unknown("OMExceptions.H: ThreadException::%s not found" % name)
        o = mm.end() - 1; c = match_paren(body, o, "{", "}")
        return nows(body[o + 1:c])
    cap = fbody("CaptureException"); run = fbody("Run"); ret = fbody("Rethrow")
    locked = bool(re.match(r"std::(unique_lock|lock_guard|scoped_lock)<std::mutex>\w+\((this->)?Lock\);", cap))
    stores = bool(re.search(r"(this->)?Ptr=std::current_exception\(\);", cap))
    if not stores and "Ptr" in cap: raise Unknown("OMExceptions.H: CaptureException assigns Ptr in an unknown way: %s" % cap)
    catches_all = bool(re.fullmatch(r"try\{f\(params\.\.\.\);\}catch\(\.\.\.\)\{(this->)?CaptureException\(\);\}", run))
    if not catches_all and not re.fullmatch(r"try\{f\(params\.\.\.\);\}catch\([^)]*\)\{.*\}", run) and "f(params...)" not in run:
        raise Unknown("OMExceptions.H: ThreadException::Run not understood: %s" % run)
    rethrows = bool(re.fullmatch(r"if\((this->)?Ptr\)std::rethrow_exception\((this->)?Ptr\);", ret))
    return dict(capture_locked=locked, capture_stores=stores, run_catches_all=catches_all, rethrow_rethrows=rethrows)

def progressbar_empty(repo, defines):
    p = os.path.join(repo, "OpenMEEG", "include", "progressbar.h")
    text, _ = preprocess(strip_comments(open(p, errors="replace").read()), defines)
    ms = list(re.finditer(r"class\s+ProgressBar\s*\{", text))
    if len(ms) != 1: raise Unknown("progressbar.h: %d live definitions of ProgressBar" % len(ms))
    b = ms[0].end() - 1; e = match_paren(text, b, "{", "}")
    body = text[b + 1:e]
    m = re.search(r"operator\+\+\s*\(\s*\)\s*\{", body)
    if not m: raise Unknown("progressbar.h: operator++ not found")
    o = m.end() - 1; c = match_paren(body, o, "{", "}")
    return nows(body[o + 1:c]) == ""

def _nocast(t):
    """static_cast<size_t>(e) only widens the index arithmetic; the slot model works in unbounded naturals, so it reads it as e"""
    while True:
        k = t.find("static_cast<size_t>(")
        if k < 0: return t
        o = k + len("static_cast<size_t>"); c = match_paren(t, o, "(", ")")
        inner = t[o + 1:c]
        t = t[:k] + (inner if re.fullmatch(r"[A-Za-z_][A-Za-z0-9_]*(\(\))?", inner) else "(" + inner + ")") + t[c + 1:]

def accessor_formulas(repo):
    """the address formulas the model assumes for SymMatrix / Matrix / Vector operator()"""
    out = {}
    t = _nocast(nows(strip_comments(open(os.path.join(repo, "OpenMEEGMaths", "include", "symmatrix.h"), errors="replace").read())))
    out["symmatrix_pidx"] = t.count("returndata()[(i<=j)?i+j*(j+1)/2:j+i*(i+1)/2];") == 2
    t = _nocast(nows(strip_comments(open(os.path.join(repo, "OpenMEEGMaths", "include", "matrix.h"), errors="replace").read())))
    out["matrix_colmajor"] = t.count("om_assert(i<nlin()&&j<ncol());returnvalue[i+nlin()*j];") == 2
    t = nows(strip_comments(open(os.path.join(repo, "OpenMEEGMaths", "include", "vector.h"), errors="replace").read()))
    out["vector_identity"] = t.count("om_assert(i<nlin());returnvalue[i];") == 2
    return out

# ------------------------------------------------------------------ noexcept boundaries below the loop bodies
REACHABLE = ["OpenMEEG/include/mesh.h", "OpenMEEG/include/triangle.h", "OpenMEEG/include/vertex.h", "OpenMEEG/include/edge.h",
             "OpenMEEG/include/vect3.h", "OpenMEEG/include/analytics.h", "OpenMEEG/include/integrator.h", "OpenMEEG/include/dipole.h",
             "OpenMEEG/include/operators.h", "OpenMEEG/include/progressbar.h", "OpenMEEG/include/OMExceptions.H",
             "OpenMEEGMaths/include/matrix.h", "OpenMEEGMaths/include/symmatrix.h", "OpenMEEGMaths/include/vector.h", "OpenMEEGMaths/include/linop.h",
             "OpenMEEG/src/operators.cpp", "OpenMEEG/src/mesh.cpp", "OpenMEEG/src/triangle.cpp", "OpenMEEG/src/assembleHeadMat.cpp"]
THROWING = re.compile(r"\.at\s*\(|\bom_assert\b|\bom_error\b|\bthrow\b|rethrow_exception")

def noexcept_problems(repo, defines):
    """An exception that meets a noexcept boundary (a function marked noexcept, or a destructor) below a loop body
    terminates the program before ThreadException::Run can capture it.  Every function of the headers / sources the loop
    bodies call into that is `noexcept` (or a destructor) and whose body contains a throwing construct is reported."""
    out = []
    for rel in REACHABLE:
        p = os.path.join(repo, rel)
        if not os.path.exists(p): continue
        try: text, _ = preprocess(strip_comments(open(p, errors="replace").read()), defines)
        except Unknown as e:
            out.append("%s: %s" % (rel, e)); continue
        cands = []
        for m in re.finditer(r"\bnoexcept\b(?!\s*\(\s*false\s*\))(?:\s*\([^)]*\))?\s*(?:override\s*|final\s*)*\{", text):
            head = text[max(0, m.start() - 200):m.start()]
            nm = re.findall(r"([~A-Za-z_][\w:~]*(?:\s*\(\s*\))?)\s*\([^()]*\)\s*(?:const\s*)?$", head)
            cands.append((nm[-1] if nm else "?", m.end() - 1))
        for m in re.finditer(r"(~\s*[A-Za-z_]\w*)\s*\(\s*\)\s*(?:override\s*)?\{", text):
            cands.append((nows(m.group(1)), m.end() - 1))
        for name, o in cands:
            try: c = match_paren(text, o, "{", "}")
            except Unknown: continue
            body = text[o + 1:c]
            t = THROWING.search(body)
            if t:
                out.append("%s:%d: `%s` is noexcept (or a destructor) but its body contains the throwing construct `%s`: an error raised there below a parallel loop body terminates the program instead of reaching ThreadException::Run"
                           % (rel, text.count("\n", 0, o) + 1, name, t.group(0).strip()))
    return out

# ------------------------------------------------------------------ driver
def gen_config(repo, tag, defines, files):
    problems = []
    try:
        pb_empty = progressbar_empty(repo, defines)
    except Unknown as e:
        problems.append(str(e)); pb_empty = False
    try:
        te = thread_exception(repo, defines)
    except Unknown as e:
        problems.append(str(e)); te = dict(capture_locked=False, capture_stores=False, run_catches_all=False, rethrow_rethrows=False)
    ops_h = os.path.join(repo, "OpenMEEG", "include", "operators.h")
    helpers_text, _ = preprocess(strip_comments(open(ops_h, errors="replace").read()), defines)
    regions = []; dead = []; used = set()
    for rel in files:
        r, dd, pr = analyse_file(repo, rel, defines, helpers_text, pb_empty, used)
        regions += r; dead += dd; problems += pr
    nx = noexcept_problems(repo, defines)
    problems += nx
    L = ["(* GENERATED by translators/t_parloops.py from the current sources -- do not edit.",
         "   Configuration `%s`: one descriptor per `#pragma omp parallel for` that is LIVE under the defines" % tag,
         "   %s." % " ".join(sorted(defines)),
         "   Dead under these defines: %s *)" % (", ".join(dead) or "none"),
         "From OM Require Import Base.Lists Geom.ParLoops.", "Local Open Scope Z_scope.", "",
         "Notation acts := (map (@Act _ _)) (only parsing).", ""]
    for r in regions:
        L.append("(* %s:%d  %s%s  [%s]  for (%s)%s *)" % (r["file"], r["line"], (r["cls"] + "::") if r["cls"] else "", r["function"], r["variant"], r["header"],
                                                          "".join("  inside for (%s)" % e["header"] for e in reversed(r["enclosing"]))))
        L.append(r["coq"])
        L.append("")
    L.append("Definition gen_region_names : list (nat * Z) := [%s].   (* (ordinal, source line) *)" % "; ".join("(%d%%nat, %d)" % (k, r["line"]) for k, r in enumerate(regions)))
    L.append("Definition gen_region_count : nat := %d." % len(regions))
    L.append("Definition gen_dead_pragmas : nat := %d." % len(dead))
    L.append("Definition gen_critical_sections : nat := %d." % sum(1 for r in regions if r["critical"]))
    L.append("Definition gen_critical_capture : bool := %s.   (* no exception can leave an omp critical construct *)" % ("true" if all(r["critical_capture"] for r in regions) else "false"))
    L.append("Definition gen_throwing_noexcept : nat := %d.   (* noexcept functions / destructors below the loop bodies that contain a throwing construct *)" % len(nx))
    L.append("Definition gen_progressbar_empty : bool := %s." % ("true" if pb_empty else "false"))
    L.append("Definition gen_te_capture_locked : bool := %s." % ("true" if te["capture_locked"] else "false"))
    L.append("Definition gen_te_capture_stores : bool := %s." % ("true" if te["capture_stores"] else "false"))
    L.append("Definition gen_te_run_catches_all : bool := %s." % ("true" if te["run_catches_all"] else "false"))
    L.append("Definition gen_te_rethrow_rethrows : bool := %s." % ("true" if te["rethrow_rethrows"] else "false"))
    L.append("")
    return dict(tag=tag, text="\n".join(L), regions=regions, dead=dead, problems=problems, pb_empty=pb_empty, te=te)

def generate(repo, out_dir):
    import gencoq
    problems = []
    try:
        acc = accessor_formulas(repo)
    except Exception as e:
        problems.append("accessor formulas: %r" % e); acc = {}
    for k, v in acc.items():
        if not v: problems.append("accessor formula %s no longer has the text the slot model assumes" % k)
    files = []
    for d in SRC_DIRS:
        for root, dirs, fs in os.walk(os.path.join(repo, d)):
            dirs.sort()
            for f in sorted(fs):
                if f.endswith(SUFFIXES):
                    p = os.path.join(root, f)
                    try: txt = open(p, errors="replace").read()
                    except OSError: continue
                    if re.search(r"#\s*pragma\s+omp\b", txt): files.append(os.path.relpath(p, repo))
    cfgs = {}
    for tag, defines in CONFIGS:
        c = gen_config(repo, tag, defines, files)
        cfgs[tag] = c
        problems += ["[%s] %s" % (tag, x) if tag != "gcc" else x for x in c["problems"] if tag == "gcc" or x not in cfgs["gcc"]["problems"]]
        gencoq.put(os.path.join(out_dir, "GenParLoops_%s.v" % tag), c["text"])
    # guards: every conditional around a pragma or inside a region (of any configuration) mentions known macros only
    for rel in files:
        spans = sorted({tuple(r["line_span"]) for c in cfgs.values() for r in c["regions"] if r["file"] == rel})
        problems += guard_problems(rel, strip_comments(open(os.path.join(repo, rel), errors="replace").read()), spans)
    # the configuration of the suite build under its historical name
    gencoq.put(os.path.join(out_dir, "GenParLoops.v"),
               "(* GENERATED: the configuration the suite is built with (g++). *)\nFrom OM Require Export Gen.GenParLoops_gcc.\n")
    # the per-loop proofs are checked against the clang configuration too: same script, other descriptors
    tpl = os.path.join(os.path.dirname(out_dir), "Geom", "ParLoopsLoops.v")
    if os.path.exists(tpl):
        t = open(tpl).read()
        t2 = re.sub(r"Gen\.GenParLoops\b(?!_)", "Gen.GenParLoops_clang", t)
        gencoq.put(os.path.join(out_dir, "ParLoopsLoops_clang.v"),
                   "(* GENERATED by translators/t_parloops.py: coq/Geom/ParLoopsLoops.v re-checked against the descriptors of the clang configuration. *)\n" + t2)
    g = cfgs["gcc"]
    def strip(r): return {k: v for k, v in r.items() if k not in ("body_span",)}
    js = dict(regions=[strip(r) for r in g["regions"]], dead=g["dead"], problems=problems,
              progressbar_empty=g["pb_empty"], thread_exception=g["te"], accessors=acc, files=files, defines=sorted(BUILD_DEFINES),
              configs={t: dict(defines=sorted(dict(CONFIGS)[t]), dead=c["dead"], critical=[r["name"] for r in c["regions"] if r["critical"]],
                               regions=[dict(name=r["name"], where="%s:%d" % (r["file"], r["line"]), critical=r["critical"], wrapped=r["wrapped"], rethrow=r["rethrow"]) for r in c["regions"]])
                       for t, c in cfgs.items()})
    gencoq.put(os.path.join(out_dir, "genparloops.json"), json.dumps(js, indent=1, sort_keys=True))
    return problems

if __name__ == "__main__":
    import ombuild
    out = os.path.join(os.path.dirname(HERE), "coq", "Gen")
    pr = generate(ombuild.REPO, out)
    for p in pr: print("PROBLEM:", p)
    print(open(os.path.join(out, "genparloops.json")).read()[:0])
    for t, _ in CONFIGS: print(t, [l for l in open(os.path.join(out, "GenParLoops_%s.v" % t)).read().split("\n") if "Crit" in l or "gen_critical" in l])
