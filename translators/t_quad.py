#!/usr/bin/env python3
"""T2 (DESIGN 2.2): the quadrature tables of OpenMEEG/include/integrator.h
      static constexpr unsigned nbPts[4] = { ... };
      struct QuadratureRule { double barycentric_coordinates[3]; double weight; };
      static constexpr QuadratureRule rules[4][16] = { { {{a,b,c},w}, ... }, ... };
   -> exact rationals (the decimal literals, nothing rounded) -> coq/Gen/GenQuadTables.v
      gen_nbPts : list nat,  gen_rules : list (list (Q*Q*Q*Q))   ((l0,l1,l2,w) per node).
   Regenerated on every run.  Anything not recognised is a reported problem (never guessed)."""
import os, re, sys
from fractions import Fraction
sys.path.insert(0, os.path.join(os.path.dirname(os.path.abspath(__file__)), "..", "lib"))
import gencoq

SRC = os.path.join("OpenMEEG", "include", "integrator.h")
NUM = re.compile(r"^[0-9]+(\.[0-9]*)?([eE][-+]?[0-9]+)?$|^\.[0-9]+([eE][-+]?[0-9]+)?$")

def strip_comments(s):
    s = re.sub(r"/\*.*?\*/", " ", s, flags=re.S)
    return re.sub(r"//[^\n]*", " ", s)

def balanced(s, start):
    """s[start] == '{' -> index just after the matching '}'"""
    d = 0
    for i in range(start, len(s)):
        if s[i] == "{": d += 1
        elif s[i] == "}":
            d -= 1
            if d == 0: return i + 1
    return -1

def parse_braces(txt):
    """nested brace initialiser -> nested python lists of literal strings; raises ValueError on anything else"""
    toks = re.findall(r"[{},]|[^\s{},]+", txt)
    pos = 0
    def item():
        nonlocal pos
        if toks[pos] == "{":
            pos += 1; out = []
            while True:
                if toks[pos] == "}": pos += 1; return out
                out.append(item())
                if toks[pos] == ",": pos += 1
                elif toks[pos] != "}": raise ValueError("expected , or } near token %d (%r)" % (pos, toks[pos]))
        t = toks[pos]; pos += 1
        if not NUM.match(t): raise ValueError("unrecognised literal %r" % t)
        return t
    r = item()
    if pos != len(toks): raise ValueError("trailing tokens after initialiser")
    return r

def qlit(t):
    f = Fraction(t)          # exact value of the decimal literal
    return f

DEN = [1]
def coq_q(f):
    """every entry over the common denominator 10^k (k = most decimals in the table): exact, and sums of products of
    table entries then share their denominators (cheap exact arithmetic in Coq)"""
    n = f * DEN[0]
    assert n.denominator == 1
    return "(%d # %d)" % (n.numerator, DEN[0])

def parse(repo):
    """-> (nbPts, rules (as Fractions), literals (strings), problems)"""
    problems = []
    p = os.path.join(repo, SRC)
    if not os.path.exists(p): return None, None, None, ["%s not found" % SRC]
    s = strip_comments(open(p).read())
    m = re.search(r"static\s+constexpr\s+unsigned\s+nbPts\s*\[\s*(\d+)\s*\]\s*=\s*\{([^}]*)\}\s*;", s)
    if not m: return None, None, None, ["nbPts declaration not recognised"]
    nrules = int(m.group(1))
    try:
        nb = [int(x) for x in m.group(2).split(",")]
    except ValueError:
        return None, None, None, ["nbPts initialiser not a list of integers: %r" % m.group(2)]
    if len(nb) != nrules: problems.append("nbPts has %d entries, declared %d" % (len(nb), nrules))
    ms = re.search(r"struct\s+QuadratureRule\s*\{\s*double\s+barycentric_coordinates\s*\[\s*3\s*\]\s*;\s*double\s+weight\s*;\s*\}\s*;", s)
    if not ms: problems.append("struct QuadratureRule is not {double barycentric_coordinates[3]; double weight;}")
    mr = re.search(r"static\s+constexpr\s+QuadratureRule\s+rules\s*\[\s*(\d+)\s*\]\s*\[\s*(\d+)\s*\]\s*=\s*", s)
    if not mr: return nb, None, None, problems + ["rules declaration not recognised"]
    d1, d2 = int(mr.group(1)), int(mr.group(2))
    st = mr.end()
    if st >= len(s) or s[st] != "{": return nb, None, None, problems + ["rules initialiser does not start with {"]
    en = balanced(s, st)
    if en < 0: return nb, None, None, problems + ["unbalanced braces in rules initialiser"]
    if not re.match(r"\s*;", s[en:]): problems.append("rules initialiser not followed by ;")
    try:
        tree = parse_braces(s[st:en])
    except (ValueError, IndexError) as e:
        return nb, None, None, problems + ["rules initialiser: %s" % e]
    if len(tree) != d1: problems.append("rules has %d rows, declared %d" % (len(tree), d1))
    if d1 != nrules: problems.append("rules[%d] but nbPts[%d]" % (d1, nrules))
    rules = []; lits = []
    for k, row in enumerate(tree):
        if not isinstance(row, list) or len(row) > d2:
            problems.append("rule %d: %s entries, declared %d" % (k, len(row) if isinstance(row, list) else "?", d2)); continue
        rr = []; ll = []
        for i, e in enumerate(row):
            ok = isinstance(e, list) and len(e) == 2 and isinstance(e[0], list) and len(e[0]) == 3 and \
                 all(isinstance(x, str) for x in e[0]) and isinstance(e[1], str)
            if not ok:
                problems.append("rule %d entry %d is not {{a,b,c},w}" % (k, i)); continue
            qs = [qlit(x) for x in e[0]] + [qlit(e[1])]
            for x, f in zip(e[0] + [e[1]], qs):
                if f.numerator >= 2 ** 53 or f.denominator >= 2 ** 53:
                    problems.append("rule %d entry %d: literal %s has more digits than a double division reproduces exactly" % (k, i, x))
            rr.append(qs); ll.append(e[0] + [e[1]])
        # C++ zero-fills missing trailing entries of an aggregate
        while len(rr) < d2:
            rr.append([Fraction(0)] * 4); ll.append(["0.0"] * 4)
        rules.append(rr); lits.append(ll)
    for k, n in enumerate(nb):
        if n > d2: problems.append("nbPts[%d]=%d exceeds the row length %d" % (k, n, d2))
    return nb, rules, lits, problems

def generate(repo, out_dir):
    nb, rules, lits, problems = parse(repo)
    if nb is None or rules is None:
        nb = nb or []; rules = rules or []
    den = 1
    for rr in rules:
        for q in rr:
            for f in q:
                d = f.denominator
                k = 1
                while k % d != 0: k *= 10
                    # terminates: the literals are decimal, so d divides a power of ten
                den = max(den, k)
    DEN[0] = den
    if den >= 2 ** 53: problems.append("common denominator %d is not exact in a double" % den)
    L = ["(* GENERATED by translators/t_quad.py from %s -- do not edit." % SRC,
         "   gen_nbPts = nbPts[], gen_rules = rules[][] with every decimal literal as the exact rational it denotes;",
         "   a node is (l0, l1, l2, weight). *)",
         "From Coq Require Import QArith List.", "Import ListNotations.", "Local Open Scope Q_scope.", "",
         "Definition gen_nbPts : list nat := [%s]%%nat." % "; ".join("%d" % n for n in nb), "",
         "Definition gen_rules : list (list (Q * Q * Q * Q)) := ["]
    rows = []
    for rr in rules:
        rows.append("  [ " + ";\n    ".join("(%s, %s, %s, %s)" % tuple(coq_q(f) for f in q) for q in rr) + " ]")
    L.append(";\n".join(rows))
    L.append("].")
    gencoq.put(os.path.join(out_dir, "GenQuadTables.v"), "\n".join(L) + "\n")
    return problems

if __name__ == "__main__":
    import ombuild
    pr = generate(ombuild.REPO, os.path.join(os.path.dirname(os.path.abspath(__file__)), "..", "coq", "Gen"))
    for x in pr: print(x)
    sys.exit(1 if pr else 0)
