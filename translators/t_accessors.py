#!/usr/bin/env python3
"""T3 (+ the guard half of T1): the om_assert conditions, the buffer index expressions and the size() formulas of
Vector / Matrix / SymMatrix / SparseMatrix are tokenised from the CURRENT sources and emitted as Gallina over Z
with the C++ integer widths explicit (unsigned = mod 2^32, size_t / streamoff / unsigned long = mod 2^64):
coq/Gen/GenAccessors.v.  Removing or weakening a guard, or changing an index formula, changes the definitions the
theorems of Properties_C18.v are proved about.

Soundness rule: anything outside the small grammar below is REPORTED (returned as a problem string), never guessed.
Grammar: identifiers, decimal literals, + - * /, ?:, < <= > >= == !=, && ||, parentheses, the calls
nlin() ncol() size() X.nlin() X.ncol() X.size(), static_cast<T>(e) with T in a fixed table.
Only the HAVE_BLAS / HAVE_LAPACK branch of a preprocessor conditional is read (the configuration the suite builds)."""
import os, re, sys
SERVES = ("C18", "C13",)   # properties whose check reports this translator's problems (lib/gencoq.py, core.Check.proofs)
sys.path.insert(0, os.path.join(os.path.dirname(os.path.dirname(os.path.abspath(__file__))), "lib"))
import gencoq

W = {"unsigned": 32, "Index": 32, "Dimension": 32, "size_t": 64, "std::streamoff": 64, "unsigned long": 64, "std::size_t": 64}

class Problem(Exception): pass

def strip_comments(s):
    s = re.sub(r"/\*.*?\*/", " ", s, flags=re.S)
    return re.sub(r"//[^\n]*", "", s)

def live_branch(body):
    """keep the first branch of #if/#ifdef ... #else ... #endif (HAVE_BLAS / HAVE_LAPACK are defined in the suite build)"""
    out = []; stack = []
    for line in body.split("\n"):
        t = line.strip()
        if t.startswith("#if"):
            m = re.match(r"#\s*if(def)?\s+(.*)", t)
            cond = m.group(2) if m else ""
            if not re.search(r"HAVE_BLAS|HAVE_LAPACK|CLAPACK_INTERFACE", cond): raise Problem("unknown preprocessor condition `%s`" % t)
            stack.append(True); continue
        if t.startswith("#else"):
            if not stack: raise Problem("#else without #if")
            stack[-1] = False; continue
        if t.startswith("#endif"):
            if not stack: raise Problem("#endif without #if")
            stack.pop(); continue
        if t.startswith("#"): raise Problem("unknown preprocessor line `%s`" % t)
        if all(stack): out.append(line)
    return "\n".join(out)

def find_body(src, header_re, which=0):
    ms = list(re.finditer(header_re, src))
    if len(ms) <= which: raise Problem("definition not found: /%s/ #%d" % (header_re, which))
    m = ms[which]; k = src.index("{", m.end() - 1); depth = 0
    for p in range(k, len(src)):
        if src[p] == "{": depth += 1
        elif src[p] == "}":
            depth -= 1
            if depth == 0: return m, src[k + 1:p]
    raise Problem("unbalanced braces after /%s/" % header_re)

TOK = re.compile(r"\s*(static_cast|std::streamoff|std::size_t|unsigned long|[A-Za-z_]\w*|\d+|<=|>=|==|!=|&&|\|\||[-+*/<>?:().,!])")
def tokens(e):
    out = []; p = 0; e = e.strip()
    while p < len(e):
        m = TOK.match(e, p)
        if not m: raise Problem("cannot tokenise `%s` at `%s`" % (e, e[p:p + 12]))
        out.append(m.group(1)); p = m.end()
    return out

class Parser:
    """C++ expression -> (gallina term, width) ; width 32/64 for integers, 0 for bool"""
    def __init__(self, toks, env, objs): self.t = toks; self.p = 0; self.env = env; self.objs = objs; self.used = set()
    def peek(self): return self.t[self.p] if self.p < len(self.t) else None
    def eat(self, x=None):
        if self.p >= len(self.t) or (x is not None and self.t[self.p] != x): raise Problem("expected `%s` in `%s`" % (x, " ".join(self.t)))
        self.p += 1; return self.t[self.p - 1]
    def parse(self):
        r = self.cond()
        if self.p != len(self.t): raise Problem("trailing tokens in `%s`" % " ".join(self.t))
        return r
    def cond(self):
        c = self.lor()
        if self.peek() == "?":
            self.eat(); a = self.cond(); self.eat(":"); b = self.cond()
            if c[1] != 0: raise Problem("non-boolean condition of ?:")
            w = max(a[1], b[1]); return ("(if %s then %s else %s)" % (c[0], a[0], b[0]), w)
        return c
    def lor(self):
        a = self.land()
        while self.peek() == "||":
            self.eat(); b = self.land(); a = ("(%s || %s)" % (self.b(a), self.b(b)), 0)
        return a
    def land(self):
        a = self.cmp()
        while self.peek() == "&&":
            self.eat(); b = self.cmp(); a = ("(%s && %s)" % (self.b(a), self.b(b)), 0)
        return a
    def b(self, a):
        if a[1] != 0: raise Problem("integer used as boolean")
        return a[0]
    def cmp(self):
        a = self.add()
        if self.peek() in ("<", "<=", ">", ">=", "==", "!="):
            op = self.eat(); b = self.add()
            if a[1] == 0 or b[1] == 0: raise Problem("comparison of booleans")
            f = {"<": "(%s <? %s)", "<=": "(%s <=? %s)", ">": "(%s <? %s)", ">=": "(%s <=? %s)", "==": "(%s =? %s)", "!=": "negb (%s =? %s)"}[op]
            x, y = (b[0], a[0]) if op in (">", ">=") else (a[0], b[0])
            return (f % (x, y), 0)
        return a
    def arith(self, op, a, b):
        if a[1] == 0 or b[1] == 0: raise Problem("arithmetic on booleans")
        w = max(a[1], b[1])
        if op == "/": return ("(%s / %s)" % (a[0], b[0]), w)       # quotient of in-range non-negative values stays in range
        return ("((%s %s %s) mod W%d)" % (a[0], op, b[0], w), w)
    def add(self):
        a = self.mul()
        while self.peek() in ("+", "-"):
            op = self.eat(); b = self.mul(); a = self.arith(op, a, b)
        return a
    def mul(self):
        a = self.unary()
        while self.peek() in ("*", "/"):
            op = self.eat(); b = self.unary(); a = self.arith(op, a, b)
        return a
    def unary(self):
        t = self.peek()
        if t == "!":
            self.eat(); a = self.unary(); return ("negb %s" % self.b(a), 0)
        if t == "(":
            self.eat(); a = self.cond(); self.eat(")"); return a
        if t == "static_cast":
            self.eat(); self.eat("<"); ty = self.eat()
            if ty not in W: raise Problem("static_cast to unknown type `%s`" % ty)
            self.eat(">"); self.eat("("); a = self.cond(); self.eat(")")
            if a[1] == 0: raise Problem("cast of a boolean")
            if W[ty] < a[1]: return ("(%s mod W%d)" % (a[0], W[ty]), W[ty])
            return (a[0], W[ty])
        if t is not None and t.isdigit():
            self.eat(); return (t, 32)                 # int literal (non-negative): takes the width of the other operand, at least 32
        if t is not None and re.match(r"[A-Za-z_]\w*$", t):
            self.eat()
            if self.peek() == ".":
                self.eat(); f = self.eat(); self.eat("("); self.eat(")")
                if t not in self.objs or f not in ("nlin", "ncol", "size"): raise Problem("unknown member call %s.%s()" % (t, f))
                self.used.add("%s_%s" % (t, f)); return ("%s_%s" % (t, f), 64 if f == "size" else 32)
            if self.peek() == "(":
                self.eat(); self.eat(")")
                if t not in ("nlin", "ncol", "size"): raise Problem("unknown call %s()" % t)
                self.used.add(t); return (t, 64 if t == "size" else 32)
            if t in self.env: return self.env[t]
            raise Problem("unknown identifier `%s`" % t)
        raise Problem("unexpected token `%s` in `%s`" % (t, " ".join(self.t)))

def params(plist):
    """C++ parameter list -> [(name, width)] for integers, [(name,'obj')] for Vector/Matrix/SymMatrix references"""
    out = []
    for p in [x.strip() for x in plist.split(",") if x.strip()]:
        m = re.match(r"^(const\s+)?(Index|Dimension|unsigned|size_t)\s+(\w+)$", p)
        if m: out.append((m.group(3), W[m.group(2)])); continue
        m = re.match(r"^(const\s+)?(Vector|Matrix|SymMatrix|SparseMatrix)\s*&\s*(\w+)$", p)
        if m: out.append((m.group(3), "obj")); continue
        m = re.match(r"^(const\s+)?double\s+(\w+)$", p)
        if m: continue
        raise Problem("unknown parameter `%s`" % p)
    return out

def split_top(e, sep="&&"):
    return [e]

def translate(body, plist, want_index):
    body = live_branch(body)
    ps = params(plist)
    env = {n: (n, w) for n, w in ps if w != "obj"}; objs = [n for n, w in ps if w == "obj"]
    used = set(); guards = []
    # local constants that the assertions may mention:  const Index X = e;
    stmts = [s.strip() for s in re.split(r";", body)]
    index = None
    for s in stmts:
        m = re.match(r"^const\s+(Index|Dimension|unsigned|size_t)\s+(\w+)\s*=\s*(.*)$", s, re.S)
        if m and "sizet_to_int" not in m.group(3):
            try:
                pr = Parser(tokens(m.group(3)), env, objs); t, w = pr.parse(); used |= pr.used
            except Problem:
                continue                       # a local the guards do not need; if they do, `unknown identifier` is reported below
            wd = W[m.group(1)]
            env[m.group(2)] = (("(%s mod W%d)" % (t, wd)) if w > wd else t, wd); continue
        m = re.match(r"^om_assert\s*\((.*)\)$", s, re.S)
        if m:
            # a status assertion on the return code of a LAPACK call (local `int X`; `om_assert(X==0)`) is not an argument guard
            ms = re.match(r"^\s*(\w+)\s*==\s*0\s*$", m.group(1))
            if ms and re.search(r"\b(?:int|BLAS_INT)\s+%s\b" % re.escape(ms.group(1)), body) and ms.group(1) not in env:
                continue
            pr = Parser(tokens(m.group(1)), env, objs); t, w = pr.parse(); used |= pr.used
            if w != 0: raise Problem("om_assert of a non-boolean `%s`" % m.group(1))
            guards.append(t); continue
        m = re.match(r"^return\s+(?:value|data\s*\(\s*\))\s*\[(.*)\]$", s, re.S)
        if m and want_index:
            pr = Parser(tokens(m.group(1)), env, objs); index = pr.parse(); used |= pr.used
    if want_index and index is None: raise Problem("no `return value[...]` found")
    return ps, guards, index, used

# (coq name, file, header regex, occurrence, wants index)
TARGETS = [
  ("Vector_get",      "vector.h",      r"double\s+operator\(\)\s*\(([^)]*)\)\s*const\s*\{", 0, True),
  ("Vector_ref",      "vector.h",      r"double&\s+operator\(\)\s*\(([^)]*)\)\s*\{", 0, True),
  ("Vector_subvect",  "vector.h",      r"Vector\s+Vector::subvect\s*\(([^)]*)\)\s*const\s*\{", 0, False),
  ("Vector_add",      "vector.h",      r"Vector\s+Vector::operator\+\s*\(([^)]*)\)\s*const\s*\{", 0, False),
  ("Vector_sub",      "vector.h",      r"Vector\s+Vector::operator-\s*\(([^)]*)\)\s*const\s*\{", 0, False),
  ("Vector_iadd",     "vector.h",      r"void\s+Vector::operator\+=\s*\(([^)]*)\)\s*\{", 0, False),
  ("Vector_isub",     "vector.h",      r"void\s+Vector::operator-=\s*\(([^)]*)\)\s*\{", 0, False),
  ("Vector_dot",      "vector.h",      r"double\s+Vector::operator\*\s*\(([^)]*)\)\s*const\s*\{", 0, False),
  ("Vector_kmult",    "../src/vector.cpp", r"Vector\s+Vector::kmult\s*\(([^)]*)\)\s*const\s*\{", 0, False),
  ("Vector_outer",    "../src/vector.cpp", r"Matrix\s+Vector::outer_product\s*\(([^)]*)\)\s*const\s*\{", 0, False),
  ("Vector_mulm",     "../src/vector.cpp", r"Vector\s+Vector::operator\*\s*\(const Matrix&([^)]*)\)\s*const\s*\{", 0, False),
  ("Matrix_get",      "matrix.h",      r"double\s+operator\(\)\s*\(([^)]*)\)\s*const\s*\{", 0, True),
  ("Matrix_ref",      "matrix.h",      r"double&\s+operator\(\)\s*\(([^)]*)\)\s*\{", 0, True),
  ("Matrix_submat",   "matrix.h",      r"Matrix\s+Matrix::submat\s*\(([^)]*)\)\s*const\s*\{", 0, False),
  ("Matrix_insertmat","matrix.h",      r"void\s+Matrix::insertmat\s*\(([^)]*)\)\s*\{", 0, False),
  ("Matrix_getcol",   "matrix.h",      r"Vector\s+Matrix::getcol\s*\(([^)]*)\)\s*const\s*\{", 0, False),
  ("Matrix_getlin",   "matrix.h",      r"Vector\s+Matrix::getlin\s*\(([^)]*)\)\s*const\s*\{", 0, False),
  ("Matrix_setcol",   "matrix.h",      r"void\s+Matrix::setcol\s*\(([^)]*)\)\s*\{", 0, False),
  ("Matrix_setlin",   "matrix.h",      r"void\s+Matrix::setlin\s*\(([^)]*)\)\s*\{", 0, False),
  ("Matrix_mulv",     "matrix.h",      r"Vector\s+Matrix::operator\*\s*\(const Vector&([^)]*)\)\s*const\s*\{", 0, False),
  ("Matrix_tmulv",    "matrix.h",      r"Vector\s+Matrix::tmult\s*\(const Vector&([^)]*)\)\s*const\s*\{", 0, False),
  ("Matrix_mult",     "matrix.h",      r"Matrix\s+Matrix::operator\*\s*\(const Matrix&([^)]*)\)\s*const\s*\{", 0, False),
  ("Matrix_tmult",    "matrix.h",      r"Matrix\s+Matrix::tmult\s*\(const Matrix&([^)]*)\)\s*const\s*\{", 0, False),
  ("Matrix_multt",    "matrix.h",      r"Matrix\s+Matrix::multt\s*\(const Matrix&([^)]*)\)\s*const\s*\{", 0, False),
  ("Matrix_tmultt",   "matrix.h",      r"Matrix\s+Matrix::tmultt\s*\(const Matrix&([^)]*)\)\s*const\s*\{", 0, False),
  ("Matrix_mult_sym", "matrix.h",      r"Matrix\s+Matrix::operator\*\s*\(const SymMatrix&([^)]*)\)\s*const\s*\{", 0, False),
  ("Matrix_iadd",     "matrix.h",      r"void\s+Matrix::operator\+=\s*\(([^)]*)\)\s*\{", 0, False),
  ("Matrix_isub",     "matrix.h",      r"void\s+Matrix::operator-=\s*\(([^)]*)\)\s*\{", 0, False),
  ("Matrix_dot",      "matrix.h",      r"double\s+Matrix::dot\s*\(([^)]*)\)\s*const\s*\{", 0, False),
  ("Matrix_inverse",  "matrix.h",      r"Matrix\s+Matrix::inverse\s*\(([^)]*)\)\s*const\s*\{", 0, False),
  ("Sym_get",         "symmatrix.h",   r"double\s+operator\(\)\s*\(([^)]*)\)\s*const\s*\{", 0, True),
  ("Sym_ref",         "symmatrix.h",   r"double&\s+operator\(\)\s*\(([^)]*)\)\s*\{", 0, True),
  ("Sym_getlin",      "symmatrix.h",   r"Vector\s+SymMatrix::getlin\s*\(([^)]*)\)\s*const\s*\{", 0, False),
  ("Sym_setlin",      "symmatrix.h",   r"void\s+SymMatrix::setlin\s*\(([^)]*)\)\s*\{", 0, False),
  ("Sym_mulv",        "symmatrix.h",   r"Vector\s+SymMatrix::operator\*\s*\(const Vector&([^)]*)\)\s*const\s*\{", 0, False),
  ("Sym_iadd",        "symmatrix.h",   r"void\s+SymMatrix::operator\+=\s*\(([^)]*)\)\s*\{", 0, False),
  ("Sym_isub",        "symmatrix.h",   r"void\s+SymMatrix::operator-=\s*\(([^)]*)\)\s*\{", 0, False),
  ("Sym_submat4",     "../src/symmatrix.cpp", r"Matrix\s+SymMatrix::submat\s*\(([^)]*)\)\s*const\s*\{", 0, False),
  ("Sym_submat2",     "../src/symmatrix.cpp", r"SymMatrix\s+SymMatrix::submat\s*\(([^)]*)\)\s*const\s*\{", 0, False),
  ("Sym_mult_sym",    "../src/symmatrix.cpp", r"Matrix\s+SymMatrix::operator\*\s*\(const SymMatrix&([^)]*)\)\s*const\s*\{", 0, False),
  ("Sym_mult",        "../src/symmatrix.cpp", r"Matrix\s+SymMatrix::operator\*\s*\(const Matrix&([^)]*)\)\s*const\s*\{", 0, False),
  ("Sparse_get",      "sparse_matrix.h", r"double\s+operator\(\)\s*\(([^)]*)\)\s*const\s*\{", 0, False),
  ("Sparse_ref",      "sparse_matrix.h", r"double&\s+operator\(\)\s*\(([^)]*)\)\s*\{", 0, False),
]
# size() one-liners
SIZES = [("Vector_size", "vector.h"), ("Matrix_size", "matrix.h"), ("Sym_size", "symmatrix.h")]

def generate(repo_root, out_dir):
    problems = []; defs = []; table = []
    inc = os.path.join(repo_root, "OpenMEEGMaths", "include")
    cache = {}
    def src(f):
        p = os.path.normpath(os.path.join(inc, f))
        if p not in cache: cache[p] = strip_comments(open(p).read())
        return cache[p]
    for name, f in SIZES:
        try:
            m = re.search(r"size_t\s+size\s*\(\s*\)\s*const\s*\{\s*return\s+(.*?);\s*\}", src(f), re.S)
            if not m: raise Problem("size() not found")
            pr = Parser(tokens(m.group(1)), {}, []); t, w = pr.parse()
            if w < 64: t = t                     # widening conversion to size_t keeps the (already reduced) value
            defs.append("Definition %s (nlin ncol : Z) : Z := %s." % (name, t))
        except Problem as e:
            problems.append("%s (%s): %s" % (name, f, e)); defs.append("(* %s: NOT TRANSLATED: %s *)" % (name, e))
    for name, f, hre, occ, want_index in TARGETS:
        try:
            # the captured group holds the parameter list, possibly without the first (object) parameter
            m, body = find_body(src(f), hre, occ)
            plist = m.group(1)
            mm = re.search(r"\(const (Vector|Matrix|SymMatrix)&\(\[\^\)\]\*\)", hre)
            if mm: plist = "const %s& %s" % (mm.group(1), plist.strip())
            ps, guards, index, used = translate(body, plist, want_index)
            args = ["nlin", "ncol"]
            for n, w in ps:
                if w == "obj": args += ["%s_nlin" % n, "%s_ncol" % n, "%s_size" % n]
                else: args.append(n)
            sig = " ".join(args)
            cls = {"Vector": "Vector_size", "Matrix": "Matrix_size", "Sym": "Sym_size"}.get(name.split("_")[0])
            if "size" in used:
                if cls is None: raise Problem("size() of an unknown class")
                guards = [re.sub(r"\bsize\b", "(%s nlin ncol)" % cls, g) for g in guards]
            g = " && ".join(guards) if guards else "true"
            defs.append("Definition %s_guard (%s : Z) : bool := %s." % (name, sig, g))
            if want_index:
                defs.append("Definition %s_index (%s : Z) : Z := %s." % (name, sig, index[0]))
            table.append((name, len(guards), bool(index)))
        except Problem as e:
            problems.append("%s (%s): %s" % (name, f, e)); defs.append("(* %s: NOT TRANSLATED: %s *)" % (name, e))
    txt = ["(* GENERATED by translators/t_accessors.py from OpenMEEGMaths/include/{vector,matrix,symmatrix,sparse_matrix}.h and",
           "   src/{vector,symmatrix}.cpp -- do not edit.  om_assert conditions (conjunction of all assertions of the method, in",
           "   order) and buffer index expressions, C++ integer widths explicit: unsigned arithmetic is reduced mod W32,",
           "   size_t / streamoff arithmetic mod W64.  Arguments: the receiver's nlin ncol, then the parameters in order;",
           "   an object parameter X contributes X_nlin X_ncol X_size. *)",
           "From Coq Require Import ZArith Bool.", "Local Open Scope Z_scope.", "Local Open Scope bool_scope.",
           "Definition W32 : Z := 4294967296.", "Definition W64 : Z := 18446744073709551616.", ""] + defs + [""]
    gencoq.put(os.path.join(out_dir, "GenAccessors.v"), "\n".join(txt))
    return problems

if __name__ == "__main__":
    import ombuild
    pr = generate(ombuild.REPO, os.path.join(os.path.dirname(os.path.dirname(os.path.abspath(__file__))), "coq", "Gen"))
    for p in pr: print("PROBLEM:", p)
