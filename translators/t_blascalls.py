#!/usr/bin/env python3
"""T1: the level-2/3 BLAS call sites of Matrix / SymMatrix (DGEMM, DGEMV, DSYMM) are tokenised from the CURRENT sources:
the `const BLAS_INT X = sizet_to_int(e);` bindings, the allocation of the result (`Matrix C(e1,e2);`, `Vector res(e);`),
the dense copies (`Matrix D(B);`, `Matrix D(*this);`) and the argument list of the call.  Output: coq/Gen/GenBlasCalls.v,
one record per method as a function of the operand shapes.  Properties_C13.v proves (by computation) that the executable
model makes exactly these calls, so changing a flag, a dimension or a leading dimension in the source changes the theorem.
Anything outside the expected shape is reported as a problem, never guessed."""
import os, re, sys
SERVES = ("C13", "C18",)   # properties whose check reports this translator's problems (lib/gencoq.py, core.Check.proofs)
sys.path.insert(0, os.path.join(os.path.dirname(os.path.dirname(os.path.abspath(__file__))), "lib"))
import gencoq
sys.path.insert(0, os.path.dirname(os.path.abspath(__file__)))
from t_accessors import strip_comments, live_branch, find_body, Problem

DIM = {"nlin()": "nl", "ncol()": "nc", "size()": "sz"}
def dim(e, arg, sym_this=False, sym_arg=False):
    e = e.replace(" ", "")
    m = re.match(r"^sizet_to_int\((.*)\)$", e)
    if m: e = m.group(1)
    if e in ("nlin()",): return "nl"
    if e in ("ncol()",): return "nl" if sym_this else "nc"
    for f, t in (("nlin()", "bnl"), ("ncol()", "bnl" if sym_arg else "bnc")):
        if arg and e == "%s.%s" % (arg, f): return t
    raise Problem("unknown dimension expression `%s`" % e)

def split_args(s):
    out = []; depth = 0; cur = ""
    for ch in s:
        if ch == "(": depth += 1
        if ch == ")": depth -= 1
        if ch == "," and depth == 0: out.append(cur.strip()); cur = ""
        else: cur += ch
    out.append(cur.strip()); return out

# (coq name, file, header regex, routine, receiver is symmetric, argument is symmetric)
SITES = [
  ("Matrix_mult",     "matrix.h", r"Matrix\s+Matrix::operator\*\s*\(const Matrix&\s*(\w+)\)\s*const\s*\{", "DGEMM", False, False),
  ("Matrix_tmult",    "matrix.h", r"Matrix\s+Matrix::tmult\s*\(const Matrix&\s*(\w+)\)\s*const\s*\{", "DGEMM", False, False),
  ("Matrix_multt",    "matrix.h", r"Matrix\s+Matrix::multt\s*\(const Matrix&\s*(\w+)\)\s*const\s*\{", "DGEMM", False, False),
  ("Matrix_tmultt",   "matrix.h", r"Matrix\s+Matrix::tmultt\s*\(const Matrix&\s*(\w+)\)\s*const\s*\{", "DGEMM", False, False),
  ("Matrix_mulv",     "matrix.h", r"Vector\s+Matrix::operator\*\s*\(const Vector&\s*(\w+)\)\s*const\s*\{", "DGEMV", False, False),
  ("Matrix_tmulv",    "matrix.h", r"Vector\s+Matrix::tmult\s*\(const Vector&\s*(\w+)\)\s*const\s*\{", "DGEMV", False, False),
  ("Matrix_mult_sym", "matrix.h", r"Matrix\s+Matrix::operator\*\s*\(const SymMatrix&\s*(\w+)\)\s*const\s*\{", "DSYMM", False, True),
  ("Sym_mult",        "../src/symmatrix.cpp", r"Matrix\s+SymMatrix::operator\*\s*\(const Matrix&\s*(\w+)\)\s*const\s*\{", "DSYMM", True, False),
  ("Sym_mult_sym",    "../src/symmatrix.cpp", r"Matrix\s+SymMatrix::operator\*\s*\(const SymMatrix&\s*(\w+)\)\s*const\s*\{", "DSYMM", True, True),
]

def translate(name, body, arg, routine, sym_this, sym_arg):
    body = live_branch(body)
    env = {}; copies = {}; result = None; zero_init = False
    stmts = [s.strip() for s in body.split(";")]
    call = None
    for s in stmts:
        m = re.match(r"^const\s+BLAS_INT\s+(\w+)\s*=\s*(.*)$", s, re.S)
        if m: env[m.group(1)] = dim(m.group(2), arg, sym_this, sym_arg); continue
        m = re.match(r"^Matrix\s+(\w+)\s*\(\s*(\*this|\w+)\s*\)$", s)
        if m:
            src = m.group(2)
            if src == "*this": copies[m.group(1)] = "CopyOfThis"
            elif src == arg: copies[m.group(1)] = "CopyOfArg"
            else: raise Problem("dense copy of unknown object `%s`" % src)
            continue
        m = re.match(r"^Matrix\s+(\w+)\s*\((.*),(.*)\)$", s)
        if m and result is None: result = (m.group(1), dim(m.group(2), arg, sym_this, sym_arg), dim(m.group(3), arg, sym_this, sym_arg)); continue
        m = re.match(r"^Vector\s+(\w+)\s*\((.*)\)$", s)
        if m and result is None: result = (m.group(1), dim(m.group(2), arg, sym_this, sym_arg), None); continue
        if result and re.match(r"^for\s*\(", s) : pass
        if result and re.search(r"%s\.data\(\)\[\w+\]\s*=\s*0\.0$" % re.escape(result[0]), s): zero_init = True; continue
        m = re.match(r"^%s\s*\((.*)\)$" % routine, s, re.S)
        if m:
            if call is not None: raise Problem("two %s calls" % routine)
            call = split_args(m.group(1)); continue
    if call is None: raise Problem("no %s call found" % routine)
    if result is None: raise Problem("result allocation not found")
    def d(x):
        x = x.replace(" ", "")
        if x in env: return env[x]
        return dim(x, arg, sym_this, sym_arg)
    def buf(x):
        x = x.replace(" ", "")
        if x == "data()": return "This"
        m = re.match(r"^(\w+)\.data\(\)$", x)
        if not m: raise Problem("unknown buffer `%s`" % x)
        if m.group(1) == arg: return "Arg"
        if m.group(1) in copies: return copies[m.group(1)]
        if m.group(1) == result[0]: return "Res"
        raise Problem("unknown buffer `%s`" % x)
    tr = {"CblasNoTrans": "false", "CblasTrans": "true"}
    if routine == "DGEMM":
        if len(call) != 13 or call[5] != "1.0" or call[10] != "0.0" or buf(call[11]) != "Res": raise Problem("unexpected DGEMM argument list %s" % call)
        if call[0] not in tr or call[1] not in tr: raise Problem("unknown transposition flag")
        rec = "{| c_ta := %s; c_tb := %s; c_m := %s; c_n := %s; c_k := %s; c_a := %s; c_lda := %s; c_b := %s; c_ldb := %s; c_ldc := %s; c_rows := %s; c_cols := %s |}" % (
            tr[call[0]], tr[call[1]], d(call[2]), d(call[3]), d(call[4]), buf(call[6]), d(call[7]), buf(call[8]), d(call[9]), d(call[12]), result[1], result[2])
        return "Definition %s_call (nl nc bnl bnc : nat) : gemm_call := %s." % (name, rec)
    if routine == "DGEMV":
        if len(call) != 11 or call[3] != "1.0" or call[8] != "0.0" or call[7] != "1" or call[10] != "1" or buf(call[9]) != "Res" or buf(call[6]) != "Arg": raise Problem("unexpected DGEMV argument list %s" % call)
        if call[0] not in tr: raise Problem("unknown transposition flag")
        rec = "{| v_ta := %s; v_m := %s; v_n := %s; v_a := %s; v_lda := %s; v_len := %s; v_zero_init := %s |}" % (
            tr[call[0]], d(call[1]), d(call[2]), buf(call[4]), d(call[5]), result[1], "true" if zero_init else "false")
        return "Definition %s_call (nl nc bnl bnc : nat) : gemv_call := %s." % (name, rec)
    if routine == "DSYMM":
        if len(call) != 12 or call[4] != "1.0" or call[9] != "0.0" or buf(call[10]) != "Res" or call[1] != "CblasUpper": raise Problem("unexpected DSYMM argument list %s" % call)
        side = {"CblasLeft": "true", "CblasRight": "false"}
        if call[0] not in side: raise Problem("unknown side")
        rec = "{| s_left := %s; s_m := %s; s_n := %s; s_a := %s; s_lda := %s; s_b := %s; s_ldb := %s; s_ldc := %s; s_rows := %s; s_cols := %s |}" % (
            side[call[0]], d(call[2]), d(call[3]), buf(call[5]), d(call[6]), buf(call[7]), d(call[8]), d(call[11]), result[1], result[2])
        return "Definition %s_call (nl nc bnl bnc : nat) : symm_call := %s." % (name, rec)
    raise Problem("unknown routine")


# ------------------------------------------------------------------------------------------------------------------
# level-1 / level-2 packed call sites: daxpy dcopy dscal ddot dnrm2 DGER DSPMV
L1SITES = [  # (coq name, file, header regex (group 1 = parameter list), routine, class of the receiver)
  ("Vector_plus",   "vector.h", r"Vector\s+Vector::operator\+\s*\((const Vector&[^)]*)\)\s*const\s*\{", "daxpy", "Vector"),
  ("Vector_minus",  "vector.h", r"Vector\s+Vector::operator-\s*\((const Vector&[^)]*)\)\s*const\s*\{", "daxpy", "Vector"),
  ("Vector_iadd",   "vector.h", r"void\s+Vector::operator\+=\s*\(([^)]*)\)\s*\{", "daxpy", "Vector"),
  ("Vector_isub",   "vector.h", r"void\s+Vector::operator-=\s*\(([^)]*)\)\s*\{", "daxpy", "Vector"),
  ("Vector_dot",    "vector.h", r"double\s+Vector::operator\*\s*\((const Vector&[^)]*)\)\s*const\s*\{", "ddot", "Vector"),
  ("Vector_scaled", "vector.h", r"Vector\s+Vector::operator\*\s*\((const double[^)]*)\)\s*const\s*\{", "dscal", "Vector"),
  ("Vector_iscale", "vector.h", r"void\s+Vector::operator\*=\s*\(([^)]*)\)\s*\{", "dscal", "Vector"),
  ("Vector_norm",   "vector.h", r"double\s+Vector::norm\s*\(([^)]*)\)\s*const\s*\{", "dnrm2", "Vector"),
  ("Vector_outer",  "../src/vector.cpp", r"Matrix\s+Vector::outer_product\s*\(([^)]*)\)\s*const\s*\{", "DGER", "Vector"),
  ("Matrix_getcol", "matrix.h", r"Vector\s+Matrix::getcol\s*\(([^)]*)\)\s*const\s*\{", "dcopy", "Matrix"),
  ("Matrix_getlin", "matrix.h", r"Vector\s+Matrix::getlin\s*\(([^)]*)\)\s*const\s*\{", "dcopy", "Matrix"),
  ("Matrix_setcol", "matrix.h", r"void\s+Matrix::setcol\s*\(([^)]*)\)\s*\{", "dcopy", "Matrix"),
  ("Matrix_setlin", "matrix.h", r"void\s+Matrix::setlin\s*\(([^)]*)\)\s*\{", "dcopy", "Matrix"),
  ("Matrix_submat", "matrix.h", r"Matrix\s+Matrix::submat\s*\(([^)]*)\)\s*const\s*\{", "dcopy", "Matrix"),
  ("Matrix_iadd",   "matrix.h", r"void\s+Matrix::operator\+=\s*\(([^)]*)\)\s*\{", "daxpy", "Matrix"),
  ("Matrix_isub",   "matrix.h", r"void\s+Matrix::operator-=\s*\(([^)]*)\)\s*\{", "daxpy", "Matrix"),
  ("Matrix_dot",    "matrix.h", r"double\s+Matrix::dot\s*\(([^)]*)\)\s*const\s*\{", "ddot", "Matrix"),
  ("Sym_iadd",      "symmatrix.h", r"void\s+SymMatrix::operator\+=\s*\(([^)]*)\)\s*\{", "daxpy", "Sym"),
  ("Sym_isub",      "symmatrix.h", r"void\s+SymMatrix::operator-=\s*\(([^)]*)\)\s*\{", "daxpy", "Sym"),
  ("Sym_mulv",      "symmatrix.h", r"Vector\s+SymMatrix::operator\*\s*\((const Vector&[^)]*)\)\s*const\s*\{", "DSPMV", "Sym"),
]
SIZE_OF = {"Vector": "nl", "Matrix": "(nl * nc)", "Sym": "(nl * (nl + 1) / 2)"}

def nat_expr(e, cls, arg, env, idx):
    """C++ size/offset expression -> Gallina nat expression over nl nc bnl bnc and the index parameters"""
    e = e.strip()
    if arg:
        e = re.sub(r"\b%s\.nlin\(\)" % re.escape(arg), "bnl", e); e = re.sub(r"\b%s\.ncol\(\)" % re.escape(arg), "bnc", e)
        e = re.sub(r"\b%s\.size\(\)" % re.escape(arg), "bsz", e)
    e = re.sub(r"\bnlin\(\)", "nl", e); e = re.sub(r"\bncol\(\)", "nl" if cls == "Sym" else "nc", e); e = re.sub(r"\bsize\(\)", SIZE_OF[cls], e)
    e = re.sub(r"\bsizet_to_int\b", "", e)
    for k, v in env.items(): e = re.sub(r"\b%s\b" % re.escape(k), "(%s)" % v, e)
    for tok in re.findall(r"[A-Za-z_]\w*", e):
        if tok not in ("nl", "nc", "bnl", "bnc", "bsz") and tok not in idx: raise Problem("unknown identifier `%s` in `%s`" % (tok, e))
    if re.search(r"[^\w\s()+*/]", e): raise Problem("unsupported operator in `%s`" % e)
    return "(%s)" % e

def translate_l1(name, body, plist, routine, cls):
    from t_accessors import params
    body = live_branch(body)
    ps = params(plist)
    idx = [n for n, w in ps if w != "obj"]; objs = [n for n, w in ps if w == "obj"]
    arg = objs[0] if objs else None
    env = {}; copies = {}; result = None; zeroed = False; loopvar = None
    stmts = [x.strip() for x in re.split(r"[;{}]", body)]
    calls = []
    for st in stmts:
        m = re.match(r"^const\s+BLAS_INT\s+(\w+)\s*=\s*(.*)$", st, re.S)
        if m: env[m.group(1)] = nat_expr(m.group(2), cls, arg, env, idx); continue
        m = re.match(r"^(Vector|Matrix|SymMatrix)\s+(\w+)\s*\(\s*\*this\s*,\s*DEEP_COPY\s*\)$", st)
        if m: copies[m.group(2)] = "DeepCopyOfThis"; continue
        m = re.match(r"^(Vector|Matrix)\s+(\w+)\s*\((.*)\)$", st)
        if m and result is None and "DEEP_COPY" not in st: result = m.group(2); continue
        m = re.match(r"^for\s*\(\s*Index\s+(\w+)\s*=\s*0\s*$", st)
        if m: loopvar = m.group(1); continue
        if result and re.match(r"^%s\.set\(\s*0\.0\s*\)$" % re.escape(result), st): zeroed = True; continue
        m = re.search(r"(?:BLAS\(\s*(\w+)\s*,\s*\w+\s*\)|\b(DGER|DSPMV))\s*\((.*)\)\s*$", st, re.S)
        if m: calls.append(((m.group(1) or m.group(2)), split_args(m.group(3))))
    calls = [c for c in calls if c[0] == routine]
    if len(calls) != 1: raise Problem("%d %s calls found" % (len(calls), routine))
    a = calls[0][1]
    allidx = idx + ([loopvar] if loopvar else [])
    def n(x): return nat_expr(x, cls, arg, env, allidx)
    def ptr(x):
        x = x.replace(" ", "")
        m = re.match(r"^(?:(\w+)\.)?data\(\)(?:\+(.*))?$", x)
        if not m: raise Problem("unknown pointer `%s`" % x)
        o = m.group(1)
        b = "This" if o is None else "Arg" if o == arg else copies.get(o) or ("Res" if o == result else None)
        if b is None: raise Problem("unknown buffer `%s`" % x)
        return b, (n(m.group(2)) if m.group(2) else "0")
    def unit(x):
        if x.replace(" ", "") != "1": raise Problem("non-unit increment `%s`" % x)
    sig = "(nl nc bnl bnc bsz%s : nat)" % ("".join(" " + i for i in allidx))
    if routine == "daxpy":
        if len(a) != 6: raise Problem("unexpected daxpy argument list %s" % a)
        unit(a[3]); unit(a[5]); (bx, ox), (by, oy) = ptr(a[2]), ptr(a[4])
        if ox != "0" or oy != "0": raise Problem("offset in daxpy")
        al = a[1].replace(" ", "")
        if al not in ("1", "1.0", "-1", "-1.0"): raise Problem("daxpy alpha `%s`" % al)
        return "Definition %s_call %s : axpy_call := {| a_n := %s; a_alpha := %s; a_x := %s; a_y := %s |}." % (name, sig, n(a[0]), "1%Z" if al[0] != "-" else "(-1)%Z", bx, by)
    if routine == "ddot":
        if len(a) != 5: raise Problem("unexpected ddot argument list %s" % a)
        unit(a[2]); unit(a[4]); (bx, ox), (by, oy) = ptr(a[1]), ptr(a[3])
        if ox != "0" or oy != "0": raise Problem("offset in ddot")
        return "Definition %s_call %s : dot_call := {| d_n := %s; d_x := %s; d_y := %s |}." % (name, sig, n(a[0]), bx, by)
    if routine == "dnrm2":
        if len(a) != 3: raise Problem("unexpected dnrm2 argument list %s" % a)
        unit(a[2]); bx, ox = ptr(a[1])
        if ox != "0": raise Problem("offset in dnrm2")
        return "Definition %s_call %s : dot_call := {| d_n := %s; d_x := %s; d_y := %s |}." % (name, sig, n(a[0]), bx, bx)
    if routine == "dscal":
        if len(a) != 4: raise Problem("unexpected dscal argument list %s" % a)
        unit(a[3]); bx, ox = ptr(a[2])
        if ox != "0" or not re.match(r"^\w+$", a[1].strip()): raise Problem("unexpected dscal arguments")
        return "Definition %s_call %s : scal_call := {| s1_n := %s; s1_x := %s |}." % (name, sig, n(a[0]), bx)
    if routine == "dcopy":
        if len(a) != 5: raise Problem("unexpected dcopy argument list %s" % a)
        (bs, os_), (bd, od) = ptr(a[1]), ptr(a[3])
        return "Definition %s_call %s : copy_call := {| k_n := %s; k_src := %s; k_soff := %s; k_sinc := %s; k_dst := %s; k_doff := %s; k_dinc := %s |}." % (
            name, sig, n(a[0]), bs, os_, n(a[2]), bd, od, n(a[4]))
    if routine == "DGER":
        if len(a) != 9 or a[2].strip() != "1.0": raise Problem("unexpected DGER argument list %s" % a)
        unit(a[4]); unit(a[6]); (bx, ox), (by, oy), (ba, oa) = ptr(a[3]), ptr(a[5]), ptr(a[7])
        if ba != "Res" or not zeroed or ox != "0" or oy != "0" or oa != "0": raise Problem("DGER must accumulate into the zeroed result")
        return "Definition %s_call %s : ger_call := {| g_m := %s; g_n := %s; g_x := %s; g_y := %s; g_lda := %s |}." % (name, sig, n(a[0]), n(a[1]), bx, by, n(a[8]))
    if routine == "DSPMV":
        if len(a) != 9 or a[0].strip() != "CblasUpper" or a[2].strip() != "1.0" or a[6].strip() != "0.0": raise Problem("unexpected DSPMV argument list %s" % a)
        unit(a[5]); unit(a[8]); (bp, op), (bx, ox), (by, oy) = ptr(a[3]), ptr(a[4]), ptr(a[7])
        if by != "Res" or op != "0" or ox != "0" or oy != "0": raise Problem("unexpected DSPMV buffers")
        return "Definition %s_call %s : spmv_call := {| p_n := %s; p_ap := %s; p_x := %s |}." % (name, sig, n(a[1]), bp, bx)
    raise Problem("unknown routine")

def generate(repo_root, out_dir):
    problems = []; defs = []
    inc = os.path.join(repo_root, "OpenMEEGMaths", "include")
    for name, f, hre, routine, st, sa in SITES:
        try:
            src = strip_comments(open(os.path.normpath(os.path.join(inc, f))).read())
            m, body = find_body(src, hre, 0)
            defs.append(translate(name, body, m.group(1), routine, st, sa))
        except Problem as e:
            problems.append("%s (%s): %s" % (name, f, e)); defs.append("(* %s: NOT TRANSLATED: %s *)" % (name, e))
    for name, f, hre, routine, cls in L1SITES:
        try:
            src = strip_comments(open(os.path.normpath(os.path.join(inc, f))).read())
            m, body = find_body(src, hre, 0)
            defs.append(translate_l1(name, body, m.group(1), routine, cls))
        except Problem as e:
            problems.append("%s (%s): %s" % (name, f, e)); defs.append("(* %s: NOT TRANSLATED: %s *)" % (name, e))
    txt = ["(* GENERATED by translators/t_blascalls.py from OpenMEEGMaths/include/matrix.h and src/symmatrix.cpp -- do not edit.",
           "   The DGEMM / DGEMV / DSYMM call of each method as a function of the operand shapes: nl nc = receiver (a SymMatrix has",
           "   nc = nl), bnl bnc = argument.  Buffers: This / Arg = the operands' own buffers, CopyOfThis / CopyOfArg = the dense",
           "   copy `Matrix D(...)` of a symmetric operand.  c_rows/c_cols (v_len) = shape of the allocated result;",
           "   v_zero_init = the result vector is cleared before the call. *)",
           "From Coq Require Import ZArith.",
           "Inductive bufid := This | Arg | CopyOfThis | CopyOfArg | DeepCopyOfThis | Res.",
           "(* level 1: unit increments and zero offsets except dcopy; bsz = size() of the argument; index parameters by name *)",
           "Record axpy_call := { a_n : nat; a_alpha : Z; a_x : bufid; a_y : bufid }.",
           "Record dot_call := { d_n : nat; d_x : bufid; d_y : bufid }.",
           "Record scal_call := { s1_n : nat; s1_x : bufid }.",
           "Record copy_call := { k_n : nat; k_src : bufid; k_soff : nat; k_sinc : nat; k_dst : bufid; k_doff : nat; k_dinc : nat }.",
           "Record ger_call := { g_m : nat; g_n : nat; g_x : bufid; g_y : bufid; g_lda : nat }.",
           "Record spmv_call := { p_n : nat; p_ap : bufid; p_x : bufid }.",
           "Record gemm_call := { c_ta : bool; c_tb : bool; c_m : nat; c_n : nat; c_k : nat; c_a : bufid; c_lda : nat; c_b : bufid; c_ldb : nat; c_ldc : nat; c_rows : nat; c_cols : nat }.",
           "Record gemv_call := { v_ta : bool; v_m : nat; v_n : nat; v_a : bufid; v_lda : nat; v_len : nat; v_zero_init : bool }.",
           "Record symm_call := { s_left : bool; s_m : nat; s_n : nat; s_a : bufid; s_lda : nat; s_b : bufid; s_ldb : nat; s_ldc : nat; s_rows : nat; s_cols : nat }.",
           ""] + defs + [""]
    gencoq.put(os.path.join(out_dir, "GenBlasCalls.v"), "\n".join(txt))
    return problems

if __name__ == "__main__":
    import ombuild
    for p in generate(ombuild.REPO, os.path.join(os.path.dirname(os.path.dirname(os.path.abspath(__file__))), "coq", "Gen")): print("PROBLEM:", p)
