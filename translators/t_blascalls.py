#!/usr/bin/env python3
"""T1: the level-2/3 BLAS call sites of Matrix / SymMatrix (DGEMM, DGEMV, DSYMM) are tokenised from the CURRENT sources:
the `const BLAS_INT X = sizet_to_int(e);` bindings, the allocation of the result (`Matrix C(e1,e2);`, `Vector res(e);`),
the dense copies (`Matrix D(B);`, `Matrix D(*this);`) and the argument list of the call.  Output: coq/Gen/GenBlasCalls.v,
one record per method as a function of the operand shapes.  Properties_C13.v proves (by computation) that the executable
model makes exactly these calls, so changing a flag, a dimension or a leading dimension in the source changes the theorem.
Anything outside the expected shape is reported as a problem, never guessed."""
import os, re, sys
SERVES = ("C13", "C18",)   # properties whose check reports this translator's problems (lib/gencoq.py, core.Check.proofs)
sys.path.insert(0, os.path.join(os.path.dirname(os.path.dirname(os.path.abspath(__file__))), "lib"))
import gencoq
sys.path.insert(0, os.path.dirname(os.path.abspath(__file__)))
from t_accessors import strip_comments, live_branch, find_body, Problem

DIM = {"nlin()": "nl", "ncol()": "nc", "size()": "sz"}
def dim(e, arg, sym_this=False, sym_arg=False):
    e = e.replace(" ", "")
    m = re.match(r"^sizet_to_int\((.*)\)$", e)
    if m: e = m.group(1)
    if e in ("nlin()",): return "nl"
    if e in ("ncol()",): return "nl" if sym_this else "nc"
    for f, t in (("nlin()", "bnl"), ("ncol()", "bnl" if sym_arg else "bnc")):
        if arg and e == "%s.%s" % (arg, f): return t
    raise Problem("unknown dimension expression `%s`" % e)

def split_args(s):
    out = []; depth = 0; cur = ""
    for ch in s:
        if ch == "(": depth += 1
        if ch == ")": depth -= 1
        if ch == "," and depth == 0: out.append(cur.strip()); cur = ""
        else: cur += ch
    out.append(cur.strip()); return out

# (coq name, file, header regex, routine, receiver is symmetric, argument is symmetric)
SITES = [
  ("Matrix_mult",     "matrix.h", r"Matrix\s+Matrix::operator\*\s*\(const Matrix&\s*(\w+)\)\s*const\s*\{", "DGEMM", False, False),
  ("Matrix_tmult",    "matrix.h", r"Matrix\s+Matrix::tmult\s*\(const Matrix&\s*(\w+)\)\s*const\s*\{", "DGEMM", False, False),
  ("Matrix_multt",    "matrix.h", r"Matrix\s+Matrix::multt\s*\(const Matrix&\s*(\w+)\)\s*const\s*\{", "DGEMM", False, False),
  ("Matrix_tmultt",   "matrix.h", r"Matrix\s+Matrix::tmultt\s*\(const Matrix&\s*(\w+)\)\s*const\s*\{", "DGEMM", False, False),
  ("Matrix_mulv",     "matrix.h", r"Vector\s+Matrix::operator\*\s*\(const Vector&\s*(\w+)\)\s*const\s*\{", "DGEMV", False, False),
  ("Matrix_tmulv",    "matrix.h", r"Vector\s+Matrix::tmult\s*\(const Vector&\s*(\w+)\)\s*const\s*\{", "DGEMV", False, False),
  ("Matrix_mult_sym", "matrix.h", r"Matrix\s+Matrix::operator\*\s*\(const SymMatrix&\s*(\w+)\)\s*const\s*\{", "DSYMM", False, True),
  ("Sym_mult",        "../src/symmatrix.cpp", r"Matrix\s+SymMatrix::operator\*\s*\(const Matrix&\s*(\w+)\)\s*const\s*\{", "DSYMM", True, False),
  ("Sym_mult_sym",    "../src/symmatrix.cpp", r"Matrix\s+SymMatrix::operator\*\s*\(const SymMatrix&\s*(\w+)\)\s*const\s*\{", "DSYMM", True, True),
]

def translate(name, body, arg, routine, sym_this, sym_arg):
    body = live_branch(body)
    env = {}; copies = {}; result = None; zero_init = False
    stmts = [s.strip() for s in body.split(";")]
    call = None
    for s in stmts:
        m = re.match(r"^const\s+BLAS_INT\s+(\w+)\s*=\s*(.*)$", s, re.S)
        if m: env[m.group(1)] = dim(m.group(2), arg, sym_this, sym_arg); continue
        m = re.match(r"^Matrix\s+(\w+)\s*\(\s*(\*this|\w+)\s*\)$", s)
        if m:
            src = m.group(2)
            if src == "*this": copies[m.group(1)] = "CopyOfThis"
            elif src == arg: copies[m.group(1)] = "CopyOfArg"
            else: raise Problem("dense copy of unknown object `%s`" % src)
            continue
        m = re.match(r"^Matrix\s+(\w+)\s*\((.*),(.*)\)$", s)
        if m and result is None: result = (m.group(1), dim(m.group(2), arg, sym_this, sym_arg), dim(m.group(3), arg, sym_this, sym_arg)); continue
        m = re.match(r"^Vector\s+(\w+)\s*\((.*)\)$", s)
        if m and result is None: result = (m.group(1), dim(m.group(2), arg, sym_this, sym_arg), None); continue
        if result and re.match(r"^for\s*\(", s) : pass
        if result and re.search(r"%s\.data\(\)\[\w+\]\s*=\s*0\.0$" % re.escape(result[0]), s): zero_init = True; continue
        m = re.match(r"^%s\s*\((.*)\)$" % routine, s, re.S)
        if m:
            if call is not None: raise Problem("two %s calls" % routine)
            call = split_args(m.group(1)); continue
    if call is None: raise Problem("no %s call found" % routine)
    if result is None: raise Problem("result allocation not found")
    def d(x):
        x = x.replace(" ", "")
        if x in env: return env[x]
        return dim(x, arg, sym_this, sym_arg)
    def buf(x):
        x = x.replace(" ", "")
        if x == "data()": return "This"
        m = re.match(r"^(\w+)\.data\(\)$", x)
        if not m: raise Problem("unknown buffer `%s`" % x)
        if m.group(1) == arg: return "Arg"
        if m.group(1) in copies: return copies[m.group(1)]
        if m.group(1) == result[0]: return "Res"
        raise Problem("unknown buffer `%s`" % x)
    tr = {"CblasNoTrans": "false", "CblasTrans": "true"}
    if routine == "DGEMM":
        if len(call) != 13 or call[5] != "1.0" or call[10] != "0.0" or buf(call[11]) != "Res": raise Problem("unexpected DGEMM argument list %s" % call)
        if call[0] not in tr or call[1] not in tr: raise Problem("unknown transposition flag")
        rec = "{| c_ta := %s; c_tb := %s; c_m := %s; c_n := %s; c_k := %s; c_a := %s; c_lda := %s; c_b := %s; c_ldb := %s; c_ldc := %s; c_rows := %s; c_cols := %s |}" % (
            tr[call[0]], tr[call[1]], d(call[2]), d(call[3]), d(call[4]), buf(call[6]), d(call[7]), buf(call[8]), d(call[9]), d(call[12]), result[1], result[2])
        return "Definition %s_call (nl nc bnl bnc : nat) : gemm_call := %s." % (name, rec)
    if routine == "DGEMV":
        if len(call) != 11 or call[3] != "1.0" or call[8] != "0.0" or call[7] != "1" or call[10] != "1" or buf(call[9]) != "Res" or buf(call[6]) != "Arg": raise Problem("unexpected DGEMV argument list %s" % call)
        if call[0] not in tr: raise Problem("unknown transposition flag")
        rec = "{| v_ta := %s; v_m := %s; v_n := %s; v_a := %s; v_lda := %s; v_len := %s; v_zero_init := %s |}" % (
            tr[call[0]], d(call[1]), d(call[2]), buf(call[4]), d(call[5]), result[1], "true" if zero_init else "false")
        return "Definition %s_call (nl nc bnl bnc : nat) : gemv_call := %s." % (name, rec)
    if routine == "DSYMM":
        if len(call) != 12 or call[4] != "1.0" or call[9] != "0.0" or buf(call[10]) != "Res" or call[1] != "CblasUpper": raise Problem("unexpected DSYMM argument list %s" % call)
        side = {"CblasLeft": "true", "CblasRight": "false"}
        if call[0] not in side: raise Problem("unknown side")
        rec = "{| s_left := %s; s_m := %s; s_n := %s; s_a := %s; s_lda := %s; s_b := %s; s_ldb := %s; s_ldc := %s; s_rows := %s; s_cols := %s |}" % (
            side[call[0]], d(call[2]), d(call[3]), buf(call[5]), d(call[6]), buf(call[7]), d(call[8]), d(call[11]), result[1], result[2])
        return "Definition %s_call (nl nc bnl bnc : nat) : symm_call := %s." % (name, rec)
    raise Problem("unknown routine")

def generate(repo_root, out_dir):
    problems = []; defs = []
    inc = os.path.join(repo_root, "OpenMEEGMaths", "include")
    for name, f, hre, routine, st, sa in SITES:
        try:
            src = strip_comments(open(os.path.normpath(os.path.join(inc, f))).read())
            m, body = find_body(src, hre, 0)
            defs.append(translate(name, body, m.group(1), routine, st, sa))
        except Problem as e:
            problems.append("%s (%s): %s" % (name, f, e)); defs.append("(* %s: NOT TRANSLATED: %s *)" % (name, e))
    txt = ["(* GENERATED by translators/t_blascalls.py from OpenMEEGMaths/include/matrix.h and src/symmatrix.cpp -- do not edit.",
           "   The DGEMM / DGEMV / DSYMM call of each method as a function of the operand shapes: nl nc = receiver (a SymMatrix has",
           "   nc = nl), bnl bnc = argument.  Buffers: This / Arg = the operands' own buffers, CopyOfThis / CopyOfArg = the dense",
           "   copy `Matrix D(...)` of a symmetric operand.  c_rows/c_cols (v_len) = shape of the allocated result;",
           "   v_zero_init = the result vector is cleared before the call. *)",
           "Inductive bufid := This | Arg | CopyOfThis | CopyOfArg.",
           "Record gemm_call := { c_ta : bool; c_tb : bool; c_m : nat; c_n : nat; c_k : nat; c_a : bufid; c_lda : nat; c_b : bufid; c_ldb : nat; c_ldc : nat; c_rows : nat; c_cols : nat }.",
           "Record gemv_call := { v_ta : bool; v_m : nat; v_n : nat; v_a : bufid; v_lda : nat; v_len : nat; v_zero_init : bool }.",
           "Record symm_call := { s_left : bool; s_m : nat; s_n : nat; s_a : bufid; s_lda : nat; s_b : bufid; s_ldb : nat; s_ldc : nat; s_rows : nat; s_cols : nat }.",
           ""] + defs + [""]
    gencoq.put(os.path.join(out_dir, "GenBlasCalls.v"), "\n".join(txt))
    return problems

if __name__ == "__main__":
    import ombuild
    for p in generate(ombuild.REPO, os.path.join(os.path.dirname(os.path.dirname(os.path.abspath(__file__))), "coq", "Gen")): print("PROBLEM:", p)
