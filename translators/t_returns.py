#!/usr/bin/env python3
"""Where does the object returned by each value-returning method of Vector / Matrix / SymMatrix come from?
For every function of vector.h, vector.cpp, matrix.h, matrix.cpp, symmatrix.h, symmatrix.cpp, matop.h whose return type is
Vector, Matrix or SymMatrix BY VALUE, every `return e;` of the live (HAVE_BLAS/HAVE_LAPACK) branch is classified:
  Fresh      e is a local declared with a sized constructor `T x(n)`, `T x(m,n)` or a deep copy `T x(y,DEEP_COPY)`
  Composite  e is an expression built from other value-returning methods / operators (fresh by their own entry)
  SharedWithReceiver / SharedWithArgument   e is (a plain copy of) *this / a parameter: the result shares its buffer
(copy constructors of these classes share the LinOpValue buffer).  Output: coq/Gen/GenReturns.v; Properties_C13.v proves that
every entry except the documented in-place solver is Fresh or Composite.  Unknown shapes are reported, never guessed."""
import os, re, sys
SERVES = ("C13",)   # properties whose check reports this translator's problems
sys.path.insert(0, os.path.join(os.path.dirname(os.path.dirname(os.path.abspath(__file__))), "lib"))
sys.path.insert(0, os.path.dirname(os.path.abspath(__file__)))
import gencoq
from t_accessors import strip_comments, live_branch, Problem

FILES = ["include/vector.h", "src/vector.cpp", "include/matrix.h", "src/matrix.cpp", "include/symmatrix.h", "src/symmatrix.cpp", "include/matop.h"]
CLASSES = ("Vector", "Matrix", "SymMatrix")
HEAD = re.compile(r"(?:^|[\s;{}])(?:inline\s+|static\s+|OPENMEEGMATHS_EXPORT\s+)*(Vector|Matrix|SymMatrix)\s+((?:\w+::)?(?:operator\s*\(\s*\)|operator\s*[-+*/=]+|\w+))\s*\(([^()]*(?:\([^()]*\)[^()]*)*)\)\s*(const)?\s*\{")
# documented exception: solves in place in its (non-const) argument and returns it
ALLOWED_SHARED = {"SymMatrix_solveLin_Matrix"}

def body_at(src, k):
    depth = 0
    for p in range(k, len(src)):
        if src[p] == "{": depth += 1
        elif src[p] == "}":
            depth -= 1
            if depth == 0: return src[k + 1:p]
    raise Problem("unbalanced braces")

def split_top(s):
    out = []; depth = 0; cur = ""
    for ch in s:
        if ch in "(<": depth += 1
        if ch in ")>": depth -= 1
        if ch == "," and depth == 0: out.append(cur.strip()); cur = ""
        else: cur += ch
    if cur.strip(): out.append(cur.strip())
    return out

def classify(expr, body, objparams):
    e = expr.strip()
    if re.match(r"^[A-Za-z_]\w*$", e):
        if e in objparams: return "SharedWithArgument"
        decls = re.findall(r"(?:^|[;{}\s])(?:const\s+)?(Vector|Matrix|SymMatrix)\s+%s\s*(?:\(([^;]*)\))?\s*;" % re.escape(e), body)
        if not decls: raise Problem("returned identifier `%s` has no recognised declaration" % e)
        kinds = set()
        for ty, args in decls:
            a = split_top(args or "")
            if not a: raise Problem("`%s` is default-constructed and returned" % e)
            if a[-1] == "DEEP_COPY": kinds.add("Fresh"); continue
            first = a[0].replace(" ", "")
            if first == "*this": kinds.add("SharedWithReceiver"); continue
            if first in objparams: kinds.add("SharedWithArgument"); continue
            if re.match(r"^[A-Za-z_]\w*$", first) and re.search(r"(?:Vector|Matrix|SymMatrix)\s+%s\b" % re.escape(first), body):
                kinds.add("SharedWithReceiver"); continue      # copy of another local object: shares with whatever that one shares with
            if re.search(r"\.transpose\(\)|\.inverse\(\)|\*", first) and len(a) == 2 and not re.search(r"nlin|ncol|size", first):
                raise Problem("`%s` built from an object expression `%s`" % (e, first))
            kinds.add("Fresh")                                  # sized constructor: T x(n) / T x(m,n)
        return "; ".join(sorted(kinds))        # several declarations of the returned name (different scopes): all of them count
    if e == "*this": return "SharedWithReceiver"
    if re.search(r"[*(]", e): return "Composite"
    raise Problem("unrecognised return expression `%s`" % e)

def generate(repo_root, out_dir):
    problems = []; entries = []
    base = os.path.join(repo_root, "OpenMEEGMaths")
    seen = {}
    for f in FILES:
        try:
            src = strip_comments(open(os.path.join(base, f)).read())
        except OSError as ex:
            problems.append("%s: %s" % (f, ex)); continue
        for m in HEAD.finditer(src):
            ty, name, plist, const = m.group(1), m.group(2), m.group(3), m.group(4)
            if name.split("::")[-1] in CLASSES: continue
            cls = name.split("::")[0] if "::" in name else None
            if cls is None:
                # inline definition inside a class body: find the enclosing class
                pre = src[:m.start()]
                cm = list(re.finditer(r"class\s+(?:OPENMEEGMATHS_EXPORT\s+)?(\w+)\s*:", pre))
                cls = cm[-1].group(1) if cm else "free"
                if f.endswith("matop.h") or f.endswith("vector.h") and name.startswith("operator") and "const Vector& v" in plist and "double" in plist: cls = "free"
            short = name.split("::")[-1]
            short = {"operator()": "block", "operator+": "plus", "operator-": "minus", "operator*": "times", "operator/": "div"}.get(re.sub(r"\s+", "", short), re.sub(r"\W", "_", short))
            ptypes = [re.sub(r"^(const\s+)?", "", p.strip()).split("&")[0].split()[0] if p.strip() else "" for p in split_top(plist)]
            tag = "%s_%s_%s" % (cls, short, "_".join(t for t in ptypes if t) or "void")
            tag = re.sub(r"\W", "_", tag)
            objparams = [re.split(r"[&\s]", p.strip())[-1] for p in split_top(plist) if re.search(r"\b(Vector|Matrix|SymMatrix)\s*&", p)]
            try:
                body = live_branch(body_at(src, src.index("{", m.end() - 1)))
                rets = re.findall(r"\breturn\s+([^;]+);", body)
                if not rets: raise Problem("no return statement")
                kinds = [classify(r, body, objparams) for r in rets]
            except Problem as ex:
                problems.append("%s (%s): %s" % (tag, f, ex)); continue
            if tag in seen: tag = tag + "_2"
            seen[tag] = 1
            entries.append((tag, f, kinds))
    if len(entries) < 40: problems.append("only %d value-returning methods recognised (expected about 50): the header pattern no longer matches" % len(entries))
    txt = ["(* GENERATED by translators/t_returns.py -- do not edit.  Origin of the object returned by every value-returning method",
           "   of Vector / Matrix / SymMatrix (one entry per `return` statement of the live branch). *)",
           "From Coq Require Import List. Import ListNotations.",
           "Inductive origin := Fresh | Composite | SharedWithReceiver | SharedWithArgument.", ""]
    for tag, f, kinds in entries:
        txt.append("Definition ret_%s : list origin := [%s].   (* %s *)" % (tag, "; ".join(kinds), f))
    txt.append("")
    txt.append("Definition value_returning_methods : list (list origin) := [%s]." % "; ".join("ret_" + t for t, _, _ in entries if t not in ALLOWED_SHARED))
    txt.append("Definition in_place_solvers : list (list origin) := [%s]." % "; ".join("ret_" + t for t, _, _ in entries if t in ALLOWED_SHARED))
    txt.append("")
    gencoq.put(os.path.join(out_dir, "GenReturns.v"), "\n".join(txt))
    return problems

if __name__ == "__main__":
    import ombuild
    for p in generate(ombuild.REPO, os.path.join(os.path.dirname(os.path.dirname(os.path.abspath(__file__))), "coq", "Gen")): print("PROBLEM:", p)
