"""C17 translator: reads the statements the state-machine models depend on from the current sources and emits
coq/Gen/GenC17.v (which variant of each machine the code is).  Pattern based; an unrecognised shape is a problem
(never guessed)."""
import os, re, sys
SERVES = ("C17",)   # properties whose check reports this translator's problems (lib/gencoq.py, core.Check.proofs)
sys.path.insert(0, os.path.join(os.path.dirname(os.path.dirname(os.path.abspath(__file__))), "lib"))
import gencoq

def strip(src):
    src = re.sub(r"/\*.*?\*/", " ", src, flags=re.S)
    src = re.sub(r"//[^\n]*", " ", src)
    return src

def body_after(src, header_re):
    """text of the brace block following the first match of header_re"""
    m = re.search(header_re, src)
    if not m: return None
    i = src.find("{", m.end() - 1)
    if i < 0: return None
    d = 0
    for j in range(i, len(src)):
        if src[j] == "{": d += 1
        elif src[j] == "}":
            d -= 1
            if d == 0: return src[i + 1:j]
    return None

def norm(s): return re.sub(r"\s+", "", s)

def once(body, tok, what, problems):
    n = body.count(tok)
    if n != 1:
        problems.append("%s: expected exactly one `%s`, found %d" % (what, tok, n)); return None
    return body.find(tok)

def generate(repo, out):
    pr = []
    rd = lambda p: strip(open(os.path.join(repo, p)).read())
    b = lambda x: "true" if x else "false"
    # ---- MathsIO.C operator>> / operator<< / ReadTag
    mio = rd("OpenMEEGMaths/src/MathsIO.C")
    flags = {}
    for nm, hdr, stream in (("read", r"operator>>\s*\(\s*maths::ifstream&\s*mio\s*,\s*LinOp&\s*linop\s*\)\s*\{", "std::ifstream is("),
                            ("write", r"operator<<\s*\(\s*maths::ofstream&\s*mio\s*,\s*const\s+LinOp&\s*linop\s*\)\s*\{", "std::ofstream os(")):
        body = body_after(mio, hdr)
        if body is None: pr.append("MathsIO.C: %s operator not found" % nm); continue
        pg = once(body, "GetCurrentFormat()", "operator " + nm, pr); po = once(body, stream, "operator " + nm, pr)
        pt = once(body, "throw BadFileOpening", "operator " + nm, pr)
        if None in (pg, po, pt): continue
        if not (po < pt): pr.append("operator %s: BadFileOpening is not thrown right after the open" % nm)
        if po < pg < pt: pr.append("operator %s: GetCurrentFormat() between the open and the throw: unknown shape" % nm)
        flags[nm] = pg < po
    if len(flags) == 2 and flags["read"] != flags["write"]: pr.append("operator>> and operator<< consume the format at different points")
    consume_before_open = flags.get("read", False) and flags.get("write", False)
    tag = body_after(mio, r"ReadTag\s*\(\s*std::istream&\s*is\s*\)\s*\{")
    tag_at_gcount = False
    if tag is None: pr.append("MathsIO.C: ReadTag not found")
    else:
        t = norm(tag)
        if "staticcharbuffer[maxtagsize+1];" not in t: pr.append("ReadTag: the static buffer declaration changed")
        if "buffer[maxtagsize]='\\0';" in t and "gcount" not in t: tag_at_gcount = False
        elif re.search(r"constintn=static_cast<int>\(is\.gcount\(\)\);", t) and "buffer[n]='\\0';" in t and "for(inti=n-1;i>=0;--i)is.putback(buffer[i]);" in t: tag_at_gcount = True
        else: pr.append("ReadTag: termination of the tag buffer not recognised")
    # what ReadTag returns and what the text format requires of it (C07's fix): both or neither
    whole_tag = False
    if tag is not None:
        t = norm(tag)
        ret_all = "ntag=n;" in t and t.rstrip("}").endswith("returnstd::string(buffer,ntag);")
        ret_cstr = t.endswith("returnstd::string(buffer);")
        if not (ret_all or ret_cstr): pr.append("ReadTag: return statement not recognised")
        ab = body_after(rd("OpenMEEGMaths/include/AsciiIO.H"), r"bool\s+identify\s*\(\s*const\s+std::string&\s*buffer\s*\)\s*const\s*\{")
        if ab is None: pr.append("AsciiIO.H: identify not found")
        else:
            a = norm(ab); NUM = "doubletmp;std::stringstreamss(buffer);return(ss>>tmp)?true:false;"
            PRINT = "for(constunsignedcharc:buffer)if(!std::isprint(c)&&!std::isspace(c))returnfalse;"
            if a == PRINT + NUM: text_check = True
            elif a == NUM: text_check = False
            else: pr.append("AsciiIO::identify: body not recognised"); text_check = None
            if text_check is not None:
                if text_check != ret_all: pr.append("ReadTag returns %s but AsciiIO::identify %s every byte" % ("the whole tag" if ret_all else "the tag up to the first NUL", "checks" if text_check else "does not check"))
                whole_tag = ret_all and text_check
    mh = rd("OpenMEEGMaths/include/MathsIO.H")
    g = body_after(mh, r"static\s+IO\s+GetCurrentFormat\s*\(\s*\)\s*\{")
    get_resets = g is not None and norm(g) == "IOtmp=DefaultIO;if(!permanent)DefaultIO=0;returntmp;"
    if not get_resets: pr.append("MathsIO.H: GetCurrentFormat is not `tmp=DefaultIO; if(!permanent) DefaultIO=0; return tmp;`")
    # ---- X::load / X::save
    shape_ok = True
    LOAD = "maths::ifstreamifs(filename);try{ifs>>maths::format(filename,maths::format::FromSuffix)>>*this;}catch(maths::Exception&){ifs>>*this;}"
    SAVE = "maths::ofstreamofs(filename);try{ofs<<maths::format(filename,maths::format::FromSuffix)<<*this;}catch(maths::Exception&){ofs<<*this;}"
    sparse_clears = False
    for f, cls in (("OpenMEEGMaths/src/matrix.cpp", "Matrix::"), ("OpenMEEGMaths/src/symmatrix.cpp", "SymMatrix::"), ("OpenMEEGMaths/src/vector.cpp", "Vector::"), ("OpenMEEGMaths/include/sparse_matrix.h", "")):
        src = rd(f)
        for meth, want in (("load", LOAD), ("save", SAVE)):
            body = body_after(src, r"void\s+%s%s\s*\(\s*const\s+char\*\s*filename\s*\)\s*(const\s*)?\{" % (re.escape(cls), meth))
            if body is None: pr.append("%s: %s%s(const char*) not found" % (f, cls, meth)); shape_ok = False; continue
            nb = norm(body)
            if cls == "" and meth == "load" and nb.startswith("m_tank.clear();"):
                sparse_clears = True; nb = nb[len("m_tank.clear();"):]
            if nb != want:
                pr.append("%s: %s%s does not have the try{format-from-suffix; io}catch(maths::Exception&){io} shape" % (f, cls, meth)); shape_ok = False
    # ---- Geometry::clear
    gh = rd("OpenMEEG/include/geometry.h")
    gc = body_after(gh, r"void\s+clear\s*\(\s*\)\s*\{")
    geom_fixed = False
    if gc is None: pr.append("geometry.h: clear() not found")
    else:
        st = set(x for x in norm(gc).split(";") if x)
        base = {"geom_vertices.clear()", "geom_meshes.clear()", "geom_domains.clear()", "nested=false", "outer_domain=0", "num_params=0"}
        derived = {"invalid_vertices_.clear()", "nb_current_barrier_triangles_=0", "independant_parts.clear()", "meshpairs.clear()"}
        if not base <= st: pr.append("Geometry::clear no longer resets %s" % sorted(base - st))
        if st - base - derived: pr.append("Geometry::clear: unknown statements %s" % sorted(st - base - derived))
        if derived <= st: geom_fixed = True
        elif st & derived: pr.append("Geometry::clear resets only part of the derived containers: missing %s" % sorted(derived - st))
    fb = body_after(gh, r"void\s+finalize\s*\(\s*const\s+bool\s+OLD_ORDERING\s*=\s*false\s*\)\s*\{")
    fin_fixed = False
    if fb is None: pr.append("geometry.h: finalize() not found")
    else:
        t = norm(fb); RESET = "invalid_vertices_.clear();independant_parts.clear();meshpairs.clear();for(auto&mesh:meshes()){mesh.outermost()=false;mesh.current_barrier()=false;mesh.isolated()=false;}"
        rest = t.replace(RESET, "", 1)
        if rest != "if(has_conductivities())mark_current_barriers();if(domains().size()!=0){set_outermost_domain(outermost_domain());check_geometry_is_nested();}generate_indices(OLD_ORDERING);make_mesh_pairs();#ifdefDEBUGfor(constauto&mesh:meshes())mesh.check_consistency(\"geometryfinalizestep\");#endif":
            pr.append("Geometry::finalize: statement sequence not recognised")
        fin_fixed = t.startswith(RESET)
        if not fin_fixed and RESET in t: pr.append("Geometry::finalize: the resets are not at the start")
    if fin_fixed != geom_fixed: pr.append("Geometry::clear and Geometry::finalize are not both repaired (clear: %s, finalize: %s)" % (geom_fixed, fin_fixed))
    geom_fixed = geom_fixed and fin_fixed
    # ---- Sensors::load(std::istream&)
    sc = rd("OpenMEEG/src/sensors.cpp")
    sb = body_after(sc, r"void\s+Sensors::load\s*\(\s*std::istream&\s*in\s*\)\s*\{")
    sens_fixed = False
    if sb is None: pr.append("sensors.cpp: Sensors::load(std::istream&) not found")
    else:
        t = norm(sb); p = t.find("m_positions=mat.submat(0,nlin,0,3);")
        if p < 0: pr.append("Sensors::load: assignment of m_positions not found")
        else:
            resets = ["m_nb=0;", "m_names.clear();", "m_triangles.clear();", "m_pointSensorIdx.clear();", "m_orientations=Matrix();", "m_weights=Vector();", "m_radii=Vector();"]
            have = [r for r in resets if 0 <= t.find(r) < p]
            if len(have) == len(resets): sens_fixed = True
            elif any(r in have for r in resets[1:]): pr.append("Sensors::load resets only part of the members before the first assignment: %s" % have)
        for need in ("m_names.push_back(names[i]);", "m_pointSensorIdx[i]=m_nb++;", "if(ncol>=6)m_orientations=mat.submat(0,nlin,3,3);"):
            if need not in t: pr.append("Sensors::load: statement `%s` not found" % need)
    # ---- Mesh::clear / Mesh::load / SurfSourceMat
    mc = rd("OpenMEEG/src/mesh.cpp")
    mb = body_after(mc, r"void\s+Mesh::clear\s*\(\s*\)\s*\{")
    mesh_flags = False; mesh_geom = False
    if mb is None: pr.append("mesh.cpp: Mesh::clear not found")
    else:
        st = set(x for x in norm(mb).split(";") if x)
        base = {"vertices().clear()", "triangles().clear()", "mesh_name.clear()", "vertex_triangles.clear()", "outermost_=false"}
        fl = {"current_barrier_=false", "isolated_=false"}
        if not base <= st: pr.append("Mesh::clear no longer resets %s" % sorted(base - st))
        rest = st - base - fl
        if rest: pr.append("Mesh::clear: unknown statements %s (the private geometry may now be cleared: update MeshState.v)" % sorted(rest))
        if fl <= st: mesh_flags = True
        elif st & fl: pr.append("Mesh::clear resets only one of current_barrier_/isolated_")
    ml = body_after(mc, r"void\s+Mesh::load\s*\(\s*const\s+std::string&\s*filename\s*,\s*const\s+bool\s+verbose\s*\)\s*\{")
    if ml is None or not norm(ml).startswith("clear();MeshIO*io=MeshIO::create(filename);"): pr.append("Mesh::load does not start with clear(); MeshIO::create")
    asm = rd("OpenMEEG/src/assembleSourceMat.cpp")
    sb2 = body_after(asm, r"Matrix\s+SurfSourceMat\s*\(\s*const\s+Geometry&\s*geo\s*,\s*Mesh&\s*source_mesh\s*,\s*const\s+Integrator&\s*integrator\s*\)\s*\{")
    marks = sb2 is not None and "source_mesh.outermost()=true;source_mesh.current_barrier()=true;" in norm(sb2)
    if not marks: pr.append("SurfSourceMat: the statements marking the source mesh were not found")
    # ---- reader registries: create() hands out a clone of the registered prototype, clone() makes a new reader
    cloned = True
    gio = norm(rd("OpenMEEG/include/GeometryIO.h")); mio_h = norm(rd("OpenMEEG/include/MeshIO.h"))
    if "staticGeometryIO*create(conststd::string&filename){conststd::string&extension=tolower(getFilenameExtension(filename));try{returnregistery.at(extension)->clone(filename);}catch(std::out_of_range&){throwUnknownFileSuffix(extension);}}" not in gio:
        pr.append("GeometryIO::create is not `return registery.at(extension)->clone(filename);`"); cloned = False
    if "staticMeshIO*create(conststd::string&filename){conststd::string&extension=tolower(getFilenameExtension(filename));returnregistery.at(extension)->clone(filename);}" not in mio_h:
        pr.append("MeshIO::create is not `return registery.at(extension)->clone(filename);`"); cloned = False
    import glob
    for f in sorted(glob.glob(os.path.join(repo, "OpenMEEG/include/GeometryIOs/*.h")) + glob.glob(os.path.join(repo, "OpenMEEG/include/MeshIOs/*.h"))):
        t = norm(strip(open(f).read()))
        for m in re.finditer(r"(GeometryIO|MeshIO)\*clone\(conststd::string&filename\)constoverride\{([^}]*)\}", t):
            if not re.fullmatch(r"returnnew\w+\(filename\);", m.group(2)):
                pr.append("%s: clone() does not return a new reader (`%s`)" % (os.path.basename(f), m.group(2))); cloned = False
    # ---- declared const-ness of the computations of the compute machine (operands: 0 geo 1 H 2 Hinv 3 dip 4 DSM 5 v2eeg 6 h2meg 7 ds2meg 8 rhsM 9 rhsV 10 eeg 11 meg)
    sym = norm(rd("OpenMEEGMaths/include/symmatrix.h")); gain = norm(rd("OpenMEEG/include/gain.h")); asm_h = norm(rd("OpenMEEG/include/assemble.h"))
    CAT = [("HeadMat", asm_h, "SymMatrixHeadMat(constGeometry&geo,", [0]),
           ("SymMatrix::solveLin(Matrix&)", sym, "MatrixsolveLin(Matrix&B)const;", [1, 8]),
           ("SymMatrix::solveLin(const Vector&)", sym, "VectorsolveLin(constVector&B)const;", [1, 9]),
           ("SymMatrix::inverse", sym, "SymMatrixinverse()const;", [1]),
           ("SymMatrix::operator*(Vector)", sym, "Vectoroperator*(constVector&v)const;", [1, 9]),
           ("GainEEG", gain, "GainEEG(constSymMatrix&HeadMatInv,constMatrix&SourceMat,constSparseMatrix&Head2EEGMat):", [2, 4, 5]),
           ("GainEEGadjoint", gain, "GainEEGadjoint(constGeometry&geo,constMatrix&dipoles,constSymMatrix&HeadMat,constSparseMatrix&Head2EEGMat):", [0, 3, 1, 5]),
           ("GainMEGadjoint", gain, "GainMEGadjoint(constGeometry&geo,constMatrix&dipoles,constSymMatrix&HeadMat,constMatrix&Head2MEGMat,constMatrix&Source2MEGMat):", [0, 3, 1, 6, 7]),
           ("GainEEGMEGadjoint", gain, "GainEEGMEGadjoint(constGeometry&geo,constMatrix&dipoles,constSymMatrix&HeadMat,constSparseMatrix&Head2EEGMat,constMatrix&Head2MEGMat,constMatrix&Source2MEGMat):", [0, 3, 1, 5, 6, 7]),
           ("GainMEG", gain, "GainMEG(constSymMatrix&HeadMatInv,constMatrix&SourceMat,constMatrix&Head2MEGMat,constMatrix&Source2MEGMat):", [2, 4, 6, 7]),
           ("DipSourceMat", asm_h, "DipSourceMat(constGeometry&geo,constMatrix&dipoles,conststd::string&domain_name);", [0, 3]),
           ("Head2EEGMat", asm_h, "SparseMatrixHead2EEGMat(constGeometry&geo,constSensors&electrodes);", [0, 10]),
           ("Head2MEGMat", asm_h, "MatrixHead2MEGMat(constGeometry&geo,constSensors&sensors);", [0, 11]),
           ("DipSource2MEGMat", asm_h, "MatrixDipSource2MEGMat(constMatrix&dipoles,constSensors&sensors);", [3, 11]),
           ("SymMatrix::operator*(Matrix)", sym, "Matrixoperator*(constMatrix&B)const;", [2, 4])]
    cat_lines = []
    for nm, src, sig, reads in CAT:
        ok = sig in src
        if not ok: pr.append("compute catalogue: the const signature of %s was not found (`%s`): its operands are treated as written" % (nm, sig))
        writes = [] if ok else [r for r in reads if not (nm == "SymMatrix::solveLin(Matrix&)" and r == 8)]
        cat_lines.append("  (%s, %s)" % ("[" + "; ".join("%d%%nat" % r for r in reads) + "]", "[" + "; ".join("%d%%nat" % w for w in writes) + "]"))
    txt = """(* GENERATED by translators/t_c17_state.py from the current sources - do not edit. *)
From OM Require Import Base.Lists Maths.IOState Geom.MeshState.
Definition code_io_cfg : cfg := {| consume_before_open := %s; tag_at_gcount := %s; whole_tag := %s |}.
Definition code_get_current_resets : bool := %s.
Definition code_load_save_retry_shape : bool := %s.
Definition code_sparse_load_clears : bool := %s.
Definition code_geometry_clear_resets_derived : bool := %s.
Definition code_sensors_load_resets : bool := %s.
Definition code_mesh_cfg : mcfg := {| clear_flags := %s; clear_private_geometry := %s |}.
Definition code_surfsource_marks_source : bool := %s.
Definition code_readers_are_cloned : bool := %s.
(* (operands read, operands declared non-const) of every computation of the compute machine, from the signatures *)
Definition code_compute_catalogue : list (list nat * list nat) := [
%s ].
""" % (b(consume_before_open), b(tag_at_gcount), b(whole_tag), b(get_resets), b(shape_ok), b(sparse_clears), b(geom_fixed), b(sens_fixed), b(mesh_flags), b(mesh_geom), b(marks), b(cloned), ";\n".join(cat_lines))
    gencoq.put(os.path.join(out, "GenC17.v"), txt)
    return pr
