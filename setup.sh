#!/bin/sh
# Build the framework from files on disk only: full .vo build of the Coq development,
# extraction of the executable models, OCaml driver. Offline.
set -e
cd "$(dirname "$0")"
python3 lib/gencoq.py 2>/dev/null || true    # translators: regenerate coq/Gen/*.v from /repo's current sources
cd coq
coq_makefile -f _CoqProject -o Makefile $(find . -name '*.v' | sed 's|^\./||' | sort) > /dev/null
timeout 3000 make -j16 > make.log 2>&1 || { grep -B2 -A12 'Error' make.log | head -80; exit 1; }
cd ..
./extract/build.sh
echo "setup ok"
