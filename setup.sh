#!/bin/sh
# Build the framework from files on disk only: full .vo build of the Coq development,
# extraction of the executable models, OCaml driver. Offline.
set -e
cd "$(dirname "$0")"
cd coq
coq_makefile -f _CoqProject -o Makefile $(find . -name '*.v' | sed 's|^\./||' | sort) > /dev/null
timeout 3000 make -j16 > make.log 2>&1 || { tail -30 make.log; exit 1; }
cd ../extract
timeout 900 coqc -Q ../coq OM Extract.v > /dev/null
ocamlfind ocamlopt -O3 -w -a model.mli model.ml driver.ml -o omm 2>/dev/null || ocamlfind ocamlopt -w -a model.mli model.ml driver.ml -o omm
echo "setup ok"
