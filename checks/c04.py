"""C04 — direct and adjoint gain computations give the same lead fields.

Theorems: coq/Props/Properties_C04.v (MathComp; exact algebra of gain.h over any field; LAPACK contract and C08's column
theorem as explicit premises).  Tie, on generated heads, against the library rebuilt from the working tree:
  (a) the property's own relation: GainEEG = GainEEGadjoint = GainEEGMEGadjoint(EEG), GainMEG = GainMEGadjoint =
      GainEEGMEGadjoint(MEG), solver class;
  (b) each of the six paths against the extracted float reference  P + A*solve(H,S)  (own pivoted elimination,
      Geom/GainFloat.v) fed with the operand matrices the library produced;
  (c) dipoles whose source column is exactly zero (non-conductive domain): EEG gain column exactly 0, MEG gain column
      bitwise the primary-field column, on every path -- also on heads whose head matrix is singular."""
import os, sys, json, math
import core, ombuild, models

PROP = "C04"
PATHS = ["GainEEG", "GainEEGadjoint", "GainEEGMEGadjoint(EEG)", "GainMEG", "GainMEGadjoint", "GainEEGMEGadjoint(MEG)"]
COND_MAX = 1e8
REL = 1e-12          # solver class: REL * max(cond,1e3) * scale   (pinned tree: 1e-15 observed)

def flat(l): return [x for t in l for x in t]

def nested_with_hole(rng):
    """nested head whose innermost domain contains a non-conductive inclusion"""
    n = rng.randint(1, 3); radii = [1.0]
    for _ in range(n - 1): radii.insert(0, radii[0] * rng.uniform(0.75, 0.9))
    m = models.nested(radii, [rng.choice([1.0, 0.0125, 0.33]) for _ in range(n)], 1)
    vi, ti = models.icosphere(1)
    r = 0.3 * radii[0]; off = (0.35 * radii[0], 0.0, 0.1 * radii[0])
    m["meshes"].append(("blob", models.transform(vi, r, off), list(ti)))
    m["interfaces"].append(("B0", [(+1, "blob")]))
    m["domains"][0] = ("D0", m["domains"][0][1] + [(+1, "B0")])
    m["domains"].append(("Hole", [(-1, "B0")])); m["cond"]["Hole"] = 0.0
    m["info"]["topology"] = "nested+nonconductive-hole"; m["info"]["hole"] = (off, r)
    return m

def gen_problem(rng, kind, quick, level=1, counts=None, layers=None):
    if kind == "hole": m = nested_with_hole(rng)
    elif kind == "nested":
        n = layers or rng.choice([1, 2, 2, 3, 3, 4]); radii = [1.0]            # 1 layer: singular head matrix on this tree (discarded, counted)
        for _ in range(n - 1): radii.insert(0, radii[0] * rng.uniform(0.7, 0.92))
        m = models.nested(radii, [rng.choice([1.0, 0.0125, 0.33, 1.79, rng.uniform(0.05, 5)]) for _ in range(n)], level); m["info"]["topology"] = "nested"
    else: m = models.random_model(rng, level, kinds=(kind,)); m["info"]["topology"] = kind
    R = m["info"]["outer_radius"]; c = m["info"].get("centre", (0, 0, 0))
    # declaration order of meshes / interfaces / domains in the .geom: as generated (innermost first), scalp first,
    # scalp in the middle, random -- the unknown indices (vertex 0, last vertex) then fall on different surfaces
    order = rng.choice(["as-generated", "reversed", "reversed", "rotated", "random"])
    for key in ("meshes", "interfaces", "domains"):
        l = list(m[key])
        if order == "reversed": l.reverse()
        elif order == "rotated": k = max(1, len(l) // 2); l = l[k:] + l[:k]
        elif order == "random": rng.shuffle(l)
        m[key] = l
    m["info"]["declaration_order"] = order
    ne = rng.choice([1, 1, 3, 8]); nm = rng.choice([1, 1, 4, 7]); nd = rng.choice([1, 1, 2, 5])
    if counts: ne, nm, nd = counts
    # electrodes: next to the first and the last vertex of every mesh of the interface that bounds Air (boundary unknown
    # indices 0 / last of the sensor operator), the rest anywhere on the scalp
    air = [b for n_, b in m["domains"] if n_ == "Air"]
    outer_ifaces = [i for s_, i in air[0]] if air else []
    outer_meshes = [mn for n_, ms in m["interfaces"] if n_ in outer_ifaces for s_, mn in ms]
    special = []
    for name, vs, ts in m["meshes"]:
        if name in outer_meshes:
            for vi in (0, len(vs) - 1):
                t = [t for t in ts if vi in t][rng.randrange(len([t for t in ts if vi in t]))]
                cen = tuple(sum(vs[a][k] for a in t) / 3.0 for k in range(3)); w = rng.choice([1.0, 0.97, 0.8])
                p = tuple(w * vs[vi][k] + (1 - w) * cen[k] for k in range(3))
                special.append(tuple(c[k] + 1.002 * (p[k] - c[k]) for k in range(3)))
    rng.shuffle(special)
    eeg = special[:ne] if rng.random() < 0.7 else []
    eeg += models.sensors_on_sphere(rng, ne - len(eeg), c, R)
    rng.shuffle(eeg)
    mpos = models.sensors_on_sphere(rng, nm, c, R * rng.uniform(1.15, 1.5)); mori = [models.random_unit(rng) for _ in mpos]
    # dipoles: inside the innermost region, away from the surfaces; for heads with a non-conductive part, some inside it
    dips = []
    info = m["info"]
    for _ in range(nd):
        if info.get("kind") == "nested": rad = 0.6 * info["radii"][0]; cen = c
        elif info.get("kind") == "split": rad = 0.35 * info["r_inner"]; cen = (c[0], c[1], c[2] + rng.choice([-0.45, 0.45]) * info["r_inner"])
        else: rad = 0.12 * R; cen = (c[0], c[1] + rng.choice([-0.5, 0.5]) * R, c[2])
        p, q = models.dipoles_in_ball(rng, 1, cen, rad, 0.9)
        if info.get("kind") == "nested" and rng.random() < 0.5:
            # close to the innermost interface (0.9-0.98 of its radius, but not closer than 0.04 of it to the facets of the
            # 42-vertex mesh, whose inscribed radius is ~0.93): the depth reached by the adaptive integration matters there
            u = models.random_unit(rng); rr = rng.uniform(0.80, 0.89) * info["radii"][0]
            p = [tuple(c[k] + rr * u[k] for k in range(3))]
        dips.append(tuple(p[0]) + tuple(rng.choice([1.0, 1e-2, 30.0]) * x for x in q[0]))
    zero_expected = []
    if info.get("hole") and rng.random() < 0.8:
        off, r = info["hole"]; u = models.random_unit(rng)
        dips.append(tuple(off[k] + 0.4 * r * u[k] for k in range(3)) + models.random_unit(rng)); zero_expected.append(len(dips) - 1)
    if info.get("blobs"):
        for (off, r, s) in info["blobs"]:
            if s == 0.0 and rng.random() < 0.8:
                u = models.random_unit(rng)
                dips.append(tuple(c[k] + off[k] + 0.4 * r * u[k] for k in range(3)) + models.random_unit(rng)); zero_expected.append(len(dips) - 1)
    return dict(model=m, eeg=[list(x) for x in eeg], mpos=[list(x) for x in mpos], mori=[list(x) for x in mori], dips=[list(d) for d in dips],
                zero_expected=zero_expected)

def write_problem(pb, wd, mid):
    d = os.path.join(wd, "m%d" % mid)
    m = pb["model"]
    models.write_model(m, d)
    models.write_points(os.path.join(d, "eeg.txt"), [tuple(x) for x in pb["eeg"]])
    models.write_squids(os.path.join(d, "meg.txt"), [tuple(x) for x in pb["mpos"]], [tuple(x) for x in pb["mori"]])
    return core.fcase("c04", [1, mid, len(pb["dips"])], flat(pb["dips"]))

def safe_fparse(line):
    try: return core.fparse(line)
    except ValueError: return None, None      # noise on the harness' stdout

def parse(res):
    zi, fl = res
    if zi is None or zi[0] != 0: return None
    n, nd, me, mm = zi[1:5]; p = [1]
    def take(k):
        r = fl[p[0]:p[0] + k]; p[0] += k; return r
    g = [take(me * nd), take(me * nd), take(me * nd), take(mm * nd), take(mm * nd), take(mm * nd)]
    return dict(n=n, nd=nd, me=me, mm=mm, cond=fl[0], g=g, H=take(n * n), S=take(n * nd), A=take(me * n), B=take(mm * n), P=take(mm * nd))

def evaluate(pb, r, ref):
    """-> list of (signature, text, (path index, sensor, dipole))"""
    out = []; nd, me, mm = r["nd"], r["me"], r["mm"]
    # (c) zero-source columns
    for j in range(nd):
        if all(r["S"][i * nd + j] == 0.0 for i in range(r["n"])):
            for k in range(3):
                col = [r["g"][k][i * nd + j] for i in range(me)]
                if any(x != 0.0 for x in col):
                    out.append(("%s: non-zero lead field for a zero source column" % PATHS[k], "dipole %d has an exactly zero source column but %s gives %r" % (j, PATHS[k], col[:4]), (k, 0, j))); break
            for k in range(3, 6):
                col = [r["g"][k][i * nd + j] for i in range(mm)]; pc = [r["P"][i * nd + j] for i in range(mm)]
                if any(x.hex() != y.hex() for x, y in zip(col, pc)):
                    out.append(("%s: zero source column, lead field differs from the primary field" % PATHS[k], "dipole %d has an exactly zero source column but %s column %r is not the primary-field column %r" % (j, PATHS[k], col[:3], pc[:3]), (k, 0, j))); break
    for j in pb.get("zero_expected", []):
        if j < nd and any(r["S"][i * nd + j] != 0.0 for i in range(r["n"])):
            out.append(("DipSourceMat: dipole in a non-conductive domain has a non-zero column", "dipole %d was placed in a zero-conductivity domain but its source column is not zero" % j, (0, 0, j)))
    if not (r["cond"] <= COND_MAX): return out
    tolf = REL * max(r["cond"], 1e3)
    se = max([abs(x) for x in r["g"][0]] + [1e-300]); sm = max([abs(x) for x in r["g"][3]] + [abs(x) for x in r["P"]] + [1e-300])
    def cmpm(a, b, scale, rows):
        worst = None
        for idx, (x, y) in enumerate(zip(a, b)):
            d = abs(x - y)
            if not (d <= tolf * scale) and (worst is None or d > worst[0]): worst = (d, idx // nd, idx % nd, x, y)
        return worst
    pairs = [(0, 1), (0, 2), (3, 4), (3, 5)]
    for a, b in pairs:
        w = cmpm(r["g"][a], r["g"][b], se if a < 3 else sm, me if a < 3 else mm)
        if w:
            out.append(("%s differs from %s" % (PATHS[b], PATHS[a]), "%s and %s differ at (sensor %d, dipole %d): %r vs %r (|diff| %.3g, allowed %.3g = %g*max(cond,1e3)*scale, cond %.3g)"
                        % (PATHS[a], PATHS[b], w[1], w[2], w[3], w[4], w[0], tolf * (se if a < 3 else sm), REL, r["cond"]), (b, w[1], w[2])))
    if ref is not None:
        re, rm = ref
        for k in range(6):
            w = cmpm(re if k < 3 else rm, r["g"][k], se if k < 3 else sm, 0)
            if w:
                out.append(("%s differs from the reference A*solve(H,S)" % PATHS[k], "%s differs from the extracted reference %s evaluated on the library's own operand matrices at (sensor %d, dipole %d): reference %r, implementation %r (|diff| %.3g, allowed %.3g, cond %.3g)"
                            % (PATHS[k], "P + B*solve(H,S)" if k >= 3 else "A*solve(H,S)", w[1], w[2], w[3], w[4], w[0], tolf * (se if k < 3 else sm), r["cond"]), (k, w[1], w[2])))
    return out

def run_model_big(lines):
    """core.run_model with the stack limit lifted: the extracted list functions and the driver's List.map recurse once per
    matrix entry (1.3e6 entries for the 162-vertex heads of the thorough tier)"""
    import subprocess, resource
    def lift():
        try: resource.setrlimit(resource.RLIMIT_STACK, (resource.RLIM_INFINITY, resource.RLIM_INFINITY))
        except (ValueError, OSError): pass
    p = subprocess.run([os.path.join(core.EXTRACT, "omm")], input=("\n".join(lines) + "\n").encode(), stdout=subprocess.PIPE, stderr=subprocess.PIPE, preexec_fn=lift)
    if p.returncode != 0: raise RuntimeError("model driver failed: " + p.stderr.decode()[-2000:])
    out = p.stdout.decode().split("\n")
    if out and out[-1] == "": out.pop()
    return out

def reference(r):
    """one model call: rows = EEG sensors then MEG sensors, P padded with zeros for the EEG rows"""
    nd, me, mm, n = r["nd"], r["me"], r["mm"], r["n"]
    line = core.fcase("c04", [n, nd, me + mm, 1], r["H"] + r["S"] + r["A"] + r["B"] + [0.0] * (me * nd) + r["P"])
    z, f = core.fparse(run_model_big([line])[0])
    if z is None or z[0] != 0 or len(f) != (me + mm) * nd: return None
    return f[:me * nd], f[me * nd:]

def run_problem(ck, hb, pb, mid, stats, minimise=True):
    line = write_problem(pb, ck.workdir, mid)
    rc, out, err = core.run_harness(hb, [line], ck.workdir, timeout=900)
    r = parse(safe_fparse(out[0]))
    STAGES = {1: "HeadMat", 2: "DipSourceMat", 3: "Head2EEGMat", 4: "Head2MEGMat", 5: "DipSource2MEGMat", 6: "SymMatrix::inverse", 7: "GainEEG", 8: "GainEEGadjoint",
              9: "GainMEG", 10: "GainMEGadjoint", 11: "GainEEGMEGadjoint", 12: "svd"}
    z0 = safe_fparse(out[0])[0]; stage = STAGES.get((z0[0] - 10) if z0 else -1, "loading the head / sensors")
    if z0 is None:       # the harness process ended (or printed noise) inside the case, e.g. LAPACK's XERBLA prints and stops
        stage = "the gain computations (process ended: %s)" % " / ".join(o.strip()[:90] for o in out[:2])
    topo = pb["model"]["info"].get("topology")
    if r is None:
        stats["threw"] = stats.get("threw", 0) + 1; stats.setdefault("threw_kinds", []).append(topo)
        if topo in ("nested", "split", "inclusions"):
            return [("%s throws on a valid head (%s)" % (stage, topo), "%s threw on a generated %s head (%d dipoles, %d electrodes, %d squids) although the other computations on it are defined" % (stage, topo, len(pb["dips"]), len(pb["eeg"]), len(pb["mpos"])),
                     dict(kind="problem", problem=pb, replay_cmd="./check C04 --replay <this file>"))]
        return []
    usable = r["cond"] <= COND_MAX
    stats["usable" if usable else "discarded_cond"] = stats.get("usable" if usable else "discarded_cond", 0) + 1
    stats.setdefault("conds", []).append([topo, float("%.3g" % r["cond"]), r["n"], r["nd"], r["me"], r["mm"]])
    ref = reference(r) if usable else None
    if usable and ref is None:
        ck.violation("reference model failed", "the extracted reference returned no result", dict(kind="model"), found_input=False)
    fails = evaluate(pb, r, ref)
    if usable and not fails:
        se = max([abs(x) for x in r["g"][0]] + [1e-300]); sm = max([abs(x) for x in r["g"][3]] + [abs(x) for x in r["P"]] + [1e-300])
        d = max([abs(x - y) / se for k in (1, 2) for x, y in zip(r["g"][0], r["g"][k])] + [abs(x - y) / sm for k in (4, 5) for x, y in zip(r["g"][3], r["g"][k])] + [0.0])
        stats["worst_path_vs_path"] = max(stats.get("worst_path_vs_path", 0.0), d)
        if ref:
            d2 = max([abs(x - y) / se for k in range(3) for x, y in zip(ref[0], r["g"][k])] + [abs(x - y) / sm for k in range(3, 6) for x, y in zip(ref[1], r["g"][k])] + [0.0])
            stats["worst_path_vs_reference"] = max(stats.get("worst_path_vs_reference", 0.0), d2)
    res = []
    for sig, text, (k, si, dj) in fails:
        rep = dict(kind="problem", problem=pb, replay_cmd="./check C04 --replay <this file>")
        if minimise:
            # S: 1-sensor / 1-dipole sub-problem
            sub = dict(pb, dips=[pb["dips"][dj]], zero_expected=[0] if dj in pb.get("zero_expected", []) else [])
            if k < 3: sub["eeg"] = [pb["eeg"][si]] if si < len(pb["eeg"]) else pb["eeg"]
            else: sub["mpos"] = [pb["mpos"][si]]; sub["mori"] = [pb["mori"][si]]
            sf = run_problem(ck, hb, sub, 900 + mid, {}, minimise=False)
            if any(s2 == sig for s2, _, _ in sf):
                rep["problem"] = sub; text += " -- still differs on the sub-problem with that sensor and that dipole only (stored)"
            else:
                sub2 = dict(pb, dips=[pb["dips"][dj]], zero_expected=[0] if dj in pb.get("zero_expected", []) else [])
                sf2 = run_problem(ck, hb, sub2, 900 + mid, {}, minimise=False)
                if any(s2 == sig for s2, _, _ in sf2): rep["problem"] = sub2; text += " -- still differs with that dipole alone (all sensors; stored)"
        res.append((sig, text, rep))
    return res

def main(replay=None):
    ck = core.Check(PROP, "proof")
    quick = ck.tier != "thorough"
    bdir, hb = ck.prepare("Props/Properties_C04.v", "h_c04.cpp")
    if hb is None: return ck.finish()
    stats = {}
    if replay:
        rp = json.load(open(replay)); pb = rp["problem"]
        pb["model"]["meshes"] = [(n, [tuple(v) for v in vs], [tuple(t) for t in ts]) for n, vs, ts in pb["model"]["meshes"]]
        for sig, text, rep in run_problem(ck, hb, pb, 0, stats, minimise=False): ck.violation(sig, text, rep)
        ck.cov.update(evaluations=1, distinct_nontrivial=1, rule="replay of one stored problem", samples=[str(replay)])
        return ck.finish()
    kinds = ["nested", "split", "inclusions", "nested", "hole", "nonconductive", "nested", "split", "nested", "inclusions"] if quick else \
            ["nested", "split", "inclusions", "hole", "nonconductive"] * 6
    dist = {}; samples = []
    import glob
    for k, f in enumerate(sorted(glob.glob(os.path.join(core.VERIF, "corpus", "C04", "*.json")))):     # boundary cases, run first
        pb = json.load(open(f))
        pb["model"]["meshes"] = [(n, [tuple(v) for v in vs], [tuple(t) for t in ts]) for n, vs, ts in pb["model"]["meshes"]]
        for sig, text, rep in run_problem(ck, hb, pb, 800 + k, stats): ck.violation(sig, text, rep)
        dist["corpus"] = dist.get("corpus", 0) + 1
    # deterministic sweep of the small shapes: every count 1..5 of electrodes, squids and dipoles occurs in every run (independently
    # permuted against each other) on heads whose head matrix is regular -- shape-dependent fast paths live at 1, 2, 3 lines
    pe = [1, 2, 3, 4, 5]; pm = [1, 2, 3, 4, 5]; pd = [1, 2, 3, 4, 5]; ck.rng.shuffle(pm); ck.rng.shuffle(pd)
    for k in range(5):
        pb = gen_problem(ck.rng, "nested" if k % 2 == 0 else "split", quick, counts=(pe[k], pm[k], pd[k]), layers=2 + k % 2)
        pb["dips"] = pb["dips"][:pd[k]]; pb["zero_expected"] = [j for j in pb["zero_expected"] if j < pd[k]]
        for sig, text, rep in run_problem(ck, hb, pb, 700 + k, stats): ck.violation(sig, text, rep)
        key = "sweep e%d m%d d%d" % (pe[k], pm[k], pd[k]); dist[key] = dist.get(key, 0) + 1
    for mid, kind in enumerate(kinds):
        pb = gen_problem(ck.rng, kind, quick, level=2 if (not quick and mid in (5, 11)) else 1)    # thorough: two heads with 162-vertex meshes
        for sig, text, rep in run_problem(ck, hb, pb, mid, stats): ck.violation(sig, text, rep)
        key = "%s d%d e%d m%d" % (kind, len(pb["dips"]), len(pb["eeg"]), len(pb["mpos"])); dist[key] = dist.get(key, 0) + 1
        ok = "order:" + pb["model"]["info"].get("declaration_order", "?"); dist[ok] = dist.get(ok, 0) + 1
        if len(samples) < 3: samples.append(json.dumps(dict(kind=kind, dips=pb["dips"][:2], eeg=pb["eeg"][:1]))[:300])
    ck.cov.update(evaluations=len(kinds) * 6, distinct_nontrivial=stats.get("usable", 0) * 6 + stats.get("discarded_cond", 0),
                  rule="one head = 6 gain paths; distinct non-trivial = paths of heads with cond(HeadMat) <= 1e8 compared with each other and with the reference, plus heads with a singular head matrix on which only the zero-source-column relation is checked; "
                       "heads: nested 1-4 layers, split hemispheres, sibling inclusions, non-conductive inclusions (42-vertex meshes); 1/2/5 dipoles (+ dipoles inside the non-conductive part); 1/3/8 electrodes, 1/4/7 squids",
                  samples=samples, op_distribution=dist, stats=stats, traces_validated_against_impl=stats.get("usable", 0) * 6,
                  tolerance="%g * max(cond,1e3) * scale; scale = max|gain| (EEG), max(|gain|,|primary field|) (MEG)" % REL)
    ck.cov["trusted_base"] += ["extracted float reference coq/Geom/GainFloat.v (own partially pivoted elimination) -- a definition, not a model of LAPACK",
                               "operand matrices (HeadMat, DipSourceMat, Head2EEGMat, Head2MEGMat, DipSource2MEGMat) are taken from the library: their content is C10/C08/C09's",
                               "harness/h_c04.cpp, lib/models.py"]
    ck.assumptions += ["LAPACK DSPTRF/DSPTRS/DSPTRI contract (solveLin returns H^-1 B): Section hypothesis solveLin_spec",
                       "column i of the batch source matrix = source column of dipole i alone: C08 (Properties_C08.dsm_column_local), premise of the adjoint theorems",
                       "heads whose head matrix has cond > 1e8 (non-conductive inclusions on this tree: singular, DESIGN 4 #14) are excluded from the path comparisons and counted"]
    ck.cov["trusted_base"] += ["translators/t_gain.py (index arithmetic of SymMatrix::solveLin and gain.h -> coq/Gen/GenGain.v, regenerated on every run)"]
    ck.drop_proof_violation_if(any(v[3] for v in ck.violations))
    return ck.finish()
