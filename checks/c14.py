"""C14 — sparse / fast-sparse / ranges / block containers vs their dense equivalents."""
import os, sys, json
import core, ombuild, gen

PROP = "C14"
OPNAMES = {1: "sp_get", 2: "sp_mulv", 3: "sp_mul_full", 4: "sp_mul_sym", 5: "sp_mul_sparse", 6: "sp_add", 7: "sp_transpose",
           8: "sp_getlin", 9: "sp_setlin", 10: "sp_frobenius", 11: "sp_to_dense", 12: "full_mul_sparse", 13: "fast_get",
           14: "fast_mulv", 20: "ranges_ops", 21: "block_addr", 22: "symblock_addr", 23: "symblock_add_block"}

def gen_range(rng, hi=14):
    a = rng.randint(0, hi); b = rng.randint(a, min(hi + 3, a + rng.choice([0, 0, 1, 2, 3, 6])))
    return (a, b)

def partition(rng, n):
    """random partition of [0,n) into ranges, shuffled"""
    cuts = sorted(rng.sample(range(1, n), min(n - 1, rng.randint(0, 4)))) if n > 1 else []
    rs = []; s = 0
    for c in cuts + [n]:
        rs.append((s, c - 1)); s = c
    rng.shuffle(rs)
    return rs

def sign_profile(rng, w):
    """wire of a sparse matrix (nl nc nnz (i j v)*) with all stored values made non-positive / non-negative / zero
    (sign-uniform matrices: where a max/abs/scale slip in a norm or a pivot shows; a non-empty tank holding only explicit
    zeros - what A+(-A), setlin with a zero vector or set(0.) leave behind - is where a division by the largest stored
    magnitude shows: seeded C14-16)"""
    mode = rng.choice([-1, -1, 1, 0])
    w = list(w)
    for k in range(5, len(w), 3): w[k] = mode * abs(w[k])
    return w

def gen_cases(rng, n, maxn):
    cases = []
    for _ in range(n):
        op = rng.choice([1, 2, 2, 3, 3, 4, 5, 5, 6, 6, 7, 8, 9, 10, 10, 11, 12, 12, 13, 14, 14, 20, 20, 20, 21, 22, 22, 23, 23])
        nl, nc = gen.shape(rng, maxn), gen.shape(rng, maxn)
        w = [op]
        if op == 1:
            w += gen.sparse(rng, nl, nc) + [rng.randint(0, nl + 1), rng.randint(0, nc + 1)]
        elif op == 2:
            n2 = nc if rng.random() < 0.8 else max(0, nc + rng.choice([-1, 1, 2]))
            w += gen.sparse(rng, nl, nc) + gen.vec(rng, n2)
        elif op == 3:
            k = gen.shape(rng, maxn); n2 = nc if rng.random() < 0.85 else nc + rng.choice([1, 2])
            w += gen.sparse(rng, nl, nc) + gen.dense(rng, n2, k)
        elif op == 4:
            n2 = nc if rng.random() < 0.85 else nc + 1
            w += gen.sparse(rng, nl, nc) + gen.sym(rng, n2)
        elif op == 5:
            k = gen.shape(rng, maxn); n2 = nc if rng.random() < 0.85 else nc + 1
            w += gen.sparse(rng, nl, nc) + gen.sparse(rng, n2, k)
        elif op == 6:
            if rng.random() < 0.85: w += gen.sparse(rng, nl, nc) + gen.sparse(rng, nl, nc)
            else: w += gen.sparse(rng, nl, nc) + gen.sparse(rng, nl + rng.choice([0, 1]), nc + 1)
        elif op in (7, 10, 11):
            sp = gen.sparse(rng, nl, nc)
            w += sign_profile(rng, sp) if rng.random() < 0.35 else sp
        elif op == 8:
            w += gen.sparse(rng, nl, nc) + [rng.randint(0, nl + 1)]
        elif op == 9:
            n2 = rng.choice([nc, nc, nc, max(0, nc - 1), nc + 1])
            w += gen.sparse(rng, nl, nc) + gen.vec(rng, n2) + [rng.randint(0, nl + 1)]
        elif op == 12:
            k = gen.shape(rng, maxn); n2 = nl if rng.random() < 0.85 else nl + 1
            w += gen.dense(rng, k, n2) + gen.sparse(rng, nl, nc)
        elif op == 13:
            nl = max(nl, 1)
            w += gen.sparse(rng, nl, nc) + [rng.randint(0, nl - 1), rng.randint(0, nc + 1)]
        elif op == 14:
            w += gen.sparse(rng, nl, nc) + gen.vec(rng, nc)
        elif op == 20:
            k = rng.randint(1, 8); ops = []
            pool = [gen_range(rng) for _ in range(4)]
            for _ in range(k):
                kind = rng.choice([0, 0, 0, 1, 2])
                r = rng.choice(pool) if rng.random() < 0.5 else gen_range(rng)
                if rng.random() < 0.25 and pool:   # aim at containment / touching
                    a, b = rng.choice(pool); r = rng.choice([(max(0, a - 1), b + 1), (a, a), (b, b + 2), (max(0, a - 2), a), (a + 0, b)])
                ops += [kind, r[0], r[1]]
            w += [k] + ops
        elif op == 21:
            n1, n2 = rng.randint(1, 10), rng.randint(1, 10)
            rows, cols = partition(rng, n1), partition(rng, n2)
            if rng.random() < 0.15: rows.append(gen_range(rng, n1))
            if rng.random() < 0.3 and len(rows) > 1: rows.pop()          # hole: unknown index
            qs = [(rng.randint(0, n1), rng.randint(0, n2)) for _ in range(6)]
            w += [len(rows)] + [x for r in rows for x in r] + [len(cols)] + [x for r in cols for x in r] + [len(qs)] + [x for q in qs for x in q]
        elif op == 22:
            n1 = rng.randint(1, 10); rs = partition(rng, n1)
            if rng.random() < 0.15: rs.append(gen_range(rng, n1))
            if rng.random() < 0.3 and len(rs) > 1: rs.pop()
            qs = [(rng.randint(0, n1), rng.randint(0, n1)) for _ in range(8)]
            w += [len(rs)] + [x for r in rs for x in r] + [len(qs)] + [x for q in qs for x in q]
        elif op == 23:
            k = rng.randint(1, 5); pool = partition(rng, 12) + [gen_range(rng)]
            ops = []
            for _ in range(k):
                a, b = rng.choice(pool), rng.choice(pool)
                if rng.random() < 0.2: a = (max(0, a[0] - 1), a[1] + 1)
                ops += [a[0], a[1], b[0], b[1]]
            w += [k] + ops
        cases.append("c14 " + " ".join(map(str, w)))
    return cases

def signature(case, mo, io):
    op = int(case.split()[1])
    return "%s: model and implementation differ" % OPNAMES.get(op, str(op))

def main(replay=None):
    ck = core.Check(PROP, "proof")
    quick = ck.tier != "thorough"
    try:
        bdir, h = ombuild.ensure_build()
    except RuntimeError as e:
        ck.violation("build", "the working tree does not build: %s" % e, dict(kind="build", error=str(e)), found_input=False)
        return ck.finish()
    res = ck.proofs("Props/Properties_C14.v")
    if not res["ok"]:
        failed = [t for t, ok in res["theorems"] if not ok]
        ck.violation("proof", "property theorems no longer check: %s" % ", ".join(failed[:5]),
                     dict(kind="proof", theorems=failed, log=res["log"][-3000:]), found_input=False)
    if core.model_stale():
        ok, log = core.build_model()
        if not ok:
            ck.violation("extract", "model extraction failed", dict(kind="extract", log=log[-3000:]), found_input=False)
            return ck.finish()
    hb = os.path.join(bdir, "h_c14")
    src = os.path.join(core.VERIF, "harness", "h_c14.cpp")
    if not os.path.exists(hb) or os.path.getmtime(hb) < max(os.path.getmtime(src), os.path.getmtime(os.path.join(core.VERIF, "harness", "wire.h"))):
        try:
            ombuild.build_harness(bdir, src, hb)
        except RuntimeError as e:
            ck.violation("harness-build", "harness does not compile against the working tree: %s" % e, dict(kind="build", error=str(e)), found_input=False)
            return ck.finish()
    if replay:
        cases = json.load(open(replay)).get("cases", [])
    else:
        corpus = []
        cp = os.path.join(core.VERIF, "corpus", "C14.txt")
        if os.path.exists(cp): corpus = [l.strip() for l in open(cp) if l.strip() and not l.startswith("#")]
        cases = corpus + gen_cases(ck.rng, 1500 if quick else 12000, 7 if quick else 40)
    mo = core.run_model(cases)
    rc, io, err = core.run_harness(hb, cases, ck.workdir)
    dist = {}; nontriv = set(); mism = []
    for c, m, i in zip(cases, mo, io):
        op = int(c.split()[1]); dist[OPNAMES[op]] = dist.get(OPNAMES[op], 0) + 1
        if m == "-1" or i == "-1":
            continue
        if len(c.split()) > 6: nontriv.add(c)
        if m != i:
            mism.append((c, m, i))
    for c, m, i in mism[:50]:
        ck.violation(signature(c, m, i),
                     "container result differs from the dense-equivalent model proved in Properties_C14.v (%s): case `%s` model=%s impl=%s" % (OPNAMES[int(c.split()[1])], c[:200], m[:120], i[:120]),
                     dict(kind="correspondence", cases=[c], model=[m], impl=[i], replay_cmd="./check C14 --replay <this file>"))
    errs = sum(1 for m in mo if m.split()[0] in ("1", "2") or " 2 0" in m or " 4 0" in m)
    ck.cov.update(evaluations=len(cases), distinct_nontrivial=len(nontriv),
                  rule="random container cases (shapes 0..%d biased to 0/1/2, densities {0,.05,.2,.5,1}, duplicate keys, stored zeros, sign-uniform (all <=0 / all >=0) matrices for norm/transpose/to_dense, ~15%% non-conformable operands; range sequences aimed at touching/containing ranges); non-trivial = more than 5 integers of payload; distinct = distinct case lines" % (7 if quick else 40),
                  samples=cases[len(cases) // 2:len(cases) // 2 + 3], op_distribution=dist, error_outcomes=errs,
                  correspondence_mismatches=len(mism), traces_validated_against_impl=len(cases))
    ck.cov["trusted_base"] += ["hand-written Gallina model coq/Maths/{SparseModel,Ranges}.v tied by exact differential runs (harness/h_c14.cpp vs extracted extract/omm)",
                               "extraction: ExtrOcamlBasic only; OCaml driver extract/driver.ml", "values are integers (exact in double)"]
    ck.assumptions += ["BlockMatrix/SymmetricBlockMatrix private members observed through #define private public in the harness TU",
                       "FastSparseMatrix is exercised only within its documented preconditions (i<nlin, |x|=ncol): it has no bounds checks"]
    return ck.finish()
