"""C05 -- parallel assembly is race-free and independent of the thread schedule.

Proof part: coq/Props/Properties_C05.v over the loop descriptors regenerated from the sources (translators/t_parloops.py).
Tie beyond the translator: (a) footprints of the generated descriptors vs the accesses logged by recording container
types through the templates of operators.h (region = GOMP_parallel call, iteration = thread number with a team at
least as large as the trip count); (b) the real assembly functions under OMP thread counts {1,2,3,5,8,16}:
owner-computes matrices bitwise equal, the critical-section accumulation (DipSourceMat) within summation rounding;
(c) an exception raised inside a region reaches the caller for every thread count.
When a proof / the translator / a footprint breaks: hammer the assembly functions (16 threads, many repetitions) to
exhibit a differing entry."""
import os, sys, json, math, time
import core, ombuild, models, c05clang

PROP = "C05"
THREADS = [1, 2, 3, 5, 8, 16]
FNAMES = {1: "HeadMat", 2: "DipSourceMat(adaptive)", 3: "SurfSourceMat", 4: "Head2MEGMat", 5: "EITSourceMat", 6: "SurfSource2MEGMat",
          7: "DipSourceMat(no adapt)", 8: "DipSource2MEGMat", 9: "Surf2VolMat", 10: "DipSource2InternalPotMat"}
CRITICAL = {2, 7}           # results that contain the omp-critical accumulation: equal up to summation order only
ROUND_TOL = 1e-12           # |a-b| <= ROUND_TOL * max|entry| : thousands of ulps, a lost update is >= 1e-6 relative
HOOKLOOPS = {1: (11, "operatorFerguson"), 2: (12, "operatorDipolePotDer"), 3: (13, "operatorDipolePot")}
LOOPNAMES = {9: "deflate", 1: "D", 2: "Dstar", 3: "S diagonal", 4: "S non-diagonal", 5: "N diagonal (S in the target)", 6: "N diagonal (separate S)",
             7: "N non-diagonal (S in the target)", 8: "N non-diagonal (separate S)"}
ENV = {"OMP_WAIT_POLICY": "passive", "OMP_DYNAMIC": "false", "OMP_PROC_BIND": "false", "KMP_BLOCKTIME": "0"}
APPLE_SIG = "operatorDipolePotDer: omp critical compiled out under __APPLE__ (macOS builds): DipSourceMat depends on the thread schedule"

# ------------------------------------------------------------------ models on disk
def write_case_model(rng, wd, k, m, src_radius, src_centre=(0, 0, 0)):
    d = os.path.join(wd, "m%d" % k); models.write_model(m, d)
    info = m["info"]; c = info.get("centre", (0, 0, 0)); R = info.get("outer_radius", 1.0)
    inner_r = min(info.get("radii", [info.get("r_inner", 0.6)])) if info.get("kind") != "inclusions" else 0.25
    pos, mom = models.dipoles_in_ball(rng, 3, src_centre if info.get("kind") == "inclusions" else c, inner_r, 0.7)
    if info.get("kind") == "split":       # keep the dipoles clearly inside one hemisphere
        pos = [(p[0], p[1], abs(p[2]) * 0.8 + 0.1 * inner_r) for p in pos]
    models.write_dipoles(os.path.join(d, "dip.txt"), pos, mom)
    sp = models.sensors_on_sphere(rng, 4, c, 1.25 * R)
    models.write_squids(os.path.join(d, "squids.txt"), sp, [models.random_unit(rng) for _ in sp])
    v, t = models.icosphere(0)
    models.write_tri(os.path.join(d, "src.tri"), models.transform(v, src_radius, src_centre), t)
    models.write_points(os.path.join(d, "eit.txt"), models.sensors_on_sphere(rng, 3, c, R))
    models.write_points(os.path.join(d, "pts.txt"), [tuple(0.5 * x for x in p) for p in pos])
    return d

def build_models(rng, wd, quick):
    """(k, description, model, usable functions)"""
    out = []
    def sig(): return rng.choice([1.0, 0.0125, 0.33, 1.79, math.exp(rng.uniform(-3, 3))])
    r2 = rng.uniform(0.82, 0.9); r1 = r2 * rng.uniform(0.8, 0.92)
    specs = [("nested 3 layers, 12-vertex meshes", models.nested([r1, r2, 1.0], [sig(), sig(), sig()], 0), 0.5 * r1, (0, 0, 0), [1, 2, 3, 4, 5, 6, 7, 8, 9, 10]),
             ("nested 2 layers, 12-vertex meshes", models.nested([r2, 1.0], [sig(), sig()], 0), 0.5 * r2, (0, 0, 0), [1, 2, 3, 4, 5, 7, 9]),
             ("split hemispheres + 1 shell, shared vertices", models.split_hemispheres(1.0, [1.2], (sig(), sig()), [sig()], 1), 0.3, (0, 0, 0.5), [1, 2, 4, 7]),
             ("two inclusions (siblings), 12-vertex meshes", models.inclusions(1.0, [((0.45, 0, 0), 0.3, sig()), ((-0.45, 0.1, 0), 0.3, sig())], sig(), 0), 0.12, (0.45, 0, 0), [1, 2, 4, 7]),
             ("non-conductive inclusion (isolated part)", models.inclusions(1.0, [((0.4, 0, 0.1), 0.3, 0.0), ((-0.45, 0, 0), 0.25, sig())], sig(), 0), 0.1, (-0.45, 0, 0), [1, 2, 4, 7]),
             ("nested 3 layers, 42-vertex meshes", models.nested([r1, r2, 1.0], [sig(), sig(), sig()], 1), 0.5 * r1, (0, 0, 0), [1, 2, 3, 4, 7])]
    if not quick:
        specs.append(("nested 3 layers, 162-vertex meshes", models.nested([r1, r2, 1.0], [sig(), sig(), sig()], 2), 0.5 * r1, (0, 0, 0), [1, 2, 3, 4, 7]))
        specs.append(("split hemispheres + 2 shells", models.split_hemispheres(1.0, [1.15, 1.3], (sig(), sig()), [sig(), sig()], 1), 0.3, (0, 0, 0.5), [1, 2, 4, 7]))
    for k, (desc, m, sr, sc, fs) in enumerate(specs):
        write_case_model(rng, wd, k, m, sr, sc)
        out.append((k, desc, m, fs))
    # a single-layer head: SurfSourceMat's D block addresses rows of current-barrier triangles, which the matrix does not
    # have: om_assert fires INSIDE the parallel region of BlocksBase::D  (real trigger through the public interface)
    kx = len(specs)
    write_case_model(rng, wd, kx, models.nested([1.0], [1.0], 0), 0.5)
    # input-driven exception triggers: a mesh whose vertex list has a vertex that no triangle uses (readers and Geometry
    # accept it): Mesh::triangles(V) -> std::map::at throws std::out_of_range inside the N-block / Ferguson regions
    import copy
    base = models.nested([0.8, 0.9, 1.0], [1.0, 0.0125, 1.0], 0)
    for which in (0, 1, 2):
        mm = copy.deepcopy(base); name, vs, ts = mm["meshes"][which]; r = [0.8, 0.9, 1.0][which]
        mm["meshes"][which] = (name, vs + [(r * 0.6, r * 0.64, r * 0.48)], ts)
        d = write_case_model(rng, wd, kx + 1 + which, mm, 0.4)
        if which == 0:
            v, t = models.icosphere(0)
            models.write_tri(os.path.join(d, "src.tri"), models.transform(v, 0.4) + [(0.24, 0.256, 0.192)], t)
    return out, kx

# ------------------------------------------------------------------ index dump -> model cases
def parse_dump(ints):
    p = [1]
    def z(): p[0] += 1; return ints[p[0] - 1]
    st = ints[0]
    npar = z(); ncb = z(); nm = z(); meshes = []
    for _ in range(nm):
        om, cb, iso = z(), z(), z()
        nv = z(); vs = [z() for _ in range(nv)]
        nt = z(); ts = [(z(), z(), z(), z()) for _ in range(nt)]
        adj = []
        for _ in range(nv):
            n = z(); adj.append([z() for _ in range(n)])
        meshes.append(dict(outermost=om, cb=cb, isolated=iso, vs=vs, ts=ts, adj=adj))
    npairs = z(); pairs = [(z(), z()) for _ in range(npairs)]
    nd = z(); deflate_order = [z() for _ in range(nd)]
    return dict(npar=npar, ncb=ncb, meshes=meshes, pairs=pairs, deflate_order=deflate_order)

def mesh_wire(m):
    w = [len(m["vs"])] + m["vs"] + [len(m["ts"])] + [x for t in m["ts"] for x in t]
    for a in m["adj"]: w += [len(a)] + a
    return w

def well_indexed(geo):
    """the hypothesis of the per-loop theorems, checked on the concrete geometry (non-isolated meshes)"""
    bad = []
    V = set(); T = set()
    for m in geo["meshes"]:
        if m["isolated"]: continue
        V |= set(m["vs"]); T |= {t[0] for t in m["ts"]}
        if len(set(m["vs"])) != len(m["vs"]): bad.append("duplicate vertex index in a mesh")
        if len({t[0] for t in m["ts"]}) != len(m["ts"]): bad.append("duplicate triangle index in a mesh")
        if any(x < 0 for x in m["vs"]) or any(x < 0 for t in m["ts"] for x in t): bad.append("negative index")
        if any(x not in set(m["vs"]) for t in m["ts"] for x in t[1:]): bad.append("triangle vertex not among the mesh vertices")
        for v, a in zip(m["vs"], m["adj"]):
            if any(x not in {t[0] for t in m["ts"]} for x in a): bad.append("adjacent triangle not in the mesh")
    if V & T: bad.append("vertex and triangle unknown ranges overlap")
    return bad

def canon_model(ints):
    """model output -> {(region, iteration): sorted [(container, idx, rw)]}"""
    if ints[0] != 0: return None, 0
    nreg = ints[1]; d = {}
    body = ints[2:]
    for i in range(0, len(body), 6):
        r, it, c, idx, w, crit = body[i:i + 6]
        d.setdefault((r, it), []).append((c, idx, w))
    return {k: sorted(v) for k, v in d.items()}, nreg

def join_model_outputs(outs):
    """several model outputs (status, nregions, records of 6 with 1-based region numbers) -> one, regions renumbered consecutively"""
    tot = 0; body = []
    for o in outs:
        ii = [int(x) for x in o.split()]
        if ii[0] != 0: return o
        for i in range(2, len(ii), 6): body += [ii[i] + tot] + ii[i + 1:i + 6]
        tot += ii[1]
    return " ".join(map(str, [0, tot] + body))

def canon_impl(ints):
    if ints[0] != 0: return None, ints[1] if len(ints) > 1 else 0
    nreg = ints[1]; d = {}
    body = ints[2:]
    for i in range(0, len(body), 5):
        r, th, c, idx, w = body[i:i + 5]
        if th < 0: continue          # accesses outside parallel regions (sequential prologue, e.g. deflate's coefficient)
        d.setdefault((r, th), []).append((c, idx, w))
    return {k: sorted(v) for k, v in d.items()}, nreg

def first_difference(a, b):
    for k in sorted(set(a) | set(b)):
        if a.get(k) != b.get(k):
            return k, (a.get(k) or [])[:6], (b.get(k) or [])[:6]
    return None

# ------------------------------------------------------------------ differential / exception runs
def diff_case(k, f, threads): return "c05 2 %d %d %d %s |" % (k, f, len(threads), " ".join(map(str, threads)))

def judge_diff(ck, case, line, desc, f, threads, found_sink):
    ints, fl = core.fparse(line)
    if ints is None or ints == [-1]:
        ck.violation("harness crash: %s on %s" % (FNAMES[f], desc), "the harness crashed or rejected the case `%s`: %s" % (case, line),
                     dict(kind="differential", cases=[case], impl=[line])); return None
    rows = [ints[i:i + 6] for i in range(0, len(ints), 6)]
    res = []
    sts = [r[0] for r in rows]
    if len(set(sts)) > 1:
        ck.violation("%s: outcome depends on the thread count (%s)" % (FNAMES[f], desc),
                     "%s on %s returns/raises differently for thread counts %s: statuses %s" % (FNAMES[f], desc, threads, sts),
                     dict(kind="differential", cases=[case], impl=[line], threads=threads))
        found_sink.append(f)
    for j, (r, t) in enumerate(zip(rows, threads)):
        st, n, ndiff, first, h1, h2 = r; maxd, scale = fl[2 * j], fl[2 * j + 1]
        if st != 0: continue
        if f in CRITICAL: ok = (ndiff >= 0) and maxd <= ROUND_TOL * scale
        else: ok = ndiff == 0
        res.append((t, ndiff, maxd, scale))
        if not ok:
            what = ("differs beyond summation rounding" if f in CRITICAL else "is not bitwise equal")
            if f in found_sink and len(ck.violations) >= 6: continue          # one witness per function is enough once several are reported
            ck.violation("%s: result %s from the 1-thread result (%s)" % (FNAMES[f], what, desc),
                         "%s on %s: %d of %d entries differ between OMP threads=%d and threads=%d, first at flat index %d, max |diff| %.3g (max |entry| %.3g)"
                         % (FNAMES[f], desc, ndiff, n, threads[0], t, first, maxd, scale),
                         dict(kind="differential", cases=[case], impl=[line], threads=threads, function=FNAMES[f]))
            found_sink.append(f)
    return res

def tsan_run(ck, bdir, wd, mods):
    """clang++ -fopenmp -fsanitize=thread build of the library sources + harness (libomp, archer as OMPT tool);
    runs the assembly functions with 1 and 4 threads and counts reports.  Supporting evidence, never a substitute."""
    import glob, subprocess, re
    archer = sorted(glob.glob("/usr/lib/llvm-*/lib/libarcher.so"))
    R = ombuild.REPO; V = core.VERIF
    out = os.path.join(bdir, "h_c05_tsan")
    res = dict(run=True, archer=bool(archer))
    if not os.path.exists(out):
        inc, defs = ombuild.harness_flags(bdir)
        srcs = [os.path.join(V, "harness", "h_c05.cpp")] + sorted(glob.glob(R + "/OpenMEEGMaths/src/*.cpp"))
        for c in sorted(glob.glob(R + "/OpenMEEGMaths/src/*.C")): srcs += ["-x", "c++", c]
        srcs += ["-x", "c++"] + sorted(glob.glob(R + "/OpenMEEG/src/*.cpp"))
        cmd = ["timeout", "1500", "clang++", "-std=gnu++17", "-O1", "-g", "-fopenmp", "-fsanitize=thread", "-w", "-DC05_STATIC_BUILD"] + defs + inc + srcs + \
              ["-o", out, "-llapacke", "-lopenblas", "-lmatio", "-lhdf5_serial", "-ldl", "-rdynamic"]
        p = subprocess.run(cmd, stdout=subprocess.PIPE, stderr=subprocess.STDOUT)
        if p.returncode != 0:
            res.update(built=False, note="clang/libomp ThreadSanitizer build failed: " + p.stdout.decode(errors="replace")[-400:])
            ck.notes.append(res["note"]); return res
    res["built"] = True
    k0 = mods[0][0]
    cases = ["c05 2 %d %d 2 1 4 |" % (k0, f) for f in (1, 2, 3, 4, 5, 7)]
    cf = os.path.join(wd, "tsan_cases.txt"); open(cf, "w").write("\n".join(cases) + "\n")
    e = dict(os.environ); e.update(ENV); e["OPENBLAS_NUM_THREADS"] = "1"
    logp = os.path.join(wd, "tsan.log")      # the harness silences fd 2, so the reports must go to files
    e["TSAN_OPTIONS"] = "ignore_noninstrumented_modules=1 exitcode=0 log_path=" + logp
    if archer: e["OMP_TOOL_LIBRARIES"] = archer[-1]
    p = subprocess.run(["timeout", "1500", out, cf], stdout=subprocess.PIPE, stderr=subprocess.PIPE, env=e, cwd=wd)
    err = "".join(open(f, errors="replace").read() for f in sorted(glob.glob(logp + "*")))
    n = err.count("WARNING: ThreadSanitizer")
    summ = sorted(set(re.findall(r"SUMMARY: ThreadSanitizer: ([^\n]*)", err)))
    res.update(cases=len(cases), reports=n, summaries=summ[:10], rc=p.returncode)
    ck.log("ThreadSanitizer: %d cases, %d reports" % (len(cases), n))
    if n:
        # informational only: the reports of this configuration have not been calibrated against the pinned tree
        # (libomp-internal reports are possible), so they are recorded in the evidence and never gate the verdict
        res["first_report"] = err[:3000]
        ck.notes.append("ThreadSanitizer (supporting, not gating): %d reports; first summary: %s" % (n, summ[0] if summ else "?"))
    return res

def judge_exceptions(ck, ecases, io, found):
    """per thread count: status, regions, number of assertion messages (the error WAS raised).  Distinguishes
    a swallowed exception (raised, caller sees nothing) from a stale trigger (nothing is raised any more, 1 thread included)."""
    ok = 0
    for (c, desc), line in zip(ecases, io):
        ints, _ = core.fparse(line)
        th = [int(x) for x in c.split("|")[0].split()[6:]]
        if not ints or ints == [-1] or len(ints) % 3:
            ck.violation("exception case crashed: " + desc, "the process died instead of raising an exception the caller can catch (%s): %s" % (desc, line),
                         dict(kind="exception", cases=[c], impl=[line]))
            found.append("exception"); continue
        sts, raised = ints[0::3], ints[2::3]
        if all(r == 0 for r in raised) and all(s == 0 for s in sts):
            ck.violation("stale exception trigger: " + desc,
                         "the trigger no longer raises anything, with a single thread either (%s): statuses for threads %s = %s, assertion messages %s -- the check needs another trigger for this region"
                         % (desc, th, sts, raised), dict(kind="exception-trigger", cases=[c], impl=[line]), found_input=False)
        elif any(s == 0 and r > 0 for s, r in zip(sts, raised)):
            ck.violation("exception swallowed: " + desc,
                         "an error raised inside a parallel loop did not reach the caller (%s): for threads %s the assertion fired %s times but the statuses are %s (0 = returned normally)"
                         % (desc, th, raised, sts), dict(kind="exception", cases=[c], impl=[line]))
            found.append("exception")
        elif len(set(sts)) > 1 or any(s == 0 for s in sts):
            ck.violation("exception outcome depends on the thread count: " + desc, "statuses for threads %s = %s, assertion messages %s (%s)" % (th, sts, raised, desc),
                         dict(kind="exception", cases=[c], impl=[line]))
            found.append("exception")
        else: ok += 1
    return ok

INPUT_TRIGGERS = [(1, 1, "HeadMat, innermost mesh has a vertex used by no triangle (map::at in the N blocks)"),
                  (1, 4, "Head2MEGMat, innermost mesh has an unused vertex (map::at in operatorFerguson)"),
                  (1, 3, "SurfSourceMat, the mesh bounding the source domain has an unused vertex (map::at in NonDiagonalBlock::N)"),
                  (1, 6, "SurfSource2MEGMat, the source mesh has an unused vertex (map::at in operatorFerguson)"),
                  (2, 1, "HeadMat, middle mesh has an unused vertex (N blocks)"), (2, 4, "Head2MEGMat, middle mesh has an unused vertex"),
                  (3, 1, "HeadMat, outermost mesh has an unused vertex (N blocks)"), (3, 4, "Head2MEGMat, outermost mesh has an unused vertex")]

def judge_input_exceptions(ck, ecases, io, found):
    """input-driven triggers: library code throws inside a region.  Outcome classes: the exception reached the caller
    (same status for every thread count) / the process terminated / nothing raised any more (stale trigger)."""
    ok = 0
    for (c, desc), line in zip(ecases, io):
        ints, _ = core.fparse(line)
        th = [int(x) for x in c.split("|")[0].split()[6:]]
        if not ints or ints == [-1] or len(ints) % 3:
            ck.violation("process terminated instead of raising: " + desc,
                         "an error raised by library code inside a parallel loop terminated the process instead of reaching the caller as an exception (%s; thread counts %s run in this order): %s"
                         % (desc, th, line), dict(kind="exception-input", cases=[c], impl=[line]))
            found.append("exception"); continue
        sts = ints[0::3]
        if all(x == 0 for x in sts):
            ck.violation("stale exception trigger: " + desc, "the input no longer makes the library raise anything, with a single thread either (%s): statuses for threads %s = %s -- the check needs another trigger"
                         % (desc, th, sts), dict(kind="exception-trigger", cases=[c], impl=[line]), found_input=False)
        elif any(x == 0 for x in sts) or len(set(sts)) > 1:
            ck.violation("exception outcome depends on the thread count: " + desc, "statuses for threads %s = %s (0 = returned normally) (%s)" % (th, sts, desc),
                         dict(kind="exception-input", cases=[c], impl=[line]))
            found.append("exception")
        else: ok += 1
    return ok

def main(replay=None):
    ck = core.Check(PROP, "proof")
    quick = ck.tier != "thorough"
    bdir, hb = ck.prepare("Props/Properties_C05.v", "h_c05.cpp", extra_link=["-ldl", "-rdynamic"])
    gen = {}
    gp = os.path.join(core.COQ, "Gen", "genparloops.json")
    if os.path.exists(gp): gen = json.load(open(gp))
    # the defines the translator assumed are the ones the scratch build really used
    if bdir:
        try:
            ninja = open(os.path.join(bdir, "build.ninja"), errors="replace").read()
            missing = [d for d in ("USE_OMP", "OPENMP_RANGEFOR", "OPENMP_ITERATOR", "OPENMP_UNSIGNED", "USE_PROGRESSBAR") if ("-D" + d) not in ninja]
            if missing:
                ck.violation("build defines differ from the translator's: " + ",".join(missing),
                             "the scratch build of the working tree does not define %s, the loop variants the translator selected are not the compiled ones" % missing,
                             dict(kind="defines", missing=missing), found_input=False)
        except OSError: pass
    broken = bool(ck.broken_theorems or ck.translator_problems)
    broken_lemma = None
    if ck.broken_theorems:
        # name the lemma whose proof failed (the failed disjointness goal), from the make log
        try:
            import re
            log = open(os.path.join(ck.workdir, "coq_make.log")).read()
            m = re.search(r'File "\./(Geom/ParLoops\w*\.v|Gen/\w+\.v|Props/Properties_C05\.v)", line (\d+)[^\n]*\n(Error:?[^\n]*(?:\n[^\n]+){0,6})', log)
            if m:
                src = open(os.path.join(core.COQ, m.group(1))).read().split("\n")[:int(m.group(2))]
                names = [re.match(r"\s*(?:Lemma|Theorem|Definition|Example)\s+([\w']+)", l) for l in src]
                names = [x.group(1) for x in names if x]
                broken_lemma = dict(file=m.group(1), line=int(m.group(2)), lemma=names[-1] if names else None, error=m.group(3)[:600])
                ck.notes.append("first failing proof: %s in %s line %s" % (broken_lemma["lemma"], m.group(1), m.group(2)))
                ck.log("first failing proof: %s (%s:%s)" % (broken_lemma["lemma"], m.group(1), m.group(2)))
        except OSError: pass
    if hb is None:
        return ck.finish()
    wd = ck.workdir
    found = []          # functions for which a concrete failing input was exhibited

    # ------------------------------------------------------------ replay of a stored case
    if replay:
        rp = json.load(open(replay))
        import random, hashlib
        rrng = random.Random(int(rp.get("seed", ck.seed)) * 1000003 + int(hashlib.sha1(PROP.encode()).hexdigest()[:6], 16))
        mods, kx = build_models(rrng, wd, rp.get("tier", "quick") != "thorough")
        cases = rp.get("cases", [])
        rb = hb
        if rp.get("binary") in ("h_c05_clang", "h_c05_clang_apple") and c05clang.available():
            b1, b2, _ = c05clang.build(bdir, os.path.join(core.VERIF, "harness", "h_c05.cpp"))
            rb = b1 if rp["binary"] == "h_c05_clang" else b2
        rc, io, err = core.run_harness(rb, cases, wd, env=ENV, timeout=1200)
        for c, o in zip(cases, io):
            print("replay: %s\n  -> %s" % (c, o[:400]))
            parts = c.split()
            if parts[1] == "2":
                k, f = int(parts[2]), int(parts[3]); th = [int(x) for x in parts[5:5 + int(parts[4])]]
                judge_diff(ck, c, o, "replayed model m%d" % k, f, th, found)
            elif parts[1] == "3":
                if rp.get("kind") == "exception-input": judge_input_exceptions(ck, [(c, "replayed input-driven exception case")], [o], found)
                else: judge_exceptions(ck, [(c, "replayed exception case")], [o], found)
            elif parts[1] == "4":
                ints, fl = core.fparse(o)
                if ints and ints[2] > 0 and (int(parts[3]) not in CRITICAL or fl[0] > ROUND_TOL * fl[1]):
                    ck.violation(rp.get("signature", "hammer replay"), "replayed hammer case: %d repetitions differ from the 1-thread result, max |diff| %.3g" % (ints[2], fl[0]),
                                 dict(kind="hammer", cases=[c], impl=[o]))
        if rp.get("model_cases"):
            mo = []
            for c in rp["model_cases"]:
                outs = core.run_model(c.split(" && ")); mo.append(outs[0] if len(outs) == 1 else join_model_outputs(outs))
            for c, o, hc, ho in zip(rp["model_cases"], mo, cases, io):
                print("replay (model): %s...\n  -> %s..." % (c[:80], o[:200]))
                if hc.split()[1] == "1":
                    A, nra = canon_model([int(x) for x in o.split()]); ii, _ = core.fparse(ho); B, nrb = canon_impl(ii or [-1])
                    if A is None or B is None or A != B or nra != nrb:
                        fd = first_difference(A or {}, B or {})
                        ck.violation(rp.get("signature", "footprint replay"), "replayed footprint case differs: regions model %s / code %s, first difference %s" % (nra, nrb, fd),
                                     dict(kind="footprint", cases=[hc], model_cases=[c]), found_input=False)
        return ck.finish()

    mods, kx = build_models(ck.rng, wd, quick)

    # ------------------------------------------------------------ (a) footprints: generated descriptors vs recorded accesses
    dumps = {}
    rc, io, err = core.run_harness(hb, ["c05 0 %d |" % k for k, _, _, _ in mods], wd, env=ENV)
    hyp_bad = 0
    for (k, desc, m, fs), line in zip(mods, io):
        ints, _ = core.fparse(line)
        if not ints or ints[0] != 0:
            ck.violation("model does not load: %s" % desc, "generated model %s is rejected by Geometry: %s" % (desc, line), dict(kind="dump", model=k), found_input=False); continue
        dumps[k] = parse_dump(ints)
        bad = well_indexed(dumps[k])
        if bad:
            hyp_bad += 1
            ck.violation("indexing hypothesis fails on %s: %s" % (desc, bad[0]),
                         "the hypothesis well_indexed of the per-loop theorems does not hold on the generated geometry %s: %s" % (desc, "; ".join(bad)),
                         dict(kind="hypothesis", model=k, problems=bad))
    fp_cases = []      # (model case, harness case, description)
    for k, desc, m, fs in mods:
        if k not in dumps: continue
        g = dumps[k]; n = g["npar"]
        if max(len(x["ts"]) for x in g["meshes"]) > 64: continue       # team size = trip count: keep it small
        pairs = [p for p in g["pairs"]]
        ck.rng.shuffle(pairs)
        for (a, b) in pairs[:3 if quick else 8]:
            ma, mb = g["meshes"][a], g["meshes"][b]
            team = max(len(ma["ts"]), len(mb["ts"]), len(ma["vs"]), len(mb["vs"])) + 2
            loops = [3, 5, 6, 1] if a == b else [4, 7, 8, 1, 2]
            for loop in loops:
                kinds = [0, 1] if loop in (1, 2, 3, 4, 6, 8) else [0]
                for kind in kinds:
                    mc = "c05 " + " ".join(map(str, [loop, kind, n] + mesh_wire(ma) + mesh_wire(mb)))
                    hc = "c05 1 %d %d %d %d %d %d |" % (k, loop, a, b, kind, team)
                    fp_cases.append((mc, hc, "%s, meshes %d,%d, loop %s, %s target" % (desc, a, b, LOOPNAMES[loop], "SymMatrix-like" if kind == 0 else "Matrix-like")))
    if len(fp_cases) > (40 if quick else 400):
        fp_cases = fp_cases[:40 if quick else 400]
    hk_cases = []     # hook H1: (model case, harness case, description)
    for k, desc, m, fs in mods:
        if k not in dumps: continue
        g = dumps[k]; n = g["npar"]
        if max(len(x["ts"]) for x in g["meshes"]) > 64: continue
        if g["deflate_order"]:
            # deflate runs over the whole geometry: the model is the concatenation, in the code's visiting order, of the
            # regions of every mesh the real Geometry flags outermost (one model case per mesh, joined by "&&")
            mcs = ["c05 " + " ".join(map(str, [9, 0, n] + mesh_wire(g["meshes"][a]) + mesh_wire(g["meshes"][a]))) for a in g["deflate_order"]]
            team = max(len(g["meshes"][a]["vs"]) for a in g["deflate_order"]) + 2
            fp_cases.append((" && ".join(mcs), "c05 1 %d 9 0 0 0 %d |" % (k, team), "%s, loop deflate over the outermost meshes %s, SymMatrix target" % (desc, g["deflate_order"])))
        for a, ma in enumerate(g["meshes"]):
            if ma["isolated"]: continue
            if len(hk_cases) < (12 if quick else 60):
                dp = [ck.rng.uniform(-0.2, 0.2) for _ in range(3)] + list(models.random_unit(ck.rng))
                for hl, (ml, nm) in HOOKLOOPS.items():
                    mc = "c05 " + " ".join(map(str, [ml, 0, 6 if hl == 1 else n] + mesh_wire(ma) + mesh_wire(ma)))
                    hk_cases.append((mc, "c05 5 %d %d %d 8 | %s" % (k, hl, a, " ".join(core.fhex(x) for x in dp)), "%s, mesh %d, loop %s (hook H1)" % (desc, a, nm)))
    fp_mism = 0; fp_acc = 0; fp_regions = 0
    if fp_cases:
        t0 = time.time()
        flatm = [x for c in fp_cases for x in c[0].split(" && ")]
        mo_flat = core.run_model(flatm); mo = []; pos = 0
        for c in fp_cases:
            parts = c[0].split(" && "); outs = mo_flat[pos:pos + len(parts)]; pos += len(parts)
            mo.append(outs[0] if len(parts) == 1 else join_model_outputs(outs))
        rc, io, err = core.run_harness(hb, [c[1] for c in fp_cases], wd, env=ENV, timeout=900)
        for (mc, hc, desc), m_out, i_out in zip(fp_cases, mo, io):
            mi = [int(x) for x in m_out.split()]
            ii, _ = core.fparse(i_out)
            if ii is None or mi == [-1] or ii == [-1]:
                ck.violation("footprint run failed: " + desc, "footprint case could not be run (%s): model %s impl %s" % (desc, m_out[:60], i_out[:60]),
                             dict(kind="footprint", cases=[hc], model_cases=[mc]), found_input=False); fp_mism += 1; continue
            A, nra = canon_model(mi); B, nrb = canon_impl(ii)
            if A is None or B is None or A != B or nra != nrb:
                fp_mism += 1
                fd = first_difference(A or {}, B or {})
                ck.violation("footprint differs: " + desc,
                             "the accesses of the generated loop descriptor and of the compiled loop differ (%s): regions model %s / code %s; first difference at (region, iteration) %s: model %s, code %s [(container, linear index, 0 read/1 write)]"
                             % (desc, nra, nrb, fd[0] if fd else None, fd[1] if fd else None, fd[2] if fd else None),
                             dict(kind="footprint", cases=[hc], model_cases=[mc]), found_input=False)
            else:
                fp_acc += sum(len(v) for v in A.values()); fp_regions += nra
        ck.log("footprints: %d cases, %d regions, %d accesses, %d mismatches, %.1fs" % (len(fp_cases), fp_regions, fp_acc, fp_mism, time.time() - t0))
    hk_mism = 0; hk_iters = 0; hooks_present = None
    if hk_cases:
        mo = core.run_model([c[0] for c in hk_cases])
        rc, io, err = core.run_harness(hb, [c[1] for c in hk_cases], wd, env=ENV, timeout=900, tag="hook")
        for (mc, hc, desc), m_out, i_out in zip(hk_cases, mo, io):
            mi = [int(x) for x in m_out.split()]; ii, _ = core.fparse(i_out)
            if ii is None or mi == [-1] or ii == [-1] or ii[0] != 0:
                ck.violation("hook footprint run failed: " + desc, "hook case could not be run (%s): model %s impl %s" % (desc, m_out[:60], i_out[:60]),
                             dict(kind="hook", cases=[hc], model_cases=[mc]), found_input=False); hk_mism += 1; continue
            if ii[1] == 0:
                hooks_present = False; continue        # the tree has no H1 markers (hook commit absent): nothing to compare
            hooks_present = True
            A, _ = canon_model(mi)
            W = {it: sorted({idx for (c, idx, w) in v if w == 1}) for (r, it), v in (A or {}).items()}
            B = {}; p = 2
            while p < len(ii):
                r, it, nw = ii[p], ii[p + 1], ii[p + 2]; B[it] = sorted(ii[p + 3:p + 3 + nw]); p += 3 + nw
            hk_iters += len(B)
            if W != B:
                hk_mism += 1
                bad = [it for it in sorted(set(W) | set(B)) if W.get(it) != B.get(it)][:1]
                ck.violation("hook footprint differs: " + desc,
                             "the entries written by one iteration of the compiled loop differ from the generated descriptor's (%s): iteration %s: model writes %s, code changed %s"
                             % (desc, bad, W.get(bad[0]) if bad else None, B.get(bad[0]) if bad else None), dict(kind="hook", cases=[hc], model_cases=[mc]), found_input=False)
        ck.log("hook H1: %d cases, %d single-iteration runs compared, %d mismatches%s" % (len(hk_cases), hk_iters, hk_mism, "" if hooks_present else " (markers absent in this tree)"))
    if fp_mism or hk_mism: broken = True

    # ------------------------------------------------------------ (b) the real assembly functions under different thread counts
    t0 = time.time()
    dcases = []
    for k, desc, m, fs in mods:
        big = max(len(ms[1]) for ms in m["meshes"]) > 100
        th = THREADS if not big else [1, 4, 16]
        for f in fs:
            dcases.append((diff_case(k, f, th), desc, f, th))
    dcases.append((diff_case(kx, 3, THREADS), "single-layer head (source domain bounded by the current barrier)", 3, THREADS))
    rc, io, err = core.run_harness(hb, [c[0] for c in dcases], wd, env=ENV, timeout=2400)
    ndiff_runs = 0; maxrel = 0.0; crit_diff = 0; fdist = {}
    for (c, desc, f, th), line in zip(dcases, io):
        r = judge_diff(ck, c, line, desc, f, th, found)
        fdist[FNAMES[f]] = fdist.get(FNAMES[f], 0) + 1
        if r:
            ndiff_runs += len(r)
            for t, nd, md, sc in r:
                if f in CRITICAL and sc > 0:
                    maxrel = max(maxrel, md / sc); crit_diff += 1 if nd else 0
    ck.log("differential: %d function x model cases, %d thread-count runs, max relative deviation of the critical-section vector %.2g, %.1fs"
           % (len(dcases), ndiff_runs, maxrel, time.time() - t0))

    # ------------------------------------------------------------ (b') the same sources built with clang / libomp
    clang = dict(available=c05clang.available())
    if clang["available"]:
        t0 = time.time()
        try:
            hc_plain, hc_apple, secs = c05clang.build(bdir, os.path.join(core.VERIF, "harness", "h_c05.cpp"))
            clang["build_s"] = round(secs, 1)
        except RuntimeError as e:
            hc_plain = hc_apple = None
            ck.violation("clang/libomp build fails", "the sources do not build with clang++ -fopenmp=libomp: %s" % e, dict(kind="build", error=str(e)), found_input=False)
        if hc_plain:
            kbig = [k for k, d, m, fs in mods if "42-vertex" in d]; kbig = kbig[0] if kbig else 0
            ccases = []
            for k, desc, m, fs in mods:
                for f in (7, 2, 1):
                    if f in fs: ccases.append((diff_case(k, f, [1, 16]), "clang/libomp build, " + desc, f, [1, 16]))
            rc, io, err = core.run_harness(hc_plain, [c[0] for c in ccases], wd, env=ENV, timeout=1200, tag="clang")
            nruns = 0; cmax = 0.0
            before = len(ck.violations)
            for (c, desc, f, th), line in zip(ccases, io):
                r = judge_diff(ck, c, line, desc, f, th, found)
                if r:
                    nruns += len(r)
                    for t, nd, md, sc in r:
                        if f in CRITICAL and sc > 0: cmax = max(cmax, md / sc)
            # repeated 16-thread runs of the critical-section accumulation
            hcase = "c05 4 %d 7 16 %d |" % (kbig, 40 if quick else 300)
            rc, io, err = core.run_harness(hc_plain, [hcase], wd, env=ENV, timeout=1200, tag="clangh")
            ints, fl = core.fparse(io[0]) if io else (None, None)
            if ints and ints[0] == 0 and ints[2] > 0 and fl[0] > ROUND_TOL * fl[1]:
                ck.violation("clang/libomp build: DipSourceMat(no adapt): repeated 16-thread runs differ from the 1-thread result",
                             "clang/libomp build, 42-vertex 3-layer model: %d repetitions of DipSourceMat with 16 threads differ from the 1-thread result beyond summation rounding (first flat index %d, max |diff| %.3g, max |entry| %.3g)"
                             % (ints[2], ints[3], fl[0], fl[1]), dict(kind="hammer-clang", cases=[hcase], impl=[io[0]], binary="h_c05_clang"))
                found.append(7)
            for n in range(before, len(ck.violations)):       # replays of these cases need the clang binary
                v = ck.violations[n]; rp = dict(v[2]); rp["binary"] = "h_c05_clang"; ck.violations[n] = (v[0], v[1], rp, v[3])
            clang.update(differential_cases=len(ccases), runs=nruns, critical_vector_max_relative_deviation=cmax, hammer=io[0] if io else None)
            # replay of the macOS refutation on real code: operators.cpp compiled with -D__APPLE__ (no omp critical)
            reproduced = False; tried = 0
            for _ in range(12):
                acase = "c05 4 %d 7 16 40 |" % kbig
                rc, io, err = core.run_harness(hc_apple, [acase], wd, env=ENV, timeout=1200, tag="apple")
                ints, fl = core.fparse(io[0]) if io else (None, None); tried += 40
                if ints and ints[0] == 0 and ints[2] > 0 and fl[0] > ROUND_TOL * fl[1]:
                    reproduced = True
                    ck.violation(APPLE_SIG,
                                 "operators.cpp built with -D__APPLE__ (the guard `#ifndef __APPLE__` removes the omp critical of operatorDipolePotDer): %d of 40 DipSourceMat evaluations with 16 threads differ from the 1-thread result (max |diff| %.3g, max |entry| %.3g) -- theorem apple_loop_dipolepotder_schedule_independence_refuted reproduces on the code"
                                 % (ints[2], fl[0], fl[1]), dict(kind="hammer-apple", cases=[acase], impl=[io[0]], binary="h_c05_clang_apple"))
                    break
            clang.update(apple_refutation_reproduced=reproduced, apple_repetitions=tried)
            if not reproduced:
                ck.notes.append("macOS configuration: the lost update predicted by apple_loop_dipolepotder_schedule_independence_refuted did not show in %d repetitions this run" % tried)
        ck.log("clang/libomp: build %.1fs, %s differential cases, apple refutation reproduced: %s, %.1fs"
               % (clang.get("build_s", -1), clang.get("differential_cases"), clang.get("apple_refutation_reproduced"), time.time() - t0))
    else:
        ck.notes.append("clang++/libomp not present: the clang configuration is covered by the theorems over GenParLoops_clang only")
    # the configurations must agree on where the critical sections are, except for the recorded macOS case
    cfg = gen.get("configs", {})
    if cfg:
        gcrit = cfg.get("gcc", {}).get("critical"); ccrit = cfg.get("clang", {}).get("critical")
        if gcrit != ccrit:
            ck.violation("critical sections differ between the g++ and clang configurations",
                         "under the clang defines the loops with an omp critical are %s, under the g++ defines %s: a synchronisation construct is guarded by a compiler macro" % (ccrit, gcrit),
                         dict(kind="configs", gcc=gcrit, clang=ccrit), found_input=False)

    # ------------------------------------------------------------ (c) exceptions raised inside a region
    TRIGGERS = {1: "DiagonalBlock::S", 2: "DiagonalBlock::D", 3: "DiagonalBlock::N", 5: "NonDiagonalBlock::S", 6: "NonDiagonalBlock::N",
                7: "NonDiagonalBlock::D", 8: "operatorFerguson", 9: "operatorDipolePotDer", 10: "operatorDipolePot"}
    ecases = [("c05 3 0 %d 0 %d %s |" % (trig, len(THREADS), " ".join(map(str, THREADS))),
               "om_assert inside the region of %s (caller's target too small for the unknown indices), nested 3-layer model" % nm) for trig, nm in sorted(TRIGGERS.items())]
    rc, io, err = core.run_harness(hb, [c[0] for c in ecases], wd, env=ENV)
    exc_ok = judge_exceptions(ck, ecases, io, found)
    icases = [("c05 3 %d 4 %d %d %s |" % (kx + dk, f, len(THREADS), " ".join(map(str, THREADS))), desc) for dk, f, desc in INPUT_TRIGGERS]
    rc, io, err = core.run_harness(hb, [c[0] for c in icases], wd, env=ENV)
    inp_ok = judge_input_exceptions(ck, icases, io, found)

    # ------------------------------------------------------------ search when a proof / the translator / a footprint broke
    hammered = 0
    if True:
        # always a short stress run (16 threads, repeated); long when a proof / the translator / a footprint broke
        kbig = [k for k, d, m, fs in mods if "42-vertex" in d]
        kbig = kbig[0] if kbig else 0
        reps = (200 if quick else 1000) if broken else (25 if quick else 200)
        hc = [("c05 4 %d %d 16 %d |" % (kbig if f != 9 else 0, f, reps if f != 1 else max(20, reps // 5)), f) for f in (2, 7, 1, 3, 4, 9) if f not in found]
        t0 = time.time()
        rc, io, err = core.run_harness(hb, [c[0] for c in hc], wd, env=ENV, timeout=1500)
        for (c, f), line in zip(hc, io):
            ints, fl = core.fparse(line); hammered += 1
            if not ints or ints[0] != 0: continue
            _, n, druns, first = ints; maxd, scale = fl
            bad = druns > 0 and (f not in CRITICAL or maxd > ROUND_TOL * scale)
            if bad:
                ck.violation("%s: repeated 16-thread runs differ from the 1-thread result" % FNAMES[f],
                             "%s on the 42-vertex 3-layer model: %d repetitions with 16 threads differ from the 1-thread result (first differing flat index %d, max |diff| %.3g, max |entry| %.3g)"
                             % (FNAMES[f], druns, first, maxd, scale), dict(kind="hammer", cases=[c], impl=[line]))
                found.append(f)
        ck.log("hammer: %d runs, %.1fs" % (hammered, time.time() - t0))
    if broken_lemma:
        for n, v in enumerate(ck.violations):
            if v[0] == "proof":
                rp = dict(v[2]); rp["first_failing_lemma"] = broken_lemma
                ck.violations[n] = (v[0], v[1] + " -- first failing proof: %s (%s line %d)" % (broken_lemma["lemma"], broken_lemma["file"], broken_lemma["line"]), rp, v[3])
    # ------------------------------------------------------------ thorough tier: ThreadSanitizer (clang + libomp + archer), supporting only
    tsan = dict(run=False)
    if not quick:
        tsan = tsan_run(ck, bdir, wd, mods)
    ck.drop_proof_violation_if(bool(found))

    regs = gen.get("regions", [])
    ck.cov.update(evaluations=len(fp_cases) + ndiff_runs + len(ecases) * len(THREADS),
                  distinct_nontrivial=len(fp_cases) - fp_mism + len(dcases),
                  rule="footprint cases: (model, mesh pair, loop, container kind) with the accesses of every region/iteration compared as multisets; differential cases: (model, assembly function) over thread counts %s; non-trivial = every case (each has >= 12 iterations per region)" % THREADS,
                  samples=[c[2] for c in fp_cases[:2]] + [c[0] for c in dcases[:2]],
                  op_distribution=fdist, footprint_cases=len(fp_cases), footprint_regions=fp_regions, footprint_accesses=fp_acc,
                  footprint_mismatches=fp_mism, hook_cases=len(hk_cases), hook_single_iteration_runs=hk_iters, hook_mismatches=hk_mism, hook_markers_present=hooks_present, thread_counts=THREADS, differential_runs=ndiff_runs,
                  critical_vector_max_relative_deviation=maxrel, critical_vector_cases_with_rounding_differences=crit_diff,
                  exception_cases=len(ecases), exception_cases_propagating_for_all_thread_counts=exc_ok,
                  input_driven_exception_cases=len(icases), input_driven_exception_cases_reaching_the_caller=inp_ok,
                  models=[d for _, d, _, _ in mods], hypothesis_well_indexed_checked_on=len(dumps), hypothesis_failures=hyp_bad,
                  parallel_loops=[dict(name=r["name"], where="%s:%d" % (r["file"], r["line"]), variant=r["variant"], critical=r["critical"],
                                       wrapped=r["wrapped"], rethrow=r["rethrow"]) for r in regs],
                  dead_pragmas=gen.get("dead", []), hammer_runs=hammered, thread_sanitizer=tsan, clang_libomp=clang,
                  configurations={t: dict(critical=c.get("critical"), dead=c.get("dead"), loops=len(c.get("regions", []))) for t, c in gen.get("configs", {}).items()},
                  traces_validated_against_impl=len(fp_cases) - fp_mism,
                  explanation="theorems hold for every schedule of the model; the tie is the translator (loop descriptors regenerated from the sources), the footprint correspondence through the templates, and thread-count differential runs of the compiled library")
    ck.cov["trusted_base"] += ["translator translators/t_parloops.py (pattern based; unknown syntax is reported, never guessed)",
                               "libgomp static schedule with team >= trip count gives thread k iteration k (used only to attribute logged accesses)",
                               "interposed GOMP_parallel counts regions", "extraction: ExtrOcamlBasic only",
                               "operatorFerguson / operatorDipolePot / operatorDipolePotDer / deflate take concrete Matrix/Vector: their footprints are tied by the translator and the differential runs only"]
    ck.assumptions += ["well_indexed (C11): distinct triangles/vertices of a mesh have distinct unknown indices; vertex and triangle unknown ranges are disjoint -- checked on every generated geometry by the runner",
                       "an iteration's control flow and the indices it touches do not depend on values stored in the shared containers (straight-line iterations)",
                       "omp critical is a global mutex; the implicit barrier at the end of a parallel for separates regions; std::mutex in ThreadException makes the capture atomic",
                       "floating-point addition is commutative but not associative: the critical-section accumulation is schedule independent only up to summation order (theorem critical_sum_some_iteration_order; measured deviation reported)",
                       "races inside OpenBLAS / libgomp / the hardware memory model are outside the model"]
    return ck.finish()
