"""C07 — matrices and vectors survive a save/load round trip in every format.

Tie: (a) byte-exact comparison of the model's encoding with the file the library wrote (binary: bytes;
text: the model's token lines rendered with printf %g), (b) outcome-exact comparison of load() with the
model of the front end + codecs on the token/byte view of that same file, (c) the property's own relation
on the implementation (reloaded == saved, or an error for the shapes a format cannot hold), also for the
MATLAB container (harness only) and through om_matrix_convert."""
import os, sys, json, subprocess, struct, math
import core, ombuild
import c07lex as lex

PROP = "C07"
KN = ["Vec", "Full", "Sym", "Sparse"]
FN = ["bin", "txt", "tex", "mat", "dat", "nosuffix"]
ERR = {1: "om_assert", 3: "std::exception", 4: "unknown", 10: "BadFileOpening", 11: "BadContent", 12: "NoSuffix", 13: "BadHeader",
       14: "ImpossibleObjectIdentification", 15: "BadStorageType", 16: "BadData", 17: "BadVector", 18: "BadSymmMatrix", 19: "NoIO",
       20: "MatioError", 21: "UnknownFileFormat", 22: "UnknownFileSuffix", 23: "UnexpectedException", 29: "maths::Exception",
       30: "bad_alloc", 31: "length_error", 32: "out_of_range", 40: "OpenMEEG::Exception", 90: "CRASH", 91: "TIMEOUT", 99: "unmodelled"}

# ---------- values ----------
SPECIAL = [0.0, -0.0, 1.0, -1.0, 0.5, 1e300, -1e300, 1e-300, -1e-300, 123456789.0, 0.1, 1.0 / 3, 2.5e-7, 99999.95, 1e22, 7.0, -42.0]
# the longest texts "%g" produces: sign, six significant digits, three-digit exponent (13 characters)
EXTREME = [-1.23456789e-300, 1.23456789e-300, -9.87654321e+300, 9.87654321e+300, -1.23457e100, 7.65432e-101, -5.55555e250, -2.71828e-150, 3.14159e+200, -6.02214e-123]
NONFINITE = [float("inf"), float("-inf"), float("nan")]

def gen_value(rng, nonfinite):
    c = rng.random()
    if nonfinite and c < 0.08: return rng.choice(NONFINITE)
    if c < 0.30: return rng.choice(SPECIAL)
    if c < 0.42: return rng.choice(EXTREME) if rng.random() < 0.5 else rng.choice([-1, 1]) * rng.uniform(1.000001, 9.999999) * 10.0 ** (rng.choice([-1, 1]) * rng.randint(100, 300))
    if c < 0.6: return float(rng.randint(-50, 50))
    return rng.uniform(-1, 1) * 10.0 ** rng.randint(-12, 12)

def gen_dim(rng, big):
    c = rng.random()
    if c < 0.10: return 0
    if c < 0.25: return 1
    if c < 0.40: return 2
    if c < 0.50: return 3
    if c < 0.58: return rng.choice([10, 13, 32, 48, 49, 50, 57])     # first header byte = '\n', '\r', ' ', '0'..'9'
    if big and c < 0.63: return rng.randint(100, 300)
    return rng.randint(4, 9)

def gen_obj(rng, kind, nonfinite, big=True):
    """object wire: kind, dims, 64-bit value words"""
    w = lambda x: lex.d2w(x)
    if kind == 0:
        n = gen_dim(rng, big); return [0, n] + [w(gen_value(rng, nonfinite)) for _ in range(n)]
    if kind == 1:
        nl, nc = gen_dim(rng, big), gen_dim(rng, False)
        if rng.random() < 0.5: nl, nc = nc, nl
        return [1, nl, nc] + [w(gen_value(rng, nonfinite)) for _ in range(nl * nc)]
    if kind == 2:
        n = gen_dim(rng, False); return [2, n] + [w(gen_value(rng, nonfinite)) for _ in range(n * (n + 1) // 2)]
    nl, nc = gen_dim(rng, False), gen_dim(rng, False)
    cells = [(i, j) for i in range(nl) for j in range(nc)]
    c = rng.random()
    if not cells: k = 0
    elif c < 0.15: k = 0
    elif c < 0.35 and len(cells) % 2 == 0: k = len(cells) // 2              # the ambiguous "half" pattern
    elif c < 0.45: k = len(cells)
    elif c < 0.55: k = 1
    else: k = rng.randint(0, len(cells))
    es = sorted(rng.sample(cells, k))
    out = [3, nl, nc, len(es)]
    for (i, j) in es: out += [i, j, w(gen_value(rng, nonfinite) if rng.random() > 0.1 else 0.0)]   # stored zeros too
    return out

def obj_dims(o):
    k = o[0]
    if k == 0: return (o[1],)
    if k == 1: return (o[1], o[2])
    if k == 2: return (o[1],)
    return (o[1], o[2], o[3])

def obj_map_values(o, f):
    k = o[0]
    if k in (0, 2): return o[:2] + [f(x) for x in o[2:]]
    if k == 1: return o[:3] + [f(x) for x in o[3:]]
    out = o[:4]
    for t in range(o[3]): out += [o[4 + 3 * t], o[5 + 3 * t], f(o[6 + 3 * t])]
    return out

def obj_values(o):
    k = o[0]
    if k in (0, 2): return o[2:]
    if k == 1: return o[3:]
    return [o[6 + 3 * t] for t in range(o[3])]

def bin_ambiguous(o):
    if o[0] == 2: return o[1] <= 1
    if o[0] == 3: return 2 * o[3] == o[1] * o[2]
    return False

def txt_ambiguous(o):
    if o[0] == 0: return o[1] <= 1
    if o[0] == 1: return o[1] == 0 or o[2] == 0 or (o[2] == 1 and o[1] >= 2)
    if o[0] == 2: return o[1] <= 1
    return o[3] == 0

def describe(o):
    k = o[0]; d = obj_dims(o)
    return "%s %s" % (KN[k], "x".join(map(str, d[:2])) + (" nnz=%d" % d[2] if k == 3 else ""))

def outcome_str(out):
    if not out: return "?"
    if out[0] == 0: return "Ok(%s)" % describe(out[1:])
    return ERR.get(out[0], str(out[0]))

def mobj(o):
    """object wire with 64-bit words -> the model's wire (words as lo/hi halves)"""
    k = o[0]
    if k in (0, 2): return o[:2] + [h for x in o[2:] for h in lex.halves(x)]
    if k == 1: return o[:3] + [h for x in o[3:] for h in lex.halves(x)]
    out = o[:4]
    for t in range(o[3]): out += [o[4 + 3 * t], o[5 + 3 * t]] + lex.halves(o[6 + 3 * t])
    return out

def moutcome(oc):
    return [0] + mobj(oc[1:]) if oc and oc[0] == 0 else oc

def ints(line):
    return [int(t) for t in line.split()] if not line.startswith("CRASH") else [90]

def tex_applies(sfx, kind, data):
    """the tex reader is what load() runs: .tex name, or any name once auto-detection sees the magic (Matrix target only handled)"""
    if not (lex.starts_with_magic(data[:32].split(b"\0")[0]) and kind == 1 and lex.tex_view(data)[1]): return False
    # counts beyond 10^6 would make the extracted model build a unary number: left to the class-only comparison
    for t in data.split():
        oi, iv, pi = lex.extract_uint(t, 0, 32)
        if (oi and iv > 10 ** 6) or (not oi and pi > 0 and t[:pi].lstrip(b"+-").isdigit()): return False
    return True

def safe_model(ck, lines, timeout=900):
    """the extracted model with a time limit: a slow or failing model is a reported problem of the tie, not a hang"""
    try:
        return core.run_model(lines, timeout=timeout)
    except RuntimeError as e:
        ck.violation("model driver: %s" % str(e)[:60], "the extracted model did not answer: %s" % str(e)[:300], dict(kind="model", error=str(e)[:2000], cases=lines[:3]), found_input=False)
        return ["99"] * len(lines)

def model_load_line(order, sfx, kind, data):
    if tex_applies(sfx, kind, data):
        return "c07 5 %s" % " ".join(map(str, lex.tex_view(data)[0]))
    return "c07 3 %s %d %d %s" % (" ".join(map(str, order)), sfx, kind, " ".join(map(str, lex.file_wire(lex.file_view(data)))))

def get_order(hb, workdir):
    rc, io, err = core.run_harness(hb, ["c07 3"], workdir, tag="order")
    o = ints(io[0])
    return o[1:]

def rnd6_batch(hb, workdir, words):
    words = sorted(set(words))
    if not words: return {}
    rc, io, err = core.run_harness(hb, ["c07 4 %d %s" % (len(words), " ".join(map(str, words)))], workdir, tag="rnd6")
    r = ints(io[0])[1:]
    return dict(zip(words, r))

def same_value(a, b):
    """bit-exact, except that all NaN payloads count as NaN only for text (never used there)"""
    return a == b

# ---------- the round-trip cases ----------
def gen_rt_cases(rng, n):
    cases = []
    for _ in range(n):
        fmt = 0 if rng.random() < 0.5 else 1
        kind = rng.randint(0, 3)
        if rng.random() < 0.12: fmt, kind = 2, 1
        o = gen_obj(rng, kind, nonfinite=(fmt == 0))
        tk = kind if rng.random() < 0.7 else rng.randint(0, 3)
        cases.append((fmt, o, tk))
    return cases

def exhaustive_small(rng):
    """every kind x small shape x target kind for bin and txt (the case splits of the proofs)"""
    cases = []
    w = lex.d2w
    for nl in range(0, 4):
        for nc in range(0, 4):
            cases.append((2, [1, nl, nc] + [w(float(10 * i + j) + 0.5) for j in range(nc) for i in range(nl)], 1))
    ex = [w(x) for x in EXTREME]
    for fmt in (0, 1):       # every kind holding the longest-printing values
        cases.append((fmt, [0, 4] + ex[:4], 0)); cases.append((fmt, [1, 2, 3] + ex[:6], 1)); cases.append((fmt, [2, 3] + ex[4:10], 2))
        cases.append((fmt, [3, 3, 3, 4, 0, 1, ex[0], 1, 0, ex[2], 1, 2, ex[5], 2, 2, ex[7]], 3))
    cases.append((2, [1, 3, 2] + ex[:6], 1))
    for fmt in (0, 1):
        for n in range(0, 5):
            vs = [w(float(k + 1) + 0.25) for k in range(n)]
            for tk in range(4): cases.append((fmt, [0, n] + vs, tk))
            sv = [w(float(k + 1) * 1.5) for k in range(n * (n + 1) // 2)]
            for tk in range(4): cases.append((fmt, [2, n] + sv, tk))
        for nl in range(0, 4):
            for nc in range(0, 4):
                vs = [w(float(10 * i + j) + 0.5) for j in range(nc) for i in range(nl)]
                for tk in range(4): cases.append((fmt, [1, nl, nc] + vs, tk))
                cells = [(i, j) for i in range(nl) for j in range(nc)]
                for k in sorted({0, 1, len(cells) // 2, len(cells)}):
                    if k > len(cells): continue
                    es = sorted(rng.sample(cells, k))
                    o = [3, nl, nc, k]
                    for (i, j) in es: o += [i, j, w(float(i - j) + 0.125)]
                    for tk in (1, 3): cases.append((fmt, o, tk))
    return cases

def rt_line(c):
    fmt, o, tk = c
    return "c07 1 %d %s %d" % (fmt, " ".join(map(str, o)), tk)

def parse_rt(out):
    """[save status, nbytes, bytes..., load outcome] -> (save_status, bytes, outcome)"""
    if out[0] != 0: return out[0], None, None
    nb = out[1]
    return 0, bytes(out[2:2 + nb]), out[2 + nb:]

STEMS = ["./omfile_p", "omdir.v2/m", "omfile.v1", "omdir.v2/../omfile_q", "omdir.v2/m.x.y"]     # as in harness op 16
def run_rt(ck, hb, order, cases, stats, style=None):
    lines = [rt_line(c) if style is None else "c07 16 %d %d %s %d" % (style, c[0], " ".join(map(str, c[1])), c[2]) for c in cases]
    rc, io, err = core.run_harness(hb, lines, ck.workdir, tag="rt")
    impl = [parse_rt(ints(l)) for l in io]
    # model: encoding + load on the view of the bytes the library wrote
    mlines = []
    for (fmt, o, tk), (st, data, oc) in zip(cases, impl):
        mlines.append("c07 %d %s" % ({0: 1, 1: 2, 2: 6}[fmt], " ".join(map(str, mobj(o)))))
        mlines.append(model_load_line(order, fmt, tk, data if data is not None else b""))
    mo = safe_model(ck, mlines, timeout=1200)
    words = [v for (fmt, o, tk) in cases if fmt in (1, 2) for v in obj_values(o)]
    rnd = rnd6_batch(hb, ck.workdir, words)
    for n, ((fmt, o, tk), (st, data, oc)) in enumerate(zip(cases, impl)):
        line = lines[n]
        enc = ints(mo[2 * n]); mload = ints(mo[2 * n + 1])
        tag = "%s %s -> load as %s" % (FN[fmt], describe(o), KN[tk]) + ("" if style is None else " [path %s.%s]" % (STEMS[style], FN[fmt]))
        stats["dist"]["%s/%s" % (FN[fmt], KN[o[0]])] = stats["dist"].get("%s/%s" % (FN[fmt], KN[o[0]]), 0) + 1
        if st != 0:
            ck.violation("save fails: %s %s" % (FN[fmt], describe(o)), "save raised %s for %s" % (ERR.get(st, st), tag),
                         dict(kind="roundtrip", cases=[line])); continue
        # (a) encoding
        mbytes = bytes(enc[2:]) if fmt == 0 else lex.render_tokens(enc) if fmt == 1 else lex.render_tex(enc)
        if mbytes != data:
            stats["mism"] += 1
            ck.violation("encoding differs: %s %s" % (FN[fmt], describe(o)),
                         "the file written by the library differs from the model's encoding (%s): impl %d bytes %s..., model %d bytes %s..." %
                         (tag, len(data), list(data[:24]), len(mbytes), list(mbytes[:24])), dict(kind="encoding", cases=[line]))
        # (b) load outcome
        if mload and mload[0] == 99:
            stats["unmodelled"] += 1
        elif mload != moutcome(oc):
            stats["mism"] += 1
            ck.violation("load outcome differs: %s" % tag,
                         "load() and the model disagree on the file the library wrote (%s): impl %s %s, model %s %s" %
                         (tag, outcome_str(oc), oc[:12], outcome_str(mload), mload[:12]), dict(kind="load", cases=[line]))
        # (c) the property's own relation on the implementation
        if oc and oc[0] != 0: stats["errors"] += 1
        if tk == o[0]:
            amb = bin_ambiguous(o) if fmt == 0 else txt_ambiguous(o) if fmt == 1 else (o[1] == 0 or o[2] == 0)
            expect = o if fmt == 0 else obj_map_values(o, lambda x: rnd.get(x, x))
            if oc[0] == 0:
                if oc[1:] != expect:
                    ck.violation("roundtrip changes the object: %s %s" % (FN[fmt], describe(o)),
                                 "PROPERTY: %s reloaded as %s with other dimensions/values: saved %s, loaded %s" %
                                 (tag, outcome_str(oc), expect[:10], oc[1:11]), dict(kind="roundtrip", cases=[line]))
            elif not amb:
                ck.violation("roundtrip fails: %s %s" % (FN[fmt], describe(o)),
                             "PROPERTY: %s cannot be reloaded (%s) although the format can represent this shape" % (tag, outcome_str(oc)),
                             dict(kind="roundtrip", cases=[line]))
            if len(obj_values(o)) > 0: stats["nontrivial"].add(line)
    return impl

# ---------- MATLAB (container assumed; harness only) ----------
def run_mat(ck, hb, rng, n, stats):
    cases = []
    for _ in range(n):
        kind = rng.randint(0, 3)
        cases.append(gen_obj(rng, kind, nonfinite=True, big=False))
    for k in range(4):       # smallest shapes
        for d in (0, 1, 2):
            cases.append({0: [0, d] + [lex.d2w(1.5)] * d, 1: [1, d, 2] + [lex.d2w(2.5)] * (2 * d), 2: [2, d] + [lex.d2w(3.5)] * (d * (d + 1) // 2),
                          3: [3, d, 2, min(d, 1)] + ([0, 1, lex.d2w(4.5)] if d else [])}[k])
    lines = ["c07 8 %s %d" % (" ".join(map(str, o)), o[0]) for o in cases]
    rc, io, err = core.run_harness(hb, lines, ck.workdir, tag="mat")
    for o, line, l in zip(cases, lines, io):
        out = ints(l)
        stats["dist"]["mat/%s" % KN[o[0]]] = stats["dist"].get("mat/%s" % KN[o[0]], 0) + 1
        tag = "mat %s" % describe(o)
        if out[0] in (90, 91):
            ck.violation("matlab roundtrip crashes: %s" % describe(o), "PROPERTY: %s: process %s during save/load" % (tag, ERR[out[0]]), dict(kind="mat", cases=[line])); continue
        if out[0] != 0:
            ck.violation("matlab save fails: %s" % describe(o), "PROPERTY: %s: save raised %s" % (tag, ERR.get(out[0], out[0])), dict(kind="mat", cases=[line])); continue
        oc = out[1:]
        if oc[0] != 0:
            ck.violation("matlab roundtrip fails: %s" % describe(o), "PROPERTY: %s cannot be reloaded (%s)" % (tag, outcome_str(oc)), dict(kind="mat", cases=[line]))
        elif oc[1:] != o:
            ck.violation("matlab roundtrip changes the object: %s" % describe(o),
                         "PROPERTY: %s reloaded with other dimensions/values: saved %s loaded %s" % (tag, o[:10], oc[1:11]), dict(kind="mat", cases=[line]))
    return len(cases)

# ---------- loading into an object that already holds something else ----------
def run_used(ck, hb, rng, n, stats):
    jobs = []
    w = lex.d2w
    fixed = [(3, [3, 3, 3, 1, 1, 1, w(2.5)], [3, 3, 3, 3, 0, 0, w(9.0), 0, 2, w(8.0), 2, 1, w(7.0)]),
             (3, [3, 2, 2, 1, 0, 0, w(1.0)], [3, 5, 5, 2, 4, 4, w(3.0), 3, 1, w(4.0)]),
             (0, [0, 3, w(1.0), w(2.0), w(3.0)], [0, 5] + [w(9.0)] * 5), (1, [1, 2, 2] + [w(float(k)) for k in range(4)], [1, 3, 4] + [w(7.0)] * 12),
             (2, [2, 3] + [w(float(k)) for k in range(6)], [2, 2, w(5.0), w(5.0), w(5.0)])]
    for kind, o, u in fixed:
        for fmt in (0, 1, 3): jobs.append((fmt, o, u))
    while len(jobs) < n:
        kind = rng.randint(0, 3); fmt = rng.choice([0, 1, 3] + ([2] if kind == 1 else []))
        jobs.append((fmt, gen_obj(rng, kind, nonfinite=(fmt in (0, 3)), big=False), gen_obj(rng, kind, nonfinite=False, big=False)))
    lines = ["c07 13 %d %s %s" % (f, " ".join(map(str, o)), " ".join(map(str, u))) for f, o, u in jobs]
    rc, io, err = core.run_harness(hb, lines, ck.workdir, tag="used")
    rnd = rnd6_batch(hb, ck.workdir, [v for f, o, u in jobs if f in (1, 2) for v in obj_values(o)])
    for (f, o, u), line, il in zip(jobs, lines, io):
        out = ints(il); tag = "%s %s loaded into a used %s" % (FN[f], describe(o), describe(u))
        stats["dist"]["used/%s/%s" % (FN[f], KN[o[0]])] = stats["dist"].get("used/%s/%s" % (FN[f], KN[o[0]]), 0) + 1
        rep = dict(kind="used", cases=[line])
        if out[0] in (90, 91) or out[0] != 0:
            ck.violation("used-object roundtrip: save fails or crashes: %s %s" % (FN[f], describe(o)), "PROPERTY: %s: %s" % (tag, ERR.get(out[0], out[0])), rep); continue
        oc = out[1:]
        amb = bin_ambiguous(o) if f == 0 else txt_ambiguous(o) if f == 1 else (o[1] == 0 or o[2] == 0) if f == 2 else False
        expect = obj_map_values(o, lambda x: rnd.get(x, x)) if f in (1, 2) else o
        if oc[0] == 0:
            if oc[1:] != expect:
                ck.violation("load into a used object keeps old content: %s %s" % (FN[f], KN[o[0]]),
                             "PROPERTY: %s returns another object than the one saved: expected %s, got %s" % (tag, expect[:12], oc[1:13]), rep)
        elif not amb:
            ck.violation("load into a used object fails: %s %s" % (FN[f], describe(o)), "PROPERTY: %s cannot be loaded (%s)" % (tag, outcome_str(oc)), rep)
    return len(jobs)

# ---------- MATLAB sparse: CSC arrays as stored by libmatio vs the model ----------
def run_csc(ck, hb, rng, n, stats):
    cases = [gen_obj(rng, 3, nonfinite=True, big=False) for _ in range(n)]
    w = lex.d2w
    cases += [[3, 2, 3, 2, 0, 1, w(0.0), 1, 2, w(-0.0)], [3, 1, 1, 1, 0, 0, w(-0.0)], [3, 3, 3, 0], [3, 4, 2, 3, 0, 1, w(1.5), 3, 0, w(2.5), 3, 1, w(0.0)]]
    lines = ["c07 9 %s" % " ".join(map(str, o)) for o in cases]
    rc, io, err = core.run_harness(hb, lines, ck.workdir, tag="csc")
    mo = safe_model(ck, ["c07 7 %s" % " ".join(map(str, mobj(o))) for o in cases])
    for o, line, il, ml in zip(cases, lines, io, mo):
        out = ints(il); m = ints(ml)
        stats["dist"]["csc/Sparse"] = stats["dist"].get("csc/Sparse", 0) + 1
        tag = "mat %s" % describe(o); rep = dict(kind="csc", cases=[line])
        if out[0] != 0 or (len(out) > 1 and out[1] == -1):
            ck.violation("matlab sparse save fails: %s" % describe(o), "PROPERTY: %s: save/reopen failed (%s)" % (tag, out[:2]), rep); continue
        # impl: nl nc nir ir njc jc ndata data | outcome ; model: same with data as halves
        p = 1; nl, nc = out[p], out[p + 1]; p += 2
        nir = out[p]; ir = out[p + 1:p + 1 + nir]; p += 1 + nir
        njc = out[p]; jc = out[p + 1:p + 1 + njc]; p += 1 + njc
        nd = out[p]; data = out[p + 1:p + 1 + nd]; p += 1 + nd
        oc = out[p:]
        impl_arrays = [0, nl, nc, nir] + ir + [njc] + jc + [nd] + [h for x in data for h in lex.halves(x)]
        if m[:len(impl_arrays)] != impl_arrays:
            stats["mism"] += 1
            ck.violation("csc arrays differ: %s" % describe(o), "the (ir, jc, data) stored in the MATLAB file differ from the model's write_csc for %s: impl ir=%s jc=%s, model %s" % (tag, ir[:8], jc[:8], m[:20]), rep)
        elif m[len(impl_arrays):] != moutcome(oc):
            stats["mism"] += 1
            ck.violation("csc read differs: %s" % describe(o), "read_sparse and the model's read_csc disagree for %s: impl %s model %s" % (tag, oc[:10], m[len(impl_arrays):][:10]), rep)
        if oc and (oc[0] != 0 or oc[1:] != o):
            ck.violation("matlab roundtrip changes the object: %s" % describe(o), "PROPERTY: %s reloaded as %s %s" % (tag, outcome_str(oc), oc[1:10]), rep)
    return len(cases)

# ---------- om_matrix_convert ----------
def run_convert(ck, hb, bdir, rng, n, stats):
    tool = None
    for root, dirs, files in os.walk(bdir):
        if "om_matrix_convert" in files: tool = os.path.join(root, "om_matrix_convert"); break
    if tool is None:
        ck.notes.append("om_matrix_convert not found in the scratch build"); return 0
    jobs = []
    t = 0
    w = lex.d2w
    # the shape grid: every kind x input format x output format, incl. 1xn, nx1, 1x1 and zero dimensions
    def vals(k): return [w(float(i + 1) + 0.25) for i in range(k)]
    grid = [[0, n] + vals(n) for n in (0, 1, 2, 3)]
    grid += [[1, a, b] + vals(a * b) for (a, b) in ((1, 1), (1, 3), (3, 1), (2, 2), (2, 3), (0, 2), (2, 0))]
    grid += [[2, n] + vals(n * (n + 1) // 2) for n in (0, 1, 2, 3)]
    grid += [[3, 2, 3, 0], [3, 2, 3, 1, 0, 1, w(1.5)], [3, 2, 3, 3, 0, 0, w(1.0), 0, 2, w(2.0), 1, 1, w(3.0)], [3, 1, 3, 2, 0, 0, w(1.0), 0, 2, w(2.0)], [3, 3, 1, 1, 2, 0, w(4.0)], [3, 1, 1, 1, 0, 0, w(5.0)]]
    for o in grid:
        for f1 in (0, 1, 3):
            for f2 in (0, 1, 3):
                jobs.append((o, f1, f2, t)); t += 1
    while len(jobs) < len(grid) * 9 + n:
        kind = rng.randint(0, 3)
        f1 = rng.choice([0, 0, 1, 3]); f2 = rng.choice([0, 1, 3])
        o = gen_obj(rng, kind, nonfinite=False, big=False)
        jobs.append((o, f1, f2, t)); t += 1
    # former witnesses of the auto-detection finding (repaired): plain cases now
    jobs.append(([0, 48] + [w(float(k)) for k in range(48)], 0, 0, t)); t += 1
    jobs.append(([1, 49, 2] + [w(0.0)] * 98, 0, 1, t)); t += 1
    sl = ["c07 6 %d %s %d" % (f1, " ".join(map(str, o)), 1000 + t) for (o, f1, f2, t) in jobs]
    rc, io, err = core.run_harness(hb, sl, ck.workdir, tag="cv1")
    # maths::info of every file just written: kind and dimensions of the object that was saved
    il = ["c07 15 %d %d" % (f1, 1000 + t) for (o, f1, f2, t) in jobs]
    rc, ioi, err = core.run_harness(hb, il, ck.workdir, tag="cvi")
    ST = {0: 0, 1: 0, 2: 1, 3: 4}       # LinOp::StorageType of Vec, Full, Sym, Sparse
    for (o, f1, f2, t), l0, li, line in zip(jobs, io, ioi, sl):
        if ints(l0)[0] != 0: continue
        amb = bin_ambiguous(o) if f1 == 0 else txt_ambiguous(o) if f1 == 1 else False
        if amb or (f1 == 1 and o[0] == 1 and o[1] == 1 and False): continue
        got = ints(li)
        d = obj_dims(o)
        exp = [0, ST[o[0]], 1 if o[0] == 0 else 2, d[0], 1 if o[0] == 0 else (d[0] if o[0] == 2 else d[1])]
        stats["dist"]["info/%s" % FN[f1]] = stats["dist"].get("info/%s" % FN[f1], 0) + 1
        if got != exp:
            ck.violation("info differs: %s %s" % (FN[f1], describe(o)), "PROPERTY: maths::info of the %s file of %s says %s (status, storage, dimension, nlin, ncol), expected %s" % (FN[f1], describe(o), got, exp),
                         dict(kind="convert", cases=[line, "c07 15 %d %d" % (f1, 1000 + t)], fmt_in=FN[f1], fmt_out=FN[f1]))
    ran = []
    env = dict(os.environ); env["OMP_NUM_THREADS"] = "1"
    libs = ombuild.find_libs(bdir); env["LD_LIBRARY_PATH"] = ":".join(sorted({os.path.dirname(p) for p in libs.values()})) + ":" + env.get("LD_LIBRARY_PATH", "")
    for (o, f1, f2, t), l in zip(jobs, io):
        if ints(l)[0] != 0: ran.append(None); continue
        src = os.path.join(ck.workdir, "f%d.%s" % (1000 + t, FN[f1])); dst = os.path.join(ck.workdir, "f%d.%s" % (2000 + t, FN[f2]))
        if os.path.exists(dst): os.remove(dst)
        try:
            p = subprocess.run([tool, "-i", src, "-o", dst], stdout=subprocess.PIPE, stderr=subprocess.PIPE, timeout=20, env=env, cwd=ck.workdir)
            ran.append(p.returncode)
        except subprocess.TimeoutExpired:
            ran.append(-999)
    ll = ["c07 7 %d %d %d" % (f2, o[0], 2000 + t) for (o, f1, f2, t) in jobs]
    rc, io2, err = core.run_harness(hb, ll, ck.workdir, tag="cv2")
    words = [v for (o, f1, f2, t) in jobs for v in obj_values(o)]
    rnd = rnd6_batch(hb, ck.workdir, words)
    for (o, f1, f2, t), rcode, l, s1 in zip(jobs, ran, io2, sl):
        tag = "convert %s %s -> %s" % (describe(o), FN[f1], FN[f2])
        stats["dist"]["convert %s->%s" % (FN[f1], FN[f2])] = stats["dist"].get("convert %s->%s" % (FN[f1], FN[f2]), 0) + 1
        rep = dict(kind="convert", cases=[s1], fmt_in=FN[f1], fmt_out=FN[f2])
        amb1 = bin_ambiguous(o) if f1 == 0 else txt_ambiguous(o) if f1 == 1 else False
        lossy = (f1 == 1 or f2 == 1)
        expect = obj_map_values(o, lambda x: rnd.get(x, x)) if lossy else o
        amb2 = bin_ambiguous(expect) if f2 == 0 else txt_ambiguous(expect) if f2 == 1 else False
        if rcode is None: continue
        oc = ints(l)
        if rcode != 0 or oc[0] != 0:
            if not (amb1 or amb2):
                # the tool identifies the kind of the input by trial: Vec first.  Shapes that another kind claims are the format's ambiguity
                ck.violation("convert fails: %s %s->%s" % (describe(o), FN[f1], FN[f2]),
                             "PROPERTY: om_matrix_convert %s: tool exit %s, reload %s" % (tag, rcode, outcome_str(oc)), rep)
            continue
        if oc[1:] != expect and not (amb1 or amb2):
            ck.violation("convert changes the object: %s %s->%s" % (describe(o), FN[f1], FN[f2]),
                         "PROPERTY: om_matrix_convert %s changed the object: expected %s got %s" % (tag, expect[:10], oc[1:11]), rep)
    return len(jobs)

def main(replay=None):
    ck = core.Check(PROP, "proof")
    quick = ck.tier != "thorough"
    bdir, hb = ck.prepare("Props/Properties_C07.v", "h_c07.cpp")
    if not (bdir and hb):
        return ck.finish()
    stats = dict(dist={}, mism=0, errors=0, unmodelled=0, nontrivial=set())
    order = get_order(hb, ck.workdir)
    stats["order"] = order
    if replay:
        rp = json.load(open(replay))
        cases = []
        for l in rp.get("cases", []):
            w = [int(t) for t in l.split()[1:]]
            if w[0] == 1: cases.append((w[1], w[2:-1], w[-1]))
            if w[0] == 16: run_rt(ck, hb, order, [(w[2], w[3:-1], w[-1])], stats, style=w[1])
        if cases: run_rt(ck, hb, order, cases, stats)
        if rp.get("kind") in ("mat", "used", "csc", "convert"):
            lines = rp["cases"]; rc, io, err = core.run_harness(hb, lines, ck.workdir, tag="mat")
            print("replay:", lines[0][:200], "->", io[0][:200])
        ck.cov.update(evaluations=len(cases), distinct_nontrivial=len(stats["nontrivial"]), rule="replay")
        return ck.finish()
    corpus = []
    cp = os.path.join(core.VERIF, "corpus", "C07.txt")
    if os.path.exists(cp):
        for l in open(cp):
            l = l.strip()
            if l and not l.startswith("#"):
                w = [int(t) for t in l.split()[1:]]
                corpus.append((w[1], w[2:-1], w[-1]))
    cases = corpus + exhaustive_small(ck.rng) + gen_rt_cases(ck.rng, 700 if quick else 6000)
    run_rt(ck, hb, order, cases, stats)
    # the same relation through file names with dots before the extension; the model's path -> format function first
    plines = []; pexp = []
    for st in range(len(STEMS)):
        for f in (0, 1, 2, 3):
            pth = ("%s.%s" % (STEMS[st], FN[f])).encode(); plines.append("c07 9 %d %s" % (len(pth), " ".join(map(str, pth)))); pexp.append(f)
    for pl, pe, mo_ in zip(plines, pexp, safe_model(ck, plines)):
        if ints(mo_) != [pe]:
            ck.violation("path model: %s" % pl[:40], "the model's suffix_of_path gives %s for a path whose last suffix is %s" % (mo_, FN[pe]), dict(kind="path", cases=[pl]), found_input=False)
    small = [c for c in exhaustive_small(ck.rng) if len(c[1]) <= 12]
    dotted = small[::3] + gen_rt_cases(ck.rng, 40 if quick else 400)
    for st in range(len(STEMS)):
        run_rt(ck, hb, order, dotted[st::len(STEMS)] + small[st::7], stats, style=st)
    nmat = run_mat(ck, hb, ck.rng, 60 if quick else 600, stats)
    nused = run_used(ck, hb, ck.rng, 80 if quick else 600, stats)
    ncsc = run_csc(ck, hb, ck.rng, 60 if quick else 500, stats)
    ncv = run_convert(ck, hb, bdir, ck.rng, 60 if quick else 500, stats)
    ck.cov.update(evaluations=len(cases) + nmat + ncv + ncsc + nused, csc_cases=ncsc, used_object_cases=nused, distinct_nontrivial=len(stats["nontrivial"]),
                  rule="round-trip cases kind x {bin,txt} x shape (all shapes <=4 exhaustively x all target kinds; random dims biased to 0/1/2/3, to sizes whose first header byte is a digit/newline (10,13,32,48..57), up to 300 rows; sparsity patterns empty/single/half/full/random; values: signed zeros, 1e+-300, integers, random decades, NaN/Inf for bin/mat); 30% cross-kind loads; non-trivial = same-kind case with at least one stored value; distinct = distinct case lines",
                  samples=[rt_line(c)[:300] for c in cases[len(cases) // 2:len(cases) // 2 + 3]], op_distribution=stats["dist"],
                  error_outcomes=stats["errors"], correspondence_mismatches=stats["mism"], unmodelled_outcomes=stats["unmodelled"],
                  traces_validated_against_impl=len(cases), autodetect_order=[FN[k] for k in order], matlab_cases=nmat, convert_cases=ncv)
    ck.cov["trusted_base"] += ["hand-written Gallina models coq/Maths/{BinCodec,AsciiCodec,IOFront}.v tied by byte-exact / outcome-exact differential runs (harness/h_c07.cpp vs extract/omm)",
                               "lib/c07lex.py: emulation of libstdc++ num_get / getline that produces the token view of a text file",
                               "extraction: ExtrOcamlBasic only"]
    ck.assumptions += ["libc/libstdc++ number formatting and lexing (printf %g, strtod, num_get): rnd6 is a Section variable, idempotence is a hypothesis of the text theorems",
                       "libmatio/HDF5 is a faithful container: MATLAB round trips are exercised on the implementation only",
                       "the order in which auto-detection tries the registered formats (std::set of pointers) is read from the running library and passed to the model",
                       "a double is an opaque 64-bit word"]
    return ck.finish()
