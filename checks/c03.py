"""C03 - scaling laws: lengths*s => potential gains * s^-2, MEG gains * s^-2 (dipole moments unchanged);
conductivities*k => potential gains / k, MEG gains unchanged.  Proof part: coq/Props/Properties_C03.v
(homogeneity degree of every kernel, algebraic lift in MathComp).  The property's own relation on the
implementation: harness/h_c02.cpp on rescaled whole problems and on rescaled kernel arguments (lib/headcases.py)."""
import os, sys, json, math
import core, ombuild, models
import headcases as hc

PROP = "C03"
PROPFILE = "Props/Properties_C03.v"
SCALES = [1e-3, 1e-2, 0.1, 10.0, 100.0, 1e3]
CONDS = [1e-3, 1e-2, 0.1, 10.0, 100.0, 1e3]

# witnesses of the defect repaired by the fix commit (absolute test fabs(d)<1e-10 on a volume): they must obey the law now
TRI = [(0.3, 0.1, 0.7), (0.9, 0.2, 0.1), (0.2, 0.8, 0.3)]
CEN = tuple(sum(p[k] for p in TRI) / 3.0 for k in range(3))
KW = [("solid_angle: positive octant of edge 1e-3 seen from the origin, lengths * 0.1 (volume 1e-12 < 1e-10)", 1, [], [(0, 0, 0), (1e-3, 0, 0), (0, 1e-3, 0), (0, 0, 1e-3)], 0.1),
      ("solid_angle: centroid of triangle (0.3,0.1,0.7),(0.9,0.2,0.1),(0.2,0.8,0.3), lengths * 1024 (rounding noise of the volume > 1e-10)", 1, [], [CEN] + TRI, 1024.0),
      ("analyticD3::f: centroid of triangle (0.3,0.1,0.7),(0.9,0.2,0.1),(0.2,0.8,0.3), lengths * 1024", 4, [], TRI + [CEN], 1024.0)]

def load_corpus():
    """kernel witnesses from corpus/C03.txt (label ; op ; s ; ints ; floats), falling back to the built-in list"""
    path = os.path.join(core.VERIF, "corpus", "C03.txt"); out = []
    if os.path.exists(path):
        for line in open(path):
            line = line.strip()
            if not line or line.startswith("#"): continue
            f = [x.strip() for x in line.split(";")]
            if len(f) != 5: continue
            fl = [float(x) for x in f[4].split()]
            out.append((f[0], int(f[1]), [int(x) for x in f[3].split()], [tuple(fl[i:i + 3]) for i in range(0, len(fl), 3)], float(f[2])))
    return out or KW

def witness_model():
    import random
    rng = random.Random(31337)
    while True:
        c = hc.make_case(rng, 1, ("nested",))
        if len(c["model"]["meshes"]) == 3: break
    c["model"]["cond"] = {"D0": 0.33, "D1": 0.0125, "D2": 0.33, "Air": 0.0}       # S/m values: with k=1e-3 the products reach 1e-5
    return c

def main(replay=None):
    ck = core.Check(PROP, "proof")
    quick = ck.tier != "thorough"
    pf = PROPFILE if os.path.exists(os.path.join(core.COQ, PROPFILE)) else None
    bdir, hb = ck.prepare(pf, "h_c02.cpp")
    hc.clean_axiom_accounting(ck)
    if hb is None: return ck.finish()
    try:
        _run(ck, hb, quick, replay)
    except Exception as e:      # a check never dies: whatever went wrong inside is reported, with the traceback as replay
        import traceback
        ck.violation("check-internal", "the check itself failed (%r): treated as a broken tie, not as a verdict on the property" % (e,),
                     dict(kind="internal", traceback=traceback.format_exc()[-4000:]), found_input=False)
    return ck.finish()

def _run(ck, hb, quick, replay):
    stats = {}
    if replay:
        hc.replay_any(ck, hb, json.load(open(replay)), "rescaled")
        return
    # 1. kernel-level witnesses of the repaired threshold (replay of the pinned-form refutation on the real kernels)
    kw = load_corpus(); lines = []
    for label, op, ints, args, s in kw:
        lines.append(hc.kline(op, ints, [x for a in args for x in a]))
        lines.append(hc.kline(op, ints, [x * s for a in args for x in a]))
    outs = hc.kernel_outputs(hb, ck.workdir, lines, tag="kw")
    wres = []
    for n, (label, op, ints, args, s) in enumerate(kw):
        z0, f0 = hc.fparse_safe(outs[2 * n]); z1, f1 = hc.fparse_safe(outs[2 * n + 1])
        r = (-2, z0, z1) if (not z0 or not z1 or z0 != z1) else hc.kernel_compare(op, f0, f1, None, s, 1.0)
        wres.append(dict(witness=label, reference=f0, rescaled=f1, obeys_law=r is None))
        if r is not None:
            ck.violation("threshold witness " + label, "kernel %s is not homogeneous on the witness: reference %r, rescaled (s=%g) %r - the absolute test fabs(d)<1e-10 (vect3.h, analytics.h) is back" % (hc.KNAMES[op], f0, s, f1),
                         dict(kind="kernel", op=op, ints=ints, args=[list(a) for a in args], cls="witness", size=1.0, R=None, t=[0, 0, 0], s=s, cases=lines[2 * n:2 * n + 2], outputs=outs[2 * n:2 * n + 2]))
    stats["threshold_witnesses"] = wres
    # 2. whole problems: fixed witness model at every s and k (s=100 was the reported break), then generated models
    items = [("witness 3-layer sphere (radii from seed 31337, sigma 0.33/0.0125/0.33)", witness_model(),
              [(None, (0.0, 0.0, 0.0), s, 1.0) for s in SCALES + [64.0, 128.0]] + [(None, (0.0, 0.0, 0.0), 1.0, k) for k in CONDS])]
    nmod = 5 if quick else 30
    kinds = ["nested", "split", "inclusions", "isolated", "capball", "nested"]
    for n in range(nmod):
        kd = kinds[n % len(kinds)]
        c = hc.make_case(ck.rng, 1 if (quick or n % 5) else 2, (kd,))
        trs = [(None, (0.0, 0.0, 0.0), s, 1.0) for s in SCALES] + [(None, (0.0, 0.0, 0.0), 1.0, k) for k in CONDS]
        # generic factors, both at once, and combined with a rigid motion
        s = math.exp(ck.rng.uniform(math.log(1e-3), math.log(1e3))); k = math.exp(ck.rng.uniform(math.log(1e-3), math.log(1e3)))
        trs.append((None, (0.0, 0.0, 0.0), s, k))
        R = models.rational_quaternion(ck.rng); d = models.random_unit(ck.rng); s2 = math.exp(ck.rng.uniform(math.log(1e-3), math.log(1e3)))
        trs.append((R, tuple(2 * c["R"] * s2 * x for x in d), s2, 1.0))
        items.append(("model %d (%s)" % (n, c["model"]["info"]["topology"]), c, trs))
    recs = hc.run_pairs(ck, hb, items, tol=1e-9, stats=stats)
    # 2b. the conductivity law the way an API user sweeps conductivities: ONE Geometry object, Domain::set_conductivity(k*sigma)
    #     in sequence, everything reassembled; against the law and against freshly loaded geometries (same harness process)
    sw_items = [(lab + " [sweep]", c) for lab, c, _ in items[:(3 if quick else 10)]]
    sw = hc.check_sigma_sweep(ck, hb, sw_items, stats=stats)
    # 3. kernels on rescaled arguments: decimal factors at rounding level, powers of two exactly (bitwise)
    def tr_dec(rng, size): return None, (0.0, 0.0, 0.0), rng.choice(SCALES + [math.exp(rng.uniform(math.log(1e-3), math.log(1e3)))])
    def tr_pow2(rng, size): return None, (0.0, 0.0, 0.0), 2.0 ** rng.choice([-10, -7, -3, -1, 1, 4, 7, 10])
    kd1, kb1 = hc.run_kernel_metamorphic(ck, hb, 2000 if quick else 20000, tr_dec, "rescaled")
    kd2, kb2 = hc.run_kernel_metamorphic(ck, hb, 2000 if quick else 20000, tr_pow2, "rescaled by a power of two (exact)", rel=0.0)
    topo = {}
    for r in recs: topo[r["topology"]] = topo.get(r["topology"], 0) + 1
    topo["pairs_with_an_inward_wound_mesh_(orientation_repair)"] = sum(1 for r in recs if r.get("flipped"))
    nontriv = sum(1 for r in recs if not r["singular"] and r["levels"])
    nk = sum(kd1.values()) + sum(kd2.values())
    ck.cov.update(evaluations=len(recs) + nk, distinct_nontrivial=nontriv + nk,
                  rule="pairs (model, (s,k)) with a well-conditioned head matrix whose gains were all compared with s^a k^b * reference at 1e-9 relative Frobenius; kernel calls on rescaled arguments (decimal factors: rounding class; powers of two: bitwise); distinct = distinct generated inputs",
                  samples=[dict(label=r["label"], s=r["s"], k=r["k"], levels=r["levels"]) for r in recs[5:8]],
                  op_distribution=dict(topologies=topo, kernels_decimal=kd1, kernels_pow2=kd2, scales=SCALES, conductivity_factors=CONDS),
                  measured_rounding_level=stats.get("level", {}), laws={k_: v for k_, v in hc.LAWS.items() if v},
                  eit_law="radius 0 (unit current on one triangle): s^-1 k^-1; radius>0 (unit current density): s^+1 k^-1",
                  singular_pairs_compared_at_operator_level=stats.get("singular", 0), threshold_witnesses=wres,
                  in_place_conductivity_sweep=dict(models=len(sw_items), factors=list(hc.SWEEP), steps=stats.get("sweep_steps", 0), level=stats.get("sweep_level", {})),
                  kernel_mismatches=kb1 + kb2, traces_validated_against_impl=len(recs) + nk)
    ck.cov["selfcheck_verdict_flips"] = len(hc.SELFCHECK_FLIPS)   # raised as decision violations, see headcases.compare_decisions
    ck.cov["trusted_base"] += ["C++ harness harness/h_c02.cpp (whole pipeline in memory + direct kernel calls on the rebuilt working tree)",
                               "Python generators lib/models.py, lib/headcases.py; scaling by decimal factors perturbs the inputs by one rounding each (the rescaled model is the nearest double model)"]
    ck.assumptions += ["rounding and conditioning are measured, not proved (tolerance 1e-9 relative Frobenius; measured level in coverage.measured_rounding_level)",
                       "the laws for EIT and surface-source gains (not named in the property text) are derived in design/C03.md and confirmed by the same runs",
                       "MathComp lift: the head matrix is assumed invertible (hypothesis of gain_*_scale); models with numerically singular head matrix are compared operator by operator"]
