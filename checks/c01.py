"""C01 — forward solutions agree with the analytic layered-sphere solution.   LEVEL: other (never a proof).

Oracle  : the *extracted* Coq functions sphere_pot / meg_sensor (coq/Geom/Sphere.v, theorems in Props/Properties_C01.v)
          run with the IEEE-double record (extract/omm, component c01).
Pipeline: harness/h_c01.cpp = HeadMat, invert, DipSourceMat, Head2EEGMat, Head2MEGMat, DipSource2MEGMat, GainEEG, GainMEG
          of the library rebuilt from the repo's working tree, on generated nested icospheres (lib/models.py).
Decision: per dipole RDM / MAG (EEG re-referenced to zero mean on both sides) against the empirical table calib/C01.json
          (factor-3 margin over the pinned tree; function of resolution, eccentricity, conductivity contrast, layer
          thinness); error must decrease 42 -> 162 (-> 642 thorough); radial dipole: field relative to a tangential dipole of
          the same strength below the calibrated level; MEG under sigma -> k sigma agrees at 1e-9 (exact invariant of the
          discrete equations); MEG under an unrelated conductivity set agrees within the calibrated discretisation level.
  python3 checks/c01.py --calibrate   rewrites calib/C01.json from the current tree (only to be done on the pinned tree)."""
import os, sys, json, math, copy
HERE = os.path.dirname(os.path.abspath(__file__))
sys.path.insert(0, os.path.join(os.path.dirname(HERE), "lib"))
import core, ombuild, models
import sphere_ref as S

PROP = "C01"
CALIB = os.path.join(core.VERIF, "calib", "C01.json")
MARGIN = 3.0
FLOORS = dict(eeg_rdm=2e-3, eeg_mag=2e-3, meg_rdm=2e-3, meg_mag=2e-3, leak=1e-3, meg_sigma=1e-3)
METRICS = ("eeg_rdm", "eeg_mag", "meg_rdm", "meg_mag", "leak")
NVERT = {1: 42, 2: 162, 3: 642}

EXPLANATION = "LEVEL other. The central claim of C01 - a discretisation bound of the symmetric BEM that shrinks under mesh refinement - is a convergence theorem of numerical analysis; it is not proved here and no finite computation replaces it. What is machine-checked: properties of the analytic oracle (Sarvas: radial dipole gives zero field, radial component equals that of the primary current, rotation equivariance, s^-2 scaling, no conductivity argument; layered series: rotation invariance, 1/s^2 and 1/k scaling, the layer recursion satisfies both interface conditions and the outer Neumann condition, equal conductivities collapse to the homogeneous sphere, Legendre recursion). The oracle that runs is the extraction of exactly these Coq functions (IEEE doubles); it reproduces the repo's own analytic tables to 1e-14. What is only MEASURED on every run: RDM/MAG of the real pipeline against that oracle on random sphere models, against the empirical table calib/C01.json (factor 3 over the pinned tree), decrease of the error 42->162(->642) vertices, radial-dipole leak, MEG invariance under sigma->k sigma (1e-9) and insensitivity to unrelated conductivities (calibrated level)."

# ------------------------------------------------------------------ configurations
def unit(rng): return models.random_unit(rng)

def perp(rng, d):
    while True:
        t = S.cross(d, unit(rng)); n = S.norm(t)
        if n > 0.2: return S.scal(1 / n, t)

def gen_sigmas(rng, n):
    """adjacent ratios in [1/100,100] (log-uniform, or the classical skull contrast), overall scale in [0.1,3]"""
    s = [math.exp(rng.uniform(math.log(0.1), math.log(3.0)))]
    for _ in range(n - 1):
        c = rng.random()
        if c < 0.25: ratio = rng.choice([0.0125, 80.0, 1 / 15.0, 15.0])
        elif c < 0.35: ratio = 1.0
        else: ratio = math.exp(rng.uniform(math.log(0.01), math.log(100.0)))
        s.append(s[-1] * ratio)
    return s

def gen_config(rng, nlayers=None, ndip=6, nmeg=18, ngeneric=12):
    n = nlayers or rng.choice([1, 2, 3, 3, 4, 4])
    R = 1.0 if rng.random() < 0.5 else math.exp(rng.uniform(math.log(0.5), math.log(2.0)))
    radii = [R]
    for _ in range(n - 1): radii.insert(0, radii[0] * rng.uniform(0.6, 0.98))
    sigmas = gen_sigmas(rng, n)
    centre = (0.0, 0.0, 0.0) if rng.random() < 0.5 else tuple(rng.uniform(-0.3, 0.3) * R for _ in range(3))
    dips = []
    kinds = ["radial", "tangential", "generic", "radial", "tangential", "generic"]; rng.shuffle(kinds)
    eccs = [rng.uniform(0.02, 0.4), rng.uniform(0.02, 0.4), rng.uniform(0.4, 0.6), rng.uniform(0.4, 0.6), rng.uniform(0.6, 0.8), rng.uniform(0.6, 0.8)]
    rng.shuffle(eccs)
    for k in range(ndip):
        d = unit(rng); ecc = eccs[k % 6]; kind = kinds[k % 6]
        if k == 0 and rng.random() < 0.15: ecc = 0.0
        q = d if kind == "radial" else perp(rng, d) if kind == "tangential" else unit(rng)
        if kind == "radial" and rng.random() < 0.5: q = S.scal(-1.0, q)
        dips.append(dict(pos=list(S.scal(ecc * radii[0], d)), mom=list(q), ecc=ecc, kind=kind))
    generic = [list(S.scal(R, unit(rng))) for _ in range(ngeneric)]
    meg = []
    for k in range(nmeg):
        d = unit(rng); p = S.scal(R * rng.uniform(1.05, 1.5), d)
        o = d if k % 3 == 0 else perp(rng, d) if k % 3 == 1 else unit(rng)
        meg.append(dict(pos=list(p), ori=list(o)))
    denormalise_orientations(meg)
    return dict(radii=radii, sigmas=sigmas, centre=list(centre), dipoles=dips, generic=generic, meg=meg, nvertex_elec=42)

def denormalise_orientations(meg):
    """The library documents the orientation as a vector and normalises it (assembleSensors.cpp: .../direction.norm() in
    Head2MEGMat, SurfSource2MEGMat, DipSource2MEGMat), so the length must not matter.  Half of the sensors get a non-unit
    orientation: k%4==1 -> unit x factor in [0.2,5]; k%4==3 -> factor |position| (for a radial sensor: orientation = position).
    A private generator is used so that the main random stream (and with it calib/C01.json) is unchanged."""
    import random
    for k, m in enumerate(meg):
        g = random.Random(1000003 * k + int(abs(m["pos"][0]) * 1e9) % 999983)
        f = math.exp(g.uniform(math.log(0.2), math.log(5.0))) if k % 4 == 1 else S.norm(m["pos"]) if k % 4 == 3 else 1.0
        m["ori"] = list(S.scal(f, m["ori"]))

def electrodes(cfg, level):
    """positions relative to the centre: a fixed subset of outer-mesh vertices (the 42 level-1 vertices are vertices of every level) + generic points"""
    v, _ = models.icosphere(1)
    R = cfg["radii"][-1]
    return [list(S.scal(R, p)) for p in v[:cfg.get("nvertex_elec", 42)]] + cfg["generic"]

def features(cfg, dip, level):
    rad, sig = cfg["radii"], cfg["sigmas"]
    contrast = max([1.0] + [max(sig[k + 1] / sig[k], sig[k] / sig[k + 1]) for k in range(len(sig) - 1)])
    thin = max([0.0] + [rad[k] / rad[k + 1] for k in range(len(rad) - 1)])
    eb = 0 if dip["ecc"] <= 0.4 else 1 if dip["ecc"] <= 0.6 else 2
    cb = 0 if contrast <= 4 else 1 if contrast <= 25 else 2
    gb = 0 if thin <= 0.9 else 1
    return (min(level, 2), eb, cb, gb)

def key(f): return "L%d|e%d|c%d|g%d" % f

# ------------------------------------------------------------------ running
def write_geometry(cfg, level, wd, ident, sigmas=None):
    """cfg["desc"] = [domain order, swap] re-describes the SAME head: domain order "in-out" (default), "out-in" (Air first, brain
    last) or "shuffled"; swap = the boundaries of every domain listed in the opposite order.  Meshes and interfaces keep their
    order, so the unknowns are numbered identically and the result must be the same to rounding."""
    m = models.nested(cfg["radii"], sigmas or cfg["sigmas"], level, centre=tuple(cfg["centre"]), names=["s%d_%d" % (ident, k) for k in range(len(cfg["radii"]))])
    order, swap = cfg.get("desc") or ["in-out", False]
    doms = list(m["domains"])
    if order == "out-in": doms.reverse()
    elif order == "shuffled":
        import random
        random.Random(len(doms) * 7919 + int(cfg["radii"][0] * 1e6) % 1000).shuffle(doms)
    if swap: doms = [(n, list(reversed(b))) for n, b in doms]
    m["domains"] = doms
    models.write_model(m, wd, fmt="tri", stem="m%d" % ident)

DESCS = [["in-out", False], ["out-in", False], ["shuffled", True], ["out-in", True], ["in-out", True], ["shuffled", False]]

def geometry_files(cfg, level, wd):
    """the exact input files of a configuration, as text (stored in replays)"""
    d = os.path.join(wd, "replayfiles"); os.makedirs(d, exist_ok=True)
    write_geometry(cfg, level, d, 0)
    out = {f: open(os.path.join(d, f)).read() for f in sorted(os.listdir(d))}
    import shutil; shutil.rmtree(d, ignore_errors=True)
    return out

def shift(p, c): return [p[0] + c[0], p[1] + c[1], p[2] + c[2]]

def impl_case(cfg, level, ident, with_eeg=True):
    c = cfg["centre"]; el = electrodes(cfg, level) if with_eeg else []
    fl = []
    for d in cfg["dipoles"]: fl += shift(d["pos"], c) + d["mom"]
    for e in el: fl += shift(e, c)
    for s in cfg["meg"]: fl += shift(s["pos"], c) + s["ori"]
    return core.fcase("c01", [ident, len(cfg["dipoles"]), len(el), len(cfg["meg"]), int(cfg.get("api", 0))], fl)

def nterms_for(cfg):
    e = max([d["ecc"] for d in cfg["dipoles"]] + [0.1]) * cfg["radii"][0] / cfg["radii"][-1]
    return S.nterms_for(min(e, 0.95), 1e-15)

def model_case(cfg, level, mode=1, with_eeg=True):
    el = electrodes(cfg, level) if with_eeg else []
    fl = list(cfg["radii"]) + list(cfg["sigmas"])
    for d in cfg["dipoles"]: fl += d["pos"] + d["mom"]
    for e in el: fl += e
    for s in cfg["meg"]: fl += s["pos"] + s["ori"]
    return core.fcase("c01", [mode, len(cfg["radii"]), nterms_for(cfg), len(cfg["dipoles"]), len(el), len(cfg["meg"])], fl)

def col(fl, off, nrow, ncol, j): return [fl[off + i * ncol + j] for i in range(nrow)]
def l2(v): return math.sqrt(sum(x * x for x in v))
def demean(v):
    m = sum(v) / len(v); return [x - m for x in v]
def rdm_mag(g, a):
    ng, na = l2(g), l2(a)
    if ng == 0 or na == 0 or ng != ng: return float("inf"), float("inf")
    return l2([x / ng - y / na for x, y in zip(g, a)]), abs(ng / na - 1.0)

def metrics(cfg, level, impl_f, model_f, with_eeg=True):
    """per dipole dict of metric values; impl_f / model_f = float outputs (EEG block then MEG block)"""
    nd = len(cfg["dipoles"]); ne = len(electrodes(cfg, level)) if with_eeg else 0; nm = len(cfg["meg"])
    out = []
    for j, d in enumerate(cfg["dipoles"]):
        r = {}
        if ne:
            g = demean(col(impl_f, 0, ne, nd, j)); a = demean(col(model_f, 0, ne, nd, j))
            r["eeg_rdm"], r["eeg_mag"] = rdm_mag(g, a)
        if nm:
            g = col(impl_f, ne * nd, nm, nd, j); a = col(model_f, ne * nd, nm, nd, j)
            r0 = d["pos"]; n0 = S.norm(r0)
            tang = S.norm(S.cross(d["mom"], S.scal(1 / n0, r0))) / S.norm(d["mom"]) if n0 > 0 else 0.0
            if d["ecc"] >= 0.1 and tang >= 0.3:
                r["meg_rdm"], r["meg_mag"] = rdm_mag(g, a)
            if d["kind"] == "radial" and d["ecc"] >= 0.1:
                # reference: analytic field of a tangential dipole of the same strength at the same place
                t = S.cross(S.scal(1 / n0, r0), (0.3, 0.5, 0.81)); t = S.scal(S.norm(d["mom"]) / S.norm(t), t)
                ref = [1e-7 * S.dot(S.sarvas(t, r0, s["pos"]), s["ori"]) / S.norm(s["ori"]) for s in cfg["meg"]]
                r["leak"] = l2(g) / l2(ref)
        out.append(r)
    return out

class Runner:
    def __init__(self, ck, hb):
        self.ck = ck; self.hb = hb; self.n = 0; self.evals = 0
    def run(self, jobs, timeout=3000, isolate=False):
        """jobs = [(cfg, level, sigmas_override or None, with_eeg)] -> [(impl floats or None, model floats, status)]
        All jobs run in ONE harness process, in order (so that anything that depends on the history of the process - heap
        reuse, shared buffers - can show), unless isolate: then every job gets a fresh process.
        self.last_masks[i] = bit mask of Gain* operands the library modified (0 expected)."""
        wd = self.ck.workdir; icases = []; mcases = []
        for cfg, level, sig, with_eeg in jobs:
            self.n += 1
            write_geometry(cfg, level, wd, self.n, sig)
            icases.append(impl_case(cfg, level, self.n, with_eeg)); mcases.append(model_case(cfg, level, 1, with_eeg))
        mo = core.run_model(mcases)
        env = {"OMP_NUM_THREADS": os.environ.get("C01_THREADS", "2")}
        if isolate:
            io = []
            for ic in icases:
                rc, o, err = core.run_harness(self.hb, [ic], wd, timeout=timeout, env=env, tag="alone")
                io.append(o[0] if o else "CRASH none")
        else:
            rc, io, err = core.run_harness(self.hb, icases, wd, timeout=timeout, env=env)
            io = list(io) + ["CRASH missing"] * (len(icases) - len(io))
        res = []; self.last_masks = []
        for (cfg, level, sig, with_eeg), m, i in zip(jobs, mo, io):
            mz, mf = core.fparse(m)
            try: iz, if_ = core.fparse(i)
            except ValueError: iz, if_ = None, None
            self.evals += 1
            ok = iz is not None and len(iz) >= 6 and iz[0] == 0 and mz and mz[0] == 0 and len(if_) == len(mf)
            res.append((if_ if ok else None, mf, (i[:80] if not ok else "ok")))
            self.last_masks.append(iz[5] if ok else 0)
        for f in os.listdir(wd):
            if f.startswith(("m", "s")) and f.endswith((".geom", ".cond", ".tri")): os.remove(os.path.join(wd, f))
        return res

def finite(v): return v is not None and all(x == x and abs(x) != float("inf") for x in v)

def rel_l2(a, b):
    """relative l2 difference of two gain vectors; inf when one of them is not finite"""
    if not finite(a) or not finite(b) or len(a) != len(b): return float("inf")
    n = max(l2(a), l2(b))
    return 0.0 if n == 0 else l2([x - y for x, y in zip(a, b)]) / n

MASKBITS = {1: "HeadMatInv", 2: "SourceMat (DipSourceMat)", 4: "Head2EEGMat", 8: "Head2MEGMat", 16: "Source2MEGMat (DipSource2MEGMat)", 32: "the HeadMat object itself (receiver of the const method SymMatrix::inverse())"}
def mask_names(m): return [n for b, n in MASKBITS.items() if m & b]

def closed_form_pieces(ck, runner, cfgs, rng):
    """The parts of the pipeline that are closed forms, not discretisations, must equal the oracle's closed forms at the
    ROUNDING class (1e-10 x natural scale): DipSource2MEGMat = mag_factor * biot_savart_primary . ori/|ori|  (the primary-current
    half of GainMEG; radial_component_primary_only relates it to Sarvas) and DipSource2InternalPotMat = infinite_pot(sigma_1)."""
    wd = ck.workdir; icases = []; mcases = []; metas = []
    for c in cfgs:
        runner.n += 1; ident = runner.n
        write_geometry(c, 1, wd, ident)
        pts = []
        while len(pts) < 10:
            p = S.scal(c["radii"][0] * 0.75 * rng.random() ** (1 / 3.0), unit(rng))
            if all(S.norm(S.sub(p, d["pos"])) > 0.05 * c["radii"][0] for d in c["dipoles"]): pts.append(list(p))
        ce = c["centre"]; fl = []
        for d in c["dipoles"]: fl += shift(d["pos"], ce) + d["mom"]
        for p in pts: fl += shift(p, ce)
        for m in c["meg"]: fl += shift(m["pos"], ce) + m["ori"]
        icases.append(core.fcase("c01p", [ident, len(c["dipoles"]), len(pts), len(c["meg"])], fl))
        fm = list(c["radii"]) + list(c["sigmas"])
        for d in c["dipoles"]: fm += d["pos"] + d["mom"]
        for p in pts: fm += p
        for m in c["meg"]: fm += m["pos"] + m["ori"]
        mcases.append(core.fcase("c01", [3, len(c["radii"]), 1, len(c["dipoles"]), len(pts), len(c["meg"])], fm))
        metas.append((c, pts))
    mo = core.run_model(mcases)
    rc, io, err = core.run_harness(runner.hb, icases, wd, env={"OMP_NUM_THREADS": "1"})
    n = 0; worst = 0.0
    for (c, pts), m, i, ic in zip(metas, mo, io, icases):
        mz, mf = core.fparse(m); iz, if_ = core.fparse(i)
        nd, nm = len(c["dipoles"]), len(c["meg"])
        if iz is None or iz[0] != 0 or iz[1] != len(pts) or len(if_) != len(mf):
            ck.violation("closed-form pieces: pipeline failure", "DipSource2MEGMat / DipSource2InternalPotMat failed or dropped points (%s) on %s" % (i[:60], describe(c, 1)),
                         dict(kind="closed-form", config=c, points=pts, case=ic)); continue
        for k, (x, y) in enumerate(zip(if_, mf)):
            j = k % nd; d = c["dipoles"][j]
            if k < nm * nd:
                a = S.norm(S.sub(c["meg"][k // nd]["pos"], d["pos"])); scale = 1e-7 * S.norm(d["mom"]) / (a * a); what = "DipSource2MEGMat vs biot_savart_primary"
            else:
                a = S.norm(S.sub(pts[(k - nm * nd) // nd], d["pos"])); scale = S.norm(d["mom"]) / (4 * math.pi * c["sigmas"][0] * a * a); what = "DipSource2InternalPotMat vs infinite_pot"
            n += 1; worst = max(worst, abs(x - y) / scale)
            if not core.close(x, y, 1e-10, scale):
                ck.violation("closed-form piece differs from the oracle: %s" % what.split()[0],
                             "%s: library %r, oracle %r (natural scale %.3g) for dipole %d (position %s, moment %s); %s. The oracle is the stated closed form, so this input fails the property's own relation." % (what, x, y, scale, j, d["pos"], d["mom"], describe(c, 1)),
                             dict(kind="closed-form", config=c, points=pts, case=ic, index=k, library=x, oracle=y)); break
    for f in os.listdir(wd):
        if f.startswith(("m", "s")) and f.endswith((".geom", ".cond", ".tri")): os.remove(os.path.join(wd, f))
    return n, worst

def multipoint_sensors(ck, runner, cfgs, rng):
    """MEG sensors with several integration points (labelled 7-column file: name x y z ox oy oz weight, one line per point).
    The gain must have one row per distinct label (in order of first appearance) and each row must be the weighted sum of the
    single-point gains of its points (exact: 1e-9 of sum |w||g|), whatever the order of the lines: grouped sensor by sensor,
    interleaved (all first points, then all second points, ... - the natural export of a gradiometer array) or shuffled.
    The oracle's weighted sum of Sarvas fields per label is the analytic reference (RDM recorded; the single-point gains are
    compared with Sarvas by the bound table)."""
    wd = ck.workdir; worst = 0.0; ncmp = 0; rdms = []
    for c in cfgs:
        R = c["radii"][-1]; pts = []          # (label, pos, ori, weight)
        nsens = 8
        for k in range(nsens):
            d = unit(rng); p = S.scal(R * rng.uniform(1.05, 1.3), d); kind = k % 4
            o = d if kind != 1 else perp(rng, d)
            o = S.scal(rng.choice([1.0, 2.5, S.norm(p)]), o)
            b = R * rng.uniform(0.05, 0.15)
            if kind == 0:      # axial gradiometer: two coils along the axis, weights +1 / -1
                grp = [(p, 1.0), (S.add(p, S.scal(b, d)), -1.0)]
            elif kind == 1:    # planar gradiometer: two coils side by side
                t = perp(rng, d); grp = [(S.add(p, S.scal(b / 2, t)), 1.0 / b), (S.sub(p, S.scal(b / 2, t)), -1.0 / b)]
            elif kind == 2:    # one coil, four integration points
                t = perp(rng, d); u = S.cross(d, t); grp = [(S.add(p, S.add(S.scal(sx * b / 3, t), S.scal(sy * b / 3, u))), 0.25) for sx in (-1, 1) for sy in (-1, 1)]
            else:              # second-order axial gradiometer: three coils 1, -2, 1
                grp = [(p, 1.0), (S.add(p, S.scal(b, d)), -2.0), (S.add(p, S.scal(2 * b, d)), 1.0)]
            for (pp, w) in grp: pts.append((k + 1, list(pp), list(o), w))
        # single-point pipeline gain and oracle for all the points
        c1 = copy.deepcopy(c); c1["meg"] = [dict(pos=p_, ori=o_) for (_, p_, o_, _) in pts]
        (gs, ms, st), = runner.run([(c1, 1, None, False)])
        nd = len(c["dipoles"])
        if gs is None:
            ck.violation("pipeline failure (multi-point sensors)", "single-point run failed (%s) on %s" % (st, describe(c, 1)), dict(kind="sphere-config", config=c1, level=1)); continue
        grouped = sorted(range(len(pts)), key=lambda i: pts[i][0])
        byrank = {}; 
        for i in grouped: byrank.setdefault(pts[i][0], []).append(i)
        inter = [g[r_] for r_ in range(4) for g in byrank.values() if r_ < len(g)]
        shuf = list(range(len(pts))); rng.shuffle(shuf)
        for oname, order in (("grouped", grouped), ("interleaved", inter), ("shuffled", shuf)):
            runner.n += 1; mid = runner.n; write_geometry(c, 1, wd, mid)
            ce = c["centre"]
            lines = ["G%d %s %s %s" % (pts[i][0], " ".join(repr(float(x)) for x in shift(pts[i][1], ce)), " ".join(repr(float(x)) for x in pts[i][2]), repr(float(pts[i][3]))) for i in order]
            open(os.path.join(wd, "q%d.squids" % mid), "w").write("\n".join(lines) + "\n")
            fl = []
            for d in c["dipoles"]: fl += shift(d["pos"], ce) + d["mom"]
            case = core.fcase("c01m", [mid, nd, mid], fl)
            rc, io, err = core.run_harness(runner.hb, [case], wd, env={"OMP_NUM_THREADS": os.environ.get("C01_THREADS", "2")}, tag="multi")
            try: iz, fo = core.fparse(io[0])
            except (ValueError, IndexError): iz, fo = None, None
            labels = []; 
            for i in order:
                if pts[i][0] not in labels: labels.append(pts[i][0])
            rp = dict(kind="multipoint", config=c, level=1, order=oname, sensors_file=lines, labels_expected=labels,
                      points=[dict(label=pts[i][0], pos=pts[i][1], ori=pts[i][2], weight=pts[i][3]) for i in order])
            runner.evals += 1
            if iz is None or iz[0] != 0:
                ck.violation("pipeline failure (multi-point sensors, %s order)" % oname, "GainMEG with a labelled 7-column sensors file failed (%s); %s" % ((io or ["?"])[0][:60], describe(c, 1)), rp); continue
            nsn, npos, nrows, ncols, mask = iz[1:6]; got = iz[6:]
            exp = {lb: [sum(pts[i][3] * gs[i * nd + j] for i in byrank[lb]) for j in range(nd)] for lb in labels}
            sca = {lb: [sum(abs(pts[i][3] * gs[i * nd + j]) for i in byrank[lb]) for j in range(nd)] for lb in labels}
            ana = {lb: [sum(pts[i][3] * ms[i * nd + j] for i in byrank[lb]) for j in range(nd)] for lb in labels}
            msgs = []
            if nsn != len(labels) or nrows != len(labels) or got != labels:
                msgs.append("the gain has %d rows for %d sensors reported by Sensors (names %s); the file has %d distinct labels in the order %s" % (nrows, nsn, got, len(labels), labels))
            elif mask: msgs.append("Gain operands modified: %s" % mask_names(mask))
            else:
                for r_, lb in enumerate(labels):
                    for j in range(nd):
                        x = fo[r_ * nd + j]; ncmp += 1
                        e_ = abs(x - exp[lb][j]) / (sca[lb][j] or 1e-300); worst = max(worst, e_ if e_ == e_ else float("inf"))
                        if not (e_ <= 1e-9):
                            msgs.append("row of sensor G%d, dipole %d: gain %r, weighted sum of the single-point gains of its %d points %r" % (lb, j, x, len(byrank[lb]), exp[lb][j])); break
                    if msgs: break
                g_ = [fo[r_ * nd + j] for r_ in range(len(labels)) for j in range(nd)]; a_ = [ana[lb][j] for lb in labels for j in range(nd)]
                rdms.append(round(rdm_mag(g_, a_)[0], 4))
            if msgs:
                ck.violation("multi-point MEG sensors, %s line order: gain is not the weighted sum per label" % oname,
                             "sensors file with %d integration points for %d labelled sensors (axial / planar / second-order gradiometers, 4-point coils), lines in %s order: %s; analytic reference = weighted sum of the Sarvas field over the points of each label; %s"
                             % (len(pts), len(labels), oname, msgs[0], describe(c, 1)), rp)
    for f in os.listdir(wd):
        if f.startswith(("m", "s", "q")) and f.endswith((".geom", ".cond", ".tri", ".squids")): os.remove(os.path.join(wd, f))
    return ncmp, worst, rdms

# ------------------------------------------------------------------ bounds
def load_calib():
    return json.load(open(CALIB)) if os.path.exists(CALIB) else None

def bound(cal, f, metric):
    b = cal["table"].get(key(f), {}).get(metric)
    return b if b is not None else cal["fallback"][metric]

def exceed(cal, cfg, level, mets):
    """list of (dipole index, metric, value, bound) above the table"""
    bad = []
    for j, (d, r) in enumerate(zip(cfg["dipoles"], mets)):
        f = features(cfg, d, level)
        for mname, v in r.items():
            b = bound(cal, f, mname)
            if not (v <= b): bad.append((j, mname, v, b))
    return bad

def build_table(obs):
    """obs = [(features, metric, value)]; bound(bin) = MARGIN * max over all easier-or-equal bins of the same level, floored"""
    table = {}
    for L in (1, 2):
        for eb in range(3):
            for cb in range(3):
                for gb in range(2):
                    ent = {}
                    for mname in METRICS:
                        vals = [v for (f, mn, v) in obs if mn == mname and f[0] == L and f[1] <= eb and f[2] <= cb and f[3] <= gb]
                        if vals: ent[mname] = max(FLOORS[mname], MARGIN * max(vals))
                    table[key((L, eb, cb, gb))] = ent
    fb = {}
    for mname in METRICS:
        vals = [v for (f, mn, v) in obs if mn == mname]
        fb[mname] = max(FLOORS[mname], MARGIN * max(vals)) if vals else 1.0
    return table, fb

# ------------------------------------------------------------------ search (shrinking of a failing configuration)
def shrink(run1, cfg, level, budget=24):
    """greedy: fewer dipoles, fewer layers, milder conductivity ratios, simpler orientation / smaller eccentricity, centre at 0.
    run1(cfg, level) -> list of exceedances (empty = passes).  Returns the smallest failing (cfg, exceedances)."""
    best = cfg; bad = run1(cfg, level); used = 1
    if not bad: return cfg, bad
    def attempts(c):
        j = bad[0][0]
        if len(c["dipoles"]) > 1:
            x = copy.deepcopy(c); x["dipoles"] = [c["dipoles"][j]]; yield x
        n = len(c["radii"])
        for k in range(n - 1):                       # drop interface k (merge layers k, k+1)
            x = copy.deepcopy(c); del x["radii"][k]; del x["sigmas"][k + 1]
            for d in x["dipoles"]: d["ecc"] = S.norm(d["pos"]) / x["radii"][0]
            yield x
        if n > 1:                                    # halve the log-contrast of every interface
            x = copy.deepcopy(c); s = x["sigmas"]
            new = [s[0]]
            for k in range(1, n): new.append(new[-1] * math.sqrt(s[k] / s[k - 1]))
            if max(abs(a - b) for a, b in zip(new, s)) > 1e-3 * max(s): x["sigmas"] = new; yield x
        if any(abs(v) > 0 for v in c["centre"]):
            x = copy.deepcopy(c); x["centre"] = [0.0, 0.0, 0.0]; yield x
        if c["radii"][-1] != 1.0:
            x = copy.deepcopy(c); s = 1.0 / c["radii"][-1]
            x["radii"] = [r * s for r in c["radii"]]; x["radii"][-1] = 1.0
            for d in x["dipoles"]: d["pos"] = list(S.scal(s, d["pos"]))
            x["generic"] = [list(S.scal(s, p)) for p in c["generic"]]
            for m in x["meg"]: m["pos"] = list(S.scal(s, m["pos"]))
            yield x
        for jj, d in enumerate(c["dipoles"]):        # orientation -> nearest of radial / tangential; eccentricity halved
            n0 = S.norm(d["pos"])
            if n0 > 0 and d["kind"] == "generic":
                rh = S.scal(1 / n0, d["pos"]); qr = S.dot(d["mom"], rh)
                for kind, q in (("radial", rh), ("tangential", S.sub(d["mom"], S.scal(qr, rh)))):
                    if S.norm(q) > 1e-3:
                        x = copy.deepcopy(c); x["dipoles"][jj]["mom"] = list(S.scal(1 / S.norm(q), q)); x["dipoles"][jj]["kind"] = kind; yield x
            if d["ecc"] > 0.1:
                x = copy.deepcopy(c); x["dipoles"][jj]["pos"] = list(S.scal(0.5, d["pos"])); x["dipoles"][jj]["ecc"] = d["ecc"] * 0.5; yield x
    progress = True
    while progress and used < budget:
        progress = False
        for cand in attempts(best):
            if used >= budget: break
            b = run1(cand, level); used += 1
            if b:
                best, bad, progress = cand, b, True
                break
    return best, bad

# ------------------------------------------------------------------ main
def describe(cfg, level):
    return "%d layer(s), %d vertices/surface, radii %s, sigmas %s, centre %s, domains described %s%s, %s" % (
        len(cfg["radii"]), NVERT[level], ["%.4g" % r for r in cfg["radii"]], ["%.4g" % s for s in cfg["sigmas"]], ["%.3g" % c for c in cfg["centre"]],
        (cfg.get("desc") or ["in-out", False])[0], " with the boundaries of each domain listed in reverse" if (cfg.get("desc") or ["in-out", False])[1] else "",
        "gains through HeadMat.inverse() taken twice on the same object (EEG then MEG)" if cfg.get("api") else "head matrix inverted in place once (tool sequence)")

def report(ck, cal, runner, cfg, level, tag, bad0=None, imp0=None, mod0=None, history=None):
    """a configuration exceeded its bound (bad0, measured inside the batch): shrink it and record the violation with a replay.
    When the failure does not reproduce in a fresh process it depends on the history of the process: then the batch prefix
    (history = the jobs that ran before it in the same process) is the replay."""
    def run1(c, lv):
        (imp, mod, st), = runner.run([(c, lv, None, True)])
        if imp is None: return [(0, "pipeline", float("inf"), 0.0)]
        return exceed(cal, c, lv, metrics(c, lv, imp, mod))
    runner.reports = getattr(runner, "reports", 0) + 1
    if runner.reports > 12: return                       # enough evidence; keep the run time bounded
    small, bad = shrink(run1, cfg, level, budget=24 if runner.reports <= 2 else 1)   # full search for the first two only
    if bad:
        (imp, mod, st), = runner.run([(small, level, None, True)])
        rp = dict(kind="sphere-config", config=small, level=level)
        where = ""
    else:
        # not reproducible alone
        small, bad, imp, mod = cfg, (bad0 or [(0, "unknown", float("nan"), 0.0)]), imp0, mod0
        hist = [list(h) for h in (history or [])][-3:]
        rp = dict(kind="sphere-batch", jobs=hist + [[cfg, level, None, True]], index=len(hist), level=level, config=cfg)
        where = " ONLY when it is computed after other models in the same process (a fresh process gives a result within the bound): the result depends on the history of the process;"
    j, mname, v, b = bad[0]
    d = small["dipoles"][min(j, len(small["dipoles"]) - 1)]
    sig = "%s above bound: %d layers, %d vertices, %s dipole%s" % (mname, len(small["radii"]), NVERT[level], d["kind"], " (history dependent)" if where else "")
    rp.update(exceed=[list(x) for x in bad[:10]], expected_analytic=mod, obtained_pipeline=imp, original_config=cfg,
              files=geometry_files(small, level, ck.workdir) if level <= 2 else "geometry regenerated by lib/models.nested(radii, sigmas, level, centre), written as m<id>.geom/.cond/.tri (17 digits)",
              dipoles=[shift(x["pos"], small["centre"]) + x["mom"] for x in small["dipoles"]],
              replay_cmd="./check C01 --replay <this file>")
    ck.violation(sig, "%s: %s = %.4g exceeds the calibrated bound %.4g for dipole %d (%s, eccentricity %.3f of the inner radius, position %s, moment %s)%s configuration: %s"
                 % (tag, mname, v, b, j, d["kind"], d["ecc"], ["%.4g" % x for x in d["pos"]], ["%.4g" % x for x in d["mom"]], where or ";", describe(small, level)), rp)

def run_batch_replay(ck, cal, runner, rp):
    """replay of a history-dependent failure: the stored jobs in one process, the indexed one again alone"""
    jobs = [tuple(j) for j in rp["jobs"]]; k = rp["index"]
    res = runner.run(jobs); masks = list(runner.last_masks)
    alone = runner.run([jobs[k]], isolate=True)
    imp, mod, st = res[k]; imp1 = alone[0][0]
    cfg, level = jobs[k][0], jobs[k][1]
    msgs = []
    if imp is None: msgs.append("pipeline failure in the batch (%s)" % st)
    else:
        if any(masks): msgs.append("Gain* operands modified: %s" % mask_names(max(masks)))
        e = rel_l2(imp, imp1)
        if not (e <= 1e-9): msgs.append("result in the batch differs from the result of a fresh process by %.3g (relative l2)" % e)
        if finite(imp) and jobs[k][3]:
            bad = exceed(cal, cfg, level, metrics(cfg, level, imp, mod))
            if bad: msgs.append("%s = %.4g > bound %.4g (dipole %d)" % (bad[0][1], bad[0][2], bad[0][3], bad[0][0]))
        elif not finite(imp): msgs.append("non-finite gain")
    ck.log("batch replay:", msgs or "passes")
    if msgs: ck.violation(rp.get("signature", "replay"), "replayed batch still fails: %s; %s" % ("; ".join(msgs), describe(cfg, level)), rp)

def main(replay=None, calibrate=False):
    """never dies with a traceback: an internal error of the check is itself reported (without failing input)"""
    try:
        return main_(replay, calibrate)
    except Exception as e:                                 # noqa - the protocol wants a VIOLATION line, not a traceback
        import traceback
        tb = traceback.format_exc()
        ck = core.Check(PROP, "other"); ck.cov["explanation"] = EXPLANATION
        ck.cov.update(evaluations=0, distinct_nontrivial=0, rule="the check aborted", samples=[tb[-400:]])
        ck.violation("check internal error: %s" % type(e).__name__, "the check itself failed (%s: %s); nothing can be concluded from this run:\n%s" % (type(e).__name__, e, tb[-1500:]),
                     dict(kind="internal", traceback=tb), found_input=False)
        return ck.finish()

def main_(replay=None, calibrate=False):
    ck = core.Check(PROP, "other")
    ck.cov["explanation"] = EXPLANATION
    quick = ck.tier != "thorough"
    bdir, hb = ck.prepare("Props/Properties_C01.v", "h_c01.cpp")
    ck.cov["trusted_base"] += ["extracted oracle extract/omm component c01 (ExtrOcamlBasic only; OCaml float record in extract/prelude.ml: + - * / sqrt, pi = 4 atan 1)",
                               "C++ harness harness/h_c01.cpp, generators lib/models.py (icospheres), Python metric code in checks/c01.py",
                               "calib/C01.json: EMPIRICAL bound table measured on the pinned tree (factor 3) - not a theorem"]
    ck.assumptions += ["classical facts not mechanised: r^n Y_n and r^-(n+1) Y_n are harmonic, the series converges to the solution of the layered-sphere problem (truncated at n with (n+1) ecc^n < 1e-15), Sarvas' formula is the field of the full current",
                       "the discretisation error of the symmetric BEM shrinks under refinement (convergence theorem of numerical analysis; measured, not proved)"]
    # core.check_props reads the header line "Axioms:" of Print Assumptions as an axiom name: drop that artefact
    ck.notes = [n for n in ck.notes if not n.endswith("depends on Axioms")]
    for t in ck.cov.get("theorems", []):
        if t.get("axioms"): t["axioms"] = [a for a in t["axioms"] if a != "Axioms"]
    if hb is None or not os.path.exists(os.path.join(core.EXTRACT, "omm")):
        return ck.finish()
    cal = load_calib()
    if cal is None and not calibrate:
        ck.violation("calibration table missing", "calib/C01.json is missing: nothing to compare the discretisation error with", dict(kind="calib"), found_input=False)
        return ck.finish()
    runner = Runner(ck, hb)
    rng = ck.rng
    dist = {}

    # ---- oracle sanity (cheap, every run): extracted Coq series vs the independent Python re-implementation, closed forms,
    #      and the repo's own analytic tables (3 layers 0.87/0.92/1, sigma 1/0.0125/1)
    oracle_checks = oracle_sanity(ck)

    if replay:
        rp = json.load(open(replay))
        if rp.get("kind") == "sphere-config":
            cfg, level = rp["config"], rp["level"]
            (imp, mod, st), = runner.run([(cfg, level, None, True)])
            if imp is None:
                ck.violation("pipeline failure", "replayed configuration no longer runs: %s" % st, rp)
            else:
                bad = exceed(cal, cfg, level, metrics(cfg, level, imp, mod))
                ck.log("replay metrics", metrics(cfg, level, imp, mod))
                if bad:
                    j, mname, v, b = bad[0]
                    ck.violation(rp.get("signature", "replay"), "replayed configuration still fails: %s = %.4g > %.4g (dipole %d); %s" % (mname, v, b, j, describe(cfg, level)), rp)
        if rp.get("kind") == "sphere-batch":
            run_batch_replay(ck, cal, runner, rp)
        if rp.get("kind") == "multipoint":
            c = rp["config"]; nd = len(c["dipoles"]); P = rp["points"]; ce = c["centre"]
            c1 = copy.deepcopy(c); c1["meg"] = [dict(pos=p_["pos"], ori=p_["ori"]) for p_ in P]
            (gs, ms, st), = runner.run([(c1, 1, None, False)])
            runner.n += 1; mid = runner.n; write_geometry(c, 1, ck.workdir, mid)
            open(os.path.join(ck.workdir, "q%d.squids" % mid), "w").write("\n".join(rp["sensors_file"]) + "\n")
            fl = []
            for d in c["dipoles"]: fl += shift(d["pos"], ce) + d["mom"]
            rc_, io_, _ = core.run_harness(hb, [core.fcase("c01m", [mid, nd, mid], fl)], ck.workdir, tag="multi")
            try: iz, fo = core.fparse(io_[0])
            except (ValueError, IndexError): iz, fo = None, None
            labels = rp["labels_expected"]; msgs = []
            if iz is None or iz[0] != 0 or gs is None: msgs.append("pipeline failure")
            elif iz[3] != len(labels) or iz[6:] != labels: msgs.append("%d rows, names %s; expected %d rows for labels %s" % (iz[3], iz[6:], len(labels), labels))
            else:
                for r_, lb in enumerate(labels):
                    for j in range(nd):
                        idx = [i for i, p_ in enumerate(P) if p_["label"] == lb]
                        e = sum(P[i]["weight"] * gs[i * nd + j] for i in idx); sc = sum(abs(P[i]["weight"] * gs[i * nd + j]) for i in idx) or 1e-300
                        if not (abs(fo[r_ * nd + j] - e) / sc <= 1e-9): msgs.append("sensor G%d dipole %d: %r vs weighted sum %r" % (lb, j, fo[r_ * nd + j], e)); break
                    if msgs: break
            ck.log("multipoint replay:", msgs or "passes")
            if msgs: ck.violation(rp.get("signature", "replay"), "replayed multi-point sensors file (%s order) still fails: %s" % (rp["order"], msgs[0]), rp)
        if rp.get("kind") == "relation":
            c = rp["config"]; rel = rp["relation"]; msgs = []
            nd = len(c["dipoles"]); off = len(electrodes(c, 1)) * nd
            if rel == "sigma-scale":
                k = rp["k"]; (a, _, sa), (b, _, sb) = runner.run([(c, 1, None, True), (c, 1, [k * x for x in c["sigmas"]], True)])
                if a is None or b is None: msgs.append("pipeline failure %s %s" % (sa, sb))
                else:
                    ee = rel_l2([x for j in range(nd) for x in demean(col(a, 0, off // nd, nd, j))], [k * x for j in range(nd) for x in demean(col(b, 0, off // nd, nd, j))])
                    em = rel_l2(a[off:], b[off:])
                    if not (ee <= 1e-9): msgs.append("EEG x k differs by %.3g" % ee)
                    if not (em <= 1e-9): msgs.append("MEG differs by %.3g" % em)
            elif rel == "orientation-length":
                c2 = copy.deepcopy(c)
                for kk, m in enumerate(c2["meg"]): m["ori"] = list(S.scal(3.7 if kk % 2 == 0 else 1.0 / S.norm(m["ori"]), m["ori"]))
                (a, _, sa), (b, _, sb) = runner.run([(c, 1, None, False), (c2, 1, None, False)])
                e = rel_l2(a, b) if a is not None and b is not None else float("inf")
                if not (e <= 1e-9): msgs.append("MEG gain changes by %.3g when the orientation vectors are rescaled" % e)
            elif rel == "sigma-independent":
                (a, _, sa), (b, _, sb) = runner.run([(c, 1, None, False), (c, 1, rp["sigmas2"], False)])
                e = rel_l2(a, b) if a is not None and b is not None else float("inf")
                if not (e <= cal["meg_sigma"]): msgs.append("MEG gain changes by %.3g (level %.3g) between the two conductivity sets" % (e, cal["meg_sigma"]))
            elif rel == "redescription":
                y = copy.deepcopy(c); y["desc"] = ["in-out", False]; y["api"] = 0
                (a, _, sa), (b, _, sb) = runner.run([(c, 1, None, True), (y, 1, None, True)]); mk = runner.last_masks[0]
                e = rel_l2(a, b) if a is not None and b is not None else float("inf")
                if not (e <= 1e-9) or mk: msgs.append("gains differ by %.3g from the inside-out / invert() reference; operands modified: %s" % (e, mask_names(mk) or "none"))
            elif rel == "refine":
                la, lb = rp["refine"][0], rp["refine"][1]; name = rp["metric"]
                (a, ma, sa), (b, mb, sb) = runner.run([(c, la, None, True), (c, lb, None, True)])
                if a is None or b is None: msgs.append("pipeline failure %s %s" % (sa, sb))
                else:
                    def mm(mets): v = [r[name] for r in mets if name in r]; return sum(v) / len(v) if v else 0.0
                    x, y = mm(metrics(c, la, a, ma)), mm(metrics(c, lb, b, mb))
                    if not (y <= (cal or {}).get("refine_slack", 1.0) * x) and y > FLOORS[name]: msgs.append("mean %s %.4g at %d vertices, %.4g at %d vertices" % (name, x, NVERT[la], y, NVERT[lb]))
            ck.log("relation replay (%s):" % rel, msgs or "passes")
            if msgs: ck.violation(rp.get("signature", "replay"), "replayed relation '%s' still fails: %s; %s" % (rel, "; ".join(msgs), describe(c, rp.get("level", 1))), rp)
        if rp.get("kind") == "sweep":
            c = rp["config"]; sets = rp["sigma_sets"]; ids = []
            for sg in sets:
                runner.n += 1; ids.append(runner.n); write_geometry(c, 1, ck.workdir, runner.n, sg)
            toks = rp["case"].split(); toks[2:2 + len(ids)] = [str(i) for i in ids]
            rc_, swo, _ = core.run_harness(hb, [" ".join(toks)], ck.workdir, env={"OMP_NUM_THREADS": "2"}, tag="sweep")
            try: iz, fo = core.fparse(swo[0])
            except (ValueError, IndexError): iz, fo = None, None
            fresh = runner.run([(c, 1, sg, True) for sg in sets], isolate=True)
            if iz is None or iz[0] != 0: ck.violation(rp.get("signature", "replay"), "replayed sweep fails to run: %s" % (swo[:1],), rp)
            else:
                blk = len(fo) // len(sets)
                errs = [rel_l2(fo[m * blk:(m + 1) * blk], fresh[m][0]) for m in range(len(sets))]
                ck.log("sweep replay: relative differences to fresh operators", errs, "mask", iz[5])
                if iz[5] or not all(e <= 1e-9 for e in errs):
                    ck.violation(rp.get("signature", "replay"), "replayed conductivity sweep still differs from fresh operators: %s (operands modified: %s)" % (["%.3g" % e for e in errs], mask_names(iz[5]) or "none"), rp)
        if rp.get("kind") == "closed-form":
            cfg = rp["config"]; runner.n += 1
            write_geometry(cfg, 1, ck.workdir, runner.n)
            toks = rp["case"].split(); toks[1] = str(runner.n)
            rc_, io_, _ = core.run_harness(hb, [" ".join(toks)], ck.workdir)
            iz, if_ = core.fparse(io_[0])
            x = if_[rp["index"]] if iz and iz[0] == 0 and rp["index"] < len(if_) else float("nan")
            ck.log("replay closed-form: library %r oracle %r" % (x, rp["oracle"]))
            if not core.close(x, rp["oracle"], 1e-10, max(abs(rp["oracle"]), abs(rp["library"]))):
                ck.violation(rp.get("signature", "replay"), "replayed closed-form piece still differs: library %r, oracle %r" % (x, rp["oracle"]), rp)
        ck.cov.update(evaluations=max(1, runner.evals), distinct_nontrivial=max(1, runner.evals), rule="replay of one stored configuration", samples=[rp.get("description", "")[:300]])
        return ck.finish()

    # ---- configurations
    n1 = 20 if quick else 200; n2 = 4 if quick else 40; n3 = 0 if quick else 3
    if calibrate: n1, n2 = int(os.environ.get("C01_CAL_N1", "60")), int(os.environ.get("C01_CAL_N2", "10"))
    cfgs = []
    cp = os.path.join(core.VERIF, "corpus", "C01.txt")
    if os.path.exists(cp):
        cfgs += [json.loads(l) for l in open(cp) if l.strip() and not l.startswith("#")]
    ncorpus = len(cfgs); n2 += ncorpus
    for k in range(n1):
        forced = [1, 2, 3, 4][k] if k < 4 else None          # every layer count in every run
        cfgs.append(gen_config(rng, forced))
        # description order and API path vary with the index (no random draw: the calibrated stream is unchanged; on a correct
        # library neither changes the numbers beyond rounding)
        cfgs[-1]["desc"] = DESCS[k % len(DESCS)]; cfgs[-1]["api"] = (k // 2) % 2
    # 162-vertex tier: the first n2 configurations plus (quick tier) the four hardest of the rest - strongest conductivity contrast,
    # thin layers - because the 42-vertex bounds are nearly vacuous exactly there and the 162-vertex ones are not
    def hardness(c):
        sg, rd = c["sigmas"], c["radii"]
        return (max([1.0] + [max(sg[i + 1] / sg[i], sg[i] / sg[i + 1]) for i in range(len(sg) - 1)]) * (3.0 if max([0.0] + [rd[i] / rd[i + 1] for i in range(len(rd) - 1)]) > 0.9 else 1.0))
    l2cfgs = cfgs[:n2] + (sorted(cfgs[n2:], key=hardness, reverse=True)[:(10 if calibrate else 4)] if quick or calibrate else [])
    jobs = [(c, 1, None, True) for c in cfgs] + [(c, 2, None, True) for c in l2cfgs]
    res = runner.run(jobs); masks = list(runner.last_masks)
    obs = []; samples = []; nontriv = 0; worst = {}; frac = {}
    per = {}
    # every Gain* operand must come back bitwise unchanged (they are inputs: a sweep reuses them)
    for q_, m_ in enumerate(masks):
        if m_:
            c_, lv_ = jobs[q_][0], jobs[q_][1]
            ck.violation("Gain constructor modifies its operand: %s" % ", ".join(mask_names(m_)),
                         "an operand that must come back unchanged was modified: %s (bitwise snapshot before/after the call); a second gain computed from the same object (conductivity sweep, EEG then MEG) is then wrong; %s" % (", ".join(mask_names(m_)), describe(c_, lv_)),
                         dict(kind="sphere-batch", jobs=[list(jobs[q_])], index=0, level=lv_, config=c_, mask=m_)); break
    # the same configuration alone in a fresh process must give the same numbers (1e-9: thread scheduling only)
    niso = min(len(jobs), len(cfgs) + 3) if quick else min(len(jobs), 80)      # all 42-vertex jobs and three 162-vertex ones
    if not calibrate:
        iso = runner.run(jobs[:niso], isolate=True); hist_err = 0.0; nhist = 0
        for q_ in range(niso):
            a_, b_ = res[q_][0], iso[q_][0]
            if a_ is None and b_ is None: continue
            e_ = rel_l2(a_, b_) if (a_ is not None and b_ is not None) else float("inf")
            if e_ == e_ and e_ != float("inf"): hist_err = max(hist_err, e_)
            if not (e_ <= 1e-9) and nhist < 3:
                nhist += 1
                c_, lv_ = jobs[q_][0], jobs[q_][1]
                # smallest history: the job right before it, else the three before it
                hist = [list(j) for j in jobs[max(0, q_ - 3):q_]]
                for cand in ([list(jobs[q_ - 1])] if q_ > 0 else []), hist:
                    r2 = runner.run([tuple(j) for j in cand] + [jobs[q_]])
                    if not (rel_l2(r2[-1][0], b_) <= 1e-9): hist = cand; break
                ck.violation("result depends on the history of the process: %d layers, %d vertices" % (len(c_["radii"]), NVERT[lv_]),
                             "the gains of this configuration computed after %d other model(s) in the same process differ from the gains computed in a fresh process by %.3g (relative l2; %s); %s"
                             % (len(hist), e_, "non-finite values" if not finite(a_) else "finite values", describe(c_, lv_)),
                             dict(kind="sphere-batch", jobs=hist + [list(jobs[q_])], index=len(hist), level=lv_, config=c_, in_batch=a_, fresh_process=b_))
        ck.cov["batch_vs_fresh_process_max_rel"] = hist_err; ck.cov["batch_vs_fresh_process_compared"] = niso
    for q_, ((cfg, level, _, _), (imp, mod, st)) in enumerate(zip(jobs, res)):
        dist["L%d/%d layers" % (level, len(cfg["radii"]))] = dist.get("L%d/%d layers" % (level, len(cfg["radii"])), 0) + 1
        if imp is None:
            ck.violation("pipeline failure: %d layers, %d vertices" % (len(cfg["radii"]), NVERT[level]), "the pipeline failed (%s) on %s" % (st, describe(cfg, level)),
                         dict(kind="sphere-config", config=cfg, level=level))
            continue
        mets = metrics(cfg, level, imp, mod)
        per[(id(cfg), level)] = mets
        for d, r in zip(cfg["dipoles"], mets):
            f = features(cfg, d, level); nontriv += 1
            for mname, v in r.items():
                obs.append((f, mname, v)); worst[(level, mname)] = max(worst.get((level, mname), 0.0), v)
        if len(samples) < 3: samples.append(dict(config=describe(cfg, level), metrics=mets[:2]))
        if cal and not calibrate:
            for d, r in zip(cfg["dipoles"], mets):
                for mname, v in r.items():
                    fr = v / bound(cal, features(cfg, d, level), mname)
                    if fr > frac.get(mname, (0.0,))[0]: frac[mname] = (round(fr, 4), key(features(cfg, d, level)))
            bad = exceed(cal, cfg, level, mets)
            if bad: report(ck, cal, runner, cfg, level, "forward solution vs analytic sphere", bad, imp, mod, jobs[max(0, q_ - 3):q_])

    # ---- error must decrease under refinement (42 -> 162 [-> 642]); compared on the configuration as a whole
    refine = []
    def mean_metric(mets, name):
        v = [r[name] for r in mets if name in r]; return sum(v) / len(v) if v else None
    levels3 = []
    if n3 and not calibrate:
        c3 = [c for c in l2cfgs if len(c["radii"]) == 4][:1] + [c for c in l2cfgs if len(c["radii"]) != 4][:n3 - 1]
        r3 = runner.run([(c, 3, None, True) for c in c3], timeout=7200)
        for c, (imp, mod, st) in zip(c3, r3):
            if imp is None:
                ck.violation("pipeline failure: %d layers, 642 vertices" % len(c["radii"]), "the pipeline failed (%s) on %s" % (st, describe(c, 3)), dict(kind="sphere-config", config=c, level=3)); continue
            per[(id(c), 3)] = metrics(c, 3, imp, mod); levels3.append(c)
            bad = exceed(cal, c, 3, per[(id(c), 3)])
            if bad: report(ck, cal, runner, c, 3, "forward solution vs analytic sphere", bad, imp, mod, [])
    slack = (cal or {}).get("refine_slack", 1.0)
    for c in l2cfgs:
        seq = [(lv, per.get((id(c), lv))) for lv in (1, 2, 3) if per.get((id(c), lv))]
        for (la, ma), (lb, mb) in zip(seq, seq[1:]):
            for name in ("eeg_rdm", "meg_rdm"):
                a, b = mean_metric(ma, name), mean_metric(mb, name)
                if a is None or b is None: continue
                refine.append((name, la, lb, a, b))
                if not calibrate and not (b <= slack * a) and b > FLOORS[name]:
                    ck.violation("no decrease under refinement: %s %d -> %d vertices, %d layers" % (name, NVERT[la], NVERT[lb], len(c["radii"])),
                                 "mean %s over the dipoles does not decrease under refinement: %.4g at %d vertices, %.4g at %d vertices; %s" % (name, a, NVERT[la], b, NVERT[lb], describe(c, lb)),
                                 dict(kind="relation", relation="refine", metric=name, config=c, level=lb, refine=[la, lb, a, b]))

    # ---- MEG does not depend on the conductivities
    #  (a) sigma -> k sigma: exact invariant of the discrete equations (potentials scale by 1/k, currents do not): 1e-9
    #  (b) unrelated conductivity set: the continuous field is identical (sarvas_has_no_conductivity_argument); the discrete one
    #      agrees within the discretisation level (calibrated) - both are also compared with Sarvas above.
    nsig = 4 if quick else 20
    sjobs = []; spec = []
    for c in cfgs[4:4 + nsig] if len(cfgs) >= 4 + nsig else cfgs[:nsig]:
        k = rng.choice([0.25, 3.0, 10.0])
        s2 = gen_sigmas(rng, len(c["radii"]))
        c2 = copy.deepcopy(c)                              # same sensors, orientation vectors of another length
        for kk, m in enumerate(c2["meg"]): m["ori"] = list(S.scal(3.7 if kk % 2 == 0 else 1.0 / S.norm(m["ori"]), m["ori"]))
        sjobs += [(c, 1, None, True), (c, 1, [k * s for s in c["sigmas"]], True), (c, 1, s2, True), (c2, 1, None, False)]; spec.append((c, k, s2))
    sres = runner.run(sjobs)
    if any(runner.last_masks) and not calibrate:
        q_ = [i for i, m in enumerate(runner.last_masks) if m][0]
        ck.violation("Gain constructor modifies its operand: %s" % ", ".join(mask_names(runner.last_masks[q_])),
                     "GainEEG/GainMEG changed the matrix handed in as %s; %s" % (", ".join(mask_names(runner.last_masks[q_])), describe(sjobs[q_][0], 1)),
                     dict(kind="sphere-batch", jobs=[list(sjobs[q_])], index=0, level=1, config=sjobs[q_][0], mask=runner.last_masks[q_]))
    # the same three conductivity sets as ONE sweep in one process, the model-independent operator (DipSource2MEGMat) assembled
    # once and handed to every GainMEG, as a user would write it; each gain must equal the one from freshly assembled operators
    swc = []; 
    for (c, k, s2) in spec:
        ids = []
        for sg in (None, [k * x for x in c["sigmas"]], s2):
            runner.n += 1; ids.append(runner.n); write_geometry(c, 1, ck.workdir, runner.n, sg)
        el = electrodes(c, 1); ce = c["centre"]; fl = []
        for d in c["dipoles"]: fl += shift(d["pos"], ce) + d["mom"]
        for e in el: fl += shift(e, ce)
        for m in c["meg"]: fl += shift(m["pos"], ce) + m["ori"]
        swc.append(core.fcase("c01s", [3] + ids + [len(c["dipoles"]), len(el), len(c["meg"])], fl))
    rc_, swo, _ = core.run_harness(hb, swc, ck.workdir, env={"OMP_NUM_THREADS": os.environ.get("C01_THREADS", "2")}, tag="sweep") if swc else (0, [], "")
    swo = list(swo) + ["CRASH missing"] * (len(swc) - len(swo))
    sweep_err = 0.0
    for q, ((c, k, s2), line, case) in enumerate(zip(spec, swo, swc)):
        try: iz, fo = core.fparse(line)
        except ValueError: iz, fo = None, None
        fresh = [sres[4 * q][0], sres[4 * q + 1][0], sres[4 * q + 2][0]]
        nd = len(c["dipoles"]); ne = len(electrodes(c, 1)); blk = (ne + len(c["meg"])) * nd
        if iz is None or iz[0] != 0 or len(fo) != 3 * blk or any(f_ is None for f_ in fresh):
            if not calibrate:
                ck.violation("pipeline failure (conductivity sweep)", "the conductivity sweep failed (%s) on %s" % (line[:60], describe(c, 1)), dict(kind="sweep", config=c, case=case, sigma_sets=[c["sigmas"], [k * x for x in c["sigmas"]], s2]))
            continue
        errs = [rel_l2(fo[mi * blk:(mi + 1) * blk], fresh[mi]) for mi in range(3)]
        for e_ in errs:
            if e_ == e_ and e_ != float("inf"): sweep_err = max(sweep_err, e_)
        wrong = [mi for mi in range(3) if not (errs[mi] <= 1e-9)]
        if not calibrate and (wrong or iz[5]):
            sets = [c["sigmas"], [k * x for x in c["sigmas"]], s2]; mi = wrong[0] if wrong else 0
            ck.violation("conductivity sweep: a gain of the sweep differs from the gain with fresh operators" if wrong else "conductivity sweep: Gain constructor modifies its operand",
                         "sweep over the conductivity sets %s (same geometry, dipoles and sensors; DipSource2MEGMat assembled once and passed to every GainMEG, as a user would write it): relative l2 differences to the gains computed with freshly assembled operators are %s for set 1, 2, 3%s; operands modified by the Gain constructors: %s; %s"
                         % ([["%.4g" % x for x in st_] for st_ in sets], ["%.3g" % e for e in errs], (" - set %d is the first wrong one: MEG then depends on which conductivities were computed before" % (mi + 1)) if wrong else "", mask_names(iz[5]) or "none", describe(c, 1)),
                         dict(kind="sweep", config=c, case=case, sigma_sets=sets, model=mi, sweep_gain=fo[mi * blk:(mi + 1) * blk], fresh_gain=fresh[mi], mask=iz[5]))
    for f in os.listdir(ck.workdir):
        if f.startswith(("m", "s")) and f.endswith((".geom", ".cond", ".tri")): os.remove(os.path.join(ck.workdir, f))
    msig = 0.0; mscale = 0.0; escale = 0.0; oscale = 0.0
    for q, (c, k, s2) in enumerate(spec):
        a, b, d, o_ = sres[4 * q][0], sres[4 * q + 1][0], sres[4 * q + 2][0], sres[4 * q + 3][0]
        if a is None or b is None or d is None or o_ is None:
            ck.violation("pipeline failure (MEG conductivity runs)", "conductivity-scaling run failed on %s" % describe(c, 1), dict(kind="sphere-config", config=c, level=1)); continue
        nd = len(c["dipoles"]); ne = len(electrodes(c, 1)); off = ne * nd
        # EEG: potentials scale exactly by 1/k (sphere_pot_scale_sigma holds for the discrete equations too)
        for j in range(nd):
            va = demean(col(a, 0, ne, nd, j)); vb = demean(col(b, 0, ne, nd, j))
            ee = l2([x - k * y for x, y in zip(va, vb)]) / (l2(va) or 1e-300)
            escale = max(escale, ee)
            if not calibrate and not (ee <= 1e-9):
                ck.violation("EEG does not scale by 1/k under sigma -> k sigma: %d layers" % len(c["radii"]),
                             "the EEG gain of dipole %d times k differs by %.3g (relative, l2, zero-mean) from the gain with all conductivities multiplied by k = %g; %s" % (j, ee, k, describe(c, 1)),
                             dict(kind="relation", relation="sigma-scale", config=c, level=1, k=k, gain=a, gain_scaled=b)); break
        a, b, d = a[off:], b[off:], d[off:]
        # orientation vectors of another length, same directions: the library normalises, the gain must not move
        eo = rel_l2(a, o_); oscale = max(oscale, eo if eo == eo else float("inf"))
        if not calibrate and not (eo <= 1e-9):
            ck.violation("MEG gain depends on the length of the sensor orientation vectors: %d layers" % len(c["radii"]),
                         "rescaling the orientation vectors of the sensors (x3.7 for even, normalised for odd sensors; directions unchanged) changes the MEG gain by %.3g (relative l2); Head2MEGMat and DipSource2MEGMat both project on orientation/|orientation|; %s" % (eo, describe(c, 1)),
                         dict(kind="relation", relation="orientation-length", config=c, level=1, gain=a, gain_rescaled_orientations=o_, orientations=[m["ori"] for m in c["meg"]]))
        na = l2(a) or 1e-300
        e1 = l2([x - y for x, y in zip(a, b)]) / na; e2 = l2([x - y for x, y in zip(a, d)]) / na
        mscale = max(mscale, e1); msig = max(msig, e2)
        obs.append(((1, 0, 0, 0), "meg_sigma", e2))
        if not calibrate and e1 > 1e-9:
            ck.violation("MEG changes under sigma -> k sigma: %d layers" % len(c["radii"]),
                         "the MEG gain changes by %.3g (relative, l2) when all conductivities are multiplied by %g; %s" % (e1, k, describe(c, 1)),
                         dict(kind="relation", relation="sigma-scale", config=c, level=1, k=k, gain=a, gain_scaled=b))
        if not calibrate and cal and e2 > cal["meg_sigma"]:
            ck.violation("MEG depends on the conductivities: %d layers" % len(c["radii"]),
                         "the MEG gain changes by %.3g (relative, l2; calibrated level %.3g) between conductivities %s and %s; %s" % (e2, cal["meg_sigma"], ["%.4g" % s for s in c["sigmas"]], ["%.4g" % s for s in s2], describe(c, 1)),
                         dict(kind="relation", relation="sigma-independent", config=c, level=1, sigmas2=s2, gain=a, gain2=d))

    # ---- the same head described in another order, and the API path inverse() x2 against invert(): same numbers (1e-9)
    redesc = 0.0
    if not calibrate:
        base = cfgs[ncorpus:ncorpus + (6 if quick else 24)]; rj = []
        for c in base:
            for dsc, api in ((["out-in", False], 1), (["shuffled", True], 0)):
                x = copy.deepcopy(c); x["desc"] = dsc; x["api"] = api; rj.append((x, 1, None, True))
            x = copy.deepcopy(c); x["desc"] = ["in-out", False]; x["api"] = 0; rj.append((x, 1, None, True))
        rr = runner.run(rj); rmasks = list(runner.last_masks)
        for q_ in range(0, len(rj), 3):
            ref = rr[q_ + 2][0]
            for t_ in (0, 1):
                x = rj[q_ + t_][0]; g = rr[q_ + t_][0]
                e_ = rel_l2(g, ref) if g is not None and ref is not None else float("inf")
                if e_ == e_ and e_ != float("inf"): redesc = max(redesc, e_)
                if not (e_ <= 1e-9) or rmasks[q_ + t_]:
                    ck.violation("same head, other description / API path: gains differ (%s, %s)" % (x["desc"][0], "inverse() twice" if x["api"] else "invert()"),
                                 "the gains of the same head differ by %.3g (relative l2) from the reference run (domains listed inside-out, head matrix inverted in place once); operands modified: %s; %s"
                                 % (e_, mask_names(rmasks[q_ + t_]) or "none", describe(x, 1)),
                                 dict(kind="relation", relation="redescription", config=x, level=1, gain=g, reference_gain=ref, mask=rmasks[q_ + t_]))
    ck.cov["redescription_and_api_path_max_rel"] = redesc
    ncf, wcf = (0, 0.0) if calibrate else closed_form_pieces(ck, runner, cfgs[:20 if quick else 100], rng)
    nmp, wmp, rmp = (0, 0.0, []) if calibrate else multipoint_sensors(ck, runner, cfgs[1:4] if quick else cfgs[1:13], rng)

    if calibrate:
        table, fb = build_table(obs)
        ms = [v for (f, mn, v) in obs if mn == "meg_sigma"]
        worst_ratio = max([b / a for (_, _, _, a, b) in refine if a > 0] + [0.0])
        os.makedirs(os.path.dirname(CALIB), exist_ok=True)
        old = load_calib() or {}
        # merge: keep the larger bound of earlier calibration rounds (several seeds)
        if old.get("table") and os.environ.get("C01_CAL_MERGE", "1") == "1":
            for k_, ent in old["table"].items():
                for mn, v in ent.items(): table.setdefault(k_, {})[mn] = max(v, table.get(k_, {}).get(mn, 0.0))
            for mn, v in old["fallback"].items(): fb[mn] = max(v, fb.get(mn, 0.0))
            ms.append(old.get("meg_sigma", 0.0) / MARGIN); worst_ratio = max(worst_ratio, old.get("refine_worst_ratio", 0.0))
        json.dump(dict(comment="EMPIRICAL discretisation bounds for C01 measured on the pinned tree; bound = %g x worst observed over all easier-or-equal bins (eccentricity bin e0<=0.4<e1<=0.6<e2, conductivity contrast c0<=4<c1<=25<c2, thin layer g1 = some radius ratio > 0.9), level L1 = 42, L2 = 162 vertices per surface (L3 uses L2). Not a proof." % MARGIN,
                       margin=MARGIN, table=table, fallback=fb, meg_sigma=max(FLOORS["meg_sigma"], MARGIN * max(ms)) if ms else 0.05,
                       refine_worst_ratio=worst_ratio, refine_slack=min(1.0, MARGIN * worst_ratio) if worst_ratio > 0 else 1.0,
                       seeds=sorted(set(old.get("seeds", []) + [ck.seed]))), open(CALIB, "w"), indent=1, sort_keys=True)
        print("calibrated on seed %d: %d observations, worst refine ratio %.3f, meg_sigma %.3g" % (ck.seed, len(obs), worst_ratio, max(ms) if ms else -1))
        import shutil; shutil.rmtree(ck.workdir, ignore_errors=True)
        return 0

    ck.cov.update(multipoint_sensor_values_compared=nmp, multipoint_worst_error_over_scale=wmp, multipoint_rdm_vs_weighted_sarvas=rmp[:12],
                  closed_form_piece_values_compared=ncf, closed_form_piece_worst_error_over_scale=wcf,
                  evaluations=runner.evals + oracle_checks, distinct_nontrivial=nontriv,
                  rule="one evaluation = one full pipeline run (HeadMat, invert, DipSourceMat, Head2EEG/MEG, gains) on a generated nested-sphere model compared with the extracted oracle; distinct non-trivial = (configuration, resolution, dipole) triples with at least one metric evaluated; random 1-4 layers, radius ratios U[0.6,0.98], adjacent conductivity ratios log-U[1/100,100] or 1/80, 80, 1/15, 15, 1, outer radius 1 or log-U[0.5,2], centre 0 or random, 6 dipoles/configuration (2 radial, 2 tangential, 2 generic; eccentricity bins <=0.4, <=0.6, <=0.8 of the inner radius), electrodes = 42 outer-mesh vertices + 12 generic surface points, 18 MEG sensors at 1.05-1.5 R (radial / tangential / generic orientation)",
                  samples=samples, op_distribution=dist, worst_observed={"L%d %s" % k: round(v, 5) for k, v in sorted(worst.items())},
                  refinement=[dict(metric=n, frm=NVERT[a], to=NVERT[b], before=round(x, 5), after=round(y, 5)) for (n, a, b, x, y) in sorted(refine, key=lambda r: -r[2])][:24],
                  largest_fraction_of_bound={k_: dict(fraction=v[0], bin=v[1]) for k_, v in frac.items()},
                  meg_sigma_scaling_max_rel=mscale, eeg_sigma_scaling_max_rel=escale, meg_orientation_length_max_rel=oscale, sweep_vs_fresh_operators_max_rel=sweep_err, meg_sigma_independent_max_rel=msig,
                  traces_validated_against_impl=runner.evals,
                  explanation=EXPLANATION)
    return ck.finish()

def oracle_sanity(ck):
    """extracted Coq oracle vs (i) the independent Python series, (ii) closed forms, (iii) the repo's analytic tables"""
    rng = ck.rng; n = 0
    cfg = gen_config(rng, 3, ndip=4, nmeg=6, ngeneric=8)
    for nl in (1, 2, 4):
        c = gen_config(rng, nl, ndip=4, nmeg=6, ngeneric=8); c["centre"] = [0, 0, 0]
        out = core.run_model([model_case(c, 1, 1), model_case(c, 1, 2)])
        z1, f1 = core.fparse(out[0]); z2, f2 = core.fparse(out[1])
        el = electrodes(c, 1); nd = len(c["dipoles"]); nt = nterms_for(c)
        for i, e in enumerate(el):
            for j, d in enumerate(c["dipoles"]):
                ref = S.sphere_pot(c["radii"], c["sigmas"], d["mom"], d["pos"], e, nt); n += 1
                scale = abs(ref) + 1e-3 / (c["sigmas"][0] * c["radii"][-1] ** 2)
                if not core.close(f1[i * nd + j], ref, 1e-9, scale):
                    ck.violation("oracle: extracted series differs from the reference implementation", "extracted sphere_pot = %r, Python reference = %r (%d layers)" % (f1[i * nd + j], ref, nl),
                                 dict(kind="oracle", config=c), found_input=False)
                if nl == 1:
                    hc = f2[i * nd + j]
                    if not core.close(f1[i * nd + j], hc, 1e-9, scale):
                        ck.violation("oracle: one-layer series differs from the closed form", "series %r closed form %r" % (f1[i * nd + j], hc), dict(kind="oracle", config=c), found_input=False)
        off = len(el) * nd
        for i, s in enumerate(c["meg"]):
            for j, d in enumerate(c["dipoles"]):
                ref = 1e-7 * S.dot(S.sarvas(d["mom"], d["pos"], s["pos"]), s["ori"]) / S.norm(s["ori"]); n += 1
                if not core.close(f1[off + i * nd + j], ref, 1e-9, abs(ref) + 1e-12):
                    ck.violation("oracle: extracted Sarvas differs from the reference implementation", "%r vs %r" % (f1[off + i * nd + j], ref), dict(kind="oracle", config=c), found_input=False)
                a, b = f2[off + 2 * (i * nd + j)], f2[off + 2 * (i * nd + j) + 1]
                bscale = S.norm(s["pos"]) * S.norm(d["mom"]) / S.norm(S.sub(s["pos"], d["pos"])) ** 2     # |r| |q| / |r-r0|^2
                if not core.close(a, b, 1e-9, bscale):
                    ck.violation("oracle: radial component of Sarvas differs from Biot-Savart of the primary current", "%r vs %r" % (a, b), dict(kind="oracle", config=c), found_input=False)
    # the repo's tables
    R = ombuild.REPO
    try:
        dips = [list(map(float, l.split())) for l in open(R + "/data/Head1/Head1.dip") if l.strip()]
        pat = [list(map(float, l.split()[1:4])) for l in open(R + "/data/Head1/Head1.patches") if l.strip()]
        tab = [list(map(float, l.split())) for l in open(R + "/tests/analytic/eeg_head1_analytic.txt") if l.strip()]
        sq = [list(map(float, l.split()[1:7])) for l in open(R + "/data/Head1/Head1.squids") if l.strip()]
        mt = [list(map(float, l.split())) for l in open(R + "/tests/analytic/meg_analytic.txt") if l.strip()]
        fl = [0.87, 0.92, 1.0, 1.0, 0.0125, 1.0] + [x for d in dips for x in d] + [x for p in pat for x in p] + [x for s in sq for x in s]
        z, f = core.fparse(core.run_model([core.fcase("c01", [1, 3, 250, len(dips), len(pat), len(sq)], fl)])[0])
        nd = len(dips); ne = len(pat)
        e1 = max(abs(f[i * nd + j] - tab[i][j]) for i in range(ne) for j in range(nd))
        e2 = max(abs(f[ne * nd + i * nd + j] - mt[i][j]) for i in range(len(sq)) for j in range(nd))
        n += ne * nd + len(sq) * nd
        ck.cov["oracle_vs_repo_tables"] = dict(eeg_head1_max_abs=e1, meg_max_abs=e2)
        if e1 > 1e-12 or e2 > 1e-14:
            ck.violation("oracle: differs from the repo's analytic tables", "max abs difference EEG %.3g (tests/analytic/eeg_head1_analytic.txt), MEG %.3g (meg_analytic.txt)" % (e1, e2),
                         dict(kind="oracle"), found_input=False)
    except (OSError, ValueError, IndexError) as e:
        ck.notes.append("repo analytic tables not usable: %s" % e)
    return n

if __name__ == "__main__":
    if "--calibrate" in sys.argv:
        import subprocess
        if os.path.exists(os.path.join(ombuild.REPO, ".git")):
            if subprocess.run(["git", "status", "--porcelain"], cwd=ombuild.REPO, stdout=subprocess.PIPE).stdout.strip():
                sys.exit("refusing to calibrate on a modified tree: %s" % ombuild.REPO)
        os.chdir(core.VERIF); sys.exit(main(None, calibrate=True))
    sys.exit(main(None))
