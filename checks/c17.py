"""C17 — results depend on the inputs only, not on earlier operations in the process.

Per state machine: (1) the world (what each single operation does in a FRESH process) is measured on the library
built from the working tree; (2) the Gallina model (proved history independent for the repaired code) predicts
whole histories; (3) the histories are executed in ONE harness process and, operation by operation, in fresh
processes.  Relations checked: model == one-process run (correspondence), one-process run == fresh-process runs
(the property's own relation, used to search for a concrete failing history)."""
import os, sys, json, subprocess, shutil, struct, hashlib
from concurrent.futures import ThreadPoolExecutor
import core, ombuild

PROP = "C17"
FMT = ["matlab", "ascii", "tex", "binary"]
KIND = ["Vector", "Matrix", "SymMatrix", "SparseMatrix"]
SFX = [".mat", ".txt", ".tex", ".bin", ".xyz", ""]
OPN = ["load", "save", "read_as", "write_as", "write_suffix", "info"]
REPAIRED = 7      # cfg bits of the model variant that follows the current (repaired) code

def env():
    e = dict(os.environ); e["OMP_NUM_THREADS"] = "1"; e["OPENBLAS_NUM_THREADS"] = "1"; return e

LFAIL = {}        # (kind, file) -> object left by a failed load into a fresh object
PERTURB = []      # (machine, case dict, description, output under MALLOC_PERTURB_=165, under 90) for one-process runs that differ

def hrun_p(hb, line, cwd, machine, case, timeout=300):
    """one-process history under two malloc perturbation bytes (glibc MALLOC_PERTURB_: every allocated and freed block is
    filled with a non-zero pattern, so nothing can rely on fresh memory being zero, nor on what a freed block contained);
    the fresh-process references run without it.  Returns the first output; a difference between the two is recorded."""
    a = hrun(hb, [line], cwd, timeout, perturb=165)[0]
    b = hrun(hb, [line], cwd, timeout, perturb=90)[0]
    if a != b: PERTURB.append((machine, case, a, b))
    return a

def report_perturb(ck, describe):
    for machine, case, a, b in PERTURB:
        ia, ib = ints(a) or [], ints(b) or []
        k = next((i for i in range(min(len(ia), len(ib))) if ia[i] != ib[i]), min(len(ia), len(ib)))
        where = ""
        if machine == "compute":
            where = (" = shared operand '%s' as built in that process" % OPERANDS[k - 1]) if 1 <= k <= len(OPERANDS) else (" = result/operand mask of computation %d (%s)" % ((k - 1 - len(OPERANDS)) // 2, COMPUTE[case["ops"][(k - 1 - len(OPERANDS)) // 2]]) if k > len(OPERANDS) and (k - 1 - len(OPERANDS)) // 2 < len(case["ops"]) else "")
        ck.violation("%s: result depends on the content of uninitialised memory (%s)%s" % (machine, describe(machine, case)[:160], where),
                     "the one-process history [%s] gives different outputs under MALLOC_PERTURB_=165 and MALLOC_PERTURB_=90 (first difference at output field %d%s: %s vs %s): some result is read from memory that was never written"
                     % (describe(machine, case), k, where, ia[k:k + 3] if ia else a, ib[k:k + 3] if ib else b),
                     dict(kind="object-history", machine=machine, cases=[case], replay_cmd="./check C17 --replay <this file>"))
    del PERTURB[:]

def hrun(hb, lines, cwd, timeout=300, perturb=None):
    """one harness process over the case lines, run inside cwd; returns the output lines ('CRASH rc' appended on abnormal end)"""
    os.makedirs(cwd, exist_ok=True)
    cf = os.path.join(cwd, "cases.in")
    with open(cf, "w") as fh: fh.write("\n".join(lines) + "\n")
    e_ = env()
    if perturb is not None: e_["MALLOC_PERTURB_"] = str(perturb)
    try:
        p = subprocess.run([hb, "cases.in"], cwd=cwd, env=e_, stdout=subprocess.PIPE, stderr=subprocess.PIPE, timeout=timeout)
        out = p.stdout.decode(errors="replace").split("\n"); rc = p.returncode
    except subprocess.TimeoutExpired as te:
        out = (te.stdout or b"").decode(errors="replace").split("\n"); rc = -999
    if out and out[-1] == "": out.pop()
    while len(out) < len(lines): out.append("CRASH %d" % rc)
    return out

def ints(line):
    return None if line.startswith("CRASH") else [int(t) for t in line.split()]

# ------------------------------------------------------------------ machine 1: maths IO state
class IOWorld:
    """contents (by bytes), writer table, reader table, iteration order of the formats - all measured in fresh processes"""
    def __init__(self, hb, wd):
        self.hb = hb; self.wd = wd
        self.pool = os.path.join(wd, "pool"); os.makedirs(self.pool, exist_ok=True)
        self.bytes = []; self.ids = {}
        self.cid(b"")
        o = ints(hrun(hb, ["c17 0"], os.path.join(wd, "p0"))[0])
        self.ios = o[1:]
        # writer table
        self.wr = []
        def w(gk):
            g, k = gk; d = os.path.join(wd, "pw%d_%d" % (g, k))
            o = ints(hrun(hb, ["c17 10 %d %d" % (g, k)], d)[0])
            f = os.path.join(d, "w.out")
            return o[0] if o else 3, (open(f, "rb").read() if os.path.exists(f) else b"")
        with ThreadPoolExecutor(8) as ex:
            res = list(ex.map(w, [(g, k) for g in range(4) for k in range(4)]))
        self.written = {}
        for (g, k), (v, b) in zip([(g, k) for g in range(4) for k in range(4)], res):
            c = self.cid(b); self.wr.append((v, c)); self.written[(g, k)] = c
        # hand-made contents aimed at the tag buffer / identification boundaries
        self.special = {}
        for nm, b in [("asc", b"asc"), ("seven", b"7\n"), ("m22", b"1 2\n3 4\n"), ("MAT", b"MAT"), ("1e", b"1e"), ("minus", b"-"),
                      ("ws", b"  3.5 4\n1 2\n"), ("asciiword", b"ascii"), ("garbage", b"hello world, this is not a matrix file at all"),
                      ("1e+x", b"1e+x\n"), ("dot", b"."), ("plusdot5", b"+.5\n"), ("e5", b"e5\n"), ("1.2.3", b"1.2.3 4\n"),
                      ("bin49", struct.pack("<I", 49) + b"".join(struct.pack("<d", i + 1) for i in range(49))),
                      ("nul", b"\x00\x00\x00\x00 12 13\n"), ("matlabword", b"MATLAB"), ("asciinl", b"ascii\nFLOAT\n")]:
            self.special[nm] = self.cid(b)
        self.rd = None

    @staticmethod
    def key(b):
        # MATLAB 7.3 files carry a creation time stamp: identified by magic + size
        return b"MATLAB:%d" % len(b) if b.startswith(b"MATLAB ") else b

    def cid(self, b0):
        b = self.key(b0)
        if b not in self.ids:
            self.ids[b] = len(self.bytes); self.bytes.append(b0)
            with open(os.path.join(self.pool, "c%d" % self.ids[b]), "wb") as fh: fh.write(b0)
        return self.ids[b]

    def probe_readers(self):
        """reader outcome per (content, format, kind), each in a fresh process"""
        jobs = [(c, g, k) for c in range(len(self.bytes)) for g in range(4) for k in range(5)]     # k = 4: info()
        def r(j):
            c, g, k = j; d = os.path.join(self.wd, "pr%d_%d_%d" % j); os.makedirs(d, exist_ok=True)
            with open(os.path.join(d, "r.in"), "wb") as fh: fh.write(self.bytes[c])
            o = ints(hrun(self.hb, ["c17 11 %d %d" % (g, k) if k < 4 else "c17 12 %d" % g], d)[0])
            shutil.rmtree(d, ignore_errors=True)
            return o[0] if o else 3
        with ThreadPoolExecutor(8) as ex:
            res = list(ex.map(r, jobs))
        self.rd = [v for (c, g, k), v in zip(jobs, res) if k < 4]
        self.inf = [v for (c, g, k), v in zip(jobs, res) if k == 4]
        self.nprobes = len(jobs)

    def wire(self):
        w = [len(self.ios)] + self.ios
        return w

def io_world_wire(W, sfx):
    w = [len(W.ios)] + W.ios + [len(sfx)] + sfx + [len(W.bytes)]
    for b in W.bytes:
        h = list(b[:32]); w += [len(h)] + h
    w += [len(W.rd)] + W.rd + [len(W.wr)]
    for v, c in W.wr: w += [v, c]
    w += [0, len(W.inf)] + W.inf
    return w

# names: index -> (suffix class, nodir?)
NAMES = [(0, 0), (1, 0), (2, 0), (3, 0), (4, 0), (5, 0), (1, 1), (4, 0), (3, 1), (1, 0), (2, 0), (4, 0)]

def gen_io_seq(rng, W, maxlen):
    nn = len(NAMES)
    fs = []
    for s, nd in NAMES:
        if nd: fs.append(0); continue
        c = rng.random()
        if c < 0.2: fs.append(1)
        elif c < 0.72 and s < 4:
            fs.append(2 + W.written[(s, rng.choice([1, 1, 0, 2, 3] if s != 2 else [1]))])
        elif c < 0.86: fs.append(2 + rng.choice(list(W.special.values())))
        else: fs.append(2 + rng.randrange(len(W.bytes)))
    n = rng.randint(1, maxlen); ops = []
    hot = [rng.randrange(nn) for _ in range(3)]
    kind_of = {}
    for (g, k), c in W.written.items(): kind_of.setdefault(c, k)
    files = [i for i, e in enumerate(fs) if e >= 2]
    for _ in range(n):
        o = rng.choice([0, 0, 0, 0, 0, 0, 1, 1, 1, 1, 2, 2, 3, 3, 4, 5, 5])
        a = rng.choice([0, 1, 2, 3, 3, 4, 5]) if o in (2, 3) else 0
        k = rng.choice([0, 1, 1, 2, 3])
        nm = rng.choice(hot) if rng.random() < 0.5 else rng.randrange(nn)
        if o in (0, 2, 5) and files and rng.random() < 0.6:
            nm = rng.choice(files)                                   # aim at an existing file, read as what was written
            if fs[nm] - 2 in kind_of and rng.random() < 0.8: k = kind_of[fs[nm] - 2]
            if o == 2 and rng.random() < 0.6: a = 4
        if o in (1, 3, 4) and rng.random() < 0.5:
            nm = rng.choice([i for i, (s_, nd) in enumerate(NAMES) if not nd])
            if o == 3 and rng.random() < 0.5: a = rng.choice([0, 1, 3, 4])
        ops.append((o, a, k, nm))
    return fs, ops

def io_model_case(W, fs, ops, mode, cfg=REPAIRED):
    sfx = [s for s, _ in NAMES]
    w = [1, mode, cfg] + io_world_wire(W, sfx) + [len(fs)] + fs + [len(ops)]
    for o in ops: w += list(o)
    return "c17 " + " ".join(map(str, w))

def io_harness_case(fs, ops, init=1):
    w = [1, init, len(NAMES)]
    for (s, _), e in zip(NAMES, fs): w += [s, e]
    w += [len(ops)]
    for o in ops: w += list(o)
    return "c17 " + " ".join(map(str, w))

def io_fname(n, e0):
    s, nd = NAMES[n]
    return ("nodir/f" if nd else "f") + str(n) + SFX[s]

def io_dirstate(W, d):
    """file system of the case directory in the model's encoding"""
    out = []
    for n, (s, nd) in enumerate(NAMES):
        p = os.path.join(d, io_fname(n, 0))
        if nd: out.append(0)
        elif not os.path.exists(p): out.append(1)
        else:
            b = open(p, "rb").read()
            out.append(2 + W.ids[W.key(b)] if W.key(b) in W.ids else -5)
    return out

def describe_io(fs, ops, W):
    names = ["%s=%s" % (io_fname(n, 0), "nodir" if e == 0 else "absent" if e == 1 else "content#%d(%dB:%r)" % (e - 2, len(W.bytes[e - 2]), W.bytes[e - 2][:12]))
             for n, e in enumerate(fs)]
    return "; ".join("%s %s%s %s" % (OPN[o], KIND[k], (" fmt=" + (FMT + ["default", "nosuchformat"])[a]) if o in (2, 3) else "", io_fname(n, 0)) for o, a, k, n in ops) + "  [files: " + ", ".join(names) + "]"

def canon_io(W, mtriples, outs):
    """mask outcomes that are undefined behaviour of the binary reader on files shorter than its header (defect 7, C07)"""
    res = []
    for (mv, mm, me), (v, m) in zip(mtriples, outs):
        tiny = me >= 2 and len(W.bytes[me - 2]) < 8 and (mm & 8)
        res.append(((-2 if tiny else mv, mm), (-2 if tiny and (m & 8) else v, m)))
    return res

def run_io_sequences(ck, hb, W, seqs, tag):
    """returns list of dicts with model / inproc / fresh traces"""
    mcases = [io_model_case(W, fs, ops, 0) for fs, ops in seqs]
    mo = core.run_model(mcases)
    base = os.path.join(ck.workdir, tag)
    def one(i):
        fs, ops = seqs[i]
        d = os.path.join(base, "a%d" % i, "d"); os.makedirs(d, exist_ok=True)
        lk = os.path.join(base, "a%d" % i, "pool")
        if not os.path.exists(lk): os.symlink(W.pool, lk)
        o = ints(hrun_p(hb, io_harness_case(fs, ops, 1), d, "io", dict(fs=fs, ops=[list(x) for x in ops])))
        fin = io_dirstate(W, d)
        e = os.path.join(base, "a%d" % i, "e"); os.makedirs(e, exist_ok=True)
        fr = []
        for q, op in enumerate(ops):
            x = ints(hrun(hb, [io_harness_case(fs, [op], 1 if q == 0 else 0)], e)[0])
            fr += x if x else [-9, -9]
        shutil.rmtree(os.path.join(base, "a%d" % i), ignore_errors=True)
        return o, fin, fr
    with ThreadPoolExecutor(8) as ex:
        hres = list(ex.map(one, range(len(seqs))))
    out = []
    for (fs, ops), m, (o, fin, fr) in zip(seqs, mo, hres):
        mi = [int(t) for t in m.split()]
        n = len(ops)
        mt = [(mi[3 * q], mi[3 * q + 1], mi[3 * q + 2]) for q in range(n)] if len(mi) >= 3 * n else None
        mfs = mi[3 * n:] if mt else None
        ho = [(o[2 * q], o[2 * q + 1]) for q in range(n)] if o and len(o) == 2 * n else None
        hf = [(fr[2 * q], fr[2 * q + 1]) for q in range(n)] if len(fr) == 2 * n else None
        out.append(dict(fs=fs, ops=ops, model=mt, model_fs=mfs, inproc=ho, fresh=hf, final=fin))
    return out

def mkfs(d):
    return [0 if nd else d.get(n, 1) for n, (s, nd) in enumerate(NAMES)]

WITNESS_IO = [
    # shortest distinguishing histories of the pinned model (Properties_C17: io_history_independent_pinned_refuted,
    # readtag_short_file_pinned_refuted), replayed on the real code on every run
    ("failed-open-leaves-format", lambda W: (mkfs({7: 2 + W.written[(0, 0)]}), [(0, 0, 1, 1), (0, 0, 0, 7)]),
     "load Matrix f1.txt (absent) ; load Vector f7.xyz (a MATLAB file)"),
    ("short-file-identified-by-stale-tag", lambda W: (mkfs({2: 2 + W.written[(2, 1)], 4: 2 + W.special["asc"]}), [(0, 0, 1, 2), (0, 0, 1, 4)]),
     "load Matrix f2.tex (a tex file) ; load Matrix f4.xyz (the 3 bytes 'asc')"),
    ("failed-open-for-writing-leaves-format", lambda W: (mkfs({}), [(1, 0, 0, 6), (1, 0, 0, 7)]),
     "save Vector nodir/f6.txt (unwritable) ; save Vector f7.xyz"),
]

def check_io(ck, hb, quick, replay):
    W = IOWorld(hb, os.path.join(ck.workdir, "io"))
    W.probe_readers()
    stats = dict(op={}, fail={}, seqs=0, ops=0, fresh_processes=0)
    rng = ck.rng
    if replay:
        seqs = [(r["fs"], [tuple(o) for o in r["ops"]]) for r in replay]
    else:
        seqs = [f(W) for _, f, _ in WITNESS_IO]
        cp = os.path.join(core.VERIF, "corpus", "C17.txt")
        if os.path.exists(cp):
            for l in open(cp):
                l = l.strip()
                if l.startswith("io "):
                    j = json.loads(l[3:])
                    def ent(v):
                        if v == "absent": return 1
                        t = v.split(":")
                        return 2 + (W.written[(int(t[1]), int(t[2]))] if t[0] == "w" else W.special[t[1]])
                    seqs.append((mkfs({int(n): ent(v) for n, v in j["files"].items()}), [tuple(o) for o in j["ops"]]))
        nseq = 260 if quick else 2000
        seqs += [gen_io_seq(rng, W, 8 if quick else 20) for _ in range(nseq)]
    res = run_io_sequences(ck, hb, W, seqs, "ioseq")
    nviol = 0
    for idx, r in enumerate(res):
        fs, ops = r["fs"], r["ops"]
        stats["seqs"] += 1; stats["ops"] += len(ops); stats["fresh_processes"] += len(ops)
        rp = dict(kind="io-history", machine="io", cases=[dict(fs=fs, ops=[list(o) for o in ops])], history=describe_io(fs, ops, W),
                  replay_cmd="./check C17 --replay <this file>")
        if r["model"] is None or r["inproc"] is None or r["fresh"] is None:
            ck.violation("io: harness or model did not produce a trace", "no complete trace for history: %s (model=%s inproc=%s fresh=%s)" % (describe_io(fs, ops, W), r["model"], r["inproc"], r["fresh"]), rp)
            continue
        ci = canon_io(W, r["model"], r["inproc"]); cf = canon_io(W, r["model"], r["fresh"])
        for q, o in enumerate(ops):
            stats["op"][OPN[o[0]]] = stats["op"].get(OPN[o[0]], 0) + 1
            v = r["inproc"][q][0]
            key = "ok" if (v == 0 or v >= 1000) else "exception_%d" % v
            stats["fail"][key] = stats["fail"].get(key, 0) + 1
        # the property's own relation: same operation in a fresh process on the same files
        bad = [q for q in range(len(ops)) if ci[q][1] != cf[q][1]]
        if bad:
            q = bad[0]; nviol += 1
            wit = next((n for n, f, _ in WITNESS_IO if f(W) == (fs, ops)), None)
            sig = "io: %s" % wit if wit else "io: operation result depends on the process history (%s after %d earlier operations)" % (OPN[ops[q][0]], q)
            ck.violation(sig, "operation %d (%s) gives (outcome,codec mask)=%s in the process that ran the history but %s in a fresh process on the same files; history: %s"
                         % (q, OPN[ops[q][0]], ci[q][1], cf[q][1], describe_io(fs, ops[:q + 1], W)), rp)
            continue
        # correspondence with the model (proved history independent)
        badm = [q for q in range(len(ops)) if ci[q][0] != ci[q][1]]
        if badm or (r["model_fs"] != r["final"]):
            q = badm[0] if badm else len(ops) - 1
            ck.violation("io: model and implementation differ (%s)" % OPN[ops[q][0]],
                         "the IO state model (coq/Maths/IOState.v, repaired variant) predicts %s for operation %d but the library gives %s (final files model=%s impl=%s); no history dependence was observed for this sequence (fresh-process runs agree with the one-process run), so this is a broken tie, not a failing input of the property; history: %s"
                         % (ci[q][0], q, ci[q][1], r["model_fs"], r["final"], describe_io(fs, ops, W)), rp, found_input=False)
    report_perturb(ck, lambda m, c: describe_io(c["fs"], [tuple(o) for o in c["ops"]], W))
    stats["reader_probes"] = W.nprobes; stats["contents"] = len(W.bytes); stats["ios_order"] = [FMT[i] for i in W.ios]
    return stats, seqs

# ------------------------------------------------------------------ machines 2-4: Geometry, Sensors, Mesh objects
import models

class Renum:
    def __init__(self): self.d = {}
    def __call__(self, h):
        if h not in self.d: self.d[h] = len(self.d) + 1
        return self.d[h]

N_COMPUTE = 15
COMPUTE = ["HeadMat", "H.solveLin(Matrix&)", "H.solveLin(Vector)", "H.inverse()", "H*v", "GainEEG", "GainEEGadjoint", "GainMEGadjoint", "GainEEGMEGadjoint", "GainMEG", "DipSourceMat", "Head2EEGMat", "Head2MEGMat", "DipSource2MEGMat", "Hinv*DSM"]
OPERANDS = ["geometry", "HeadMat H", "Hinv", "dipoles", "DipSourceMat", "Head2EEGMat", "Head2MEGMat", "DipSource2MEGMat", "rhs matrix", "rhs vector", "EEG sensors", "MEG sensors"]

def split_lenpref(v):
    out = []; i = 0
    while v is not None and i < len(v):
        n = v[i]; out.append(v[i + 1:i + 1 + n]); i += 1 + n
    return out

def build_catalog(ck, wd):
    """files of the object machines; returns dict(G=[...], S=[...], M=[...]) of (label, catalog line)"""
    D = os.path.join(ombuild.REPO, "data"); gd = os.path.join(wd, "gen"); os.makedirs(gd, exist_ok=True)
    H1 = os.path.join(D, "Head1")
    G = [("Head1+cond", "G %s/Head1.geom %s/Head1.cond" % (H1, H1)), ("Head1", "G %s/Head1.geom -" % H1)]
    imm = models.nested([0.4, 0.6, 0.8, 1.0], [1.0, 0.0, 0.0, 1.0], level=0)
    g, c = models.write_model(imm, os.path.join(gd, "imm"), stem="imm")
    G += [("immersed+cond", "G %s %s" % (g, c)), ("immersed", "G %s -" % g)]
    G += [("HeadMN1+cond", "G %s/HeadMN1/HeadMN1.geom %s/HeadMN1/HeadMN1.cond" % (D, D)),
          ("missing.geom", "G %s/missing.geom %s/Head1.cond" % (gd, H1)), ("unknown-suffix", "G %s/Head1.cond -" % H1)]
    # geometry file whose second mesh does not exist: exception in the middle of import
    txt = open(os.path.join(H1, "Head1.geom")).read()
    bd = os.path.join(gd, "broken"); os.makedirs(bd, exist_ok=True)
    for f in ("cortex.1.tri", "skull.1.tri", "scalp.1.tri"): shutil.copy(os.path.join(H1, f), bd)
    os.remove(os.path.join(bd, "skull.1.tri"))
    open(os.path.join(bd, "broken.geom"), "w").write(txt)
    G.append(("broken-mesh-ref", "G %s/broken.geom %s/Head1.cond" % (bd, H1)))
    G.append(("Head1+wrong-cond", "G %s/Head1.geom %s" % (H1, c)))
    G.append(("import-Head1-meshes", "I cortex %s/cortex.1.tri skull %s/skull.1.tri scalp %s/scalp.1.tri" % (H1, H1, H1)))
    G.append(("HeadNNc1+cond", "G %s/HeadNNc1/HeadNNc1.geom %s/HeadNNc1/HeadNNc1.cond" % (D, D)))
    for k in range(2):
        m = models.random_model(ck.rng, level=ck.rng.choice([0, 1]))
        g2, c2 = models.write_model(m, os.path.join(gd, "r%d" % k), stem="r%d" % k)
        G.append(("random-%s-%d+cond" % (m["info"]["topology"], k), "G %s %s" % (g2, c2)))
        if k == 0: G.append(("random-%s-%d" % (m["info"]["topology"], k), "G %s -" % g2))
    # same geometry files with other conductivities (set_conductivity in place + finalize must give these), a .geom with a bad header
    cb = os.path.join(gd, "Head1_B.cond"); open(cb, "w").write("# Properties Description 1.0 (Conductivities)\n\nAir         0.0\nScalp       1.2\nBrain       0.5\nSkull       0.02\n")
    G.append(("Head1+condB", "G %s/Head1.geom %s" % (H1, cb)))
    ci = os.path.join(gd, "imm_B.cond"); open(ci, "w").write("# Properties Description 1.0 (Conductivities)\n\nD0 1.0\nD1 0.3\nD2 0.0\nD3 2.0\nAir 0.0\n")
    G.append(("immersed+condB", "G %s %s" % (g, ci)))
    bh = os.path.join(gd, "badheader.geom"); open(bh, "w").write("# Domain Descrption 9.9\nInterfaces 0\n")
    G.append(("bad-header.geom", "G %s %s/Head1.cond" % (bh, H1)))
    # sensors
    sd = os.path.join(gd, "sens"); os.makedirs(sd, exist_ok=True)
    def wf(name, txt):
        p = os.path.join(sd, name); open(p, "w").write(txt); return p
    S = [("Head1.squids", "S %s/Head1.squids" % H1), ("Head1.eeg", "S %s/Head1.eeg" % H1),
         ("unlabeled-xyz", "S " + wf("u3.txt", "0.1 0.2 0.3\n0.4 0.5 0.6\n0.7 0.8 0.9\n")),
         ("unlabeled-7col", "S " + wf("u7.txt", "0.1 0.2 0.3 1.0 0.0 0.0 0.5\n0.4 0.5 0.6 0.0 1.0 0.0 0.5\n")),
         ("labeled-repeats", "S " + wf("l7.txt", "a 0.1 0.2 0.3 1.0 0.0 0.0 0.5\na 0.4 0.5 0.6 0.0 1.0 0.0 0.5\nb 0.7 0.5 0.6 0.0 1.0 0.0 1.0\nMEG001 0.7 0.5 0.9 0.0 1.0 0.0 1.0\n")),
         ("labeled-xyz-shares-names", "S " + wf("l3.txt", "b 0.1 0.2 0.3\nMEG001 0.4 0.5 0.6\nzz 1.5 2.5 3.5\n")),
         ("ragged", "S " + wf("rag.txt", "a 0.1 0.2 0.3\nb 0.4 0.5\n")), ("missing", "S %s/nothere.txt" % sd),
         ("four-columns", "S " + wf("l4.txt", "p 0.1 0.2 0.3 0.05\nq 0.4 0.5 0.6 0.05\n")),
         ("Head1-EIT.patches", "S %s/Head1-EIT.patches" % H1), ("Head1-ecog", "S %s/Head1-ecog.electrodes" % H1),
         # degenerate descriptions: the outcome CLASS (exception or state) must also be that of a fresh object
         ("empty-file", "S " + wf("empty.txt", "")), ("comments-only", "S " + wf("comments.txt", "# no sensor here\n# at all\n")),
         ("blank-lines-only", "S " + wf("blank.txt", "\n\n   \n")), ("comment-then-one-sensor", "S " + wf("c1.txt", "# one\nz1 0.1 0.2 0.3\n"))]
    # meshes
    md = os.path.join(gd, "mesh"); os.makedirs(md, exist_ok=True)
    v0, t0 = models.icosphere(0); v1, t1 = models.icosphere(1)
    models.write_tri(os.path.join(md, "ico0.tri"), models.transform(v0, 0.3), t0)
    models.write_off(os.path.join(md, "ico0.off"), models.transform(v0, 0.3), t0)
    models.write_tri(os.path.join(md, "ico1.tri"), models.transform(v1, 0.3), t1)       # shares the 12 icosahedron vertices with ico0
    models.write_bnd(os.path.join(md, "ico0big.bnd"), models.transform(v0, 2.0), t0)
    def raw_tri(name, vs, ts):
        with open(os.path.join(md, name), "w") as fh:
            fh.write("- %d\n" % len(vs))
            for v in vs: fh.write("%r %r %r %r %r %r\n" % (v + v))
            fh.write("- %d %d %d\n" % ((len(ts),) * 3))
            for t in ts: fh.write("%d %d %d\n" % t)
        return os.path.join(md, name)
    octv = [(1.0, 0.0, 0.0), (-1.0, 0.0, 0.0), (0.0, 1.0, 0.0), (0.0, -1.0, 0.0), (0.0, 0.0, 1.0), (0.0, 0.0, -1.0)]
    octt = [(0, 2, 4), (2, 1, 4), (1, 3, 4), (3, 0, 4), (2, 0, 5), (1, 2, 5), (3, 1, 5), (0, 3, 5)]
    # the same point listed twice (seam), an unused vertex, a repeated triangle, an unused duplicate of a used point
    seam = raw_tri("oct_seam.tri", octv + [octv[4]], [(0, 2, 4), (2, 1, 6), (1, 3, 4), (3, 0, 6), (2, 0, 5), (1, 2, 5), (3, 1, 5), (0, 3, 5)])
    unused = raw_tri("oct_unused_vertex.tri", octv + [(5.0, 5.0, 5.0)], octt)
    reptri = raw_tri("oct_repeated_triangle.tri", octv, octt + [octt[0]])
    dupun = raw_tri("oct_first_point_twice.tri", [octv[0]] + octv, [tuple(x + 1 for x in t) for t in octt])
    tetra = raw_tri("tetra.tri", [(2.0, 2.0, 2.0), (2.0, -2.0, -2.0), (-2.0, 2.0, -2.0), (-2.0, -2.0, 2.0)], [(0, 1, 2), (0, 3, 1), (0, 2, 3), (1, 3, 2)])
    M = [("Head1.tri", "M %s/Head1.tri" % H1), ("cortex.1.tri", "M %s/cortex.1.tri" % H1), ("scalp.1.tri", "M %s/scalp.1.tri" % H1),
         ("ico0.tri", "M %s/ico0.tri" % md), ("ico0.off", "M %s/ico0.off" % md), ("ico1.tri", "M %s/ico1.tri" % md),
         ("ico0big.bnd", "M %s/ico0big.bnd" % md), ("missing.tri", "M %s/missing.tri" % md), ("unknown-ext", "M %s/Head1.cond" % H1),
         ("oct_seam.tri", "M " + seam), ("oct_unused_vertex.tri", "M " + unused), ("oct_repeated_triangle.tri", "M " + reptri),
         ("oct_first_point_twice.tri", "M " + dupun), ("tetra.tri", "M " + tetra)]
    ld = os.path.join(gd, "linop"); os.makedirs(ld, exist_ok=True)
    def wl(name, b):
        p = os.path.join(ld, name); open(p, "wb").write(b); return p
    sparse_bin = struct.pack("<II", 5, 5) + b"".join(struct.pack("<IId", i, j, v) for i, j, v in [(0, 0, 1.5), (1, 1, 2.5), (4, 4, -1.0)])
    L = [("sparse-4x4-a.txt", "L " + wl("spa.txt", b"4 4\n0 3 1\n1 1 2\n")), ("sparse-4x4-b.txt", "L " + wl("spb.txt", b"4 4\n2 2 5\n1 1 7\n")),
         ("sparse-3x5.txt", "L " + wl("spc.txt", b"3 5\n0 0 1\n")), ("sparse-5x5.bin", "L " + wl("spd.bin", sparse_bin)),
         ("matrix-2x3.txt", "L " + wl("m23.txt", b"1 2 3\n4 5 6\n")), ("matrix-3x3.txt", "L " + wl("m33.txt", b"1 2 3\n4 5 6\n7 8 10\n")),
         ("sym-3.txt", "L " + wl("s3.txt", b"1 2 3\n4 5\n6\n")), ("vector-4.txt", "L " + wl("v4.txt", b"1\n2\n3\n4\n")),
         ("vector-3.bin", "L " + wl("v3.bin", struct.pack("<I", 3) + struct.pack("<ddd", 1.0, 2.0, 3.0))),
         ("matrix-2x2.bin", "L " + wl("m22.bin", struct.pack("<II", 2, 2) + struct.pack("<dddd", 1.0, 2.0, 3.0, 4.0))),
         ("missing", "L %s/nothere.txt" % ld), ("garbage.txt", "L " + wl("g.txt", b"hello world, this is not a matrix file at all\n"))]
    # several head models in the same coordinate frame (machine 8) and the source mesh of SurfSourceMat
    nst = models.nested([0.5, 0.8, 1.0], [0.33, 0.0125, 0.33], level=1); gn, cn = models.write_model(nst, os.path.join(gd, "nst"), stem="nst")
    spl = models.split_hemispheres(0.9, [1.0], (0.4, 0.2), [0.33], level=1); gs, cs = models.write_model(spl, os.path.join(gd, "spl"), stem="spl")
    X = [("Head1", "X %s/Head1.geom %s/Head1.cond" % (H1, H1)), ("Head2", "X %s/Head2/Head2.geom %s/Head2/Head2.cond" % (D, D)),
         ("nested3", "X %s %s" % (gn, cn)), ("immersed4", "X %s %s" % (g, c)), ("split", "X %s %s" % (gs, cs))]
    Y = [("ico0.tri", "Y %s/ico0.tri" % md)]
    with open(os.path.join(wd, "catalog.txt"), "w") as fh:
        for _, l in G + S + M + L + X + Y: fh.write(l + "\n")
    return dict(G=G, S=S, M=M, L=L, X=X)

def object_worlds(ck, hb, wd, cat):
    """one fresh process per catalog entry: what the operation does to a fresh object"""
    rn = Renum()
    jobs = [("G", i) for i in range(len(cat["G"]))] + [("S0", i) for i in range(len(cat["S"]))] + [("S1", i) for i in range(len(cat["S"]))] + [("M", i) for i in range(len(cat["M"]))] + [("L%d" % k, i) for k in range(4) for i in range(len(cat["L"]))] + [("MF", i) for i in range(len(cat["M"]))] + [("CF", k) for k in range(N_COMPUTE)] + [("XF", g * 4 + t) for g in range(len(cat["X"])) for t in range(4)]
    def run(j):
        t, i = j; d = os.path.join(wd, "f%s_%d" % (t, i)); os.makedirs(d, exist_ok=True)
        shutil.copy(os.path.join(wd, "catalog.txt"), d)
        line = {"G": "c17 20 %d", "S0": "c17 30 0 %d", "S1": "c17 30 1 %d", "M": "c17 40 %d", "L0": "c17 50 0 %d", "L1": "c17 50 1 %d", "L2": "c17 50 2 %d", "L3": "c17 50 3 %d", "MF": "c17 41 %d", "CF": "c17 6 1 %d", "XF": "c17 81 %d"}[t] % i
        if t == "XF": line = "c17 81 %d %d" % (i // 4, i % 4)
        return ints(hrun(hb, [line], d, timeout=600)[0])
    with ThreadPoolExecutor(8) as ex:
        res = dict(zip(jobs, ex.map(run, jobs)))
    Gw = []; Gfresh = []
    for i in range(len(cat["G"])):
        o = res[("G", i)]
        if o is None: Gw.append(None); Gfresh.append(None); continue
        p = [0]
        def tk():
            v = o[p[0]]; p[0] += 1; return v
        def tl(): n = tk(); return [rn(tk()) for _ in range(n)]
        st = tk(); vs = tl(); nm = tk(); nd = tk(); fin = tk(); mk = tk(); inv = tl(); ni = tl(); pa = tk(); ti = tk(); cb = tk(); pr = tk(); ne = tk(); hm = tk()
        Gw.append([st, len(vs)] + vs + [nm, nd, fin, mk, len(inv)] + inv + [len(ni)] + ni + [pa, ti, cb, pr, ne, hm])
    Sw = {0: [], 1: []}
    for ge in (0, 1):
        for i in range(len(cat["S"])):
            o = res[("S%d" % ge, i)]
            ob = split_lenpref(o)[0] if o else None
            if ob is None: Sw[ge].append(None); continue
            if ob[0] == 0:
                nb, npos, nori = ob[1], ob[2], ob[3]; nn = ob[8]; names = [rn(-h) for h in ob[9:9 + nn]]; idx = ob[9 + nn:]
                labeled = 1 if nn > 0 else 0
                per_line = [names[k] for k in idx] if labeled else []
                Sw[ge].append([0, labeled, len(per_line)] + per_line + [npos, 7 if nori > 0 else 3])
            elif len(ob) > 1 and ob[1] > 0:      # exception after the positions were assigned: the four-column file without a geometry
                Sw[ge].append([0, 1, 0, ob[1], 4])
            else:
                Sw[ge].append([ob[0], 0, 0, 0, 0])
    Mw = []
    for i in range(len(cat["M"])):
        o = res[("M", i)]
        if o is None: Mw.append(None); continue
        st, nv = o[0], o[1]; vs = [rn(h) for h in o[2:2 + nv]]; nt = o[2 + nv]; ts = o[3 + nv:3 + nv + 3 * nt]; so = o[3 + nv + 3 * nt]; sf = o[4 + nv + 3 * nt]; so2 = o[5 + nv + 3 * nt]; sf2 = o[6 + nv + 3 * nt]
        Mw.append([st, nv] + vs + [nt] + ts + [so, sf, so2, sf2])
    Lw = {}; LFAIL.clear()
    for k in range(4):
        Lw[k] = []
        for i in range(len(cat["L"])):
            o = res[("L%d" % k, i)]
            ob = split_lenpref(o)[0] if o else None
            if ob is None: Lw[k].append(None)
            elif ob[0] == -77: Lw[k].append([ob[1], 0, 0, 0]); LFAIL[(k, i)] = ob[2:]        # state a failed load leaves in a FRESH object
            else: Lw[k].append([0, ob[1], ob[2], ob[3]] + ob[4:])
    MF = [res[("MF", i)] for i in range(len(cat["M"]))]
    CF = [res[("CF", k)] for k in range(N_COMPUTE)]
    XF = [res[("XF", k)] for k in range(4 * len(cat["X"]))]
    return Gw, Sw, Mw, Lw, rn, res, MF, CF, XF

def check_objects(ck, hb, quick, replay):
    wd = os.path.join(ck.workdir, "obj"); os.makedirs(wd, exist_ok=True)
    cat = build_catalog(ck, wd)
    Gw, Sw, Mw, Lw, rn, raw, MF, CF, XF = object_worlds(ck, hb, wd, cat)
    stats = dict(multi=dict(seqs=0, ops=0, op={}), compute=dict(seqs=0, ops=0, op={}), linop=dict(seqs=0, ops=0, status={}), geometry=dict(seqs=0, ops=0, op={}, status={}), sensors=dict(seqs=0, ops=0, status={}), mesh=dict(seqs=0, ops=0, op={}, status={}, explained_by_known_finding=0))
    bad = [l for (l, _), w in zip(cat["G"], Gw) if w is None] + [l for (l, _), w in zip(cat["M"], Mw) if w is None] + [l for ge in (0, 1) for (l, _), w in zip(cat["S"], Sw[ge]) if w is None] + [l for k in range(4) for (l, _), w in zip(cat["L"], Lw[k]) if w is None]
    for l in bad:
        ck.violation("objects: crash while describing %s" % l, "a single load of %s in a fresh process crashed the harness" % l, dict(kind="crash", entry=l), found_input=False)
    if bad: return stats
    rng = ck.rng
    nG, nS, nM = len(cat["G"]), len(cat["S"]), len(cat["M"])
    small = [i for i, w in enumerate(Gw) if w[1] <= 200]          # HeadMat only where it is cheap
    SAMEGEO = {0: 14, 14: 0, 2: 15, 15: 2}                        # entries sharing the geometry file, other conductivities
    # ---- histories
    gseqs = [[(0, 0), (0, 0)], [(0, 0), (0, 0), (1, 0)], [(0, 2), (0, 3)], [(0, 0), (1, 0), (1, 0), (0, 4), (0, 0), (1, 0)],     # witnesses first
             [(0, 0), (3, 0)], [(0, 0), (1, 0), (3, 0), (3, 0), (1, 0)], [(0, 2), (3, 0)], [(0, 1), (3, 0)],
             [(0, 0), (1, 0), (5, 14), (1, 0), (5, 0), (1, 0)], [(0, 2), (5, 15), (1, 0)], [(0, 15), (5, 2), (1, 0)],      # conductivities changed in place
             [(0, 9), (4, 0), (0, 0), (1, 0)], [(4, 0), (0, 2)], [(0, 0), (4, 0), (0, 14), (1, 0)],                          # programmatic construction, then load
             [(0, 16), (0, 0)], [(0, 7), (0, 0), (0, 16), (0, 7), (0, 0), (1, 0)]]                                          # failed .geom loads, then a valid one
    sseqs = [(0, [0, 0]), (0, [0, 2]), (1, [9, 9]), (0, [0, 11]), (0, [4, 12, 13]), (1, [9, 12]), (0, [11, 1, 12, 14])]
    mseqs = [[(0, 0), (0, 1)], [(0, 0), (1, 0), (0, 0)], [(0, 0), (1, 0), (1, 0)], [(0, 0), (1, 0), (2, 0)], [(0, 3), (1, 0), (2, 0), (1, 0)], [(0, 1), (2, 0), (1, 0), (2, 0)],
             [(0, 13), (0, 9)], [(0, 9), (0, 9)], [(0, 10), (0, 9), (0, 11), (0, 12)]]       # tetra then seam; seam twice; degenerate inputs in a row
    nL = len(cat["L"])
    lseqs = [(3, [0, 1]), (3, [3, 2]), (1, [4, 5]), (0, [7, 9]), (1, [5, 8]), (0, [7, 8, 9, 7]), (2, [6, 9])]
    if replay:
        lseqs = [(r["kind"], r["ops"]) for r in replay if r["machine"] == "linop"]
        gseqs = [[tuple(o) for o in r["ops"]] for r in replay if r["machine"] == "geometry"]
        sseqs = [(r["geom"], r["ops"]) for r in replay if r["machine"] == "sensors"]
        mseqs = [[tuple(o) for o in r["ops"]] for r in replay if r["machine"] == "mesh"]
    else:
        L = 8 if quick else 20
        for _ in range(24 if quick else 200):
            n = rng.randint(2, L); h = []
            for _ in range(n):
                if h and rng.random() < 0.2 and any(o == 0 and i in small for o, i in h[-1:]): h.append((1, 0))
                elif h and rng.random() < 0.1: h.append((2, 0))
                elif h and rng.random() < 0.15: h.append((3, 0))
                elif h and h[-1][0] in (0, 5) and h[-1][1] in SAMEGEO and rng.random() < 0.3: h.append((5, SAMEGEO[h[-1][1]]))
                elif rng.random() < 0.08: h.append((4, 0)); h.append((0, rng.choice(small)))
                else: h.append((0, rng.choice(small) if rng.random() < 0.7 else rng.randrange(nG)))
            gseqs.append(h)
        for _ in range(40 if quick else 400):
            k = rng.choice([3, 3, 3, 0, 1, 2])
            good = [i for i in range(nL) if Lw[k][i][0] == 0]
            lseqs.append((k, [(rng.choice(good) if good and rng.random() < 0.75 else rng.randrange(nL)) for _ in range(rng.randint(2, L))]))
        for _ in range(40 if quick else 400):
            ge = 1 if rng.random() < 0.25 else 0
            sseqs.append((ge, [rng.randrange(nS) for _ in range(rng.randint(2, L))]))
        for _ in range(40 if quick else 400):
            mseqs.append([((1, 0) if rng.random() < 0.15 else (2, 0) if rng.random() < 0.12 else (0, rng.randrange(nM))) for _ in range(rng.randint(2, L))])
    def flat(l): return [x for w in l for x in w]
    gcases = ["c17 " + " ".join(map(str, [2, 1, nG] + flat(Gw) + [len(h)] + flat(h))) for h in gseqs]
    scases = ["c17 " + " ".join(map(str, [3, 1, ge, nS] + flat(Sw[ge]) + [len(h)] + h)) for ge, h in sseqs]
    mcases = ["c17 " + " ".join(map(str, [4, 1, nM] + flat(Mw) + [len(h)] + flat(h))) for h in mseqs]
    icases = ["c17 " + " ".join(map(str, [4, 3, nM] + flat(Mw) + [len(h)] + flat(h))) for h in mseqs]      # fresh private geometry at every load
    lcases = ["c17 " + " ".join(map(str, [5, 1, 1 if k == 3 else 0, nL] + flat(Lw[k]) + [len(h)] + h)) for k, h in lseqs]
    lmo = core.run_model(lcases)
    def lone(j):
        k, h = lseqs[j]
        d = os.path.join(wd, "l%d" % j); os.makedirs(d, exist_ok=True); shutil.copy(os.path.join(wd, "catalog.txt"), d)
        r = hrun_p(hb, "c17 " + " ".join(map(str, [5, k, len(h)] + h)), d, "linop", dict(machine="linop", kind=k, ops=list(h))); shutil.rmtree(d, ignore_errors=True); return r
    with ThreadPoolExecutor(8) as ex:
        lho = list(ex.map(lone, range(len(lseqs))))
    for (k, h), m, o in zip(lseqs, lmo, lho):
        stats["linop"]["seqs"] += 1; stats["linop"]["ops"] += len(h)
        names = "; ".join("%s::load %s" % (KIND[k], cat["L"][i][0]) for i in h)
        rp = dict(kind="object-history", machine="linop", cases=[dict(machine="linop", kind=k, ops=list(h))], history=names, replay_cmd="./check C17 --replay <this file>")
        if ints(o) is None:
            ck.violation("linop: crash in history " + names, "the harness crashed (%s): %s" % (o, names), rp); continue
        mt = split_lenpref([int(t) for t in m.split()]); hraw = split_lenpref(ints(o))
        # law for a load that throws: the object is left either unchanged or as a failed load leaves a fresh object
        prev = None; lawbad = None
        EMPTY = {0: [0, 0, 1, 0, 1], 1: [0, 0, 1, 0, 1], 2: [0, 0, 1, 0, 1], 3: [0, 0, 0]}[k]
        for q, x in enumerate(hraw):
            if x and x[0] == -77:
                left = x[2:]
                before_ = prev if prev is not None else EMPTY
                cleared = (k == 3 and left[2:] == [0] and left[:2] == before_[:2])      # SparseMatrix::load clears the entries first (dimensions kept)
                if left != before_ and left != LFAIL.get((k, h[q])) and not cleared and lawbad is None: lawbad = (q, left, prev if prev is not None else EMPTY, LFAIL.get((k, h[q])))
                prev = left
            else: prev = x[1:]
        ht = [([x[1]] if x and x[0] == -77 else x) for x in hraw]
        if lawbad:
            q, left, before, ff = lawbad
            ck.violation("linop: a failed load leaves the object neither unchanged nor in the fresh-failed state (%s)" % (names if len(h) <= 3 else "%d loads" % len(h)),
                         "load %d of the history [%s] throws (status %s) and leaves the %s object as (nlin,ncol,#entries,...)=%s; before the load it was %s; a fresh object after the same failed load is %s" % (q, names, ht[q][0], KIND[k], left[:8], before[:8], (ff or [])[:8]), rp)
            continue
        for q in range(min(len(ht), len(h))): stats["linop"]["status"][str(ht[q][0])] = stats["linop"]["status"].get(str(ht[q][0]), 0) + 1
        diff = [q for q in range(len(h)) if q >= len(ht) or q >= len(mt) or ht[q] != mt[q]]
        if diff:
            q = diff[0]; a = ht[q] if q < len(ht) else None; b = mt[q] if q < len(mt) else None
            ck.violation("linop: %s differs after history (%s)" % ("number of stored entries" if a and b and len(a) > 3 and len(b) > 3 and a[3] != b[3] else "loaded object", names if len(h) <= 3 else "%d loads" % len(h)),
                         "load %d of the history [%s] into one %s object gives (status,nlin,ncol,#entries,...)=%s, the same load into a fresh object gives %s" % (q, names, KIND[k], (a or [])[:12], (b or [])[:12]), rp)
    mo = core.run_model(gcases + scases + mcases + icases)
    mg, ms, mm, mi = mo[:len(gcases)], mo[len(gcases):len(gcases) + len(scases)], mo[len(gcases) + len(scases):len(gcases) + len(scases) + len(mcases)], mo[len(gcases) + len(scases) + len(mcases):]
    hl = ["c17 " + " ".join(map(str, [2, len(h)] + flat(h))) for h in gseqs] + ["c17 " + " ".join(map(str, [3, ge, len(h)] + h)) for ge, h in sseqs] + ["c17 " + " ".join(map(str, [4, len(h)] + flat(h))) for h in mseqs]
    def one(k):
        d = os.path.join(wd, "q%d" % k); os.makedirs(d, exist_ok=True); shutil.copy(os.path.join(wd, "catalog.txt"), d)
        if k < len(gseqs): mc = ("geometry", dict(machine="geometry", ops=[list(x) for x in gseqs[k]]))
        elif k < len(gseqs) + len(sseqs): mc = ("sensors", dict(machine="sensors", geom=sseqs[k - len(gseqs)][0], ops=list(sseqs[k - len(gseqs)][1])))
        else: mc = ("mesh", dict(machine="mesh", ops=[list(x) for x in mseqs[k - len(gseqs) - len(sseqs)]]))
        r = hrun_p(hb, hl[k], d, mc[0], mc[1], timeout=900); shutil.rmtree(d, ignore_errors=True); return r
    with ThreadPoolExecutor(8) as ex:
        ho = list(ex.map(one, range(len(hl))))
    hg, hs, hm = ho[:len(gcases)], ho[len(gcases):len(gcases) + len(scases)], ho[len(gcases) + len(scases):]
    def canon_names(obs):       # sensor name hashes -> renumbered ids
        if obs and obs[0] == 0 and len(obs) > 8:
            nn = obs[8]; return obs[:9] + [rn(-h) for h in obs[9:9 + nn]] + obs[9 + nn:]
        return obs
    # ---- computations on shared objects
    if any(c is None or len(c) < 3 for c in CF):
        ck.violation("compute: crash while measuring fresh results", "a single computation on freshly built Head1 operands crashed the harness", dict(kind="crash"), found_input=False)
    else:
        init = CF[0][1:1 + CF[0][0]]; fresh = [c[-2] for c in CF]
        cseqs = [[1, 1], [6, 6], [1, 3], [6, 7, 8, 0], [3, 1, 2, 4], [8, 6, 5, 9]]
        if replay: cseqs = [r["ops"] for r in replay if r["machine"] == "compute"]
        else:
            for _ in range(14 if quick else 120): cseqs.append([rng.randrange(N_COMPUTE) for _ in range(rng.randint(2, 8 if quick else 20))])
        cmo = core.run_model(["c17 " + " ".join(map(str, [6, len(init)] + init + [len(fresh)] + fresh + [len(h)] + h)) for h in cseqs])
        def cone(j):
            d = os.path.join(wd, "c%d" % j); os.makedirs(d, exist_ok=True); shutil.copy(os.path.join(wd, "catalog.txt"), d)
            r = hrun_p(hb, "c17 " + " ".join(map(str, [6, len(cseqs[j])] + cseqs[j])), d, "compute", dict(machine="compute", ops=list(cseqs[j])), timeout=900); shutil.rmtree(d, ignore_errors=True); return r
        with ThreadPoolExecutor(8) as ex:
            cho = list(ex.map(cone, range(len(cseqs))))
        for h, m, o in zip(cseqs, cmo, cho):
            stats["compute"]["seqs"] += 1; stats["compute"]["ops"] += len(h)
            for k in h: stats["compute"]["op"][COMPUTE[k]] = stats["compute"]["op"].get(COMPUTE[k], 0) + 1
            names = "; ".join(COMPUTE[k] for k in h)
            rp = dict(kind="object-history", machine="compute", cases=[dict(machine="compute", ops=list(h))], history=names, replay_cmd="./check C17 --replay <this file>")
            oi = ints(o)
            if oi is None:
                ck.violation("compute: crash in history " + names, "the harness crashed (%s): %s" % (o, names), rp); continue
            hv = oi[1 + oi[0]:]; mv = [int(t) for t in m.split()]
            if oi[1:1 + oi[0]] != init:
                ck.violation("compute: operands built in another process differ", "the shared operands (Head1) are not bitwise reproducible across processes: %s vs %s" % (oi[1:1 + oi[0]], init), rp, found_input=False); continue
            bad = [q for q in range(len(h)) if hv[2 * q:2 * q + 2] != mv[2 * q:2 * q + 2]]
            if bad:
                q = bad[0]; mask = hv[2 * q + 1]
                changed = [OPERANDS[i] for i in range(len(OPERANDS)) if mask >> i & 1]
                ck.violation("compute: %s after [%s] %s" % (COMPUTE[h[q]], "; ".join(COMPUTE[k] for k in h[:q]) if q <= 3 else "%d computations" % q, "modifies a const operand" if changed and (q == 0 or not hv[2 * q - 1]) else "gives another result than on fresh inputs"),
                             "computation %d (%s) of the history [%s] on shared Head1 objects: result fingerprint %d, on freshly built inputs %d; const operands whose bits changed so far: %s"
                             % (q, COMPUTE[h[q]], names, hv[2 * q], mv[2 * q], changed or "none"), rp)
    # ---- point-locating assemblies interleaved on several geometries alive in one process
    XOPS = ["DipSourceMat", "DipSource2InternalPotMat", "Surf2VolMat", "SurfSourceMat"]; nX = len(cat["X"])
    if any(x is None or len(x) != 4 for x in XF):
        ck.violation("multi: crash while measuring fresh results", "an assembly on the only geometry of a fresh process crashed the harness: %s" % [k for k, x in enumerate(XF) if x is None or len(x) != 4], dict(kind="crash"), found_input=False)
    else:
        xinit = [XF[4 * g][1] for g in range(nX)] + [XF[0][2], XF[0][3]]
        xseqs = [[(0, 0), (1, 0)], [(1, 0), (0, 0)], [(0, 2), (1, 1)], [(2, 0), (4, 0), (3, 0), (0, 3), (1, 3)], [(4, 1), (3, 2), (2, 3), (0, 0)]]
        if replay: xseqs = [[tuple(o) for o in r["ops"]] for r in replay if r["machine"] == "multi"]
        else:
            for _ in range(14 if quick else 150): xseqs.append([(rng.randrange(nX), rng.choice([0, 0, 1, 2, 3])) for _ in range(rng.randint(2, 8 if quick else 20))])
        def xcase(h):
            w = [8, len(xinit)] + xinit + [4 * nX]
            for g in range(nX):
                for t in range(4): w += [2, g, nX if t in (0, 1) else nX + 1, 0, XF[4 * g + t][0]] if t != 1 else [3, g, nX, nX + 1, 0, XF[4 * g + t][0]]
            return "c17 " + " ".join(map(str, w + [len(h)] + [4 * g + t for g, t in h]))
        xmo = core.run_model([xcase(h) for h in xseqs])
        def xone(j):
            d = os.path.join(wd, "x%d" % j); os.makedirs(d, exist_ok=True); shutil.copy(os.path.join(wd, "catalog.txt"), d)
            r = hrun_p(hb, "c17 " + " ".join(map(str, [8, nX, len(xseqs[j])] + [v for o in xseqs[j] for v in o])), d, "multi", dict(machine="multi", ops=[list(o) for o in xseqs[j]]), timeout=900); shutil.rmtree(d, ignore_errors=True); return r
        with ThreadPoolExecutor(8) as ex:
            xho = list(ex.map(xone, range(len(xseqs))))
        for h, m, o in zip(xseqs, xmo, xho):
            stats["multi"]["seqs"] += 1; stats["multi"]["ops"] += len(h)
            for g, t in h: stats["multi"]["op"][XOPS[t]] = stats["multi"]["op"].get(XOPS[t], 0) + 1
            names = "; ".join("%s(%s)" % (XOPS[t], cat["X"][g][0]) for g, t in h)
            rp = dict(kind="object-history", machine="multi", cases=[dict(machine="multi", ops=[list(x) for x in h])], history=names, replay_cmd="./check C17 --replay <this file>")
            oi = ints(o)
            if oi is None:
                ck.violation("multi: crash in history " + names, "the harness crashed (%s) running [%s] with all geometries alive in one process; each assembly runs in a fresh process" % (o, names), rp); continue
            hv = oi[1 + oi[0]:]; mv = [int(t) for t in m.split()]
            if oi[1:1 + oi[0]] != xinit:
                ck.violation("multi: geometries loaded together differ from the same geometries loaded alone", "operand fingerprints %s vs %s" % (oi[1:1 + oi[0]], xinit), rp); continue
            bad = [q for q in range(len(h)) if hv[2 * q:2 * q + 2] != mv[2 * q:2 * q + 2]]
            if bad:
                q = bad[0]
                ck.violation("multi: %s(%s) after [%s] differs from the same assembly in a fresh process" % (XOPS[h[q][1]], cat["X"][h[q][0]][0], "; ".join("%s(%s)" % (XOPS[t], cat["X"][g][0]) for g, t in h[:q]) if q <= 3 else "%d assemblies" % q),
                             "assembly %d of the history [%s] (all geometries alive in one process): (result fingerprint or -status, mask of changed operands) = %s; alone in a fresh process: %s"
                             % (q, names, hv[2 * q:2 * q + 2], mv[2 * q:2 * q + 2]), rp)
    GOBS = ["status", "#vertices", "#meshes", "#domains", "nb_parameters", "#communicating_mesh_pairs", "#isolated_parts", "#invalid_vertices", "nb_current_barrier_triangles", "nested"]
    # ---- geometry
    for h, m, o in zip(gseqs, mg, hg):
        stats["geometry"]["seqs"] += 1; stats["geometry"]["ops"] += len(h)
        names = "; ".join(("load " + cat["G"][i][0]) if op == 0 else (["", "HeadMat", "DipSourceMat", "finalize()", "programmatic construction"][op] if op < 5 else "set_conductivity(" + cat["G"][i][0] + ")+finalize()") for op, i in h)
        rp = dict(kind="object-history", machine="geometry", cases=[dict(machine="geometry", ops=[list(x) for x in h])], history=names, replay_cmd="./check C17 --replay <this file>")
        mt = split_lenpref([int(t) for t in m.split()]); ht = split_lenpref(ints(o))
        if ints(o) is None:
            ck.violation("geometry: crash in history " + names, "the harness crashed (%s) while running the history in one process: %s; every single operation runs in a fresh process" % (o, names), rp); continue
        for q, (op, i) in enumerate(h):
            on = ["load", "HeadMat", "DipSourceMat", "finalize", "programmatic", "set_conductivity"][op]; stats["geometry"]["op"][on] = stats["geometry"]["op"].get(on, 0) + 1
            if q < len(ht): stats["geometry"]["status"][str(ht[q][0]) if op in (0, 3, 5) else "assembled"] = stats["geometry"]["status"].get(str(ht[q][0]) if op in (0, 3, 5) else "assembled", 0) + 1
        diff = [q for q in range(len(h)) if q >= len(ht) or q >= len(mt) or ht[q] != mt[q]]
        if diff:
            q = diff[0]; a = ht[q] if q < len(ht) else None; b = mt[q] if q < len(mt) else None
            fields = [GOBS[k] + ": %s vs %s" % (a[k], b[k]) for k in range(min(len(a or []), len(b or []), 10)) if a[k] != b[k]]
            ck.violation("geometry: %s differs after history (%s)" % (fields[0].split(":")[0] if fields else "observation", names if len(h) <= 3 else "%d operations" % len(h)),
                         "operation %d of the history [%s] on one Geometry object gives %s, the same operation on a fresh object gives %s (%s)" % (q, names, a, b, ", ".join(fields)), rp)
    # ---- reader registry (coq/Geom/ReaderRegistry.v): statuses of the .geom loads of every history, one clone per load
    AFTER_OPEN = {"broken-mesh-ref", "bad-header.geom"}
    rlines = []; rexp = []
    for h, o in zip(gseqs, hg):
        ht = split_lenpref(ints(o)) if ints(o) else []
        ev = [(q, i) for q, (op, i) in enumerate(h) if op == 0 and cat["G"][i][1].startswith("G ") and cat["G"][i][1].split()[1].endswith(".geom") and q < len(ht)]
        w = [7, 1, 1, len(ev)]
        for q, i in ev: w += [0, 0 if Gw[i][0] == 0 else 2 if cat["G"][i][0] in AFTER_OPEN else 1, Gw[i][0]]
        rlines.append("c17 " + " ".join(map(str, w))); rexp.append([ht[q][0] for q, i in ev])
    rmo = core.run_model(rlines) if rlines else []
    stats["registry"] = dict(histories=len(rlines), loads=sum(len(x) for x in rexp))
    for h, m, e in zip(gseqs, rmo, rexp):
        if [int(t) for t in m.split()] != e:
            ck.violation("registry: status of a .geom load depends on earlier loads", "statuses of the .geom loads of one process %s differ from those of fresh readers %s (a reader object is reused across loads?)" % (e, m),
                         dict(kind="object-history", machine="geometry", cases=[dict(machine="geometry", ops=[list(x) for x in h])], replay_cmd="./check C17 --replay <this file>"))
    # ---- sensors
    for (ge, h), m, o in zip(sseqs, ms, hs):
        stats["sensors"]["seqs"] += 1; stats["sensors"]["ops"] += len(h)
        names = "; ".join("load " + cat["S"][i][0] for i in h) + (" [Sensors(geometry)]" if ge else "")
        rp = dict(kind="object-history", machine="sensors", cases=[dict(machine="sensors", geom=ge, ops=list(h))], history=names, replay_cmd="./check C17 --replay <this file>")
        if ints(o) is None:
            ck.violation("sensors: crash in history " + names, "the harness crashed (%s): %s" % (o, names), rp); continue
        mt = split_lenpref([int(t) for t in m.split()]); ht = [canon_names(x) for x in split_lenpref(ints(o))]
        for q in range(min(len(ht), len(h))): stats["sensors"]["status"][str(ht[q][0])] = stats["sensors"]["status"].get(str(ht[q][0]), 0) + 1
        diff = [q for q in range(len(h)) if q >= len(ht) or q >= len(mt) or ht[q] != mt[q]]
        if diff:
            q = diff[0]; a = ht[q] if q < len(ht) else None; b = mt[q] if q < len(mt) else None
            ck.violation("sensors: observation differs after history (%s)" % (names if len(h) <= 3 else "%d loads" % len(h)),
                         "load %d of the history [%s] on one Sensors object gives (status,m_nb,#positions,#orientations,#weights,#radii,#triangle lists,hasNames,#names,...)=%s, the same load on a fresh object gives %s" % (q, names, (a or [])[:9], (b or [])[:9]), rp)
    # ---- mesh
    WIT = [(0, 0), (0, 1)]
    for h, m, mid, o in zip(mseqs, mm, mi, hm):
        stats["mesh"]["seqs"] += 1; stats["mesh"]["ops"] += len(h)
        names = "; ".join(("load " + cat["M"][i][0]) if op == 0 else "SurfSourceMat(Head1,mesh)" if op == 1 else "SurfSourceMat(second head,mesh)" for op, i in h)
        rp = dict(kind="object-history", machine="mesh", cases=[dict(machine="mesh", ops=[list(x) for x in h])], history=names, replay_cmd="./check C17 --replay <this file>")
        if ints(o) is None:
            ck.violation("mesh: crash in history " + names, "the harness crashed (%s): %s" % (o, names), rp); continue
        mt = split_lenpref([int(t) for t in m.split()]); it = split_lenpref([int(t) for t in mid.split()]); hfull = split_lenpref(ints(o))
        ht = [x[:-2] for x in hfull]
        # the property's own relation against a MEASURED fresh-object load: status, sizes, flags, triangles relative to the mesh's
        # vertex list, number of distinct vertices and the text written by Mesh::save
        def loc2(x): return x[0:1] + x[2:7] + x[7 + 3 * x[3]:]
        mq = [q for q in range(min(len(h), len(hfull))) if h[q][0] == 0 and MF[h[q][1]] is not None and loc2(hfull[q]) != loc2(MF[h[q][1]])]
        if mq:
            q = mq[0]; a = hfull[q]; b = MF[h[q][1]]
            ck.violation("mesh: loaded mesh differs from a fresh-object load after history (%s)" % (names if len(h) <= 3 else "%d operations" % len(h)),
                         "operation %d of [%s] on one stand-alone Mesh gives (status,#vertex entries,#triangles,flags..)=%s distinct vertices=%d Mesh::save fingerprint=%d; the same file loaded into a fresh Mesh gives %s distinct vertices=%d Mesh::save fingerprint=%d"
                         % (q, names, a[0:1] + a[2:7], a[-2], a[-1], b[0:1] + b[2:7], b[-2], b[-1]), rp)
            continue
        for q, (op, i) in enumerate(h):
            on = ["load", "SurfSourceMat", "SurfSourceMat(second head)"][op]; stats["mesh"]["op"][on] = stats["mesh"]["op"].get(on, 0) + 1
            if q < len(ht) and op == 0: stats["mesh"]["status"][str(ht[q][0])] = stats["mesh"]["status"].get(str(ht[q][0]), 0) + 1
        # everything but the private geometry (status, #mesh vertices, #triangles, flags) must be that of a fresh Mesh
        def loc(o): return o[0:1] + o[2:7] + o[7 + 3 * o[3]:]          # without the private geometry: size and global triangle indices
        fq = [q for q in range(min(len(h), len(ht), len(it))) if h[q][0] == 0 and loc(ht[q]) != loc(it[q])]
        if fq:
            q = fq[0]
            ck.violation("mesh: status/sizes/flags/local triangles differ after history (%s)" % (names if len(h) <= 3 else "%d operations" % len(h)),
                         "operation %d of [%s] on one Mesh gives (status,#geometry vertices,#vertices,#triangles,outermost,current_barrier,isolated)=%s, a fresh Mesh gives %s" % (q, names, ht[q][:7], it[q][:7]), rp)
            continue
        aq = [q for q in range(min(len(h), len(ht), len(mt))) if h[q][0] != 0 and ht[q][0] != mt[q][0]]
        if aq:
            q = aq[0]
            ck.violation("mesh: outcome of %s depends on earlier assemblies on the same Mesh object (%s)" % ("SurfSourceMat(Head1)" if h[q][0] == 1 else "SurfSourceMat(second head)", names if len(h) <= 4 else "%d operations" % len(h)),
                         "operation %d of [%s]: outcome (0 = exception, else fingerprint of the matrix) %d on the used Mesh object, %d on a freshly loaded one" % (q, names, ht[q][0], mt[q][0]), rp)
            continue
        diff = [q for q in range(len(h)) if q >= len(ht) or q >= len(mt) or ht[q] != mt[q]]
        if diff:
            q = diff[0]
            ck.violation("mesh: model and implementation differ", "operation %d of [%s]: Mesh observation %s, model (coq/Geom/MeshState.v, m_repaired) %s" % (q, names, (ht[q] if q < len(ht) else None)[:16], (mt[q] if q < len(mt) else None)[:16]), rp, found_input=False)
            continue
        # the property's own relation: the same load on a fresh Mesh (model with a fresh private geometry = measured descriptor)
        dq = [q for q in range(len(h)) if h[q][0] == 0 and ht[q] != it[q]]
        if dq:
            q = dq[0]
            if h == WIT:
                ck.violation("mesh: load Head1.tri ; load cortex.1.tri - Mesh::triangle indices offset by the vertices of the previous file",
                             "load cortex.1.tri after Head1.tri into the same stand-alone Mesh: geometry().vertices().size()=%d and first triangle %s, a fresh Mesh gives %d and %s (the private geometry is never cleared)" % (ht[q][1], ht[q][7:10], it[q][1], it[q][7:10]), rp)
            else:
                stats["mesh"]["explained_by_known_finding"] += 1
    def dsc(m, c):
        if m == "compute": return "; ".join(COMPUTE[k] for k in c["ops"])
        if m == "multi": return "; ".join("%s(%s)" % (["DipSourceMat", "DipSource2InternalPotMat", "Surf2VolMat", "SurfSourceMat"][t], cat["X"][g][0]) for g, t in c["ops"])
        if m == "geometry": return "; ".join(("load " + cat["G"][i][0]) if op == 0 else (["", "HeadMat", "DipSourceMat", "finalize()", "programmatic construction"][op] if op < 5 else "set_conductivity(" + cat["G"][i][0] + ")+finalize()") for op, i in c["ops"])
        if m == "sensors": return "; ".join("load " + cat["S"][i][0] for i in c["ops"])
        if m == "mesh": return "; ".join(("load " + cat["M"][i][0]) if op == 0 else "SurfSourceMat(Head1,mesh)" if op == 1 else "SurfSourceMat(second head,mesh)" for op, i in c["ops"])
        return "; ".join("%s::load %s" % (KIND[c["kind"]], cat["L"][i][0]) for i in c["ops"])
    report_perturb(ck, dsc)
    stats["catalog"] = dict(linop=[l for l, _ in cat["L"]], geometry=[l for l, _ in cat["G"]], sensors=[l for l, _ in cat["S"]], mesh=[l for l, _ in cat["M"]])
    return stats

def main(replay=None):
    if replay:          # the generated part of the catalog (two random head models) depends on the seed: replay under the stored one
        sd = json.load(open(replay)).get("seed")
        if sd is not None: os.environ["VERIF_SEED"] = str(sd)
    ck = core.Check(PROP, "proof")
    quick = ck.tier != "thorough"
    import glob
    for f in glob.glob(os.path.join(core.VERIF, "evidence", "replay", "C17-*.json")):
        if replay is None or os.path.abspath(f) != os.path.abspath(replay): os.remove(f)
    bdir, hb = ck.prepare("Props/Properties_C17.v", "h_c17.cpp")
    if hb is None:
        return ck.finish()
    rcases = json.load(open(replay)).get("cases", []) if replay else None
    rmach = json.load(open(replay)).get("machine") if replay else None
    st_io, seqs, st_obj = {}, [], {}
    if not replay or rmach == "io":
        st_io, seqs = check_io(ck, hb, quick, rcases)
    if not replay or rmach in ("geometry", "sensors", "mesh", "linop", "compute", "multi"):
        st_obj = check_objects(ck, hb, quick, rcases)
    ck.drop_proof_violation_if(any(v[3] for v in ck.violations))
    nobj = sum(st_obj.get(k, {}).get("ops", 0) for k in ("geometry", "sensors", "mesh", "linop", "compute", "multi"))
    ck.cov.update(evaluations=st_io.get("ops", 0) + nobj,
                  distinct_nontrivial=len({json.dumps(s) for s in seqs if len(s[1]) >= 2}) + sum(st_obj.get(k, {}).get("seqs", 0) for k in ("geometry", "sensors", "mesh", "linop", "compute", "multi")),
                  rule="IO: operation histories (length 1..%d) over 12 file names (suffix classes mat/txt/tex/bin/unknown/none, two in a missing directory) and %d measured contents; objects: load/assemble histories (length 2..%d) on one Geometry / Sensors / Mesh object over the catalog of data and generated files; non-trivial = at least two operations; distinct = distinct histories" % (8 if quick else 20, st_io.get("contents", 0), 8 if quick else 20),
                  samples=[json.dumps(dict(fs=fs, ops=ops)) for fs, ops in seqs[3:6]],
                  op_distribution=dict(io=st_io.get("op", {}), geometry=st_obj.get("geometry", {}).get("op", {}), mesh=st_obj.get("mesh", {}).get("op", {}), sensors=dict(load=st_obj.get("sensors", {}).get("ops", 0)), linop=dict(load=st_obj.get("linop", {}).get("ops", 0)), compute=st_obj.get("compute", {}).get("op", {}), multi=st_obj.get("multi", {}).get("op", {})),
                  outcome_distribution=dict(io=st_io.get("fail", {}), geometry=st_obj.get("geometry", {}).get("status", {}), sensors=st_obj.get("sensors", {}).get("status", {}), mesh=st_obj.get("mesh", {}).get("status", {}), linop=st_obj.get("linop", {}).get("status", {})),
                  traces_validated_against_impl=st_io.get("seqs", 0) + sum(st_obj.get(k, {}).get("seqs", 0) for k in ("geometry", "sensors", "mesh", "linop", "compute", "multi")), io=st_io, objects=st_obj)
    sigs = [v[0] for v in ck.violations] + [k for k, _ in ck.known_hits]
    wit = {"io_history_independent_pinned_refuted: load Matrix f1.txt(absent); load Vector f7.xyz": any(x.startswith("io: failed-open-leaves-format") for x in sigs),
           "io (write side): save Vector nodir/f6.txt; save Vector f7.xyz": any(x.startswith("io: failed-open-for-writing") for x in sigs),
           "readtag_short_file_pinned_refuted: load Matrix f2.tex; load Matrix f4.xyz('asc')": any(x.startswith("io: short-file") for x in sigs),
           "geometry_reload_pinned_refuted: load Head1+cond twice": any("(load Head1+cond; load Head1+cond)" in x for x in sigs),
           "geometry_stale_invalid_vertices_pinned_refuted: load immersed+cond; load immersed": any("(load immersed+cond; load immersed)" in x for x in sigs),
           "sensors_reload_pinned_refuted: load Head1.squids twice": any("(load Head1.squids; load Head1.squids)" in x for x in sigs),
           "sensors_stale_orientations_pinned_refuted: load Head1.squids; load unlabeled-xyz": any("(load Head1.squids; load unlabeled-xyz)" in x for x in sigs),
           "sparse_reload_pinned_refuted: SparseMatrix::load a; load b": any("SparseMatrix::load sparse-4x4-a.txt; SparseMatrix::load sparse-4x4-b.txt)" in x for x in sigs),
           "mesh_source_flag_pinned_refuted: load Head1.tri; SurfSourceMat; load Head1.tri": any(x.startswith("mesh: status/sizes/flags") for x in sigs),
           "mesh_reload_triangle_indices_refuted: load Head1.tri; load cortex.1.tri": any(x.startswith("mesh: load Head1.tri ; load cortex.1.tri") for x in sigs)}
    if not replay:
        ck.cov["refutation_witnesses_replayed_on_the_implementation"] = {k: ("reproduces" if v else "does not reproduce (repaired)") for k, v in wit.items()}
    ck.cov["trusted_base"] += ["hand-written Gallina state machines coq/Maths/IOState.v, coq/Geom/{GeomState,SensorsState,MeshState}.v tied by differential runs (harness/h_c17.cpp vs extracted extract/omm)",
                               "world tables (reader/writer outcome per content, format, kind; what one load does to a fresh Geometry/Sensors/Mesh) measured in fresh processes on the working tree",
                               "extraction: ExtrOcamlBasic only; OCaml driver extract/driver.ml"]
    ck.assumptions += ["the outcome of a codec on given file bytes is a function of (bytes, format, kind) - measured per content in fresh processes, modelled by C07",
                       "MathsIO::name() of the registered formats is reset by the harness before every operation to observe which codec was selected",
                       "private members of Geometry/Sensors/Mesh observed through #define private public in the harness TU",
                       "HeadMat / SurfSourceMat compared by a 50-bit fingerprint of the result's bits, OMP_NUM_THREADS=1",
                       "one-process histories run under glibc MALLOC_PERTURB_=165 and =90 (allocated and freed blocks filled with a non-zero pattern); fresh-process references run without"]
    return ck.finish()
