"""C17 — results depend on the inputs only, not on earlier operations in the process.

Per state machine: (1) the world (what each single operation does in a FRESH process) is measured on the library
built from the working tree; (2) the Gallina model (proved history independent for the repaired code) predicts
whole histories; (3) the histories are executed in ONE harness process and, operation by operation, in fresh
processes.  Relations checked: model == one-process run (correspondence), one-process run == fresh-process runs
(the property's own relation, used to search for a concrete failing history)."""
import os, sys, json, subprocess, shutil, struct, hashlib
from concurrent.futures import ThreadPoolExecutor
import core, ombuild

PROP = "C17"
FMT = ["matlab", "ascii", "tex", "binary"]
KIND = ["Vector", "Matrix", "SymMatrix", "SparseMatrix"]
SFX = [".mat", ".txt", ".tex", ".bin", ".xyz", ""]
OPN = ["load", "save", "read_as", "write_as", "write_suffix", "info"]
REPAIRED = 3      # cfg bits of the model variant that follows the current (repaired) code

def env():
    e = dict(os.environ); e["OMP_NUM_THREADS"] = "1"; e["OPENBLAS_NUM_THREADS"] = "1"; return e

def hrun(hb, lines, cwd, timeout=300):
    """one harness process over the case lines, run inside cwd; returns the output lines ('CRASH rc' appended on abnormal end)"""
    os.makedirs(cwd, exist_ok=True)
    cf = os.path.join(cwd, "cases.in")
    with open(cf, "w") as fh: fh.write("\n".join(lines) + "\n")
    try:
        p = subprocess.run([hb, "cases.in"], cwd=cwd, env=env(), stdout=subprocess.PIPE, stderr=subprocess.PIPE, timeout=timeout)
        out = p.stdout.decode(errors="replace").split("\n"); rc = p.returncode
    except subprocess.TimeoutExpired as te:
        out = (te.stdout or b"").decode(errors="replace").split("\n"); rc = -999
    if out and out[-1] == "": out.pop()
    while len(out) < len(lines): out.append("CRASH %d" % rc)
    return out

def ints(line):
    return None if line.startswith("CRASH") else [int(t) for t in line.split()]

# ------------------------------------------------------------------ machine 1: maths IO state
class IOWorld:
    """contents (by bytes), writer table, reader table, iteration order of the formats - all measured in fresh processes"""
    def __init__(self, hb, wd):
        self.hb = hb; self.wd = wd
        self.pool = os.path.join(wd, "pool"); os.makedirs(self.pool, exist_ok=True)
        self.bytes = []; self.ids = {}
        self.cid(b"")
        o = ints(hrun(hb, ["c17 0"], os.path.join(wd, "p0"))[0])
        self.ios = o[1:]
        # writer table
        self.wr = []
        def w(gk):
            g, k = gk; d = os.path.join(wd, "pw%d_%d" % (g, k))
            o = ints(hrun(hb, ["c17 10 %d %d" % (g, k)], d)[0])
            f = os.path.join(d, "w.out")
            return o[0] if o else 3, (open(f, "rb").read() if os.path.exists(f) else b"")
        with ThreadPoolExecutor(8) as ex:
            res = list(ex.map(w, [(g, k) for g in range(4) for k in range(4)]))
        self.written = {}
        for (g, k), (v, b) in zip([(g, k) for g in range(4) for k in range(4)], res):
            c = self.cid(b); self.wr.append((v, c)); self.written[(g, k)] = c
        # hand-made contents aimed at the tag buffer / identification boundaries
        self.special = {}
        for nm, b in [("asc", b"asc"), ("seven", b"7\n"), ("m22", b"1 2\n3 4\n"), ("MAT", b"MAT"), ("1e", b"1e"), ("minus", b"-"),
                      ("ws", b"  3.5 4\n1 2\n"), ("asciiword", b"ascii"), ("garbage", b"hello world, this is not a matrix file at all"),
                      ("1e+x", b"1e+x\n"), ("dot", b"."), ("plusdot5", b"+.5\n"), ("e5", b"e5\n"), ("1.2.3", b"1.2.3 4\n"),
                      ("bin49", struct.pack("<I", 49) + b"".join(struct.pack("<d", i + 1) for i in range(49))),
                      ("nul", b"\x00\x00\x00\x00 12 13\n"), ("matlabword", b"MATLAB"), ("asciinl", b"ascii\nFLOAT\n")]:
            self.special[nm] = self.cid(b)
        self.rd = None

    @staticmethod
    def key(b):
        # MATLAB 7.3 files carry a creation time stamp: identified by magic + size
        return b"MATLAB:%d" % len(b) if b.startswith(b"MATLAB ") else b

    def cid(self, b0):
        b = self.key(b0)
        if b not in self.ids:
            self.ids[b] = len(self.bytes); self.bytes.append(b0)
            with open(os.path.join(self.pool, "c%d" % self.ids[b]), "wb") as fh: fh.write(b0)
        return self.ids[b]

    def probe_readers(self):
        """reader outcome per (content, format, kind), each in a fresh process"""
        jobs = [(c, g, k) for c in range(len(self.bytes)) for g in range(4) for k in range(5)]     # k = 4: info()
        def r(j):
            c, g, k = j; d = os.path.join(self.wd, "pr%d_%d_%d" % j); os.makedirs(d, exist_ok=True)
            with open(os.path.join(d, "r.in"), "wb") as fh: fh.write(self.bytes[c])
            o = ints(hrun(self.hb, ["c17 11 %d %d" % (g, k) if k < 4 else "c17 12 %d" % g], d)[0])
            shutil.rmtree(d, ignore_errors=True)
            return o[0] if o else 3
        with ThreadPoolExecutor(8) as ex:
            res = list(ex.map(r, jobs))
        self.rd = [v for (c, g, k), v in zip(jobs, res) if k < 4]
        self.inf = [v for (c, g, k), v in zip(jobs, res) if k == 4]
        self.nprobes = len(jobs)

    def wire(self):
        w = [len(self.ios)] + self.ios
        return w

def io_world_wire(W, sfx):
    w = [len(W.ios)] + W.ios + [len(sfx)] + sfx + [len(W.bytes)]
    for b in W.bytes:
        h = list(b[:32]); w += [len(h)] + h
    w += [len(W.rd)] + W.rd + [len(W.wr)]
    for v, c in W.wr: w += [v, c]
    w += [0, len(W.inf)] + W.inf
    return w

# names: index -> (suffix class, nodir?)
NAMES = [(0, 0), (1, 0), (2, 0), (3, 0), (4, 0), (5, 0), (1, 1), (4, 0), (3, 1), (1, 0), (2, 0), (4, 0)]

def gen_io_seq(rng, W, maxlen):
    nn = len(NAMES)
    fs = []
    for s, nd in NAMES:
        if nd: fs.append(0); continue
        c = rng.random()
        if c < 0.25: fs.append(1)
        elif c < 0.60 and s < 4:
            fs.append(2 + W.written[(s, rng.choice([1, 1, 0, 2, 3] if s != 2 else [1]))])
        elif c < 0.80: fs.append(2 + rng.choice(list(W.special.values())))
        else: fs.append(2 + rng.randrange(len(W.bytes)))
    n = rng.randint(1, maxlen); ops = []
    hot = [rng.randrange(nn) for _ in range(3)]
    for _ in range(n):
        o = rng.choice([0, 0, 0, 0, 0, 0, 1, 1, 1, 1, 2, 2, 3, 3, 4, 5, 5])
        a = rng.choice([0, 1, 2, 3, 3, 4, 5]) if o in (2, 3) else 0
        k = rng.choice([0, 1, 1, 2, 3])
        nm = rng.choice(hot) if rng.random() < 0.6 else rng.randrange(nn)
        ops.append((o, a, k, nm))
    return fs, ops

def io_model_case(W, fs, ops, mode, cfg=REPAIRED):
    sfx = [s for s, _ in NAMES]
    w = [1, mode, cfg] + io_world_wire(W, sfx) + [len(fs)] + fs + [len(ops)]
    for o in ops: w += list(o)
    return "c17 " + " ".join(map(str, w))

def io_harness_case(fs, ops, init=1):
    w = [1, init, len(NAMES)]
    for (s, _), e in zip(NAMES, fs): w += [s, e]
    w += [len(ops)]
    for o in ops: w += list(o)
    return "c17 " + " ".join(map(str, w))

def io_fname(n, e0):
    s, nd = NAMES[n]
    return ("nodir/f" if nd else "f") + str(n) + SFX[s]

def io_dirstate(W, d):
    """file system of the case directory in the model's encoding"""
    out = []
    for n, (s, nd) in enumerate(NAMES):
        p = os.path.join(d, io_fname(n, 0))
        if nd: out.append(0)
        elif not os.path.exists(p): out.append(1)
        else:
            b = open(p, "rb").read()
            out.append(2 + W.ids[W.key(b)] if W.key(b) in W.ids else -5)
    return out

def describe_io(fs, ops, W):
    names = ["%s=%s" % (io_fname(n, 0), "nodir" if e == 0 else "absent" if e == 1 else "content#%d(%dB:%r)" % (e - 2, len(W.bytes[e - 2]), W.bytes[e - 2][:12]))
             for n, e in enumerate(fs)]
    return "; ".join("%s %s%s %s" % (OPN[o], KIND[k], (" fmt=" + (FMT + ["default", "nosuchformat"])[a]) if o in (2, 3) else "", io_fname(n, 0)) for o, a, k, n in ops) + "  [files: " + ", ".join(names) + "]"

def canon_io(W, mtriples, outs):
    """mask outcomes that are undefined behaviour of the binary reader on files shorter than its header (defect 7, C07)"""
    res = []
    for (mv, mm, me), (v, m) in zip(mtriples, outs):
        tiny = me >= 2 and len(W.bytes[me - 2]) < 8 and (mm & 8)
        res.append(((-2 if tiny else mv, mm), (-2 if tiny and (m & 8) else v, m)))
    return res

def run_io_sequences(ck, hb, W, seqs, tag):
    """returns list of dicts with model / inproc / fresh traces"""
    mcases = [io_model_case(W, fs, ops, 0) for fs, ops in seqs]
    mo = core.run_model(mcases)
    base = os.path.join(ck.workdir, tag)
    def one(i):
        fs, ops = seqs[i]
        d = os.path.join(base, "a%d" % i, "d"); os.makedirs(d, exist_ok=True)
        lk = os.path.join(base, "a%d" % i, "pool")
        if not os.path.exists(lk): os.symlink(W.pool, lk)
        o = ints(hrun(hb, [io_harness_case(fs, ops, 1)], d)[0])
        fin = io_dirstate(W, d)
        e = os.path.join(base, "a%d" % i, "e"); os.makedirs(e, exist_ok=True)
        fr = []
        for q, op in enumerate(ops):
            x = ints(hrun(hb, [io_harness_case(fs, [op], 1 if q == 0 else 0)], e)[0])
            fr += x if x else [-9, -9]
        shutil.rmtree(os.path.join(base, "a%d" % i), ignore_errors=True)
        return o, fin, fr
    with ThreadPoolExecutor(8) as ex:
        hres = list(ex.map(one, range(len(seqs))))
    out = []
    for (fs, ops), m, (o, fin, fr) in zip(seqs, mo, hres):
        mi = [int(t) for t in m.split()]
        n = len(ops)
        mt = [(mi[3 * q], mi[3 * q + 1], mi[3 * q + 2]) for q in range(n)] if len(mi) >= 3 * n else None
        mfs = mi[3 * n:] if mt else None
        ho = [(o[2 * q], o[2 * q + 1]) for q in range(n)] if o and len(o) == 2 * n else None
        hf = [(fr[2 * q], fr[2 * q + 1]) for q in range(n)] if len(fr) == 2 * n else None
        out.append(dict(fs=fs, ops=ops, model=mt, model_fs=mfs, inproc=ho, fresh=hf, final=fin))
    return out

def mkfs(d):
    return [0 if nd else d.get(n, 1) for n, (s, nd) in enumerate(NAMES)]

WITNESS_IO = [
    # shortest distinguishing histories of the pinned model (Properties_C17: io_history_independent_pinned_refuted,
    # readtag_short_file_pinned_refuted), replayed on the real code on every run
    ("failed-open-leaves-format", lambda W: (mkfs({7: 2 + W.written[(0, 0)]}), [(0, 0, 1, 1), (0, 0, 0, 7)]),
     "load Matrix f1.txt (absent) ; load Vector f7.xyz (a MATLAB file)"),
    ("short-file-identified-by-stale-tag", lambda W: (mkfs({2: 2 + W.written[(2, 1)], 4: 2 + W.special["asc"]}), [(0, 0, 1, 2), (0, 0, 1, 4)]),
     "load Matrix f2.tex (a tex file) ; load Matrix f4.xyz (the 3 bytes 'asc')"),
    ("failed-open-for-writing-leaves-format", lambda W: (mkfs({}), [(1, 0, 0, 6), (1, 0, 0, 7)]),
     "save Vector nodir/f6.txt (unwritable) ; save Vector f7.xyz"),
]

def check_io(ck, hb, quick, replay):
    W = IOWorld(hb, os.path.join(ck.workdir, "io"))
    W.probe_readers()
    stats = dict(op={}, fail={}, seqs=0, ops=0, fresh_processes=0)
    rng = ck.rng
    if replay:
        seqs = [(r["fs"], [tuple(o) for o in r["ops"]]) for r in replay]
    else:
        seqs = [f(W) for _, f, _ in WITNESS_IO]
        cp = os.path.join(core.VERIF, "corpus", "C17.txt")
        if os.path.exists(cp):
            for l in open(cp):
                l = l.strip()
                if l.startswith("io "):
                    j = json.loads(l[3:]); seqs.append((j["fs"], [tuple(o) for o in j["ops"]]))
        nseq = 160 if quick else 1500
        seqs += [gen_io_seq(rng, W, 8 if quick else 20) for _ in range(nseq)]
    res = run_io_sequences(ck, hb, W, seqs, "ioseq")
    nviol = 0
    for idx, r in enumerate(res):
        fs, ops = r["fs"], r["ops"]
        stats["seqs"] += 1; stats["ops"] += len(ops); stats["fresh_processes"] += len(ops)
        rp = dict(kind="io-history", machine="io", cases=[dict(fs=fs, ops=[list(o) for o in ops])], history=describe_io(fs, ops, W),
                  replay_cmd="./check C17 --replay <this file>")
        if r["model"] is None or r["inproc"] is None or r["fresh"] is None:
            ck.violation("io: harness or model did not produce a trace", "no complete trace for history: %s (model=%s inproc=%s fresh=%s)" % (describe_io(fs, ops, W), r["model"], r["inproc"], r["fresh"]), rp)
            continue
        ci = canon_io(W, r["model"], r["inproc"]); cf = canon_io(W, r["model"], r["fresh"])
        for q, o in enumerate(ops):
            stats["op"][OPN[o[0]]] = stats["op"].get(OPN[o[0]], 0) + 1
            v = r["inproc"][q][0]
            key = "ok" if (v == 0 or v >= 1000) else "exception_%d" % v
            stats["fail"][key] = stats["fail"].get(key, 0) + 1
        # the property's own relation: same operation in a fresh process on the same files
        bad = [q for q in range(len(ops)) if ci[q][1] != cf[q][1]]
        if bad:
            q = bad[0]; nviol += 1
            wit = next((n for n, f, _ in WITNESS_IO if f(W) == (fs, ops)), None)
            sig = "io: %s" % wit if wit else "io: operation result depends on the process history (%s after %d earlier operations)" % (OPN[ops[q][0]], q)
            ck.violation(sig, "operation %d (%s) gives (outcome,codec mask)=%s in the process that ran the history but %s in a fresh process on the same files; history: %s"
                         % (q, OPN[ops[q][0]], ci[q][1], cf[q][1], describe_io(fs, ops[:q + 1], W)), rp)
            continue
        # correspondence with the model (proved history independent)
        badm = [q for q in range(len(ops)) if ci[q][0] != ci[q][1]]
        if badm or (r["model_fs"] != r["final"]):
            q = badm[0] if badm else len(ops) - 1
            ck.violation("io: model and implementation differ (%s)" % OPN[ops[q][0]],
                         "the IO state model (coq/Maths/IOState.v, repaired variant) predicts %s for operation %d but the library gives %s (final files model=%s impl=%s); no history dependence was observed for this sequence (fresh-process runs agree with the one-process run), so this is a broken tie, not a failing input of the property; history: %s"
                         % (ci[q][0], q, ci[q][1], r["model_fs"], r["final"], describe_io(fs, ops, W)), rp, found_input=False)
    stats["reader_probes"] = W.nprobes; stats["contents"] = len(W.bytes); stats["ios_order"] = [FMT[i] for i in W.ios]
    return stats, seqs

def main(replay=None):
    ck = core.Check(PROP, "proof")
    quick = ck.tier != "thorough"
    import glob
    for f in glob.glob(os.path.join(core.VERIF, "evidence", "replay", "C17-*.json")):
        if replay is None or os.path.abspath(f) != os.path.abspath(replay): os.remove(f)
    bdir, hb = ck.prepare("Props/Properties_C17.v", "h_c17.cpp")
    if hb is None:
        return ck.finish()
    rp = None
    if replay:
        rp = json.load(open(replay)).get("cases", [])
    st_io, seqs = check_io(ck, hb, quick, rp if (rp and json.load(open(replay)).get("machine") == "io") else None) if (not replay or json.load(open(replay)).get("machine") == "io") else ({}, [])
    ck.cov.update(evaluations=st_io.get("ops", 0), distinct_nontrivial=len({json.dumps(s) for s in seqs if len(s[1]) >= 2}),
                  rule="operation histories (length 1..%d) over 12 file names (suffix classes mat/txt/tex/bin/unknown/none, two in a missing directory) and %d measured contents; non-trivial = at least two operations; distinct = distinct (files, history) pairs" % (8 if quick else 20, st_io.get("contents", 0)),
                  samples=[describe_io(fs, ops, None) if False else json.dumps(dict(fs=fs, ops=ops)) for fs, ops in seqs[3:6]],
                  op_distribution=st_io.get("op", {}), outcome_distribution=st_io.get("fail", {}),
                  traces_validated_against_impl=st_io.get("seqs", 0), io=st_io)
    ck.cov["trusted_base"] += ["hand-written Gallina state machines coq/Maths/IOState.v tied by differential runs (harness/h_c17.cpp vs extracted extract/omm)",
                               "world tables (reader/writer outcome per content, format, kind) measured in fresh processes on the working tree",
                               "extraction: ExtrOcamlBasic only; OCaml driver extract/driver.ml"]
    ck.assumptions += ["the outcome of a codec on given file bytes is a function of (bytes, format, kind) - measured per content in fresh processes, modelled by C07",
                       "MathsIO::name() of the registered formats is reset by the harness before every operation to observe which codec was selected"]
    return ck.finish()
