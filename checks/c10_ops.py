"""C10, widened: the other assembly functions built from the blocks of operators.h (SurfSourceMat, EITSourceMat,
Head2MEGMat, Surf2VolMat, Head2ECoGMat) and the runs with injected integer kernels (harness/h_c10s.cpp)."""
import os, math
import core, models

OPN = {4: "SurfSourceMat", 5: "EITSourceMat", 6: "Head2MEGMat", 7: "Surf2VolMat", 8: "Head2ECoGMat", 9: "HeadMat"}

def source_sphere(kind, m):
    info = m["info"]
    if kind.startswith("nested") or kind.startswith("shell"):
        return (0.0, 0.0, 0.0), 0.3 * info["radii"][0]
    if kind.startswith("split"):
        return (0.0, 0.0, 0.4), 0.2
    return (0.0, 0.0, 0.6), 0.15

def write_extras(rng, kind, m, d):
    """source mesh, EIT electrodes, squids, internal points, ECoG positions next to the model files"""
    c, r = source_sphere(kind, m)
    v, t = models.icosphere(0)
    models.write_tri(os.path.join(d, "src.tri"), models.transform(v, r, c), t)
    R = m["info"].get("outer_radius", 1.0)
    def unit():
        return models.random_unit(rng)
    with open(os.path.join(d, "elec.txt"), "w") as fh:
        for k in range(3):
            u = unit(); rad = [0.0, 0.0 if kind in ("split0", "split0z") else 0.45 * R, 0.0][k]   # split0: a radius across the two hemispheres makes Sensors throw map::at (reported to C09)
            fh.write(" ".join(repr(R * 1.02 * x) for x in u) + " " + repr(rad) + "\n")
    with open(os.path.join(d, "squids.txt"), "w") as fh:
        for k in range(4):
            u = unit(); w = rng.choice([1.0, 0.5, 2.0, 0.25])
            o = unit()
            fh.write(" ".join(repr(R * 1.3 * x) for x in u) + " " + " ".join(repr(x * rng.choice([1.0, 2.0])) for x in o) + " " + repr(w) + "\n")
    with open(os.path.join(d, "pts.txt"), "w") as fh:
        for k in range(6):
            u = unit(); rr = R * rng.choice([0.13, 0.31, 0.47, 0.77, 0.93, 1.21])
            fh.write(" ".join(repr(rr * x) for x in u) + "\n")
    with open(os.path.join(d, "ecog.txt"), "w") as fh:
        for k in range(3):
            u = unit(); fh.write(" ".join(repr(0.9 * R * x) for x in u) + "\n")

def compare_dense(mo, im, nl, nc, rel):
    """column-major nl x nc; exact zero pattern, values at `rel` of the larger of the row/column scales"""
    if len(mo) != len(im) or len(mo) != nl * nc: return [(-1, -1, len(mo), len(im))]
    rs = [0.0] * nl; cs = [0.0] * nc
    for j in range(nc):
        for i in range(nl):
            a = abs(mo[i + nl * j])
            if a > rs[i]: rs[i] = a
            if a > cs[j]: cs[j] = a
    bad = []
    for j in range(nc):
        for i in range(nl):
            a, b = mo[i + nl * j], im[i + nl * j]
            if a == b: continue
            if a != a or b != b or a == 0.0 or b == 0.0 or abs(a - b) > rel * max(rs[i], cs[j]):
                bad.append((i, j, a, b))
    return bad

def run_ops(ck, hb, specs, ids, ops, synthetic, rel, packed_cmp, describe):
    """runs the given ops on the harness (library kernels, or injected integer kernels), feeds the dumped inputs to
    the extracted model and compares.  Returns (number of cases, entries compared, error-path cases)."""
    tag = "syn" if synthetic else "ops"
    lines = []; meta = []
    for k in ids:
        for op in ops:
            extra = " 0" if op == 8 else ""
            lines.append("c10 %d %d %d%s" % (op, k, 1 if specs[k][2] else 0, extra)); meta.append((k, op))
    rc, io, err = core.run_harness(hb, lines, ck.workdir, timeout=900, tag=tag)
    mcases = []; keep = []
    for (k, op), line in zip(meta, io):
        kind = specs[k][0]
        rp = dict(kind="ops", specs=[list(specs[k])], op=op, synthetic=synthetic)
        zi, fi = core.fparse(line)
        if zi is None or not zi or zi[0] not in (0, 1) or len(zi) < 4:
            ck.violation("%s: implementation failed (%s)" % (OPN[op], kind),
                         "%s%s failed on a generated model (%s): %s" % (OPN[op], " [injected kernels]" if synthetic else "", kind, line[:120]), rp)
            continue
        if op == 9:
            n = zi[-1]; nh = n * (n + 1) // 2
            mcases.append(core.fcase("c10", [1] + zi[1:-1], fi[:len(fi) - nh])); keep.append((k, op, zi, fi[len(fi) - nh:], n, n))
        else:
            nl, nc = zi[-2], zi[-1]; nh = max(nl, 0) * max(nc, 0)
            mcases.append(core.fcase("c10b", [op] + zi[1:-2], fi[:len(fi) - nh])); keep.append((k, op, zi, fi[len(fi) - nh:] if nh else [], nl, nc))
    mo = core.run_model(mcases) if mcases else []
    entries = 0; errs = []
    for (k, op, zi, H, nl, nc), mline in zip(keep, mo):
        kind = specs[k][0]; old = specs[k][2]
        rp = dict(kind="ops", specs=[list(specs[k])], op=op, synthetic=synthetic)
        zm, fm = core.fparse(mline)
        what = "%s%s" % (OPN[op], " with injected integer kernels" if synthetic else "")
        if zi[0] == 1 or zm[0] == 1:
            errs.append("%s/%s" % (OPN[op], kind))
            if zi[0] != zm[0]:
                ck.violation("%s: assertion outcome differs (%s)" % (OPN[op], kind),
                             "%s on %s: implementation status %d, model status %d (om_assert on an index outside the matrix)" % (what, kind, zi[0], zm[0]), rp)
            continue
        if zm[0] != 0:
            ck.violation("%s: model rejects the case (%s)" % (OPN[op], kind), "%s on %s: model output %s" % (what, kind, mline[:80]), rp); continue
        if op == 9:
            bad = packed_cmp(fm, H, nl, rel)
        else:
            if zm[1] != nl or zm[2] != nc:
                ck.violation("%s: dimension (%s)" % (OPN[op], kind), "%s on %s is %dx%d, the model says %dx%d" % (what, kind, nl, nc, zm[1], zm[2]), rp); continue
            bad = compare_dense(fm, H, nl, nc, rel)
        entries += len(H)
        if bad:
            i, j, a, b = bad[0]
            ck.violation("%s: entry differs (%s, %s ordering%s)" % (OPN[op], kind, "old" if old else "new", ", injected kernels" if synthetic else ""),
                         "%s on %s: entry (%d,%d) = %r, the model of the block code gives %r; %d entries differ%s"
                         % (what, kind, i, j, b, a, len(bad), ("; " + describe(zi, i, j)) if op == 9 else ""),
                         dict(rp, entry=[i, j], model=a, impl=b, ndiff=len(bad)))
    return len(meta), entries, errs
