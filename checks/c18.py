"""C18 — misuse and I/O failures are reported, never silently absorbed.

(a) accessors / sub-block methods / operator guards: coq/Gen/GenAccessors.v is regenerated from the current sources
    (translators/t_accessors.py, C++ integer widths explicit); Properties_C18.v proves in-bounds / throws-exactly /
    guard = model guard about the generated definitions.  Runtime tie: the generated guard and index are evaluated on
    concrete arguments and compared with what the real call does (throws or not; slot read) - this also validates the
    translator itself.
(b) absent mesh/interface/domain names, unknown suffix / format, missing or unreadable input: outcome-class model
    (coq/Geom/Lookups.v) vs the library on a generated head model and a set of prepared paths.
(c) write faults: capacity-limited stream model (coq/Maths/WriteFault.v) vs real saves under RLIMIT_FSIZE=k for many k,
    /dev/full, and a missing directory.
"""
import os, sys, json, shutil, re, glob, subprocess, resource, signal
import core, ombuild, gen, models

PROP = "C18"
U32 = 4294967296
ACC = {1: ("Vector::operator() const", 1), 2: ("Vector::operator()", 1), 3: ("Matrix::operator() const", 2), 4: ("Matrix::operator()", 2),
       5: ("SymMatrix::operator() const", 2), 6: ("SymMatrix::operator()", 2), 7: ("SparseMatrix::operator() const", 2), 8: ("SparseMatrix::operator()", 2),
       10: ("Vector::subvect", "range1"), 11: ("Matrix::submat", "range2"), 12: ("Matrix::insertmat", "insert"), 13: ("Matrix::getcol", "col"),
       14: ("Matrix::getlin", "row"), 15: ("Matrix::setcol", "colv"), 16: ("Matrix::setlin", "rowv"), 17: ("SymMatrix::getlin", "row"),
       18: ("SymMatrix::setlin", "rowvs"), 19: ("SymMatrix::submat(4)", "range2s"), 20: ("SymMatrix::submat(2)", "range1s"),
       30: ("Matrix*Matrix", "B"), 31: ("Matrix::tmult", "B"), 32: ("Matrix::multt", "B"), 33: ("Matrix::tmultt", "B"), 34: ("Matrix*Vector", "v"),
       35: ("Matrix::tmult(Vector)", "v"), 36: ("Matrix*SymMatrix", "s"), 37: ("Matrix+=", "B"), 38: ("Matrix-=", "B"), 39: ("Matrix::dot", "B"),
       40: ("SymMatrix*Vector", "v"), 41: ("SymMatrix+=", "s"), 42: ("SymMatrix-=", "s"), 43: ("SymMatrix*SymMatrix", "s"), 44: ("SymMatrix*Matrix", "B"),
       45: ("Vector+Vector", "v"), 46: ("Vector-Vector", "v"), 47: ("Vector+=", "v"), 48: ("Vector-=", "v"), 49: ("Vector*Vector", "v"),
       50: ("Vector::kmult", "v"), 51: ("Vector::outer_product", "v"), 52: ("Vector*Matrix", "B"), 53: ("Matrix::inverse", "none")}
# methods whose range assertion still adds in 32 bits: a wrapped request passes it and is caught by an element assertion
# (theorems c18_subvect_wrap_caught / c18_sym_submat4_wrap_caught); SymMatrix::submat(4) also rejects empty ranges that way.
GUARD_THEN_ELEMENTS = {10, 19}

def anyidx(rng, n):
    return rng.choice([0, max(n - 1, 0), n, n + 1, rng.randint(0, n + 2), 2147483647, 2147483648, U32 - 1, U32 - max(n, 1), 65535, 65536])

def gen_access(rng, maxn):
    id_ = rng.choice(list(ACC)); kind = ACC[id_][1]
    n = min(gen.shape(rng, max(maxn, 3)), maxn); c = min(gen.shape(rng, max(maxn, 3)), maxn)
    near = lambda d: rng.choice([d, d, d, max(d - 1, 0), d + 1, rng.randint(0, maxn)])
    w = [1, id_, n, c]
    if kind == 1: w += [anyidx(rng, n)]
    elif kind == 2: w += [anyidx(rng, n) if rng.random() < 0.5 else rng.randint(0, max(n - 1, 0)), anyidx(rng, c if id_ in (3, 4, 7, 8) else n) if rng.random() < 0.5 else rng.randint(0, max((c if id_ in (3, 4, 7, 8) else n) - 1, 0))]
    elif kind in ("range1", "range1s"):
        a = rng.choice([0, rng.randint(0, n), n, U32 - 1, U32 - 2]); s = rng.choice([0, 1, n, rng.randint(0, n + 1), 2, U32 - 1])
        if kind == "range1s": s = rng.choice([a, min(a + 1, U32 - 1), max(n - 1, 0), n, rng.randint(0, n + 1), U32 - 1, 0])       # iend
        if kind == "range1" and s > 100000 and a < U32 - 100000: s = n + 1       # keep allocations sane
        if kind == "range1s" and a >= 1 and s > 100000: a = 0
        w += [a, s]
    elif kind in ("range2", "range2s"):
        def rr(d):
            a = rng.choice([0, rng.randint(0, d), d, U32 - 1]); s = rng.choice([0, 1, d, rng.randint(0, d + 1), 2])
            return a, s
        a, s = rr(n); b, t = rr(c if kind == "range2" else n)
        w += [a, s, b, t]
    elif kind == "insert":
        bn, bm = rng.randint(0, n + 1), rng.randint(0, c + 1)
        w += [rng.choice([0, rng.randint(0, n), U32 - 1, max(n - bn, 0)]), rng.choice([0, rng.randint(0, c), U32 - 1, max(c - bm, 0)]), bn, bm]
    elif kind in ("col",): w += [anyidx(rng, c)]
    elif kind in ("row",): w += [anyidx(rng, n)]
    elif kind == "colv": w += [anyidx(rng, c) if rng.random() < 0.4 else rng.randint(0, max(c - 1, 0)), near(n)]
    elif kind == "rowv": w += [anyidx(rng, n) if rng.random() < 0.4 else rng.randint(0, max(n - 1, 0)), near(c)]
    elif kind == "rowvs": w += [anyidx(rng, n) if rng.random() < 0.4 else rng.randint(0, max(n - 1, 0)), near(n)]
    elif kind == "B": w += [near(n), near(c)] if rng.random() < 0.5 else [near(c), near(n)]
    elif kind == "v": w += [near(c) if rng.random() < 0.5 else near(n)]
    elif kind == "s": w += [near(c) if rng.random() < 0.5 else near(n)]
    return "c18 " + " ".join(map(str, w))

def spec_pass(id_, n, c, a):
    """the property's own relation, in exact integer arithmetic: True = the request is inside the object / conformable
    (must not throw), False = must throw, None = either (documented corner)"""
    kind = ACC[id_][1]
    if kind == 1: return a[0] < n
    if kind == 2: return a[0] < n and a[1] < (c if id_ in (3, 4, 7, 8) else n)
    if id_ == 10: return a[0] + a[1] <= n
    if id_ == 11: return a[0] + a[1] <= n and a[2] + a[3] <= c
    if id_ == 12: return a[0] + a[2] <= n and a[1] + a[3] <= c
    if id_ == 13: return a[0] < c
    if id_ in (14, 17): return a[0] < n
    if id_ == 15: return a[0] < c and a[1] == n
    if id_ == 16: return a[0] < n and a[1] == c
    if id_ == 18: return a[0] < n and a[1] == n
    if id_ == 19:
        if a[1] == 0 or a[3] == 0: return None if (a[0] + a[1] <= n and a[2] + a[3] <= n) else False   # empty block of a SymMatrix: rejected (conservative)
        return a[0] + a[1] <= n and a[2] + a[3] <= n
    if id_ == 20:
        if a[0] == a[1] and a[1] < n: return None            # 1x1 block: rejected by design (iend>istart)
        return a[0] < a[1] < n
    if id_ in (30, 36, 44): return c == a[0] if id_ != 44 else n == a[0]
    if id_ == 31: return n == a[0]
    if id_ == 32: return c == a[1]
    if id_ == 33: return n == a[1]
    if id_ == 34: return c == a[0]
    if id_ == 35: return n == a[0]
    if id_ in (37, 38, 39): return n == a[0] and c == a[1]
    if id_ in (40, 41, 42, 43, 45, 46, 47, 48, 49, 50, 51): return n == a[0]
    if id_ == 52: return n == a[0]
    if id_ == 53: return n == c
    return None

def access_verdict(case, m, i):
    """None when generated guard/index and the real call agree; else text"""
    w = case.split(); id_ = int(w[2]); name = ACC[id_][0]
    mm = m.split(); ii = i.split()
    if i == "CRASH skipped": return None           # harness gave up restarting after many crashes: no verdict for this case
    if i.startswith("CRASH"): return "%s crashed (model: %s)" % (name, m)
    sp = spec_pass(id_, int(w[3]), int(w[4]), [int(x) for x in w[5:]])
    if sp is False and ii[0] == "1": return "%s: the request is out of range / non-conformable but the call returned normally (slot %s)" % (name, ii[1])
    if sp is True and ii[0] == "0": return "%s: the request is valid but the call threw" % name
    if sp is False and mm[0] == "1" and id_ not in GUARD_THEN_ELEMENTS: return "%s: the assertion in the source (translated) accepts an out-of-range / non-conformable request" % name
    if ii[0] == "7": return None if True else ""        # allocation refused: reported by an exception
    if mm[0] == "4": return "%s: the translated guard holds but the translated index %s lies outside the buffer" % (name, mm[1])
    if id_ in GUARD_THEN_ELEMENTS:
        if mm[0] == "0" and ii[0] != "0": return "%s: the range assertion (translated) fails but the call did not throw" % name
        return None
    if mm[0] != ii[0]:
        return "%s: translated guard says %s, the call %s" % (name, "pass" if mm[0] == "1" else "throw", "returned" if ii[0] == "1" else "threw (class %s)" % ii[0])
    if mm[0] == "1" and mm[1] != "-1" and mm[1] != ii[1]:
        return "%s: translated index formula gives slot %s, the accessor used slot %s" % (name, mm[1], ii[1])
    return None

def main(replay=None):
    ck = core.Check(PROP, "proof")
    quick = ck.tier != "thorough"
    bdir, hb = ck.prepare("Props/Properties_C18.v", "h_c18.cpp")
    if hb is None or any(v[0] == "extract" for v in ck.violations):
        return ck.finish()
    rng = ck.rng; wd = ck.workdir
    rp = json.load(open(replay)) if replay else None

    # ---------------- (a) accessors: generated guard/index vs the real call --------------------------------------
    if rp is not None: acases = rp.get("cases", []) if rp.get("kind") == "access" else []
    else:
        corpus = []
        cp = os.path.join(core.VERIF, "corpus", "C18.txt")
        if os.path.exists(cp): corpus = [l.strip() for l in open(cp) if l.strip() and not l.startswith("#")]
        acases = [c for c in corpus if c.startswith("c18 1 ")] + [gen_access(rng, 7 if quick else 40) for _ in range(6000 if quick else 40000)]
    adist = {}; amis = 0; throws = 0
    if acases:
        mo = core.run_model(acases); rc, io, err = core.run_harness(hb, acases, wd, tag="acc")
        for c, m, i in zip(acases, mo, io):
            name = ACC.get(int(c.split()[2]), ("?",))[0]; adist[name] = adist.get(name, 0) + 1
            if m.split()[0] == "0": throws += 1
            if m == "-1" or i == "-1": ck.notes.append("malformed accessor case: " + c); continue
            v = access_verdict(c, m, i)
            if v:
                amis += 1
                ck.violation("%s: %s" % (name, "guard/index"), "%s. case `%s` (id nlin ncol args) generated-definitions=`%s` implementation=`%s`" % (v, c, m, i),
                             dict(kind="access", cases=[c], model=[m], impl=[i]))
    # witness of c18_sym_access_pinned_refuted, replayed on the real code: must be reported (bad_alloc under the 3 GB limit) or succeed
    if rp is None or rp.get("kind") == "bigsym":
        wcase = ["c18 5 65536 0 65535"]
        rc, io, err = core.run_harness(hb, wcase, wd, tag="big")
        big = io[0] if io else "?"
        ok_big = big.split()[0] in ("7", "0") and (big.split()[0] != "0" or big.split()[1] == "2147516416")
        if not ok_big:
            ck.violation("SymMatrix(65536)(0,65535)", "witness of c18_sym_access_pinned_refuted reproduces: SymMatrix S(65536); S(0,65535)=1 -> `%s` (expected: allocation of 2147516416 values refused or granted; the 32-bit size formula allocates 32768 values and the write lands 17 GB past them)" % big,
                         dict(kind="bigsym", cases=wcase, impl=io))
    else: big = "-"

    # ---------------- (b) lookups and unopenable / unknown inputs ---------------------------------------------------
    ldist = {}; lmis = 0
    if rp is None or rp.get("kind") in ("lookup", "io"):
        m3 = models.nested([0.8, 0.9, 1.0], [1.0, 0.0125, 1.0], level=0, names=["cortex", "skull", "scalp"])
        mdir = os.path.join(wd, "head"); g, cnd = models.write_model(m3, mdir)
        present = dict(mesh=[x[0] for x in m3["meshes"]], interface=[x[0] for x in m3["interfaces"]], domain=[x[0] for x in m3["domains"]])
        allnames = sorted(set(sum(present.values(), [])))
        absent = ["", "nosuch", "Cortex", "cortex ", " cortex", "corte", "cortexx", "I3", "D9", "air", "0", "cortex\t"]
        table = allnames + [a for a in absent if a not in allnames]
        ident = {s: k for k, s in enumerate(table)}
        lcases = []; lmodel = []
        for kind, cat in ((0, "mesh"), (1, "mesh"), (2, "interface"), (3, "domain")):
            for s in table:
                lcases.append("c18 2 %d %d" % (kind, ident[s]))
                lmodel.append("c18 2 %d %s" % (ident[s], " ".join(str(ident[x]) for x in present[cat])))
        env = {"C18_GEOM": g, "C18_COND": cnd, "C18_NAMES": "\x1f".join(table)}
        lm = core.run_model(lmodel); rc, li, err = core.run_harness(hb, lcases, wd, tag="lk", env=env)
        for c, m, i in zip(lcases, lm, li):
            kind = ["mesh", "mesh const", "interface", "domain"][int(c.split()[2])]; ldist["lookup " + kind] = ldist.get("lookup " + kind, 0) + 1
            name = table[int(c.split()[3])]
            mc, ic = m.split()[0], i.split()[0]
            okpos = (mc != "0") or kind == "interface" or m.split()[1] == i.split()[1]
            if mc != ic or not okpos:
                lmis += 1
                what = "returned an object" if ic == "0" else "fabricated a different object" if ic == "9" else "ended in class " + ic
                ck.violation("lookup %s(%r)" % (kind, name), "Geometry::%s(\"%s\") %s; required: %s (names present: %s)" % (kind.split()[0], name, what, "throw" if mc == "2" else "the object at position " + m.split()[-1], present),
                             dict(kind="lookup", cases=[c], model=[m], impl=[i], names=table))
        # prepared paths
        pd = os.path.join(wd, "paths"); os.makedirs(pd, exist_ok=True)
        def put(name, data):
            p = os.path.join(pd, name); open(p, "wb").write(data); return p
        good_txt = put("good.txt", b"1 2\n3 4\n"); good_vec = put("vec.txt", b"1\n2\n3\n")
        paths = [("missing", os.path.join(pd, "missing.txt")), ("directory", pd), ("empty known suffix", put("empty.txt", b"")),
                 ("text garbage, known suffix", put("garbage.txt", b"hello world\n")), ("unknown suffix, no content", put("empty.xyz", b"")),
                 ("no suffix, no content", put("nosuffix", b"")), ("missing dir for output", os.path.join(pd, "nodir", "out.txt")),
                 ("good matrix", good_txt), ("good vector", good_vec), ("unknown suffix geometry", put("model.xyz", b"x")),
                 ("missing geometry", os.path.join(pd, "missing.geom")), ("missing mesh", os.path.join(pd, "missing.tri")),
                 ("mesh with unknown suffix", put("mesh.xyz", b"x")), ("missing cond", os.path.join(pd, "missing.cond")),
                 ("writable output", os.path.join(pd, "out.txt")), ("output with unknown suffix", os.path.join(pd, "out.xyz"))]
        pidx = {n: k for k, (n, _) in enumerate(paths)}
        # (what, path name) -> expected outcome class as model case: load: c18 3 opens known ok sniffable ; save: c18 4 opens
        plan = []
        for what in (0, 1, 2, 3, 8):        # content problems (empty / garbage files) belong to C19, not here
            plan += [(what, "missing", "c18 3 0 1 0 0"), (what, "directory", "c18 3 1 0 0 0")]
        for what in (0, 1, 2):
            plan += [(what, "unknown suffix, no content", "c18 3 1 0 0 0"), (what, "no suffix, no content", "c18 3 1 0 0 0")]
        plan += [(0, "good matrix", "c18 3 1 1 1 1"), (1, "good vector", "c18 3 1 1 1 1"),
                 (4, "missing geometry", "c18 3 0 1 0 0"), (4, "unknown suffix geometry", "c18 3 1 0 0 0"), (4, "directory", "c18 3 1 0 0 0"),
                 (5, "missing mesh", "c18 3 0 1 0 0"), (5, "mesh with unknown suffix", "c18 3 1 0 0 0"), (5, "no suffix, no content", "c18 3 1 0 0 0"),
                 (9, "missing cond", "c18 3 0 1 0 0"),
                 (6, "missing dir for output", "c18 4 0"), (7, "missing dir for output", "c18 4 0"), (6, "directory", "c18 4 0"),
                 (6, "writable output", "c18 4 1"), (7, "writable output", "c18 4 1"), (6, "output with unknown suffix", "c18 4 1")]
        WHAT = {0: "Matrix::load", 1: "Vector::load", 2: "SymMatrix::load", 3: "SparseMatrix::load", 4: "Geometry::load", 5: "Mesh::load",
                6: "Matrix::save", 7: "Vector::save", 8: "maths::info", 9: "Geometry::load(cond)"}
        if rp is not None and rp.get("kind") == "io": plan = [tuple(x) for x in rp["plan"]]
        icases = ["c18 3 %d %d" % (w, pidx[p]) for w, p, _ in plan]
        env2 = dict(env); env2["C18_PATHS"] = "\x1f".join(p for _, p in paths)
        im = core.run_model([mc for _, _, mc in plan]); rc, ii, err = core.run_harness(hb, icases, wd, tag="io", env=env2)
        for (w, p, mc), m, i in zip(plan, im, ii):
            ldist[WHAT[w]] = ldist.get(WHAT[w], 0) + 1
            exp_ok = (m.split()[0] == "0"); got_ok = (i.split()[0] == "0")
            if i.startswith("CRASH") or exp_ok != got_ok:
                lmis += 1
                ck.violation("%s(%s)" % (WHAT[w], p), "%s on `%s` %s; required: %s" % (WHAT[w], p, "crashed" if i.startswith("CRASH") else "returned normally" if got_ok else "ended in exception class " + i.split()[0], "success" if exp_ok else "an exception"),
                             dict(kind="io", plan=[[w, p, mc]], impl=[i]))

    # ---------------- (c) write faults -------------------------------------------------------------------------------------
    wdist = {}; wmis = 0; wexact = 0; wn = 0
    KN = {0: "Vector", 1: "Matrix", 2: "SymMatrix", 3: "SparseMatrix", 4: "Matrix(2 x n)", 5: "Matrix(n x 2)"}; FM = ["txt", "bin", "tex", "mat"]
    if rp is None or rp.get("kind") == "write":
        combos = [(0, 0), (0, 1), (1, 0), (1, 1), (1, 2), (2, 0), (2, 1), (3, 0), (3, 1)]
        probe = []
        for kind, fmt in combos:
            for n in ([3, 40] if quick else [1, 3, 40, 300]):
                probe.append((kind, fmt, n))
        # wide and tall matrices (kinds 4, 5): lines longer than the stream buffer, totals below and above 8 KB; large vectors / symmetric
        for fmt in (0, 1, 2):
            for kind, n in ((4, 300), (4, 2500), (5, 300), (5, 2500)): probe.append((kind, fmt, n))
        for fmt in (0, 1): probe += [(0, fmt, 3000), (2, fmt, 90)]
        pc = ["c18 4 %d %d %d -3" % p for p in probe]
        rc, po, err = core.run_harness(hb, pc, wd, tag="wp")
        wcases = []; wmodel = []; meta = []
        for (kind, fmt, n), o in zip(probe, po):
            t = o.split()
            if t[0] != "0" or int(t[1]) <= 0:
                ck.violation("save %s.%s n=%d without fault" % (KN[kind], FM[fmt], n), "an unfaulted save failed: `%s`" % o, dict(kind="write", wcases=["c18 4 %d %d %d -3" % (kind, fmt, n)], impl=[o])); continue
            total = int(t[1])
            ks = sorted(set([0, 1, 3, 4, 7, 8, 9, total - 1, total // 2, total, total + 5] + [rng.randint(0, total) for _ in range(6 if quick else 40)]))
            if total > 8192: ks = sorted(set(ks + [1023, 1024, 1025, 4096, 8191, 8192, 8193, total - 8192, total - 1024]))
            for k in ks + [-1, -2]:
                wcases.append("c18 4 %d %d %d %d" % (kind, fmt, n, k)); meta.append((kind, fmt, n, k, total))
                opens = 0 if k == -2 else 1; cap = 0 if k == -1 else (10 ** 12 if k == -2 else k)
                wmodel.append("c18 5 %d %d %d" % (opens, cap, total))
        if rp is not None:
            wcases = rp.get("wcases", []); meta = [tuple(x) for x in rp.get("meta", [])]; wmodel = rp.get("wmodel", [])
        if wcases:
            wm = core.run_model(wmodel); rc, wi, err = core.run_harness(hb, wcases, wd, tag="wf")
            for c, (kind, fmt, n, k, total), m, i in zip(wcases, meta, wm, wi):
                nm = "%s.%s" % (KN[kind], FM[fmt]); wdist[nm] = wdist.get(nm, 0) + 1; wn += 1
                if i.startswith("CRASH"):
                    wmis += 1; ck.violation("save %s crash k=%d" % (nm, k), "save crashed under a write fault: `%s`" % c, dict(kind="write", wcases=[c], meta=[[kind, fmt, n, k, total]], wmodel=wmodel[:0], impl=[i])); continue
                exp_ok = m.split()[0] == "0"; got_ok = i.split()[0] == "0"; size = int(i.split()[-1])
                fault = "device full after %d of %d bytes (RLIMIT_FSIZE)" % (k, total) if k >= 0 else "/dev/full" if k == -1 else "directory does not exist"
                if exp_ok != got_ok:
                    wmis += 1
                    ck.violation("%s::save onto a full device returns normally" % KN[kind] if (got_ok and not exp_ok) else "%s::save fails without a fault" % KN[kind],
                                 "%s(%d).save(\"wf_out.%s\") with %s %s (file holds %d bytes); required: %s" % (KN[kind], n, FM[fmt], fault, "returned normally" if got_ok else "threw", size, "success" if exp_ok else "an exception"),
                                 dict(kind="write", wcases=[c], meta=[[kind, fmt, n, k, total]], wmodel=[wmodel[wcases.index(c)]] if c in wcases and wmodel else [], impl=[i]))
                elif k >= 0 and size > k and not exp_ok:
                    wmis += 1
                    ck.violation("save %s wrote beyond the limit" % nm, "file holds %d bytes with a limit of %d" % (size, k), dict(kind="write", wcases=[c], meta=[[kind, fmt, n, k, total]], impl=[i]))
                if k >= 0 and size == int(m.split()[1]): wexact += 1
                elif k >= 0 and exp_ok == got_ok:
                    wmis += 1
                    ck.violation("save %s: file size differs from the stream model" % nm, "%s(%d).save(\"wf_out.%s\") with %s left %d bytes, the capacity-limited stream model says %s" % (KN[kind], n, FM[fmt], fault, size, m.split()[1]),
                                 dict(kind="write", wcases=[c], meta=[[kind, fmt, n, k, total]], wmodel=[wmodel[wcases.index(c)]], impl=[i]))
        # MATLAB (.mat through matio/HDF5): not a stream writer.  Faults are reported by the HDF5 error callback of MatlabIO
        # (MatioError).  Separate harness run (an exception thrown through HDF5 frames may upset later HDF5 calls); sizes not compared.
        # (/dev/full through a symlink is no fault for this writer: it removes the name and creates a regular file.)
        if rp is None:
            mp = ["c18 4 %d 3 %d -3" % (kind, n) for kind in (0, 1, 2, 3) for n in (3, 40)]
            rc, mo_, err = core.run_harness(hb, mp, wd, tag="wm0")
            mcases = []
            for c, o in zip(mp, mo_):
                t = o.split()
                if t[0] != "0" or int(t[1]) <= 0: continue
                total = int(t[1]); w = c.split()
                for k in (0, 100, total // 2, total - 1):
                    mcases.append(("c18 4 %s 3 %s %d" % (w[2], w[4], k), total, k))
            rc, mi, err = core.run_harness(hb, [c for c, _, _ in mcases], wd, tag="wm")
            for (c, total, k), i in zip(mcases, mi):
                wdist["*.mat"] = wdist.get("*.mat", 0) + 1; wn += 1
                if i.startswith("CRASH") or i.split()[0] == "0":
                    wmis += 1
                    ck.violation("save .mat under a size limit: %s" % ("crash" if i.startswith("CRASH") else "returns normally"),
                                 "`%s` (kind fmt=mat n k): file-size limit %d of %d bytes -> `%s`; required: an exception" % (c, k, total, i),
                                 dict(kind="write", wcases=[c], meta=[[int(c.split()[2]), 3, int(c.split()[4]), k, total]], wmodel=["c18 5 1 %d %d" % (k, total)], impl=[i]))


    # ---------------- (d) strict format selection by suffix / name ---------------------------------------------------------
    sdist = {}; smis = 0
    if rp is None or rp.get("kind") in ("suffix", "tool"):
        # the registered suffixes and identities, read from the current sources
        inc = os.path.join(ombuild.REPO, "OpenMEEGMaths")
        reg = {}; ident = {}
        for hdr in sorted(glob.glob(os.path.join(inc, "include", "*IO.H"))):
            cls = os.path.basename(hdr)[:-2]
            if cls in ("MathsIO",): continue
            sf = re.findall(r'push_back\(\s*"(\w+)"\s*\)', open(hdr).read())
            csrc = os.path.join(inc, "src", cls + ".C")
            idm = re.search(r'Identity\(\s*"(\w+)"\s*\)', open(csrc).read()) if os.path.exists(csrc) else None
            if sf and idm:
                ident[cls] = idm.group(1)
                for x in sf: reg[x] = idm.group(1)
        FID = {"ascii": 0, "binary": 1, "tex": 2, "matlab": 3}
        if len(reg) < 4 or any(v not in FID for v in reg.values()):
            ck.violation("suffix-table", "cannot read the registered suffixes / identities from OpenMEEGMaths/include/*IO.H: %s" % reg, dict(kind="suffix"), found_input=False)
        else:
            variants = []
            for sx in sorted(reg):
                variants += [sx, sx + "~", sx + "2", sx + "x", sx[:-1], sx.upper(), sx.capitalize(), sx[0] + sx, sx + sx]
            variants += ["", "xyz", "dat"]
            sd = os.path.join(wd, "sfx"); os.makedirs(sd, exist_ok=True)
            names = [os.path.join(sd, "f." + v) for v in variants] + [os.path.join(sd, "nosuffix")]
            sid = {}
            def idof(x): return sid.setdefault(x, 100 + len(sid))
            table = []
            for sx in sorted(reg): table += [idof(sx), FID[reg[sx]]]
            fmt_names = sorted(FID) + [x.upper() for x in sorted(FID)] + [x[:-1] for x in sorted(FID)] + [x + "2" for x in sorted(FID)] + ["", "default "]
            allnames = names + fmt_names
            scases = []; smodel = []; slabel = []
            for k, nme in enumerate(names):
                base = os.path.basename(nme); dot = "." in base; sx = base.split(".", 1)[1] if dot else ""
                scases.append("c18 7 0 %d" % k); smodel.append("c18 7 %d %d %s" % (1 if dot else 0, idof(sx), " ".join(map(str, table)))); slabel.append(("format_from_suffix", base))
            for j, fn in enumerate(fmt_names):
                scases.append("c18 7 1 %d" % (len(names) + j)); slabel.append(("format", fn))
                smodel.append("c18 7 1 %d %s" % (idof("#" + fn), " ".join(str(x) for nm in sorted(FID) for x in (idof("#" + nm), FID[nm]))))
            envs = {"C18_SUFFIX_NAMES": "\x1f".join(allnames)}
            sm = core.run_model(smodel); rc, si, err = core.run_harness(hb, scases, wd, tag="sfx", env=envs)
            for (fn, arg), c, m, i in zip(slabel, scases, sm, si):
                sdist[fn] = sdist.get(fn, 0) + 1
                mt, it = m.split(), i.split()
                ok = (mt[0] == "0" and it[0] == "0" and mt[1] == it[1]) or (mt[0] != "0" and it[0] not in ("0",) and not i.startswith("CRASH"))
                if not ok:
                    smis += 1
                    ck.violation("%s(%r)" % (fn, arg), "MathsIO::%s(\"%s\") %s; required: %s (registered suffixes %s)" % (fn, arg, "selected format #%s" % it[1] if it[0] == "0" else "ended as " + i, "format #%s" % mt[1] if mt[0] == "0" else "an exception (unknown suffix / format name)", reg),
                                 dict(kind="suffix", cases=[c], model=[m], impl=[i], names=allnames))
            # Matrix::save by name: a registered suffix selects its format, anything else falls back to the default choice
            vcases = ["c18 7 2 %d" % k for k in range(len(names))]
            rc, vi, err = core.run_harness(hb, vcases, wd, tag="sfs", env=envs)
            fallback = None
            for nme, o in zip(names, vi):
                if os.path.basename(nme) == "f.xyz" and o.split()[0] == "0": fallback = o.split()[1]
            for nme, c, o in zip(names, vcases, vi):
                base = os.path.basename(nme); sx = base.split(".", 1)[1] if "." in base else None
                sdist["Matrix::save(name)"] = sdist.get("Matrix::save(name)", 0) + 1
                want = str(FID[reg[sx]]) if sx in reg else fallback
                if o.startswith("CRASH") or o.split()[0] != "0" or (want is not None and o.split()[1] != want):
                    smis += 1
                    ck.violation("Matrix::save(%r) format" % base, "Matrix::save(\"%s\") wrote format class %s; required: %s" % (base, o, ("the format registered for ." + sx) if sx in reg else "the default choice for an unknown suffix (class %s, as for f.xyz)" % fallback),
                                 dict(kind="suffix", cases=[c], impl=[o], names=allnames))
            # om_matrix_convert -o : strict
            tool = os.path.join(bdir, "apps", "tools", "om_matrix_convert")
            src_txt = os.path.join(sd, "in.txt"); open(src_txt, "w").write("1 2 3\n4 5 6\n")
            tenv = dict(os.environ); tenv.update(OMP_NUM_THREADS="1", OPENBLAS_NUM_THREADS="1")
            libs = ombuild.find_libs(bdir); tenv["LD_LIBRARY_PATH"] = ":".join(sorted({os.path.dirname(x) for x in libs.values()})) + ":" + tenv.get("LD_LIBRARY_PATH", "")
            for v in variants:
                outp = os.path.join(sd, "conv." + v)
                if os.path.exists(outp): os.remove(outp)
                pr = subprocess.run([tool, "-i", src_txt, "-o", outp], stdout=subprocess.PIPE, stderr=subprocess.PIPE, env=tenv, timeout=60)
                sdist["om_matrix_convert -o"] = sdist.get("om_matrix_convert -o", 0) + 1
                if (pr.returncode == 0) != (v in reg):
                    smis += 1
                    ck.violation("om_matrix_convert -o conv.%s" % v, "om_matrix_convert -i in.txt -o conv.%s exited with status %d; required: %s" % (v, pr.returncode, "0" if v in reg else "non-zero (unknown suffix)"),
                                 dict(kind="tool", argv=["om_matrix_convert", "-i", "in.txt", "-o", "conv." + v], status=pr.returncode))

    # ---------------- (e) the other writers: Mesh::save (5 formats), Geometry::save, Sensors::save, conversion tools -----------
    xdist = {}; xmis = 0
    WR = {0: "Mesh::save(.tri)", 1: "Mesh::save(.bnd)", 2: "Mesh::save(.off)", 3: "Mesh::save(.mesh)", 4: "Mesh::save(.vtk)", 5: "Geometry::save(.geom)", 6: "Sensors::save"}
    FAULT = {-1: "/dev/full", -2: "missing directory", -4: "path below a regular file", -5: "the name is an existing directory"}
    if rp is None or rp.get("kind") in ("writer", "tool"):
        m3 = models.nested([0.8, 0.9, 1.0], [1.0, 0.0125, 1.0], level=0, names=["cortex", "skull", "scalp"])
        mdir = os.path.join(wd, "head2"); g2, c2 = models.write_model(m3, mdir)
        sp = os.path.join(mdir, "sens.txt"); open(sp, "w").write("0.1 0.2 1.1\n0.3 -0.2 1.05\n-0.4 0.1 1.0\n")
        mL = models.nested([0.8, 0.9, 1.0], [1.0, 0.0125, 1.0], level=3, names=["cortex", "skull", "scalp"])
        gL, cL = models.write_model(mL, os.path.join(wd, "head2L"))
        envw = {"C18_GEOM": g2, "C18_COND": c2, "C18_SENSORS": sp, "C18_GEOM_L": gL, "C18_COND_L": cL}
        probes = [(w, 0) for w in WR] + [(w, 1) for w in range(5)]        # every writer small (< 8 KB); mesh writers also large
        rc, po, err = core.run_harness(hb, ["c18 6 %d -3 %d" % p for p in probes], wd, tag="xp", env=envw)
        xc = []; xm = []; xmeta = []
        for (w, big), o in zip(probes, po):
            t = o.split()
            if t[0] != "0" or int(t[1]) <= 0:
                if w == 4: continue                 # vtk writer not available in this build
                ck.violation("%s without fault" % WR[w], "an unfaulted save failed: `%s`" % o, dict(kind="writer", cases=["c18 6 %d -3 %d" % (w, big)], impl=[o])); continue
            total = int(t[1])
            kk = [0, 1, total // 2, total - 1, total, total + 5] + [rng.randint(0, total) for _ in range(3)] + ([4096, 8191, 8192, 8193, total - 8192, total - 100] if total > 8192 else [])
            for k in sorted(set(x for x in kk if x >= 0)) + [-1, -2, -4, -5]:
                xc.append("c18 6 %d %d %d" % (w, k, big)); xmeta.append((w, k, total))
                xm.append("c18 5 %d %d %d" % (0 if k in (-2, -4, -5) else 1, 0 if k == -1 else (10 ** 12 if k < 0 else k), total))
        if rp is not None and rp.get("kind") == "writer": xc = rp["cases"]; xm = rp["model_cases"]; xmeta = [tuple(x) for x in rp["meta"]]
        if xc:
            mm = core.run_model(xm); rc, xi, err = core.run_harness(hb, xc, wd, tag="xw", env=envw)
            for c, mc, (w, k, total), m, i in zip(xc, xm, xmeta, mm, xi):
                xdist[WR[w]] = xdist.get(WR[w], 0) + 1
                exp_ok = m.split()[0] == "0"; got_ok = i.split()[0] == "0"
                fault = "device full after %d of %d bytes (RLIMIT_FSIZE)" % (k, total) if k >= 0 else FAULT[k]
                if i.startswith("CRASH") or exp_ok != got_ok:
                    xmis += 1
                    ck.violation("%s: %s" % (WR[w], "fault not reported" if got_ok else "fails without fault" if not i.startswith("CRASH") else "crash"),
                                 "%s with %s %s (file holds %s bytes); required: %s" % (WR[w], fault, "crashed" if i.startswith("CRASH") else "returned normally" if got_ok else "threw", i.split()[-1], "success" if exp_ok else "an exception"),
                                 dict(kind="writer", cases=[c], model_cases=[mc], meta=[[w, k, total]], impl=[i]))
                elif k >= 0 and int(i.split()[-1]) > max(k, 0) and not exp_ok:
                    xmis += 1
                    ck.violation("%s wrote beyond the limit" % WR[w], "file holds %s bytes with a limit of %d" % (i.split()[-1], k), dict(kind="writer", cases=[c], model_cases=[mc], meta=[[w, k, total]], impl=[i]))
        # conversion tools: exit status under the same faults
        tdir = os.path.join(wd, "tools"); os.makedirs(tdir, exist_ok=True)
        tenv = dict(os.environ); tenv.update(OMP_NUM_THREADS="1", OPENBLAS_NUM_THREADS="1")
        libs = ombuild.find_libs(bdir); tenv["LD_LIBRARY_PATH"] = ":".join(sorted({os.path.dirname(x) for x in libs.values()})) + ":" + tenv.get("LD_LIBRARY_PATH", "")
        tri = os.path.join(mdir, "cortex.tri"); tri2 = os.path.join(mdir, "skull.tri")
        mtx = os.path.join(tdir, "in.txt"); open(mtx, "w").write("1 2 3\n4 5 6\n")
        open(os.path.join(tdir, "regular"), "w").write("x")
        TOOLS = {"om_mesh_convert": lambda o: ["-i", tri, "-o", o], "om_mesh_concat": lambda o: ["-i1", tri, "-i2", tri2, "-o", o],
                 "om_matrix_convert": lambda o: ["-i", mtx, "-o", o]}
        for tname, mk in TOOLS.items():
            exe = os.path.join(bdir, "apps", "tools", tname); sfx = "txt" if tname == "om_matrix_convert" else "tri"
            for fk in ("none", "limit0", "limit10", "devfull", "missingdir", "belowfile", "isdir"):
                outp = os.path.join(tdir, "t_out." + sfx)
                for pth in (outp,):
                    if os.path.islink(pth) or os.path.isfile(pth): os.remove(pth)
                    elif os.path.isdir(pth): os.rmdir(pth)
                lim = None
                if fk == "devfull": os.symlink("/dev/full", outp)
                if fk == "missingdir": outp = os.path.join(tdir, "nodir", "t_out." + sfx)
                if fk == "belowfile": outp = os.path.join(tdir, "regular", "t_out." + sfx)
                if fk == "isdir": os.mkdir(outp)
                if fk.startswith("limit"): lim = int(fk[5:])
                def pre(lim=lim):
                    signal.signal(signal.SIGXFSZ, signal.SIG_IGN)
                    if lim is not None:
                        soft, hard = resource.getrlimit(resource.RLIMIT_FSIZE); resource.setrlimit(resource.RLIMIT_FSIZE, (lim, hard))
                try:
                    pr = subprocess.run([exe] + mk(outp), stdout=subprocess.PIPE, stderr=subprocess.PIPE, env=tenv, timeout=120, preexec_fn=pre, cwd=tdir)
                    status = pr.returncode
                except subprocess.TimeoutExpired:
                    status = "timeout"
                xdist[tname] = xdist.get(tname, 0) + 1
                if (status == 0) != (fk == "none"):
                    xmis += 1
                    ck.violation("%s -o (%s)" % (tname, fk), "%s %s with fault `%s` exited with status %s; required: %s" % (tname, " ".join(os.path.basename(x) if os.sep in x else x for x in mk(outp)), fk, status, "0" if fk == "none" else "non-zero"),
                                 dict(kind="tool", tool=tname, fault=fk, status=status))

    # ---------------- (f) exactly singular matrices: LAPACK's failure code must surface ---------------------------------------
    gdist = {}
    SING = {0: "Matrix [[1,2],[2,4]].inverse()", 1: "SymMatrix [[1,2],[2,4]].inverse()", 2: "SymMatrix [[1,2],[2,4]].solveLin(b)", 3: "SymMatrix [[1,2],[2,4]].posdefinverse()",
            4: "Matrix(2,2)=0 .inverse()", 5: "SymMatrix(2)=0 .inverse()"}
    if rp is None or rp.get("kind") == "singular":
        gc = ["c18 8 %d" % k for k in SING]
        rc, gi, err = core.run_harness(hb, gc, wd, tag="sg")
        for k, c, i in zip(SING, gc, gi):
            gdist[SING[k]] = i
            if i.startswith("CRASH") or i.split()[0] == "0":
                ck.violation("singular: %s" % SING[k], "%s returned normally (%s) although the matrix is exactly singular: the LAPACK info code is dropped" % (SING[k], "finite garbage" if i.split()[-1] == "1" else "non-finite values"),
                             dict(kind="singular", cases=[c], impl=[i]))


    # ---------------- (g) the state left by load(), failed loads included ------------------------------------------------------
    fdist = {}; fmis = 0
    OK_ = {0: "Vector(3)", 1: "Matrix(2,3)", 2: "SymMatrix(3)"}; FCL = {0: "file of another kind", 1: "truncated file", 2: "unknown suffix", 3: "missing file", 4: "empty file", 5: "valid bigger file"}
    FDIM = {0: ("7", "1"), 1: ("4", "5"), 2: ("5", "5")}
    if rp is None or rp.get("kind") == "loadstate":
        fcs = rp["cases"] if rp is not None else ["c18 9 %d %d %d" % (k, f, fc) for k in range(3) for f in range(4) for fc in range(6)]
        rc, fo, err = core.run_harness(hb, fcs, wd, tag="fl")
        for c, o in zip(fcs, fo):
            _, _, k, f, fc = [int(x) for x in c.split()[0:1] * 0 + c.split()[1:]] if False else (0, 0) + tuple(int(x) for x in c.split()[2:])
            key = "%s <- %s" % (OK_[k], FCL[fc]); t = o.split()
            fdist[key + (" : reported" if t[0] != "0" else " : loaded")] = fdist.get(key + (" : reported" if t[0] != "0" else " : loaded"), 0) + 1
            what = None
            if o.startswith("CRASH") or len(t) < 6: what = "crashed (`%s`)" % o
            elif t[3] != "1": what = "left the object claiming %s x %s with less storage than that (invariant storage = f(nlin,ncol) broken, Properties_C18.c18_load_preserves_invariant)" % (t[1], t[2])
            elif t[5] != "1": what = "left an object whose guarded element access at its reported bounds wrote outside its storage (canary overwritten)"
            elif fc == 3 and (t[0] == "0" or t[4] != "1"): what = "of a missing file %s" % ("succeeded" if t[0] == "0" else "changed the object")
            elif fc == 0 and t[0] == "0": what = "accepted a file of another kind"
            elif fc == 5 and (t[0] != "0" or (t[1], t[2]) != FDIM[k]): what = "of a valid file failed or gave dimensions %s x %s" % (t[1], t[2])
            if what:
                fmis += 1
                ck.violation("%s::load <- %s (.%s)" % (OK_[k].split("(")[0], FCL[fc], FM[f]), "%s.load(\"fl_in.%s\") [%s] %s. harness line `%s` = status nlin ncol storage_consistent unchanged canaries_ok" % (OK_[k], "xyz" if fc == 2 else FM[f], FCL[fc], what, o),
                             dict(kind="loadstate", cases=[c], impl=[o]))

    # ---------------- (h) public entry points that take a name ---------------------------------------------------------------
    ndist = {}; nmis = 0
    ENT = {0: ("DipSourceMat(geo,dipoles,domain)", "domain", True), 1: ("DipSource2InternalPotMat(geo,dipoles,points,domain)", "domain", True),
           2: ("Head2ECoGMat(geo,sensors,interface)", "interface", False), 3: ("CorticalMat(geo,M,domain)", "domain", False), 4: ("CorticalMat2(geo,M,domain)", "domain", False)}
    if rp is None or rp.get("kind") in ("named", "tool"):
        m3 = models.nested([0.8, 0.9, 1.0], [1.0, 0.0125, 1.0], level=0, names=["cortex", "skull", "scalp"])
        ndir = os.path.join(wd, "head3"); g3, c3 = models.write_model(m3, ndir)
        sp3 = os.path.join(ndir, "sens.txt"); open(sp3, "w").write("0.1 0.2 0.97\n0.3 -0.2 0.93\n-0.4 0.1 0.91\n")
        dp3 = os.path.join(ndir, "dip.txt"); open(dp3, "w").write("0 0 0.3 0 0 1\n0.2 0 0 1 0 0\n")
        pres = dict(mesh=[x[0] for x in m3["meshes"]], interface=[x[0] for x in m3["interfaces"]], domain=[x[0] for x in m3["domains"]])
        tbl = sorted(set(sum(pres.values(), []))) + ["", "nosuch", "d0", "D0 ", " D0", "D", "D00", "i0", "I0 ", "Brain", "CORTEX"]
        envn = {"C18_GEOM": g3, "C18_COND": c3, "C18_SENSORS": sp3, "C18_NAMES": "\x1f".join(tbl)}
        ncs = ["c18 10 %d %d" % (e, k) for e in ENT for k in range(len(tbl))]
        if rp is not None and rp.get("kind") == "named": ncs = rp["cases"]
        rc, no, err = core.run_harness(hb, ncs, wd, tag="ne", env=envn, timeout=1200)
        for c, o in zip(ncs, no):
            e, k = int(c.split()[2]), int(c.split()[3]); nm = tbl[k]; label, cat, optional = ENT[e]
            ndist[label] = ndist.get(label, 0) + 1
            is_present = nm in pres[cat] or (optional and nm == "")
            got_ok = o.split()[0] == "0"
            bad = o.startswith("CRASH") or (not is_present and got_ok) or (is_present and e in (0, 1, 2) and not got_ok)
            if bad:
                nmis += 1
                ck.violation("%s with name %r" % (label.split("(")[0], nm), "%s with %s name \"%s\" %s; required: %s (present: %s)" % (label, cat, nm, "crashed" if o.startswith("CRASH") else "returned a matrix" if got_ok else "threw (class %s)" % o.split()[0], "an exception" if not is_present else "success", pres[cat]),
                             dict(kind="named", cases=[c], impl=[o], names=tbl))
        # om_assemble with names
        exe = os.path.join(bdir, "apps", "om_assemble")
        tenv = dict(os.environ); tenv.update(OMP_NUM_THREADS="1", OPENBLAS_NUM_THREADS="1")
        libs = ombuild.find_libs(bdir); tenv["LD_LIBRARY_PATH"] = ":".join(sorted({os.path.dirname(x) for x in libs.values()})) + ":" + tenv.get("LD_LIBRARY_PATH", "")
        outp = os.path.join(ndir, "asm_out.bin")
        runs = []
        for nm in ["D0", "NoSuchDomain", "d0", "I0", "D0 "]: runs.append(("-DSM", [g3, c3, dp3, outp, nm], nm in pres["domain"]))
        for nm in ["I0", "NoSuchInterface", "i0", "D0", ""]: runs.append(("-H2ECOGM", [g3, c3, sp3, nm, outp], nm in pres["interface"]))
        for nm in ["NoSuchDomain", "I0", ""]: runs.append(("-CM", [g3, c3, sp3, nm, outp], None if nm in pres["domain"] else False))
        for opt, args, expect in runs:
            if os.path.exists(outp): os.remove(outp)
            try:
                pr = subprocess.run([exe, opt] + args, stdout=subprocess.PIPE, stderr=subprocess.PIPE, env=tenv, timeout=300, cwd=ndir); status = pr.returncode
            except subprocess.TimeoutExpired:
                status = "timeout"
            ndist["om_assemble " + opt] = ndist.get("om_assemble " + opt, 0) + 1
            wrote = os.path.exists(outp)
            nm = args[4] if opt == "-DSM" else args[3]
            if expect is False and (status == 0 or wrote):
                nmis += 1
                ck.violation("om_assemble %s with name %r" % (opt, nm), "om_assemble %s ... with the absent name \"%s\" exited with status %s and %s an output file; required: non-zero exit, nothing written" % (opt, nm, status, "wrote" if wrote else "did not write"),
                             dict(kind="tool", tool="om_assemble", option=opt, name=nm, status=status, wrote=wrote))
            if expect is True and (status != 0 or not wrote):
                nmis += 1
                ck.violation("om_assemble %s with present name %r" % (opt, nm), "om_assemble %s ... with the present name \"%s\" exited with status %s" % (opt, nm, status), dict(kind="tool", tool="om_assemble", option=opt, name=nm, status=status))


    # ---------------- (i) lookups on a reused Geometry object (load A, look every name up, load B into the same object) -----------
    rdist = {}; rmis = 0
    if rp is None or rp.get("kind") == "reuse":
        mA = models.nested([0.7, 0.8, 0.9, 1.0], [1.0, 0.0125, 1.0, 0.3], level=0, names=["cortex", "csf", "skull", "scalp"])
        mB = models.nested([0.8, 1.0], [1.0, 0.3], level=1, names=["inner", "scalp"])
        for mm, pre in ((mB, "R"),):       # B's interfaces / domains get their own names so that A's are absent in B
            mm["interfaces"] = [(pre + n, ms) for n, ms in mm["interfaces"]]
            mm["domains"] = [(pre + n if n != "Air" else n, [(sg, pre + i) for sg, i in bs]) for n, bs in mm["domains"]]
            mm["cond"] = {(pre + k if k != "Air" else k): v for k, v in mm["cond"].items()}
        gA, cA = models.write_model(mA, os.path.join(wd, "reuseA")); gB, cB = models.write_model(mB, os.path.join(wd, "reuseB"))
        namesA = sorted(set([x[0] for x in mA["meshes"]] + [x[0] for x in mA["interfaces"]] + [x[0] for x in mA["domains"]]))
        presB = dict(mesh=[x[0] for x in mB["meshes"]], interface=[x[0] for x in mB["interfaces"]], domain=[x[0] for x in mB["domains"]])
        nvB = {x[0]: len(x[1]) for x in mB["meshes"]}
        tblr = sorted(set(namesA + sum(presB.values(), []))) + ["", "nosuch", "Scalp", "scalp ", "inne"]
        envr = {"C18_GEOM": gA, "C18_COND": cA, "C18_GEOM_B": gB, "C18_COND_B": cB, "C18_NAMES": "\x1f".join(tblr)}
        rcs = ["c18 11 %d %d" % (kd, k) for kd in range(4) for k in range(len(tblr))]
        if rp is not None: rcs = rp["cases"]
        idr = {sname: k for k, sname in enumerate(tblr)}
        rmodel = ["c18 2 %d %s" % (idr[tblr[int(c.split()[3])]], " ".join(str(idr[x]) for x in presB[["mesh", "mesh", "interface", "domain"][int(c.split()[2])]])) for c in rcs]
        rm = core.run_model(rmodel); rc, ro, err = core.run_harness(hb, rcs, wd, tag="ru", env=envr)
        for c, m, o in zip(rcs, rm, ro):
            kd, k = int(c.split()[2]), int(c.split()[3]); cat = ["mesh", "mesh", "interface", "domain"][kd]; nm = tblr[k]
            rdist["reused " + ["mesh()", "mesh() const", "interface()", "domain()"][kd]] = rdist.get("reused " + ["mesh()", "mesh() const", "interface()", "domain()"][kd], 0) + 1
            t = o.split(); mt = m.split(); what = None
            if o.startswith("CRASH"): what = "crashed"
            elif mt[0] != "0" and t[0] == "0": what = "returned an object (position %s) although the name is absent from the model now loaded" % t[1]
            elif t[0] == "9": what = "returned the object at position %s, which carries another name" % t[1]
            elif mt[0] == "0" and t[0] != "0": what = "threw although the name is present"
            elif mt[0] == "0" and cat != "interface" and t[1] != mt[1]: what = "returned position %s instead of %s" % (t[1], mt[1])
            elif mt[0] == "0" and cat == "mesh" and int(t[2]) != nvB[nm]: what = "returned a mesh with %s vertices instead of %d" % (t[2], nvB[nm])
            if what:
                rmis += 1
                ck.violation("reused Geometry::%s(%r)" % (cat, nm), "after load(A: %s), a lookup of every name and load(B: %s) into the same object, Geometry::%s(\"%s\") %s; required: %s" % (
                                 [x[0] for x in mA["meshes"]], presB, cat, nm, what, "throw" if mt[0] != "0" else "the %s of that name" % cat),
                             dict(kind="reuse", cases=[c], model=[m], impl=[o], names=tblr))


    # ---------------- (j) exception codes as exit statuses ------------------------------------------------------------------------
    edist = {}; emis = 0
    if rp is None or rp.get("kind") in ("exitcode", "tool"):
        sys.path.insert(0, os.path.join(core.VERIF, "translators"))
        import t_exitcodes
        try:
            allcodes = t_exitcodes.codes(ombuild.REPO)
        except Exception as ex:
            allcodes = {}; ck.violation("exit-codes", "cannot read the ExceptionCode enums: %s" % ex, dict(kind="exitcode"), found_input=False)
        for enum, es in allcodes.items():
            for nm, v in es:
                edist["enumerators"] = edist.get("enumerators", 0) + 1
                if v % 256 == 0 or not (0 < v < 256):
                    emis += 1
                    ck.violation("exit status of %s::%s" % (enum, nm), "exception code %s::%s = %d: a tool that returns e.code() (om_minverser, om_matrix_convert, om_geometry_info) exits with status %d for this failure%s" % (enum, nm, v, v % 256, " = SUCCESS" if v % 256 == 0 else ""),
                                 dict(kind="exitcode", enum=enum, enumerator=nm, value=v))
        # every tool that maps exceptions to its exit status, driven through many kinds of unusable input
        xd = os.path.join(wd, "exitc"); os.makedirs(xd, exist_ok=True)
        def putf(name, data):
            pth = os.path.join(xd, name); open(pth, "wb").write(data); return pth
        bad_inputs = [("missing", os.path.join(xd, "missing.txt")), ("empty text", putf("empty.txt", b"")), ("words", putf("words.txt", b"hello world\n")),
                      ("ragged 3/5", putf("r35.txt", b"1 2 3\n4 5 6 7 8\n")), ("ragged 3/1", putf("r31.txt", b"1 2 3\n4\n")), ("ragged 2/4/1", putf("r241.txt", b"1 2\n3 4 5 6\n7\n")),
                      ("ragged 4/2", putf("r42.txt", b"1 2 3 4\n5 6\n")), ("number then word", putf("nw.txt", b"1 2 3\n4 x 6\n")), ("one value", putf("one.txt", b"7\n")),
                      ("3-byte binary", putf("b3.bin", b"\x01\x02\x03")), ("binary header only", putf("hdr.bin", b"\x05\x00\x00\x00")), ("binary inconsistent", putf("inc.bin", b"\x05\x00\x00\x00" + b"\x00" * 13)),
                      ("garbage mat", putf("g.mat", b"not a matlab file")), ("garbage tex", putf("g.tex", b"ascii\nFLOAT\nxx\n")), ("unknown suffix garbage", putf("g.xyz", b"\xff\xfe\x00garbage")),
                      ("directory", xd)]
        good = putf("good.txt", b"4 1\n1 3\n")
        tenv = dict(os.environ); tenv.update(OMP_NUM_THREADS="1", OPENBLAS_NUM_THREADS="1")
        libs = ombuild.find_libs(bdir); tenv["LD_LIBRARY_PATH"] = ":".join(sorted({os.path.dirname(x) for x in libs.values()})) + ":" + tenv.get("LD_LIBRARY_PATH", "")
        TL = {"om_matrix_convert": (os.path.join(bdir, "apps", "tools", "om_matrix_convert"), lambda i, o: ["-i", i, "-o", o]),
              "om_minverser": (os.path.join(bdir, "apps", "om_minverser"), lambda i, o: [i, o]),
              "om_matrix_info": (os.path.join(bdir, "apps", "tools", "om_matrix_info"), lambda i, o: [i])}
        runs = [(t, lab, pth, os.path.join(xd, "out.txt")) for t in TL for lab, pth in bad_inputs]
        runs += [("om_matrix_convert", "good input, output suffix " + sx, good, os.path.join(xd, "out." + sx)) for sx in ("xyz", "", "txt~", "BIN")]
        runs += [("om_matrix_convert", "good input, output in a missing directory", good, os.path.join(xd, "nodir", "o.txt"))]
        for tname, lab, pth, outp in runs:
            exe, mk = TL[tname]
            if not os.path.exists(exe): continue
            if os.path.isfile(outp): os.remove(outp)
            try:
                pr = subprocess.run([exe] + mk(pth, outp), stdout=subprocess.PIPE, stderr=subprocess.PIPE, env=tenv, timeout=120, cwd=xd); status = pr.returncode
                said = (pr.stderr + pr.stdout).decode(errors="replace")
            except subprocess.TimeoutExpired:
                status = "timeout"; said = ""
            edist[tname] = edist.get(tname, 0) + 1
            complained = re.search(r"Exception|Unable to|Error|error|Cannot|Unexpected", said) is not None
            wrote = os.path.isfile(outp)
            needs_out = tname != "om_matrix_info"
            if status == 0 and (complained or (needs_out and not wrote)):
                emis += 1
                msg = [l for l in said.split("\n") if re.search(r"Exception|Unable|rror|Cannot|Unexpected", l)][:1]
                ck.violation("%s exits 0 on %s" % (tname, lab), "%s %s printed `%s`, %s, and exited with status 0; required: a non-zero exit status" % (tname, " ".join(os.path.basename(a) if os.sep in a else a for a in mk(pth, outp)), (msg or ["<nothing>"])[0][:120], "wrote no output file" if not wrote else "wrote an output file"),
                             dict(kind="exitcode", tool=tname, input=lab, status=status))

    # ---------------- (k) non-conformable operands of the other container pairs (guards implicit in the accessors) -----------------
    kdist = {}; kmis = 0
    BIN = {60: "SparseMatrix*Vector", 61: "SparseMatrix*Matrix", 62: "SparseMatrix*SymMatrix", 63: "SparseMatrix*SparseMatrix", 64: "SparseMatrix+SparseMatrix",
           65: "Matrix*SparseMatrix", 66: "FastSparseMatrix*Vector", 67: "SparseMatrix::transpose()*Vector", 68: "SparseMatrix::setlin",
           70: "SymMatrix(const Matrix&)", 71: "Matrix(const SymMatrix&)", 72: "Vector(const Matrix&)", 73: "Matrix(const Vector&,M,N)", 74: "Matrix(const SparseMatrix&)",
           75: "SymMatrix(const Vector&)", 76: "Vector(const SymMatrix&)"}
    def bin_spec(id_, n, c, a):
        if id_ in (60, 66): return a[0] == c
        if id_ == 67: return a[0] == n
        if id_ in (61, 63): return a[0] == c
        if id_ == 62: return a[0] == c
        if id_ == 64: return a[0] == n and a[1] == c
        if id_ == 65: return a[0] == c                  # Matrix(n,c) * Sparse(bn,bm): c == bn
        if id_ == 68: return (None if a[1] < c else True) if (a[0] < n and a[1] <= c) else False
        if id_ == 70: return n <= c or n == 0           # the upper triangle of the first nlin columns must exist
        if id_ in (71, 72, 74, 76): return True
        if id_ == 73: return a[0] == n * c
        if id_ == 75: return any(m * (m + 1) // 2 == a[0] for m in range(0, a[0] + 2))
    if rp is None or rp.get("kind") == "binop":
        kc = []
        for id_ in BIN:
            for n in ((1, 2, 3, 5) if id_ < 70 else (0, 1, 2, 3, 5, 64)):
                for c in ((1, 2, 4) if id_ < 70 else (0, 1, 2, 3, 4)):
                    for d in (-2, -1, 0, 1, 2, 5):
                        if id_ in (60, 66, 62): args = [max(c + d, 0)]
                        elif id_ == 67: args = [max(n + d, 0)]
                        elif id_ in (61, 63, 65): args = [max(c + d, 0), rng.randint(1, 3)]
                        elif id_ == 64: args = [max(n + (d if rng.random() < 0.5 else 0), 0), max(c + d, 0)]
                        elif id_ == 68: args = [rng.choice([0, n - 1, n]), max(c + d, 0)]
                        elif id_ == 73: args = [max(n * c + d, 0)]
                        elif id_ == 75: args = [max(n * (n + 1) // 2 + d, 0)]
                        else: args = []
                        kc.append("c18 1 %d %d %d %s" % (id_, n, c, " ".join(map(str, args))))
        kc = sorted(set(kc))
        if rp is not None: kc = rp["cases"]
        rc, ko, err = core.run_harness(hb, kc, wd, tag="bin")
        for c, o in zip(kc, ko):
            w = [int(x) for x in c.split()[2:]]; id_, n, cc, a = w[0], w[1], w[2], w[3:]
            kdist[BIN[id_]] = kdist.get(BIN[id_], 0) + 1
            sp = bin_spec(id_, n, cc, a); t = o.split()
            if o == "CRASH skipped" or t[0] == "7": continue
            what = None
            if o.startswith("CRASH"): what = "crashed"
            elif sp is False and t[0] == "1": what = "returned normally although the operands are not conformable"
            elif sp is True and t[0] != "1": what = "threw on conformable operands"
            if what:
                kmis += 1
                longer = id_ in (60, 67) and sp is False and t[0] == "1" and a[0] > (cc if id_ == 60 else n)
                sig = "SparseMatrix*Vector accepts a vector longer than ncol()" if longer else "%s: %s" % (BIN[id_], "non-conformable accepted" if sp is False else what)
                ck.violation(sig, "%s with receiver %dx%d (an entry stored in every column) and argument shape %s %s; required: %s. case `%s`" % (BIN[id_], n, cc, a, what, "an exception" if sp is False else "a result", c),
                             dict(kind="binop", cases=[c], impl=[o]))


    # ---------------- (l) unknown names that sort before / between / after the existing ones ---------------------------------------
    udist = {}; umis = 0
    if rp is None or rp.get("kind") in ("geomref", "tool"):
        m3 = models.nested([0.8, 0.9, 1.0], [1.0, 0.0125, 1.0], level=0, names=["cortex", "skull", "scalp"])
        udir = os.path.join(wd, "georef"); gU, cU = models.write_model(m3, udir)
        base = open(gU).read()
        def around(existing):
            ex = sorted(existing); out = set()
            for e in ex: out |= {e[:-1], e + "x", e.upper(), e.lower(), e.capitalize(), e[0], e + " "}
            out |= {"0", "25", "A", "zzz", "~", "Brain", chr(ord(ex[0][0]) - 1) + "a", ex[0] + "0", ex[-1] + "0"}
            return sorted(x for x in out if x and x not in existing and not x.endswith(" "))
        gfiles = []
        for bad in around([x[0] for x in m3["interfaces"]]):          # a Domain refers to an interface that does not exist
            txt = base.replace("Domain D1: -I1 +I0", "Domain D1: -%s +I0" % bad)
            if txt == base: continue
            pth = os.path.join(udir, "dom_%d.geom" % len(gfiles)); open(pth, "w").write(txt); gfiles.append((pth, "Domain D1 refers to interface \"%s\"" % bad))
        for bad in around([x[0] for x in m3["meshes"]]):              # an Interface refers to a mesh that does not exist
            txt = base.replace("Interface I1: +skull", "Interface I1: +%s" % bad)
            if txt == base: continue
            pth = os.path.join(udir, "itf_%d.geom" % len(gfiles)); open(pth, "w").write(txt); gfiles.append((pth, "Interface I1 refers to mesh \"%s\"" % bad))
        if len(gfiles) < 20:
            ck.violation("geomref-generator", "the .geom text produced by lib/models.py no longer has the expected lines: only %d variants" % len(gfiles), dict(kind="geomref"), found_input=False)
        envu = {"C18_GEOM": gU, "C18_COND": cU, "C18_PATHS": "\x1f".join(p for p, _ in gfiles)}
        ucs = ["c18 3 4 %d" % k for k in range(len(gfiles))]
        rc, uo, err = core.run_harness(hb, ucs, wd, tag="gr", env=envu)
        exe = os.path.join(bdir, "apps", "tools", "om_check_geom")
        tenv = dict(os.environ); tenv.update(OMP_NUM_THREADS="1", OPENBLAS_NUM_THREADS="1")
        libs = ombuild.find_libs(bdir); tenv["LD_LIBRARY_PATH"] = ":".join(sorted({os.path.dirname(x) for x in libs.values()})) + ":" + tenv.get("LD_LIBRARY_PATH", "")
        for (pth, lab), c, o in zip(gfiles, ucs, uo):
            udist["Geometry::load(.geom reference)"] = udist.get("Geometry::load(.geom reference)", 0) + 1
            if o.startswith("CRASH") or o.split()[0] == "0":
                umis += 1
                ck.violation("geom: %s" % lab, "Geometry::load of a .geom in which %s %s; required: an exception (existing: meshes %s, interfaces %s)" % (lab, "crashed" if o.startswith("CRASH") else "succeeded", [x[0] for x in m3["meshes"]], [x[0] for x in m3["interfaces"]]),
                             dict(kind="geomref", geom_text=open(pth).read(), impl=[o]))
        for pth, lab in gfiles[::3]:
            try:
                pr = subprocess.run([exe, "-g", pth], stdout=subprocess.PIPE, stderr=subprocess.PIPE, env=tenv, timeout=120, cwd=udir); status = pr.returncode
            except subprocess.TimeoutExpired:
                status = "timeout"
            udist["om_check_geom"] = udist.get("om_check_geom", 0) + 1
            if status == 0:
                umis += 1
                ck.violation("om_check_geom: %s" % lab, "om_check_geom -g on a .geom in which %s exited with status 0; required: non-zero" % lab, dict(kind="tool", tool="om_check_geom", geom_text=open(pth).read(), status=status))
        # API lookups with the same kind of names
        pres = dict(mesh=[x[0] for x in m3["meshes"]], interface=[x[0] for x in m3["interfaces"]], domain=[x[0] for x in m3["domains"]])
        tblu = sorted(set(around(pres["mesh"]) + around(pres["interface"]) + around(pres["domain"])))
        envu["C18_NAMES"] = "\x1f".join(tblu)
        lcs = ["c18 2 %d %d" % (kd, k) for kd in range(4) for k in range(len(tblu))]
        rc, lo, err = core.run_harness(hb, lcs, wd, tag="gl", env=envu)
        for c, o in zip(lcs, lo):
            kd, k = int(c.split()[2]), int(c.split()[3]); cat = ["mesh", "mesh", "interface", "domain"][kd]
            udist["lookup " + cat] = udist.get("lookup " + cat, 0) + 1
            if tblu[k] in pres[cat]: continue
            if o.startswith("CRASH") or o.split()[0] in ("0", "9"):
                umis += 1
                ck.violation("lookup %s(%r)" % (cat, tblu[k]), "Geometry::%s(\"%s\") returned an object; required: throw (present: %s)" % (cat, tblu[k], pres[cat]), dict(kind="lookup", cases=[c], impl=[o], names=tblu))

    res = ck.proof_result
    ck.cov.update(evaluations=len(acases) + sum(ldist.values()) + wn + 1 + sum(sdist.values()) + sum(xdist.values()) + len(gdist) + sum(fdist.values()) + sum(ndist.values()) + sum(rdist.values()) + sum(edist.values()) + sum(kdist.values()) + sum(udist.values()), distinct_nontrivial=len(set(acases)) + sum(ldist.values()) + wn,
                  rule="accessor cases: (method, nlin, ncol, arguments) with arguments aimed at the guard boundary (n-1, n, n+1, 2^31, 2^32-1, 2^32-n, 65535/65536, wrap-around ranges), shapes 0..%d, ~60%% expected to throw; lookups: every present name and 12 near-miss names on 4 lookup functions; I/O: prepared paths x entry points; write faults: every stream writer x 2 sizes x (boundary + random byte limits, /dev/full, missing directory); distinct = distinct case lines" % (7 if quick else 40),
                  samples=acases[:2] + ["c18 2 <kind> <name>", "c18 4 <kind> <fmt> <n> <k bytes>"], op_distribution=adist, expected_throws=throws,
                  accessor_mismatches=amis, lookup_io_distribution=ldist, lookup_io_mismatches=lmis,
                  write_fault_distribution=wdist, write_fault_cases=wn, write_fault_mismatches=wmis, write_fault_file_size_equals_model=wexact, suffix_selection_distribution=sdist, suffix_selection_mismatches=smis, other_writers_distribution=xdist, other_writers_mismatches=xmis, singular_matrices=gdist, load_state_distribution=fdist, load_state_mismatches=fmis, named_entry_points=ndist, named_entry_mismatches=nmis, reused_geometry=rdist, reused_geometry_mismatches=rmis, exit_status=edist, exit_status_mismatches=emis, container_binary_ops=kdist, container_binary_ops_mismatches=kmis, unknown_names_around_existing=udist, unknown_names_mismatches=umis,
                  big_symmatrix_witness=big, traces_validated_against_impl=len(acases) + sum(ldist.values()) + wn)
    ck.cov["trusted_base"] += ["translator translators/t_accessors.py (restricted C++ expression grammar -> Gallina with explicit 2^32 / 2^64 reduction); validated each run by evaluating the generated definitions against the real calls",
                               "outcome-class models coq/Geom/Lookups.v, coq/Maths/WriteFault.v (hand-written, tied by the sweeps)",
                               "fault injection: RLIMIT_FSIZE with SIGXFSZ ignored, /dev/full through a symlink, missing directory; RLIMIT_AS 3 GB",
                               "extraction: ExtrOcamlBasic only; OCaml driver extract/main.ml"]
    ck.assumptions += ["om_assert(false) throws std::invalid_argument (OMassert.H, IGNORE_NDEBUG): taken as the meaning of a false guard",
                       "arguments of type Index/Dimension/unsigned are 32-bit, size_t/streamoff 64-bit (LP64)",
                       "std::ofstream sets failbit/badbit when the device refuses bytes; flush() pushes buffered bytes to the device",
                       "runtime memory safety of the error paths is observed (crash / outcome class), not proved; no sanitizer in the quick tier"]
    if not replay and ck.cov.get("evaluations", 0) < 100:
        ck.violation("no-cases", "the check evaluated almost nothing (%s cases): the run is void" % ck.cov.get("evaluations", 0), dict(kind="void"), found_input=False)
    ck.drop_proof_violation_if(any(v[3] for v in ck.violations))
    return ck.finish()
