"""C16 — integration kernels equal the integrals they stand for.
proof      : Props/Properties_C16.v (quadrature tables regenerated from integrator.h by translators/t_quad.py,
             polynomial exactness, refinement/adaptive bound, D3 components sum, solid-angle symmetries, log argument)
tie        : float-wire correspondence of every kernel (extracted Geom/Kernels.v + Geom/Quadrature.v over OCaml
             doubles vs the C++ of the working tree), the compiled table vs the translated one, polynomial integrands
             through the real Integrator against the exact Dirichlet value
measured   : closed forms vs a brute-force reference quadrature (discretisation class, never called a proof)."""
import os, sys, json, math
from fractions import Fraction
import core, ombuild
import gen_c16 as g

PROP = "C16"
OPN = {1: "Vect3::solid_angle", 2: "integral_simplified_green", 3: "analyticS(v0,v1,v2)::f", 4: "analyticS(Triangle)::f",
       5: "analyticD3::f", 6: "analyticDipPotDer::f", 7: "Dipole::potential", 8: "Details::operatorFerguson",
       9: "Integrator::integrate", 10: "Integrator::rules", 11: "Integrator::integrate(monomial, unit triangle)",
       12: "Integrator::safe_order", 13: "Integrator constructor overloads", 20: "analyticS::f vs reference quadrature", 21: "analyticD3::f / solid_angle vs reference quadrature",
       22: "operatorFerguson vs reference quadrature", 25: "operatorFerguson vs Biot-Savart definition (closed fan)", 24: "analyticDipPotDer::f vs finite differences"}
KIND = {0: "polynomial", 1: "Dipole::potential", 2: "analyticS::f", 3: "analyticD3::f", 4: "analyticDipPotDer::f"}
DEG = {1: 4, 2: 5, 3: 8}
POLY_TOL = 2e-13          # exactness through the real Integrator: table error (<=1e-14, proved) + rounding of ~100 flops
REF_REL = 1e-9            # closed form vs reference quadrature: calibrated bound (see calib/C16.json), factor >= 3 margin
REF_ERRFAC = 30.0

def fl(*vs): return [x for v in vs for x in v]

# ------------------------------------------------------------------------------------------- generators
def gen_cases(rng, n_kernel, n_int, n_ref):
    cases = []
    for _ in range(n_kernel):
        t = g.triangle(rng)[:3]; x, kind = g.point_for(rng, t)
        r0, q = g.dipole_for(rng, t)
        cases.append(core.fcase("c16", [1], fl(x, *t)))
        k = rng.randrange(3)
        cases.append(core.fcase("c16", [2], fl(t[k], t[(k + 1) % 3], x)))
        cases.append(core.fcase("c16", [3], fl(*t, x)))
        cases.append(core.fcase("c16", [4], fl(*t, x)))
        cases.append(core.fcase("c16", [5], fl(*t, x)))
        cases.append(core.fcase("c16", [6], fl(r0, q, *t, x)))
        cases.append(core.fcase("c16", [7], fl(r0, q, x)))
        V, tr = g.fan(rng); p = g.fan_point(rng, V, tr)
        cases.append(core.fcase("c16", [8, len(tr)] + [stale(rng, r) for _, _, r in tr], fl(p, V, *[y for A, B, _ in tr for y in (A, B)])))
    for _ in range(n_int):
        t = g.triangle(rng)[:3]
        o = rng.choice([1, 2, 3, 3, 3, rng.choice([0, 4, 7])])
        tol = rng.choice([0.005, 0.001, 0.001, 1e-4, 0.0])
        depth = rng.choice([0, 0, 1, 2, 3, 10])
        if tol < 1e-3: depth = min(depth, 3)
        kind = rng.choice([0, 0, 0, 1, 2, 3, 4])
        if kind == 0:
            so = min(max(o, 1), 3)
            n = rng.randint(1, 4); mons = []
            for _ in range(n):
                d = rng.randint(0, DEG[so]); a = rng.randint(0, d); b = rng.randint(0, d - a); c = d - a - b
                mons.append((rng.uniform(-2, 2), a, b, c))
            cases.append(core.fcase("c16", [9, o, depth, 0, n] + [e for m in mons for e in m[1:]], [tol] + fl(*t) + [m[0] for m in mons]))
        elif kind in (1, 4):
            r0, q = g.dipole_for(rng, t)
            cases.append(core.fcase("c16", [9, o, depth, kind], [tol] + fl(*t, r0, q)))
        else:
            # second triangle: at least 5 % of its size away from the integration triangle's plane region sampled
            for _ in range(50):
                t2 = g.triangle(rng)[:3]
                pts = [t[0], t[1], t[2], g.mul(1 / 3.0, g.add(g.add(t[0], t[1]), t[2]))]
                if min(g.dist_point_triangle(p, t2) for p in pts) >= 0.05 * g.tri_size(t2): break
            cases.append(core.fcase("c16", [9, o, depth, kind], [tol] + fl(*t, *t2)))
    for _ in range(n_ref):
        t = g.triangle(rng)[:3]; x, kind = g.point_for(rng, t, perturb=False)      # the property's domain only
        cases.append(core.fcase("c16", [20], fl(*t, x)))
        cases.append(core.fcase("c16", [21], fl(*t, x)))
        V, tr = g.fan(rng); p = g.fan_point(rng, V, tr)
        cases.append(core.fcase("c16", [22, len(tr)] + [stale(rng, r) for _, _, r in tr], fl(p, V, *[y for A, B, _ in tr for y in (A, B)])))
        r0, q = g.dipole_for(rng, t); y, _ = g.point_for(rng, t)
        cases.append(core.fcase("c16", [24], fl(r0, q, *t, y)))
        V, tr = g.fan(rng, closed=True); p = g.fan_point(rng, V, tr)
        allflip = 3 if rng.random() < 0.4 else 0        # Mesh::change_orientation(): every triangle flipped, no update (stays consistently oriented)
        cases.append(core.fcase("c16", [25, len(tr)] + [r + allflip for _, _, r in tr], fl(p, V, *[y for A, B, _ in tr for y in (A, B)])))
        # every constructor overload of Integrator on a near-singular integrand (dipole 5-15 % of the size above the triangle)
        tt = g.triangle(rng, max_aspect=3.0)[:3]
        l = [rng.uniform(0.15, 0.7) for _ in range(3)]; sl = sum(l)
        base = g.add(g.add(g.mul(l[0] / sl, tt[0]), g.mul(l[1] / sl, tt[1])), g.mul(l[2] / sl, tt[2]))
        r0 = g.add(base, g.mul(rng.uniform(0.05, 0.15) * g.tri_size(tt) * rng.choice([-1, 1]), g.tri_normal(tt)))
        q = tuple(rng.uniform(-1, 1) for _ in range(3))
        for ctor in (1, 2, 3, 4):
            cases.append(core.fcase("c16", [13, ctor, rng.choice([1, 2, 3, 3]), rng.choice([0, 1, 2, 4]), rng.choice([1, 1, 4])],
                                    [rng.choice([0.005, 0.001])] + fl(*tt, r0, q)))
    return cases

def edge_line_cases(rng, n_tri, n_ref):
    """evaluation points on the lines carrying the edges (in-plane, off the triangle: inside the property's domain):
    generic rounded triangles and dyadic ones, analyticS both constructors + green + solid angle / D3, the Ferguson fan
    with x on the line of an edge of one of its triangles, and the reference quadrature on a subset"""
    cases = []; refs = []
    for i in range(n_tri):
        dy = (i % 4 == 3)
        t = g.dyadic_triangle(rng) if dy else g.triangle(rng)[:3]
        for x, kind in g.edge_line_points(rng, t, dyadic=dy):
            for k in range(3):
                cases.append(core.fcase("c16", [2], fl(t[k], t[(k + 1) % 3], x)))
            cases.append(core.fcase("c16", [3], fl(*t, x)))
            cases.append(core.fcase("c16", [4], fl(*t, x)))
            if kind == "line":
                cases.append(core.fcase("c16", [1], fl(x, *t)))
                cases.append(core.fcase("c16", [5], fl(*t, x)))
                refs.append(core.fcase("c16", [20], fl(*t, x)))
    for i in range(max(1, n_tri // 3)):
        V, tr = g.fan(rng)
        A, B, _ = tr[rng.randrange(len(tr))]
        for x, kind in g.edge_line_points(rng, (V, A, B)):
            if all(g.dist_point_triangle(x, (V, a, b)) >= 0.05 * g.tri_size((V, a, b)) for a, b, _ in tr):
                cases.append(core.fcase("c16", [8, len(tr)] + [r for _, _, r in tr], fl(x, V, *[y for a, b, _ in tr for y in (a, b)])))
                if kind == "line":
                    refs.append(core.fcase("c16", [22, len(tr)] + [r for _, _, r in tr], fl(x, V, *[y for a, b, _ in tr for y in (a, b)])))
    rng.shuffle(refs)
    return cases + refs[:n_ref]

def stale(rng, r):
    """rotation code of a fan triangle; +3 = flipped by Triangle::change_orientation() after the last Mesh::update()
    (cached normal / area belong to the old vertex order)"""
    return r + (3 if rng.random() < 0.3 else 0)

def table_cases():
    cs = ["c16 10 %d |" % o for o in range(4)] + ["c16 12 %d |" % o for o in (0, 1, 2, 3, 4, 5, 100)]
    for o in (1, 2, 3):
        d = DEG[o]
        for deg in range(d + 1):                 # by increasing degree: the first failing monomial is a lowest-degree one
            for a in range(deg, -1, -1):
                for b in range(deg - a, -1, -1):
                    cs.append(core.fcase("c16", [11, o, 0, a, b, deg - a - b], [0.0]))
        for (a, b, c) in [(1, 1, 1), (d, 0, 0), (0, 0, 0)]:          # refined: same exact value
            cs.append(core.fcase("c16", [11, o, 2, a, b, c], [0.0]))
    return cs

def reference_case_for(line):
    """the brute-force-reference case on the same inputs (search for a concrete failing input of the property
    when a correspondence breaks)"""
    ints, fs = core.fparse(line.split(None, 1)[1])
    op = ints[0]
    if op == 1:   # x v1 v2 v3 -> op 21 takes a b c x
        return core.fcase("c16", [21], fs[3:12] + fs[0:3])
    if op in (3, 4): return core.fcase("c16", [20], fs)
    if op == 5: return core.fcase("c16", [21], fs)
    if op == 8: return core.fcase("c16", [22] + ints[1:], fs)
    if op == 6: return core.fcase("c16", [24], fs)
    return None

# ------------------------------------------------------------------------------------------- evaluation
def hexes(xs): return [float(x).hex() for x in xs]

def _tri_point_ok(t, x):
    size = g.tri_size(t); h = abs(g.dot(g.sub(x, t[0]), g.tri_normal(t)))
    return (h <= 1e-13 * size or h >= 0.05 * size) and g.dist_point_triangle(x, t) >= 0.05 * size

def in_domain(op, ints, fs):
    """the property's quantifier: x at least 5 % of the triangle size off the plane, or in the plane (to rounding) and
    at least 5 % away from the triangle"""
    v = lambda k: tuple(fs[3 * k:3 * k + 3])
    if op == 2: return offline_point(fs)
    if op == 1: return _tri_point_ok((v(1), v(2), v(3)), v(0))
    if op in (3, 4, 5, 20, 21): return _tri_point_ok((v(0), v(1), v(2)), v(3))
    if op in (8, 22):
        n = ints[1]; x = v(0); V = v(1)
        return all(_tri_point_ok((V, v(2 + 2 * k), v(3 + 2 * k)), x) for k in range(n))
    return True

def offline_point(fs):
    """op 2 (p0,p1,x): x is not on the segment [p0,p1] itself (there the integral diverges and anything goes)"""
    p0, p1, x = tuple(fs[0:3]), tuple(fs[3:6]), tuple(fs[6:9])
    return g.dist_point_segment(x, p0, p1) > 1e-9 * max(g.norm(g.sub(p1, p0)), 1e-300)

def evaluate(ck, hb, cases, stats, search=True):
    """runs the case lines on model and implementation and applies, per operation, the comparison it calls for.
    Returns the list of (signature, description, replay) found."""
    out = []
    model_ops = {1, 2, 3, 4, 5, 6, 7, 8, 9, 10, 11, 12, 13}
    mcases = [c for c in cases if int(c.split()[1]) in model_ops]
    mo = dict(zip(mcases, core.run_model(mcases))) if mcases else {}
    rc, io, err = core.run_harness(hb, cases, ck.workdir, timeout=900)
    extra = []
    for c, i in zip(cases, io):
        ints, fs = core.fparse(c.split(None, 1)[1]); op = ints[0]
        st = stats.setdefault(OPN[op], dict(cases=0, bit_identical=0, rounding_class=0, mismatch=0, worst_rel=0.0))
        st["cases"] += 1
        iz, if_ = core.fparse(i)
        def viol(sig, desc, extra_replay=None):
            r = dict(kind="case", cases=[c], impl=[i], model=[mo.get(c)], replay_cmd="./check C16 --replay <this file>")
            if extra_replay: r.update(extra_replay)
            out.append((sig, desc, r))
        if iz is None or iz[0] != 0:
            st["mismatch"] += 1
            viol("%s: implementation crashed or threw" % OPN[op], "%s fails on case `%s`: %s" % (OPN[op], c[:300], i[:100])); continue
        # ---- a non-finite value of a kernel on an input of the property's domain is a violation by itself
        nf_out = if_[:1] if op in (2, 20) else (if_[:3] if op in (5, 6, 8, 21, 22, 24, 25) else if_) if op not in (10, 12) else []
        if op in (1, 2, 3, 4, 5, 8, 9, 20, 21, 22) and any(v != v or abs(v) == float("inf") for v in nf_out) and not (op == 2 and "nonfinite_ok" in c):
            st["nonfinite"] = st.get("nonfinite", 0) + 1
            if in_domain(op, ints, fs):
                viol("%s: non-finite result" % OPN[op], "%s returns %s on case `%s`" % (OPN[op], " ".join("%g" % v for v in nf_out), c[:300]))
        # ---- replay of Example green_on_edge_line_dyadic_point on the real code: p0=(0,0,0) p1=(1,0,0) x=(-1,0,0) -> ln 2
        if op == 2 and fs[:9] == [0.0, 0.0, 0.0, 1.0, 0.0, 0.0, -1.0, 0.0, 0.0]:
            st["theorem_example_replayed"] = st.get("theorem_example_replayed", 0) + 1
            if not (abs(if_[0] - math.log(2.0)) <= 1e-15):
                viol("integral_simplified_green: dyadic point on the edge line", "integral_simplified_green for p0=(0,0,0) p1=(1,0,0) x=(-1,0,0) returns %r, the edge integral is ln 2 (theorem green_on_edge_line_value)" % if_[0])
        # ---- every constructor overload means what the three-argument form with the documented arguments means
        if op == 13:
            nres = (len(if_) - 1) // 2
            Ires, Jres = if_[1:1 + nres], if_[1 + nres:1 + 2 * nres]
            if hexes(Ires) != hexes(Jres):
                names = {1: "Integrator(ord) vs Integrator(ord,0,0.0)", 2: "Integrator(ord,tol) vs Integrator(ord,10,tol)",
                         3: "Integrator(ord,levels) vs Integrator(ord,levels,0.0001)", 4: "Integrator(ord,levels,tol)"}
                viol("Integrator constructor overloads: %s" % names.get(ints[1], "?"),
                     "%s give different integrals %s vs %s (order %d max_depth %d tolerance %g actually set) on the near-singular case `%s`"
                     % (names.get(ints[1], "?"), Ires, Jres, iz[1], iz[2], if_[0], c[:300]))
            if_ = if_[:1 + nres]            # the model is compared with the overload under test
        # ---- model vs implementation
        if op in model_ops:
            mz, mf = core.fparse(mo[c])
            if mz is None or mz[0] != 0:
                viol("%s: model rejected the case" % OPN[op], "malformed case (generator bug): %s" % c[:200]); continue
            n = len(if_)
            same = hexes(mf[:n]) == hexes(if_) and mz[:len(iz)] == iz
            okc = same
            if not same and mz[:len(iz)] == iz:
                # rounding class: relative 1e-10 against the magnitude of the terms of the last reduction (from the model)
                if op in (3, 4): sc = [sum(mf[1:5])]
                elif op == 5: sc = mf[3:6]
                elif op == 8: sc = mf[3:6]
                elif op == 9: sc = [mf[n]] * n
                else: sc = [None] * n
                okc = all(core.close(a, b, 1e-10, scale=(s if s is None else max(s, abs(a), abs(b))))
                          for a, b, s in zip(mf[:n], if_, sc + [None] * n))
                if okc:
                    rel = max(abs(a - b) / max(abs(a), abs(b), 1e-300) for a, b in zip(mf[:n], if_) if a == a and b == b)
                    st["worst_rel"] = max(st["worst_rel"], rel)
            if same: st["bit_identical"] += 1
            elif okc: st["rounding_class"] += 1
            else:
                st["mismatch"] += 1
                if op in (10, 12):
                    viol("%s: compiled table differs from the translated one" % OPN[op],
                         "the table the compiler sees is not the one translators/t_quad.py read (order %s): model %s impl %s" % (ints[1], mo[c][:200], i[:200]))
                else:
                    rcase = reference_case_for(c) if search else None
                    extra.append((c, mo[c], i, rcase))
        # ---- orbit structure of the compiled table (replay of quadrature_point_set_symmetric / ..._rule3_refuted)
        if op == 10 and iz and len(iz) > 1:
            nodes = [tuple(if_[4 * k:4 * k + 4]) for k in range(iz[1])]
            S = set(nodes); bad_node = None
            for (a, b, cc, w) in nodes:
                for q in ((b, cc, a, w), (cc, a, b, w), (b, a, cc, w), (a, cc, b, w), (cc, b, a, w)):
                    if q not in S and bad_node is None: bad_node = q
            st["asymmetric_tables"] = st.get("asymmetric_tables", 0) + (1 if bad_node else 0)
            if ints[1] == 3 and bad_node is None:
                viol("rule 3: refuted exact symmetry does not reproduce", "quadrature_point_set_symmetric_rule3_refuted says the 16-point table is not exactly symmetric, the compiled table is: the model is not the code")
            if bad_node is not None:
                viol("rule %d: node set not closed under coordinate permutations, missing image (%.15f, %.15f, %.15f)" % ((ints[1],) + bad_node[:3]),
                     "Integrator::rules[%d]: the image (%.15f, %.15f, %.15f) weight %.15f of a node under a permutation of the barycentric coordinates is not a node: rotating the vertices of a triangle changes the rule's value (at the 1e-15 level)" % ((ints[1],) + bad_node))
        if op == 11:
            o, depth, a, b, cc = ints[1:6]
            ex = g.dirichlet(a, b, cc)
            if abs(if_[0] - float(ex)) > POLY_TOL:
                viol("rule %d: monomial l0^%d l1^%d l2^%d not integrated exactly" % (o, a, b, cc),
                     "Integrator(%d,%d).integrate of l0^%d l1^%d l2^%d on the unit triangle returns %.17g, exact value a!b!c!/(a+b+c+2)! = %.17g (error %.3g > %.1g); degree %d <= %d of the rule"
                     % (o, depth, a, b, cc, if_[0], float(ex), if_[0] - float(ex), POLY_TOL, a + b + cc, DEG[o]))
            st["exact_checked"] = st.get("exact_checked", 0) + 1
        if op == 9 and ints[3] == 0:
            o = min(max(ints[1], 1), 3); n = ints[4]; es = ints[5:5 + 3 * n]
            t = [tuple(fs[1 + 3 * k:4 + 3 * k]) for k in range(3)]; cs_ = fs[10:10 + n]
            mons = [(cs_[k], es[3 * k], es[3 * k + 1], es[3 * k + 2]) for k in range(n)]
            I, S = g.exact_poly_integral_over_area2(mons, t)
            a2 = g.norm(g.cross(g.sub(t[1], t[0]), g.sub(t[2], t[0])))
            if abs(if_[0] - float(I) * a2) > POLY_TOL * float(S) * a2 + 1e-300:
                viol("rule %d: polynomial of degree %d not integrated exactly" % (o, max(m[1] + m[2] + m[3] for m in mons)),
                     "Integrator(%d,%d,%g).integrate of a polynomial of degree <= %d returns %.17g, exact %.17g (relative to the term magnitudes %.3g): case `%s`"
                     % (ints[1], ints[2], fs[0], DEG[o], if_[0], float(I) * a2, abs(if_[0] - float(I) * a2) / (float(S) * a2), c[:400]))
            st["exact_checked"] = st.get("exact_checked", 0) + 1
        # ---- property relations on the implementation's own outputs
        if op in (20, 21, 22, 24, 25):
            bad = ref_compare(op, if_)
            for what, got, ref, bound in bad:
                viol("%s: %s" % (OPN[op], what),
                     "%s: %s: implementation %.12g, reference %.12g (difference %.3g, allowed %.3g) on case `%s`" % (OPN[op], what, got, ref, got - ref, bound, c[:300]))
            st["ref_worst"] = max(st.get("ref_worst", 0.0), ref_worst(op, if_))
    # ---- correspondence mismatches: search for a concrete failing input of the property's own relation
    if extra:
        rcs = [r for (_, _, _, r) in extra if r]
        rres = {}
        if rcs:
            _, rio, _ = core.run_harness(hb, rcs, ck.workdir, timeout=900, tag="refsearch")
            rres = dict(zip(rcs, rio))
        for c, m, i, rcase in extra[:40]:
            ints, _ = core.fparse(c.split(None, 1)[1]); op = ints[0]
            found = False; detail = ""
            if rcase and rcase in rres:
                rz, rf = core.fparse(rres[rcase])
                if rz and rz[0] == 0:
                    rop = int(rcase.split()[1])
                    bad = ref_compare(rop, rf)
                    if bad:
                        found = True
                        detail = "; ".join("%s: implementation %.12g vs reference quadrature %.12g (allowed %.3g)" % b for b in bad[:3])
            sig = "%s: model and implementation differ" % OPN[op] + ("" if op != 9 else " (%s)" % KIND.get(ints[3], "?"))
            if found:
                out.append((sig, "%s disagrees with the transcribed model AND with the brute-force reference on the same input: %s; case `%s`" % (OPN[op], detail, c[:300]),
                            dict(kind="case", cases=[c, rcase], model=[m], impl=[i], replay_cmd="./check C16 --replay <this file>"), True))
            else:
                out.append((sig, "%s no longer corresponds to the model the theorems are about (rounding class 1e-10), no deviation from the reference quadrature found on that input: case `%s` model %s impl %s" % (OPN[op], c[:300], m[:160], i[:160]),
                            dict(kind="case", cases=[c] + ([rcase] if rcase else []), model=[m], impl=[i], broken="correspondence of %s" % OPN[op]), False))
    return out

REF_ABS = 1e-11           # in-plane points: the code returns exactly 0 (absolute 1e-10 test, DESIGN 4 #16), the reference ~1e-15
def _bound(ref_mag, err): return REF_REL * ref_mag + REF_ERRFAC * err + REF_ABS

def ref_compare(op, f):
    """[(what, got, ref, bound)] for the deviations beyond the calibrated bound"""
    bad = []
    if op == 20:
        k, r, e = f; b = _bound(abs(r), e)
        if abs(k - r) > b: bad.append(("closed form vs int_T 1/|x-y| dy", k, r, b))
    elif op == 21:
        k = f[0:3]; r = f[3:6]; e = f[6]; sa = f[7]
        mag = max(abs(x) for x in r) + abs(sum(r))
        for n in range(3):
            b = _bound(mag, e)
            if abs(k[n] - r[n]) > b: bad.append(("component %d vs int_T phi_%d (y-x).n/|y-x|^3 dy" % (n, n), k[n], r[n], b))
        b = _bound(mag, 3 * e)
        if abs(sa - sum(r)) > b: bad.append(("solid angle vs int_T (y-x).n/|y-x|^3 dy", sa, sum(r), b))
        b = 1e-10 * (abs(k[0]) + abs(k[1]) + abs(k[2]) + abs(sa)) + 1e-13
        if abs(sum(k) - sa) > b: bad.append(("components do not sum to the solid angle", sum(k), sa, b))
    elif op == 22:
        k = f[0:3]; r = f[3:6]; e = f[6]; mag = max(abs(x) for x in r) + max(abs(x) for x in k)
        for n in range(3):
            b = _bound(mag, e)
            if abs(k[n] - r[n]) > b: bad.append(("component %d vs sum_T int_T grad(phi_V) x n/|x-y| dy" % n, k[n], r[n], b))
    elif op == 25:
        k = f[0:3]; r = f[3:6]; e = f[6]; mag = max(abs(x) for x in r) + max(abs(x) for x in k)
        for n in range(3):
            b = _bound(mag, e)
            if abs(k[n] - r[n]) > b: bad.append(("component %d vs sum_T int_T phi_V n x (x-y)/|x-y|^3 dS (definition, before integration by parts)" % n, k[n], r[n], b))
    elif op == 24:
        k = f[0:3]; r = f[3:6]; mag = max(abs(x) for x in r) + max(abs(x) for x in k)
        for n in range(3):
            b = 1e-5 * mag
            if abs(k[n] - r[n]) > b: bad.append(("component %d vs -phi_%d d/dn(dipole potential) by finite differences" % (n, n), k[n], r[n], b))
    return bad

def ref_worst(op, f):
    if op == 20: return abs(f[0] - f[1]) / max(abs(f[1]), 1e-300)
    if op in (21, 22, 24, 25):
        mag = max(abs(x) for x in f[3:6])
        if mag < 1e-6: return 0.0          # in-plane points: both sides ~0 (absolute bound applies)
        return max(abs(f[n] - f[3 + n]) for n in range(3)) / mag
    return 0.0

# ------------------------------------------------------------------------------------------- table-level search
def table_search(ck):
    """when rule_k_moments no longer checks: which monomial of which rule fails, from the translator's exact parse"""
    sys.path.insert(0, os.path.join(core.VERIF, "translators"))
    import t_quad
    nb, rules, lits, problems = t_quad.parse(ombuild.REPO)
    found = []
    if not rules: return found
    for o in (1, 2, 3):
        if o >= len(rules) or o >= len(nb): continue
        rule = rules[o][:nb[o]]; d = DEG[o]
        for a in range(d + 1):
            for b in range(d + 1 - a):
                for c in range(d + 1 - a - b):
                    m = sum(q[3] * q[0] ** a * q[1] ** b * q[2] ** c for q in rule)
                    e = m - g.dirichlet(a, b, c)
                    if abs(e) > Fraction(1, 10 ** 14): found.append((o, a, b, c, float(e)))
    return found

def split_additivity(ck, hb, n, stats):
    """solid_angle_edge_split_additive on the implementation: Omega(x;v1,v2,v3) = Omega(x;v1,v2,m) + Omega(x;v1,m,v3) for
    m on the edge v2v3, x off the plane (>= 5 %), including wide angles (|Omega| > PI, outside the theorem's branch hypotheses)"""
    rng = ck.rng; trip = []; cases = []
    for k in range(n):
        if k % 3 == 0:      # wide angles: fat triangle, x just above its centroid (|Omega| > PI: outside the theorem's branch hypotheses)
            t = g.triangle(rng, max_aspect=2.0)[:3]
            cen = g.mul(1 / 3.0, g.add(g.add(t[0], t[1]), t[2]))
            x = g.add(cen, g.mul(rng.uniform(0.05, 0.12) * g.tri_size(t) * rng.choice([-1, 1]), g.tri_normal(t)))
        else:
            t = g.triangle(rng)[:3]
            while True:
                x, kind = g.point_for(rng, t, perturb=False)
                if kind in ("off", "far"): break
        u = rng.uniform(0.05, 0.95)
        m = g.add(g.mul(1 - u, t[1]), g.mul(u, t[2]))
        cs = [core.fcase("c16", [1], fl(x, t[0], t[1], t[2])), core.fcase("c16", [1], fl(x, t[0], t[1], m)), core.fcase("c16", [1], fl(x, t[0], m, t[2]))]
        trip.append(cs); cases += cs
    _, io, _ = core.run_harness(hb, cases, ck.workdir, tag="split")
    res = dict(zip(cases, io)); out = []; worst = 0.0; wide = 0
    for cs in trip:
        v = [core.fparse(res[c])[1][0] for c in cs]
        if abs(v[0]) > math.pi: wide += 1
        e = abs(v[0] - v[1] - v[2]); worst = max(worst, e)
        if not e <= 1e-12 * (abs(v[0]) + abs(v[1]) + abs(v[2])) + 1e-14:
            out.append(("Vect3::solid_angle: not additive under an edge split",
                        "solid angle of the triangle %.15g, of the two parts %.15g + %.15g (difference %.3g): cases %s" % (v[0], v[1], v[2], v[0] - v[1] - v[2], " ; ".join(c[:160] for c in cs)),
                        dict(kind="case", cases=cs, impl=[res[c] for c in cs], replay_cmd="./check C16 --replay <this file>")))
    stats["solid angle additivity under an edge split (implementation)"] = dict(cases=len(trip), bit_identical=0, rounding_class=0, mismatch=len(out), worst_rel=0.0, worst_abs=worst, wide_angle_cases=wide)
    return out

def main(replay=None):
    ck = core.Check(PROP, "proof")
    quick = ck.tier != "thorough"
    bdir, hb = ck.prepare("Props/Properties_C16.v", "h_c16.cpp")
    if hb is None: return ck.finish()
    stats = {}
    if replay:
        cases = json.load(open(replay)).get("cases", [])
        cases = [c for c in cases if c]
    else:
        corpus = []
        cp = os.path.join(core.VERIF, "corpus", "C16.txt")
        if os.path.exists(cp): corpus = [l.strip() for l in open(cp) if l.strip() and not l.startswith("#")]
        cases = corpus + table_cases() + (gen_cases(ck.rng, 250, 260, 40) + edge_line_cases(ck.rng, 100, 150) if quick else gen_cases(ck.rng, 3000, 2500, 400) + edge_line_cases(ck.rng, 1500, 1500))
    found = evaluate(ck, hb, cases, stats)
    if not replay: found += split_additivity(ck, hb, 150 if quick else 2000, stats)
    concrete = False
    # many monomials fail together when a table entry changes: report the first few per rule
    seen = {}; kept = []
    for v in found:
        key = (v[0].split(":")[0] + (" mono" if "monomial" in v[0] else " poly")) if v[0].startswith("rule ") else None
        if key:
            seen[key] = seen.get(key, 0) + 1
            if seen[key] > 4: continue
        kept.append(v)
    def mono_deg(v):
        import re
        m = re.match(r"rule (\d+): monomial l0\^(\d+) l1\^(\d+) l2\^(\d+)", v[0])
        return (0, int(m.group(1)), int(m.group(2)) + int(m.group(3)) + int(m.group(4))) if m else (1, 0, 0)
    found = sorted(kept, key=mono_deg)           # lowest-degree failing monomial first (stable for the rest)
    for v in found:
        sig, desc, rep = v[0], v[1], v[2]; fi = v[3] if len(v) > 3 else True
        concrete = concrete or fi
        ck.violation(sig, desc, rep, found_input=fi)
    # a broken moment theorem: name the monomial and replay it through the real Integrator (already in table_cases;
    # here for tables whose failing monomial the sweep tolerance would not show)
    if ck.broken_theorems and not replay:
        for (o, a, b, c, e) in sorted(table_search(ck), key=lambda t: (t[0], t[1] + t[2] + t[3]))[:5]:
            line = core.fcase("c16", [11, o, 0, a, b, c], [0.0])
            _, io, _ = core.run_harness(hb, [line], ck.workdir, tag="tsearch")
            iz, if_ = core.fparse(io[0])
            got = if_[0] if if_ else float("nan")
            ex = float(g.dirichlet(a, b, c))
            concrete = True
            ck.violation("rule %d: monomial l0^%d l1^%d l2^%d not integrated exactly" % (o, a, b, c),
                         "rule_%d_moments fails at l0^%d l1^%d l2^%d (table error %.3g > 1e-14); Integrator(%d).integrate on the unit triangle returns %.17g, exact %.17g"
                         % (o, a, b, c, e, o, got, ex), dict(kind="case", cases=[line], impl=io, replay_cmd="./check C16 --replay <this file>"))
    ck.drop_proof_violation_if(concrete)
    # ---- evidence
    nm = sum(s["cases"] for k, s in stats.items())
    corr = {k: s for k, s in stats.items()}
    bit = sum(s["bit_identical"] for s in stats.values()); rnd = sum(s["rounding_class"] for s in stats.values())
    mis = sum(s["mismatch"] for s in stats.values())
    def nontrivial(c):
        ints, fs = core.fparse(c.split(None, 1)[1])
        return ints[0] not in (10, 12) and not (ints[0] == 11 and sum(ints[3:6]) == 0)
    ck.cov.update(evaluations=len(cases), distinct_nontrivial=len({c for c in cases if nontrivial(c)}),
                  edge_line_cases="evaluation points exactly (to rounding) on the extension of each edge in both orientations, 0.05..3 edge lengths and mirror images, generic and dyadic triangles, plus points 1 ulp..1e-12 off the line; fans with x on an edge line", rule="distinct case lines, not counting the table/safe_order read-outs and the degree-0 monomial; random triangles (base 0.3..3, aspect ratio 1..20 log-uniform, acute and obtuse, any orientation, any vertex order), evaluation points >= 5 % of the triangle size off the plane / in-plane off the triangle / far / on the prolongation of an edge (log-argument fallback), dipoles off the surface, vertex fans of 3..7 triangles (open and closed, every stored rotation); integrands: polynomials up to the rule's degree, Dipole::potential, analyticS::f, analyticD3::f, analyticDipPotDer::f at orders 0..7 (safe_order), depths 0..10, tolerances {0,1e-4,1e-3,5e-3}; complete monomial sweep per rule",
                  samples=cases[len(cases) // 2:len(cases) // 2 + 3], op_distribution={k: s["cases"] for k, s in stats.items()},
                  correspondence=corr, bit_identical=bit, rounding_class_only=rnd, correspondence_mismatches=mis,
                  traces_validated_against_impl=nm,
                  reachable_rules="safe_order maps every requested order to 1..3 (6/7/16 points, degrees 4/5/8 proved sharp); rule 0 (3 points, degree 2) is unreachable; the library itself only constructs order 3",
                  explanation="bit_identical = the extracted model over OCaml doubles and the C++ kernel return the same doubles; rounding_class = equal within 1e-10 of the magnitude of the terms of the last reduction; ref_worst = largest relative deviation closed form vs brute-force reference (measured, discretisation class)")
    ck.cov["trusted_base"] += ["translators/t_quad.py (decimal literals of integrator.h -> exact Q, cross-checked every run: the doubles obtained from the generated table equal the compiled table bit for bit)",
                               "hand transcription coq/Geom/{Kernels,Quadrature}.v tied by float-wire differential runs (harness/h_c16.cpp vs extract/omm with the IEEE instance of extract/prelude.ml)",
                               "extraction: ExtrOcamlBasic only", "glibc libm (sqrt/log/atan2 are the same functions on both sides)",
                               "brute-force reference: 10x10 Gauss-Legendre through the Duffy map on 4^3 / 4^4 sub-triangles, nodes computed in the harness (measured part only)"]
    ck.assumptions += ["the integral of a barycentric monomial over the reference triangle is DEFINED by Dirichlet's formula a!b!c!/(a+b+c+2)! (dirichletQ/dirichletR, pintegral); not derived from a measure-theoretic integral",
                       "real-instance theorems are exact-arithmetic statements; rounding is measured (rounding class), not proved",
                       "closed form = singular integral (analyticS::f, analyticD3::f, Ferguson term) is NOT proved: compared with a brute-force reference quadrature, bound REF_REL=%g*magnitude + %g*self-estimated error (calib/C16.json)" % (REF_REL, REF_ERRFAC),
                       "Triangle/Mesh private members reached through #define private public in the harness TU; areas/normals come from the library's own Mesh::update"]
    return ck.finish()
