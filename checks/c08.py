"""C08 — each source column depends only on its own source, linearly.

Theorems: coq/Props/Properties_C08.v (loop/buffer model of DipSourceMat with the reused rhs_col as explicit state,
integrator fixed rule + adaptive scheme, DipSource2MEGMat, DipSource2InternalPotMat).
Tie (all against the library rebuilt from the working tree, one thread):
  I  integrator: extracted float model of Integrator::integrate (Geom/AdaptInt.v) vs the real template on synthetic
     integrands, quadrature tables read from the compiled library: value (rounding class) and number of refinement calls;
  S  structure: the extracted loop model run with provenance sets on the geometry *as loaded by the library* predicts the
     non-zero rows of every column and which columns are equal; compared with the real DipSourceMat /
     DipSource2InternalPotMat matrices (kernel values are C16's);
  M  the property's own relations on the real code: column locality under re-indexing / splitting / repetition (bitwise),
     zero columns in non-conductive domains (bitwise), named domain vs located (bitwise), homogeneity (bitwise for powers of
     two, rounding class otherwise), additivity in the moment (rounding class with the fixed rule; against the integrator
     tolerance with the adaptive scheme -- measured, labelled empirical)."""
import os, sys, json, math
import core, ombuild, models

PROP = "C08"
CFGS = [(3, 0, 0.0, "fixed"), (3, 10, 0.001, "adaptive-default"), (2, 3, 0.02, "adaptive-coarse")]
ADD_ADAPTIVE_FACTOR = 4.0     # empirical: |A(q1+q2)-A(q1)-A(q2)| <= factor * tol * max|column|   (calibrated, see design/C08.md)
ROUND_REL = 1e-11

# ----------------------------------------------------------------------------------------------- geometry helpers
def tri_samples(m):
    pts = []
    for name, vs, ts in m["meshes"]:
        for a, b, c in ts:
            A, B, C = vs[a], vs[b], vs[c]
            for (u, v, w) in ((1, 0, 0), (0, 1, 0), (0, 0, 1), (.5, .5, 0), (0, .5, .5), (.5, 0, .5), (1 / 3., 1 / 3., 1 / 3.),
                              (.6, .2, .2), (.2, .6, .2), (.2, .2, .6)):
                pts.append((u * A[0] + v * B[0] + w * C[0], u * A[1] + v * B[1] + w * C[1], u * A[2] + v * B[2] + w * C[2]))
    return pts

def far_from(p, samples, margin):
    m2 = margin * margin
    for s in samples:
        if (p[0] - s[0]) ** 2 + (p[1] - s[1]) ** 2 + (p[2] - s[2]) ** 2 < m2: return False
    return True

def candidate_points(rng, m, n, margin=0.09):
    R = m["info"]["outer_radius"]; c = m["info"].get("centre", (0, 0, 0)); samples = tri_samples(m)
    ML = m["info"].get("margin_length", R)      # several separate conductors: the margin is relative to one conductor, not to the whole scene
    out = [p for p in extreme_points(m, margin) if far_from(p, samples, margin * ML)]; n += len(out); tries = 0
    while len(out) < n and tries < 40 * n:
        tries += 1
        d = models.random_unit(rng); r = 1.35 * R * rng.random() ** (1 / 3.0)
        p = (c[0] + r * d[0], c[1] + r * d[1], c[2] + r * d[2])
        if far_from(p, samples, margin * ML): out.append(p)
    return out

def flat(l): return [x for t in l for x in t]

def solid_angle(p, a, b, c):
    y1 = (a[0] - p[0], a[1] - p[1], a[2] - p[2]); y2 = (b[0] - p[0], b[1] - p[1], b[2] - p[2]); y3 = (c[0] - p[0], c[1] - p[1], c[2] - p[2])
    n1 = math.sqrt(y1[0] ** 2 + y1[1] ** 2 + y1[2] ** 2); n2 = math.sqrt(y2[0] ** 2 + y2[1] ** 2 + y2[2] ** 2); n3 = math.sqrt(y3[0] ** 2 + y3[1] ** 2 + y3[2] ** 2)
    det = y1[0] * (y2[1] * y3[2] - y2[2] * y3[1]) - y1[1] * (y2[0] * y3[2] - y2[2] * y3[0]) + y1[2] * (y2[0] * y3[1] - y2[1] * y3[0])
    d12 = y1[0] * y2[0] + y1[1] * y2[1] + y1[2] * y2[2]; d23 = y2[0] * y3[0] + y2[1] * y3[1] + y2[2] * y3[2]; d31 = y3[0] * y1[0] + y3[1] * y1[1] + y3[2] * y1[2]
    return 2 * math.atan2(det, n1 * n2 * n3 + n1 * d23 + n2 * d31 + n3 * d12)

def truth_domains(m, p):
    """the generator's own point location (independent of the library): winding number of every interface by summed solid
    angles over its oriented meshes, then the domain definitions; returns the list of domain ids (positions in m['domains'])"""
    meshes = {name: (vs, ts) for name, vs, ts in m["meshes"]}
    inside = {}
    for iname, oms in m["interfaces"]:
        tot = 0.0
        for sgn, mn in oms:
            vs, ts = meshes[mn]
            for a, b, c in ts: tot += sgn * solid_angle(p, vs[a], vs[b], vs[c])
        inside[iname] = abs(tot) > 2 * math.pi
    out = []
    for k, (dname, bs) in enumerate(m["domains"]):
        if all(inside[i] == (sgn < 0) for sgn, i in bs): out.append(k)
    return out

def extreme_points(m, margin):
    """points just inside and just outside the extreme vertices of every mesh along +-x, +-y, +-z (the corners of the
    bounding boxes of the compartments), pulled towards / pushed away from the mesh centroid"""
    R = m["info"].get("margin_length", m["info"]["outer_radius"]); out = []
    for name, vs, ts in m["meshes"]:
        cen = tuple(sum(v[k] for v in vs) / len(vs) for k in range(3))
        for ax in range(3):
            for pick in (max, min):
                v = pick(vs, key=lambda q: q[ax]); d = math.sqrt(sum((v[k] - cen[k]) ** 2 for k in range(3))) or 1.0
                for sg in (-1.6, -3.0, +1.6):
                    out.append(tuple(v[k] + sg * margin * R * (v[k] - cen[k]) / d for k in range(3)))
                out.append(tuple(cen[k] + 0.35 * (v[k] - cen[k]) for k in range(3)))      # well inside the mesh, off its centre
    return out

# ----------------------------------------------------------------------------------------------- harness access
class H:
    def __init__(self, hb, workdir): self.hb = hb; self.wd = workdir; self.calls = 0
    def run(self, lines, env=None):
        self.calls += len(lines)
        rc, out, err = core.run_harness(self.hb, lines, self.wd, timeout=900, env=env)
        def sp(o):
            try: return core.fparse(o)
            except ValueError: return None, None      # noise on the harness' stdout
        return [sp(o) for o in out]

def dsm_line(mid, cfg, named, dips):
    return core.fcase("c08", [2, mid, cfg[0], cfg[1], named, len(dips)], [cfg[2]] + flat(dips))
def ip_line(mid, named, pts, dips):
    return core.fcase("c08", [4, mid, named, len(pts), len(dips)], flat(pts) + flat(dips))
def meg_line(sens, dips):
    return core.fcase("c08", [3, len(sens), len(dips)], flat(sens) + flat(dips))

def cols(res):
    """(ints, floats) of a matrix result -> list of columns, or None when the call threw"""
    zi, fl = res
    if zi is None or zi[0] != 0: return None
    nl, nc = zi[1], zi[2]
    return [fl[k * nl:(k + 1) * nl] for k in range(nc)]

def bits(c): return [x.hex() for x in c]
def same_bits(a, b): return len(a) == len(b) and all(x.hex() == y.hex() for x, y in zip(a, b))
def colmax(c): return max([abs(x) for x in c] + [0.0])
THREAD_REL = 1e-12
THREAD_STATS = dict(p1_entries=0, p1_not_bitwise=0, p1_worst_rel=0.0, p0_entries=0)
def same_col(spec, a, b):
    """one thread: bitwise.  Several threads (spec['threads']>1, DipSourceMat only): the rows of the P0 unknowns
    (operatorDipolePot: each triangle writes its own row -- owner computes) bitwise, the rows of the P1 unknowns
    (operatorDipolePotDer: contributions of the triangles around a vertex summed inside `omp critical` in arrival order)
    at the rounding class THREAD_REL*max|column|; zero columns exactly zero."""
    if spec.get("threads", 1) <= 1 or spec["fn"] != "dsm": return same_bits(a, b)
    if len(a) != len(b): return False
    tri = set(spec.get("tri_rows", [])); sc = max(colmax(a), colmax(b))
    for k, (x, y) in enumerate(zip(a, b)):
        if k in tri or sc == 0:
            THREAD_STATS["p0_entries"] += 1
            if x.hex() != y.hex(): return False
        else:
            THREAD_STATS["p1_entries"] += 1
            if x.hex() != y.hex():
                THREAD_STATS["p1_not_bitwise"] += 1; THREAD_STATS["p1_worst_rel"] = max(THREAD_STATS["p1_worst_rel"], abs(x - y) / sc)
            if not abs(x - y) <= THREAD_REL * sc: return False
    return True

def first_diff(a, b):
    for k, (x, y) in enumerate(zip(a, b)):
        if x.hex() != y.hex(): return k
    return min(len(a), len(b))

# ----------------------------------------------------------------------------------------------- specs
# A spec is a JSON-able dict; plan(spec) -> harness lines; judge(spec, results) -> list of (signature, text) failures.
def scale_dips(dips, lam): return [tuple(d[:3]) + tuple(l * x for x in d[3:]) for d, l in zip(dips, lam)]

def call_line(spec, dips, named=None):
    k = spec["fn"]
    if k == "dsm": return dsm_line(spec["mid"], spec["cfg"], spec.get("named", -1) if named is None else named, dips)
    if k == "ip": return ip_line(spec["mid"], spec.get("named", -1) if named is None else named, spec["pts"], dips)
    if k == "eit": return core.fcase("c08", [8, spec["mid"], len(dips)], flat(dips))      # "dips" = electrode positions
    return meg_line(spec["sens"], dips)

def fn_name(spec): return {"dsm": "DipSourceMat", "ip": "DipSource2InternalPotMat", "meg": "DipSource2MEGMat", "eit": "EITSourceMat", "ssm": "SurfSourceMat"}[spec["fn"]]
def cfg_name(spec): return (" integrator(%d,%d,%g)" % tuple(spec["cfg"][:3])) if spec["fn"] == "dsm" else ""

def plan(spec):
    r = spec["rel"]; ds = spec["dips"]
    if r == "locality":
        lines = [call_line(spec, ds)] + [call_line(spec, [d]) for d in ds]
        lines.append(call_line(spec, [ds[i] for i in spec["p"]]))
        k = spec["cut"]; lines += [call_line(spec, ds[:k]), call_line(spec, ds[k:])]
        return lines
    if r == "pair":        # minimised locality witness: [a, b] vs [b]
        return [call_line(spec, ds), call_line(spec, [ds[1]])]
    if r == "scale":
        return [call_line(spec, ds), call_line(spec, scale_dips(ds, spec["lam"]))]
    if r == "add":
        q2 = spec["q2"]
        d2 = [tuple(d[:3]) + tuple(q) for d, q in zip(ds, q2)]
        d12 = [tuple(d[:3]) + tuple(a + b for a, b in zip(d[3:], q)) for d, q in zip(ds, q2)]
        return [call_line(spec, ds), call_line(spec, d2), call_line(spec, d12)]
    if r == "named":
        return [call_line(spec, ds, named=spec["dom"]), call_line(spec, ds, named=-1)]
    if r == "zero":
        return [call_line(spec, ds)]
    if r == "reuse":       # fresh Geometry for B vs one Geometry object loaded with A, used with the same list, re-loaded with B
        if spec["fn"] == "dsm":
            fresh = dsm_line(spec["mid"], spec["cfg"], -1, ds)
            reuse = core.fcase("c08", [10, spec["midA"], spec["mid"], 0, spec["cfg"][0], spec["cfg"][1], len(ds), 0], [spec["cfg"][2]] + flat(ds))
        else:
            fresh = ip_line(spec["mid"], -1, spec["pts"], ds)
            reuse = core.fcase("c08", [10, spec["midA"], spec["mid"], 1, 3, 0, len(ds), len(spec["pts"])], [0.0] + flat(ds) + flat(spec["pts"]))
        return [fresh, reuse]
    if r == "star":        # SurfSourceMat on two source meshes that differ away from the listed source vertices
        return [core.fcase("c08", [9, spec["mid"], spec["files"][0]], []), core.fcase("c08", [9, spec["mid"], spec["files"][1]], [])]
    raise ValueError(r)

def judge(spec, res):
    r = spec["rel"]; out = []; fn = fn_name(spec) + cfg_name(spec)
    M = [cols(x) for x in res]
    if r == "locality":
        n = len(spec["dips"]); full = M[0]
        if full is None:
            # a batch throws iff one of its dipoles alone throws (dsm_failure_local)
            if all(M[1 + i] is not None for i in range(n)):
                out.append(("locality: batch throws, every dipole alone succeeds", "%s threw on the batch of %d dipoles although each dipole alone is accepted" % (fn, n)))
            return out
        if len(full) != n: out.append(("locality: wrong number of columns", "%s returned %d columns for %d dipoles" % (fn, len(full), n))); return out
        for i in range(n):
            s = M[1 + i]
            if s is None or len(s) != 1 or not same_col(spec, s[0], full[i]):
                k = first_diff(s[0], full[i]) if s else -1
                out.append(("locality: column of a batch differs from the dipole alone",
                            "%s: column %d of the batch of %d dipoles differs from the column of dipole %d computed alone (first differing row %d: batch %r alone %r)"
                            % (fn, i, n, i, k, full[i][k] if 0 <= k < len(full[i]) else None, s[0][k] if s and 0 <= k < len(s[0]) else None)))
                spec["_bad"] = i
                break
        re = M[1 + n]; p = spec["p"]
        if re is None or len(re) != len(p) or any(not same_col(spec, re[k], full[p[k]]) for k in range(len(p))):
            out.append(("locality: re-indexed batch", "%s: the batch re-indexed by %s (permutation with repeats/omissions) does not give the re-indexed columns" % (fn, p)))
        a, b = M[2 + n], M[3 + n]; k = spec["cut"]
        if a is None or b is None or len(a) + len(b) != n or any(not same_col(spec, x, y) for x, y in zip(a + b, full)):
            out.append(("locality: split batch", "%s: computing dipoles [0,%d) and [%d,%d) separately does not give the columns of the whole batch" % (fn, k, k, n)))
        for i in spec.get("zero_cols", []):
            if any(x.hex() != (0.0).hex() for x in full[i]):
                out.append(("zero: non-conductive domain", "%s: dipole %d lies in a domain of conductivity 0 but its column is not exactly zero (max |entry| %g)" % (fn, i, colmax(full[i]))))
                break
        return out
    if r == "pair":
        if M[0] is None or M[1] is None: return out
        if not same_bits(M[0][1], M[1][0]):
            k = first_diff(M[0][1], M[1][0])
            out.append(("locality: column of a batch differs from the dipole alone",
                        "%s: with dipoles [a,b], column 1 differs from the column of b alone (row %d: %r vs %r)" % (fn, k, M[0][1][k], M[1][0][k])))
        return out
    if r == "scale":
        A, B = M
        if A is None or B is None:
            if (A is None) != (B is None): out.append(("homogeneity: exception", "%s throws for the scaled moments only (or only for the unscaled ones)" % fn))
            return out
        for i, lam in enumerate(spec["lam"]):
            exact = (lam != 0 and math.frexp(abs(lam))[0] == 0.5)
            want = [lam * x for x in A[i]]
            if exact or lam == 0:
                ok = all((w == g) for w, g in zip(want, B[i]))       # == : +0/-0 are both zero
                cls = "bitwise (factor is a power of two or zero)"
            else:
                s = colmax(want); ok = all(abs(w - g) <= ROUND_REL * s for w, g in zip(want, B[i])); cls = "rounding class %g*max|column|" % ROUND_REL
            if not ok:
                k = max(range(len(want)), key=lambda j: abs(want[j] - B[i][j]))
                out.append(("homogeneity: column not scaled with the moment",
                            "%s: moment of dipole %d scaled by %r, column is not scaled by the same factor (%s): row %d expected %r got %r, max|column| %g"
                            % (fn, i, lam, cls, k, want[k], B[i][k], colmax(want))))
                break
        return out
    if r == "add":
        A, B, C = M
        if A is None or B is None or C is None: return out
        adaptive = spec["fn"] == "dsm" and spec["cfg"][1] > 0
        worst = 0.0
        for i in range(len(A)):
            s = max(colmax(A[i]), colmax(B[i]), colmax(C[i]))
            if s == 0: continue
            d = max(abs(a + b - c) for a, b, c in zip(A[i], B[i], C[i]))
            worst = max(worst, d / s)
            bound = ADD_ADAPTIVE_FACTOR * spec["cfg"][2] if adaptive else ROUND_REL
            # the tolerance-based bound only means something when the recursion stops by tolerance, not by depth: with the
            # depth-3 setting a dipole 0.14 R from a surface is cut off unconverged (0.19*max|column| seen) -> measured only
            if adaptive and spec["cfg"][1] < 10: continue
            if d > bound * s:
                out.append(("additivity: column(q1+q2) differs from column(q1)+column(q2)" + (" beyond the integrator tolerance" if adaptive else ""),
                            "%s: dipole %d, |col(q1+q2)-col(q1)-col(q2)| = %g = %.3g * max|column|, allowed %.3g (%s)"
                            % (fn, i, d, d / s, bound, "empirical bound factor*tolerance, adaptive integration" if adaptive else "rounding class")))
                break
        spec["_worst"] = worst
        return out
    if r == "named":
        A, B = M
        if A is None or B is None:
            if (A is None) != (B is None): out.append(("named domain: exception", "%s: naming the domain throws / locating throws, the other does not" % fn))
            return out
        if len(A) != len(B) or any(not same_col(spec, a, b) for a, b in zip(A, B)):
            out.append(("named domain: differs from located", "%s: naming domain #%d explicitly gives other columns than letting the library locate the dipoles (which all lie in it)" % (fn, spec["dom"])))
        return out
    if r == "reuse":
        A, B = M
        if A is None and B is None: return out
        if A is None or B is None or len(A) != len(B) or any(not same_bits(a, b) for a, b in zip(A, B)):
            k = next((i for i in range(min(len(A or []), len(B or []))) if not same_bits(A[i], B[i])), 0)
            out.append(("history: a re-loaded Geometry object gives other columns than a fresh one",
                        "%s on a Geometry object that was loaded with head #%d, used with the same dipole list, and re-loaded with head #%d differs from a fresh Geometry for head #%d (%s; first differing column %d, max|fresh| %g, max|reused| %g): the column of a dipole depends on what the object located before"
                        % (fn, spec["midA"], spec["mid"], spec["mid"], "the re-used object %s" % ("throws / crashes" if B is None else "returns"), k,
                           colmax(A[k]) if A and k < len(A) else float("nan"), colmax(B[k]) if B and k < len(B) else float("nan"))))
        return out
    if r == "star":
        A, B = M
        spec["_threw"] = int(A is None) + int(B is None)
        if A is None or B is None:
            if (A is None) != (B is None): out.append(("star: exception", "SurfSourceMat throws for one of two source meshes that differ by one displaced vertex"))
            else: out.append(("throws for a source surface inside a conductive domain", "SurfSourceMat throws (status %s) for a closed 12-vertex source surface that lies well inside a conductive domain of the head (before the fix 88ce969: whenever that domain is bounded by a current-barrier mesh, e.g. a one-layer head)" % (res[0][0],)))
            return out
        spec["_nonzero"] = sum(1 for j in spec["same"] if colmax(A[j]) > 0); spec["_changed"] = sum(1 for j in spec["moved"] if not same_bits(A[j], B[j]))
        for j in spec["same"]:
            if not same_bits(A[j], B[j]):
                k = first_diff(A[j], B[j])
                out.append(("star: column depends on source triangles away from its vertex",
                            "SurfSourceMat: source vertex %d is not on any triangle touching the displaced vertex %d, yet its column changes (row %d: %r vs %r)" % (j, spec["moved"][0], k, A[j][k], B[j][k]))); break
        return out
    if r == "zero":
        A = M[0]
        if A is None: return out
        for i in spec["zero_cols"]:
            if any(x.hex() != (0.0).hex() for x in A[i]):
                out.append(("zero: non-conductive domain", "%s: dipole %d lies in a domain of conductivity 0 but its column is not exactly zero (max %g)" % (fn, i, colmax(A[i])))); break
        return out
    return out

# ----------------------------------------------------------------------------------------------- structure tie
def pattern_of(M):
    """(first equal earlier column, support) per column of a real matrix"""
    pat = []
    for k, c in enumerate(M):
        fe = k
        for j in range(k):
            if same_bits(M[j], c): fe = j; break
        pat.append((fe, [i for i, x in enumerate(c) if x != 0.0]))
    return pat

def parse_model_pattern(line):
    z = [int(t) for t in line.split()]
    if z[0] != 0: return None
    n = z[1]; p = 2; pat = []
    for _ in range(n):
        fe, nnz = z[p], z[p + 1]; pat.append((fe, z[p + 2:p + 2 + nnz])); p += 2 + nnz
    return pat

def struct_case(op, geo_ints, named, points, dips_keys_cont):
    w = [op] + list(geo_ints) + [named]
    if points is not None:
        w.append(len(points))
        for key, cont in points: w += [key, len(cont)] + list(cont)
    w.append(len(dips_keys_cont))
    for key, cont in dips_keys_cont: w += [key, len(cont)] + list(cont)
    return "c08s " + " ".join(map(str, w))

# ----------------------------------------------------------------------------------------------- integrator tie
def integ_cases(rng, rules, n):
    """(model line, harness line, description)"""
    out = []
    for _ in range(n):
        kind = rng.choice([0, 0, 1, 1, 2, 2]); order = rng.choice([1, 2, 3]); depth = rng.choice([0, 0, 1, 2, 3, 5])
        tol = rng.choice([0.0, 1e-4, 1e-3, 1e-2, 0.1, 0.5, 2.0])
        tri = [rng.uniform(-1, 1) for _ in range(9)]
        if rng.random() < 0.1: tri[6:9] = [tri[0] + 2 * (tri[3] - tri[0]), tri[1] + 2 * (tri[4] - tri[1]), tri[2] + 2 * (tri[5] - tri[2])]   # degenerate: area 0
        if kind == 0:
            par = [rng.choice([0.0, 1.0, rng.uniform(-2, 2)]) for _ in range(7)]
            if rng.random() < 0.15: par = [0.0] * 7                                           # zero integrand: coarse = 0
        else:
            c = [(tri[0] + tri[3] + tri[6]) / 3, (tri[1] + tri[4] + tri[7]) / 3, (tri[2] + tri[5] + tri[8]) / 3]
            dist = rng.choice([0.05, 0.2, 0.5, 2.0]); u = models.random_unit(rng)
            par = [c[k] + dist * u[k] for k in range(3)] + list(models.random_unit(rng))
        npts, rule = rules[order]
        ml = core.fcase("c08i", [kind, depth, npts], rule + [tol] + tri + par)
        hl = core.fcase("c08", [5, kind, depth, order], [tol] + tri + par)
        out.append((ml, hl, dict(kind=kind, order=order, depth=depth, tol=tol)))
    return out

# ----------------------------------------------------------------------------------------------- main
def gen_model_specs(rng, h, mid, m, quick, rules=None, consts=None, prev_mid=None):
    """writes the model, asks the library where candidate points lie, and returns (specs, struct jobs, info)"""
    models.write_model(m, os.path.join(h.wd, "m%d" % mid))
    cand = candidate_points(rng, m, 60 if quick else 150)
    desc, cont = h.run([core.fcase("c08", [1, mid], []), core.fcase("c08", [7, mid, len(cand)], flat(cand))])
    if desc[0] is None or desc[0][0] != 0 or cont[0] is None or cont[0][0] != 0:
        return None
    geo_ints = desc[0][1:]; ndom = geo_ints[1]; conds = desc[1][:ndom]; coords = desc[1][ndom:]; nser = len(coords) // 9
    z = cont[0][1:]; p = 0; where = []; located = []
    for _ in cand:
        k = z[p]; where.append(z[p + 1:p + 1 + k]); located.append(z[p + 1 + k]); p += 2 + k
    # the generator's own location of every candidate (ground truth) vs Geometry::domain / Domain::contains of the library
    truth = [truth_domains(m, pt) for pt in cand]
    loc = dict(checked=0, mismatches=[])
    by_dom = {}
    for pt, w, t, lc in zip(cand, where, truth, located):
        if len(t) != 1: continue
        loc["checked"] += 1
        if list(w) != t or lc != t[0]:
            loc["mismatches"].append(dict(point=list(pt), truth=t[0], truth_name=m["domains"][t[0]][0], library=list(w), located=lc,
                                          library_name=("Geometry::domain -> %s" % (m["domains"][lc][0] if 0 <= lc < len(m["domains"]) else "throws") if lc != t[0] else
                                                        "Domain::contains true for %s" % [m["domains"][k][0] for k in w if k < len(m["domains"])])))
        by_dom.setdefault(t[0], []).append((pt, w))
    # a batch with dipoles from every domain (conductive or not)
    used = set()
    def pick(k):
        # points never coincide with earlier picks (a potential evaluated at the dipole position is 0/0)
        chosen = []
        doms = sorted(by_dom)
        for d in doms:
            for x in [x for x in by_dom[d] if x[0] not in used][:1]: chosen.append(x); used.add(x[0])
        pool = [x for d in doms for x in by_dom[d] if x[0] not in used]
        rng.shuffle(pool); chosen += pool[:max(0, k - len(chosen))]
        for x in chosen: used.add(x[0])
        rng.shuffle(chosen)
        return chosen
    specs = []; structs = []
    n = rng.randint(4, 7) if quick else rng.randint(6, 12)
    batch = pick(n)
    def mom():
        u = models.random_unit(rng); s = rng.choice([1.0, 1.0, 1e-3, 250.0, rng.uniform(0.1, 10)])
        return tuple(s * x for x in u)
    dips = [tuple(pt) + mom() for pt, w in batch]
    tdom = {pt: t[0] for pt, t in zip(cand, truth) if len(t) == 1}
    zero_cols = [i for i, (pt, w) in enumerate(batch) if conds[tdom[pt]] == 0.0]
    def reidx(n):
        L = rng.randint(1, 2 * n); return [rng.randrange(n) for _ in range(L)]
    for cfg in CFGS:
        specs.append(dict(fn="dsm", rel="locality", mid=mid, cfg=list(cfg[:3]), dips=dips, p=reidx(len(dips)), cut=rng.randint(0, len(dips)), zero_cols=zero_cols))
        lam = [rng.choice([2.0, -0.5, 1024.0, 2.0 ** -20, 0.0, -1.0, 3.0, -7.3, 1e-3, rng.uniform(-100, 100)]) for _ in dips]
        specs.append(dict(fn="dsm", rel="scale", mid=mid, cfg=list(cfg[:3]), dips=dips, lam=lam))
        specs.append(dict(fn="dsm", rel="add", mid=mid, cfg=list(cfg[:3]), dips=dips, q2=[mom() for _ in dips]))
        for d in sorted(by_dom):
            # the domain is named by the generator's ground truth (not by where the library puts the dipole); the dipoles
            # include the extremes of the compartment along every axis (first entries of the candidate list)
            inside = [tuple(pt) + mom() for pt, w in by_dom[d][:10]]
            if inside: specs.append(dict(fn="dsm", rel="named", mid=mid, cfg=list(cfg[:3]), dips=inside, dom=d))
    # internal potential: points in every domain, same relations
    pts = [pt for pt, w in pick(rng.randint(3, 8))]
    sp = dict(fn="ip", mid=mid, pts=pts)
    specs.append(dict(sp, rel="locality", dips=dips, p=reidx(len(dips)), cut=rng.randint(0, len(dips)), zero_cols=zero_cols))
    specs.append(dict(sp, rel="scale", dips=dips, lam=[rng.choice([2.0, -0.25, 0.0, 3.0, -7.3, rng.uniform(-100, 100)]) for _ in dips]))
    specs.append(dict(sp, rel="add", dips=dips, q2=[mom() for _ in dips]))
    for d in sorted(by_dom):
        inside = [tuple(pt) + mom() for pt, w in [x for x in by_dom[d] if x[0] not in pts][:10]]
        if inside and conds[d] != 0.0: specs.append(dict(sp, rel="named", dips=inside, dom=d))
    # deterministic site batches (DipSourceMat fixed + default adaptive, DipSource2InternalPotMat)
    site = [pt for pt, w in batch][:3]
    if len(site) == 3:
        zero_of = lambda q: conds[tdom[tuple(q)]] == 0.0
        for cfg in CFGS[:2]:
            specs += site_specs(dict(fn="dsm", mid=mid, cfg=list(cfg[:3])), site[0], site[1], site[2], mom, zero_of)
        specs += site_specs(dict(sp), site[0], site[1], site[2], mom, zero_of)
    # reuse stream (history): the previous head of this run is loaded into the same Geometry object first
    if prev_mid is not None and len(site) == 3:
        d2 = [tuple(site[0]) + mom(), tuple(site[1]) + mom(), tuple(site[2]) + mom(), tuple(site[0]) + mom()]
        for ds_ in ([dips[0]], d2, dips):
            specs.append(dict(fn="dsm", rel="reuse", mid=mid, midA=prev_mid, cfg=list(CFGS[0][:3]), dips=ds_))
        specs.append(dict(fn="dsm", rel="reuse", mid=mid, midA=prev_mid, cfg=list(CFGS[1][:3]), dips=[dips[-1]]))
        specs.append(dict(sp, rel="reuse", midA=prev_mid, dips=[dips[0]])); specs.append(dict(sp, rel="reuse", midA=prev_mid, dips=d2))
    # EITSourceMat: point electrodes next to the scalp; same locality relations (columns = electrodes)
    R_ = m["info"]["outer_radius"]; c_ = m["info"].get("centre", (0, 0, 0))
    els = [tuple(x) + (0.0, 0.0, 0.0) for x in models.sensors_on_sphere(rng, rng.randint(2, 5), c_, 1.01 * R_)]     # padded to 6 numbers, only 3 are sent
    els = [e[:3] for e in els]
    specs.append(dict(fn="eit", mid=mid, rel="locality", dips=els, p=reidx(len(els)), cut=rng.randint(1, len(els) - 1), zero_cols=[]))      # an empty electrode set is not a case here
    # SurfSourceMat: a 12-vertex source surface inside a conductive domain, and the same surface with one vertex displaced
    # along the surface normal: the columns of the source vertices that share no triangle with it must not change
    cen = None
    smp = tri_samples(m)
    for pt, w in zip(cand, where):
        if len(w) >= 1 and conds[w[0]] != 0.0 and far_from(pt, smp, 0.24 * R_): cen = pt; break
    if cen is not None:
        v0, t0 = models.icosphere(0); rad = 0.14 * R_
        vs = models.transform(v0, rad, cen); mv = rng.randrange(12)
        vs2 = list(vs); vs2[mv] = tuple(cen[k] + 1.25 * (vs[mv][k] - cen[k]) for k in range(3))
        adj = {a for t in t0 if mv in t for a in t}
        d = os.path.join(h.wd, "m%d" % mid)
        models.write_tri(os.path.join(d, "src0.tri"), vs, t0); models.write_tri(os.path.join(d, "src1.tri"), vs2, t0)
        specs.append(dict(fn="ssm", mid=mid, rel="star", files=[0, 1], same=[j for j in range(12) if j not in adj], moved=sorted(adj, key=lambda a: a != mv),
                          dips=[], src=[[list(v) for v in vs], [list(v) for v in vs2], [list(t) for t in t0]]))
    # structure jobs: (model case, harness case, description)
    keys = {}; sd = []
    ridx = reidx(len(dips)) + list(range(len(dips)))
    for i in ridx:
        keys.setdefault(i, len(keys) + 1); sd.append((keys[i], batch[i][1]))
    sdips = [dips[i] for i in ridx]
    for named in [-1] + ([rng.randrange(ndom)] if ndom else []) + ([ndom + 1] if rng.random() < 0.5 else []):
        structs.append((struct_case(1, geo_ints, named, None, sd), dsm_line(mid, CFGS[1], named, sdips), "DipSourceMat named=%d" % named))
    pk = pick(rng.randint(3, 8))
    spts = [(1000 + j, w) for j, (pt, w) in enumerate(pk)]
    structs.append((struct_case(2, geo_ints, -1, spts, sd), ip_line(mid, -1, [pt for pt, w in pk], sdips), "DipSource2InternalPotMat"))
    if rng.random() < 0.4:
        structs.append((struct_case(1, geo_ints, -1, None, []), dsm_line(mid, CFGS[0], -1, []), "DipSourceMat with no dipole"))
    # value jobs: the complete float model (loop + integrator + C16's kernel transcription) against the real matrices
    values = []
    if rules is not None and consts is not None:
        bcont = [w for pt, w in batch]
        def vline(op, cfg, named, ipts, icont):
            npts, rule = rules[cfg[0]]
            zi = [op, npts, cfg[1], nser, ndom, len(ipts), len(dips)] + list(geo_ints) + [named]
            for c in list(icont) + bcont: zi += [len(c)] + list(c)
            return core.fcase("c08d", zi, [consts["K"], cfg[2]] + rule + conds + coords + flat(ipts) + flat(dips))
        for cfg in CFGS:
            values.append((vline(1, cfg, -1, [], []), dsm_line(mid, cfg, -1, dips), "DipSourceMat integrator(%d,%d,%g)" % tuple(cfg[:3])))
        nd = rng.randrange(ndom)
        values.append((vline(1, CFGS[1], nd, [], []), dsm_line(mid, CFGS[1], nd, dips), "DipSourceMat named=%d" % nd))
        values.append((vline(2, CFGS[0], -1, [pt for pt, w in pk], [w for pt, w in pk]), ip_line(mid, -1, [pt for pt, w in pk], dips), "DipSource2InternalPotMat"))
    # rows of the P0 unknowns (triangle indices below the size), for the several-thread comparison
    tri_rows = set(); z = geo_ints; q = 2
    for _d in range(ndom):
        nb = z[q + 2]; q += 3
        for _b in range(nb):
            no = z[q + 1]; q += 2
            for _o in range(no):
                nt = z[q + 2]; q += 3
                for _t in range(nt):
                    if z[q] < geo_ints[0]: tri_rows.add(z[q])
                    q += 5
    threaded = []
    for nth in (2, 4):
        cfg = CFGS[1] if nth == 2 else CFGS[0]
        threaded.append(dict(fn="dsm", rel="locality", mid=mid, cfg=list(cfg[:3]), dips=dips, p=reidx(len(dips)), cut=rng.randint(0, len(dips)), zero_cols=zero_cols, threads=nth, tri_rows=sorted(tri_rows)))
        for d in sorted(by_dom)[:2]:
            inside = [tuple(pt) + mom() for pt, w in by_dom[d][:3]]
            if inside: threaded.append(dict(fn="dsm", rel="named", mid=mid, cfg=list(cfg[:3]), dips=inside, dom=d, threads=nth, tri_rows=sorted(tri_rows)))
        threaded.append(dict(fn="ip", mid=mid, pts=pts, rel="locality", dips=dips, p=reidx(len(dips)), cut=rng.randint(0, len(dips)), zero_cols=zero_cols, threads=nth))
    info = dict(kind=m["info"].get("topology"), domains=ndom, size=geo_ints[0], dipoles=len(dips), zero_cond_dipoles=len(zero_cols),
                dipoles_per_domain={str(d): len(v) for d, v in by_dom.items()})
    info["location"] = loc
    return specs, structs, info, values, threaded

def site_specs(base, A, X, Y, mom, zero_of=None):
    """deterministic part of every run (never behind a probability): a batch with the 3 orientations at one site between two
    other dipoles (re-indexed to the 3 orientations alone), and a batch that starts and ends at the same location; both with
    every dipole also computed alone (single-dipole batches) and split.  Catches state keyed on the dipole location."""
    e = [(1.0, 0.0, 0.0), (0.0, 1.0, 0.0), (0.0, 0.0, 1.0)]
    d1 = [tuple(X) + mom(), tuple(A) + e[0], tuple(A) + e[1], tuple(A) + e[2], tuple(Y) + mom()]
    d2 = [tuple(A) + mom(), tuple(X) + mom(), tuple(Y) + mom(), tuple(A) + mom()]
    z = (lambda ds: [i for i, d in enumerate(ds) if zero_of(d[:3])]) if zero_of else (lambda ds: [])
    return [dict(base, rel="locality", dips=d1, p=[1, 2, 3], cut=1, zero_cols=z(d1), site="3 orientations at one site"),
            dict(base, rel="locality", dips=d2, p=[3, 0], cut=3, zero_cols=z(d2), site="first and last dipole at the same location")]

def meg_specs(rng, quick):
    specs = []
    # deterministic: 4 sensors, the two site batches
    sens0 = [tuple(1.3 * x for x in models.random_unit(rng)) + models.random_unit(rng) + (1.0,) for _ in range(4)]
    pos0, _m = models.dipoles_in_ball(rng, 3, (0, 0, 0), 1.0)
    specs += site_specs(dict(fn="meg", sens=sens0, mid=-1), pos0[0], pos0[1], pos0[2], lambda: models.random_unit(rng))
    for _ in range(3 if quick else 10):
        ns = rng.choice([1, 2, 5, 9]); nd = rng.choice([1, 2, 6])
        sens = [tuple(1.3 * x for x in models.random_unit(rng)) + models.random_unit(rng) + (rng.choice([1.0, 0.5, 2.0, rng.uniform(0.1, 3)]),) for _ in range(ns)]
        pos, momu = models.dipoles_in_ball(rng, nd, (0, 0, 0), 1.0)
        dips = [tuple(p) + tuple(rng.choice([1.0, 1e-2, 40.0]) * x for x in q) for p, q in zip(pos, momu)]
        sp = dict(fn="meg", sens=sens, mid=-1)
        specs.append(dict(sp, rel="locality", dips=dips, p=[rng.randrange(nd) for _ in range(rng.randint(1, 2 * nd))], cut=rng.randint(0, nd), zero_cols=[]))
        specs.append(dict(sp, rel="scale", dips=dips, lam=[rng.choice([2.0, -0.5, 0.0, 3.0, -7.3, rng.uniform(-100, 100)]) for _ in dips]))
        specs.append(dict(sp, rel="add", dips=dips, q2=[models.random_unit(rng) for _ in dips]))
    return specs

def run_specs(ck, h, specs, mdl_of, env=None):
    """batch-run the specs; returns counts; reports violations (with minimisation for locality)"""
    lines = []; idx = []
    for s in specs:
        l = plan(s); idx.append((len(lines), len(l))); lines += l
    res = h.run(lines, env)
    nfail = 0
    for s, (a, n) in zip(specs, idx):
        fails = judge(s, res[a:a + n])
        for sig, text in fails:
            nfail += 1
            rep = dict(kind="relation", spec={k: v for k, v in s.items() if not k.startswith("_")}, model=mdl_of(s), replay_cmd="./check C08 --replay <this file>")
            if s.get("midA") is not None: rep["modelA"] = mdl_of(dict(mid=s["midA"]))
            if s["rel"] == "locality" and "_bad" in s:
                # S: minimise to two dipoles
                i = s["_bad"]; best = None
                for j in range(len(s["dips"])):
                    if j == i: continue
                    ps = dict(s, rel="pair", dips=[s["dips"][j], s["dips"][i]])
                    if judge(ps, h.run(plan(ps), env)): best = ps; break
                if best is not None:
                    rep["spec"] = {k: v for k, v in best.items() if not k.startswith("_") and k not in ("p", "cut", "zero_cols")}
                    text += "; minimised to the two dipoles %s" % (best["dips"],)
            if s.get("site"): text += " [batch: %s]" % s["site"]
            if s.get("threads", 1) > 1: text += " [OMP_NUM_THREADS=%d: P0 rows bitwise, P1 rows at %g*max|column|]" % (s["threads"], THREAD_REL); rep["env"] = dict(OMP_NUM_THREADS=str(s["threads"]))
            ck.violation("%s %s%s" % (fn_name(s), sig, " (several threads)" if s.get("threads", 1) > 1 else ""), text, rep)
    return nfail

def main(replay=None):
    ck = core.Check(PROP, "proof")
    quick = ck.tier != "thorough"
    bdir, hb = ck.prepare("Props/Properties_C08.v", "h_c08.cpp")
    if hb is None: return ck.finish()
    h = H(hb, ck.workdir)
    model_store = {}
    def mdl_of(s): return model_store.get(s.get("mid"))

    if replay:
        rp = json.load(open(replay)); kind = rp.get("kind")
        if kind == "relation":
            s = rp["spec"]; s["dips"] = [tuple(d) for d in s["dips"]]
            if rp.get("model") is not None:
                m = rp["model"]; m["meshes"] = [(n, [tuple(v) for v in vs], [tuple(t) for t in ts]) for n, vs, ts in m["meshes"]]
                model_store[s.get("mid")] = m
                models.write_model(m, os.path.join(h.wd, "m%d" % s["mid"]))
                if rp.get("modelA") is not None:
                    mA = rp["modelA"]; mA["meshes"] = [(n, [tuple(v) for v in vs], [tuple(t) for t in ts]) for n, vs, ts in mA["meshes"]]
                    models.write_model(mA, os.path.join(h.wd, "m%d" % s["midA"]))
                if s.get("src"):
                    vs, vs2, t0 = s["src"]; d = os.path.join(h.wd, "m%d" % s["mid"])
                    models.write_tri(os.path.join(d, "src0.tri"), [tuple(v) for v in vs], [tuple(t) for t in t0]); models.write_tri(os.path.join(d, "src1.tri"), [tuple(v) for v in vs2], [tuple(t) for t in t0])
            run_specs(ck, h, [s], mdl_of, env=rp.get("env"))
        elif kind == "integrator":
            mo = core.run_model([rp["model_case"]]); ho = h.run([rp["harness_case"]])
            judge_integ(ck, [(rp["model_case"], rp["harness_case"], rp.get("what", {}))], mo, ho, h)
        elif kind == "gains":
            gp = rp["problem"]; gp["model"]["meshes"] = [(n, [tuple(v) for v in vs], [tuple(t) for t in ts]) for n, vs, ts in gp["model"]["meshes"]]
            run_gain_problem(ck, h, gp, {})
        elif kind == "location":
            m = rp["model"]; m["meshes"] = [(n, [tuple(v) for v in vs], [tuple(t) for t in ts]) for n, vs, ts in m["meshes"]]
            m["interfaces"] = [(n, [tuple(x) for x in l]) for n, l in m["interfaces"]]; m["domains"] = [(n, [tuple(x) for x in l]) for n, l in m["domains"]]
            models.write_model(m, os.path.join(h.wd, "m%d" % rp["mid"]))
            res = h.run([core.fcase("c08", [7, rp["mid"], 1], rp["point"])])[0]
            t = truth_domains(m, tuple(rp["point"])); w = res[0][2:2 + res[0][1]] if res[0] and res[0][0] == 0 else None
            lc = res[0][2 + res[0][1]] if w is not None else None
            if w is None or list(w) != t or [lc] != t:
                ck.violation("Geometry::domain(p) / Domain::contains: point located in another compartment than the one it was drawn in",
                             "point %s: generator %s, Domain::contains %s, Geometry::domain %s" % (rp["point"], t, w, lc), dict(rp))
        elif kind == "structure":
            m = rp["model"]; m["meshes"] = [(n, [tuple(v) for v in vs], [tuple(t) for t in ts]) for n, vs, ts in m["meshes"]]
            models.write_model(m, os.path.join(h.wd, "m%d" % rp["mid"]))
            judge_struct(ck, h, [(rp["model_case"], rp["harness_case"], rp["what"])], m, rp["mid"])
        ck.cov.update(evaluations=1, distinct_nontrivial=1, rule="replay of one stored case", samples=[str(replay)])
        return ck.finish()

    # ---- I: integrator
    r6 = h.run(["c08 6 |"])[0]
    rules = {}
    if r6[0] is None or r6[0][0] != 0:
        ck.violation("harness: quadrature tables", "cannot read the quadrature tables from the library", dict(kind="harness"), found_input=False)
        return ck.finish()
    p = 0
    for order, npts in zip((1, 2, 3), r6[0][1:4]):
        rules[order] = (npts, r6[1][p:p + 4 * npts]); p += 4 * npts
    consts = dict(K=r6[1][p], MagFactor=r6[1][p + 1]) if len(r6[1]) >= p + 2 else None
    ic = integ_cases(ck.rng, rules, 300 if quick else 10000)
    corpus = []
    cp = os.path.join(core.VERIF, "corpus", "C08.txt")
    if os.path.exists(cp):
        for l in open(cp):
            l = l.strip()
            if l and not l.startswith("#"):
                a, b = l.split(" ;; "); corpus.append((a, b, dict(corpus=True)))
    ic = corpus + ic
    mo = core.run_model([c[0] for c in ic]); ho = h.run([c[1] for c in ic])
    istats = judge_integ(ck, ic, mo, ho, h)

    # ---- S + M on generated head models
    nmodels = 7 if quick else 40
    kinds = ["nested", "nonconductive", "split", "inclusions", "separate", "nested", "nonconductive"]
    allspecs = []; infos = []; nstruct = 0; struct_mis = 0; nspec_fail = 0; worst_add = {}; loc_checked = 0; loc_bad = 0
    vstats = dict(cases=0, entries=0, bitwise_entries=0, agree_cases=0, worst_rel=0.0, mismatches=[])
    for mid in range(nmodels):
        kind = kinds[mid] if mid < len(kinds) else ck.rng.choice(kinds)
        if kind == "separate":      # two or three separate (possibly layered) conductors in one air: Air is bounded by several interfaces, listed in any order
            import geomdesc
            m = geomdesc.separate_conductors(ck.rng, ck.rng.choice([2, 3]), 1); m["info"]["topology"] = "separate"
        else:
            m = models.random_model(ck.rng, 2 if (not quick and mid % 7 == 6) else 1, kinds=(kind,))     # thorough: some 162-vertex meshes
        r_ = ck.rng.random()
        if r_ < 0.25:   # moved / scaled heads: nothing here may depend on the frame
            m = models.move_model(m, models.rational_quaternion(ck.rng), (ck.rng.uniform(-1, 1), ck.rng.uniform(-1, 1), ck.rng.uniform(-1, 1)), ck.rng.choice([1.0, 0.1, 80.0]))
            m["info"]["frame"] = "rotated+translated+scaled"
        elif r_ < 0.9:  # axis-aligned variety: cyclic permutation of the axes (off-centre compartments towards +y / +z), anisotropic
                        # stretch (y extent larger than x extent and vice versa), translation along each axis and diagonally
            perm = ck.rng.choice([(0, 1, 2), (2, 0, 1), (1, 2, 0)])
            ax = ck.rng.choice([(1, 1, 1), (1, 1.6, 1), (1.5, 1, 1), (1, 1, 1.7), (0.7, 1.3, 1), (1.3, 0.7, 1.2)])
            d_ = ck.rng.choice([0.0, 0.6, 2.5]); dirs = ck.rng.choice([(1, 0, 0), (0, 1, 0), (0, 0, 1), (1, 1, 1), (0, -1, 0), (-1, 0, 1), (-1, 1, 0)])
            f_ = lambda v: tuple(ax[k] * v[perm[k]] + d_ * dirs[k] for k in range(3))
            m = dict(m); m["meshes"] = [(n_, [f_(v) for v in vs], ts) for n_, vs, ts in m["meshes"]]
            m["info"] = dict(m["info"], frame="perm%s stretch%s shift%s" % (perm, ax, tuple(d_ * x for x in dirs)))
        allv = [v for _, vs, _ in m["meshes"] for v in vs]
        c = tuple(sum(v[k] for v in allv) / len(allv) for k in range(3))
        m["info"]["centre"] = c; m["info"]["outer_radius"] = max(math.sqrt(sum((v[k] - c[k]) ** 2 for k in range(3))) for v in allv)
        if kind == "separate":      # margins relative to the largest single conductor (scale-aware), not to the whole scene
            m["info"]["margin_length"] = max(max(math.sqrt(sum((v[k] - cc[k]) ** 2 for k in range(3))) for v in vs)
                                             for _, vs, _ in m["meshes"] for cc in [tuple(sum(v[k] for v in vs) / len(vs) for k in range(3))])
        model_store[mid] = m
        g = gen_model_specs(ck.rng, h, mid, m, quick, rules, consts, prev_mid=(mid - 1 if mid > 0 else None))
        if g is None:
            ck.violation("harness: geometry", "generated model %d (%s) could not be loaded by the library" % (mid, kind), dict(kind="harness", model=m), found_input=False)
            continue
        specs, structs, info, values, threaded = g; infos.append(info)
        loc = info["location"]; loc_checked += loc["checked"]; loc_bad += len(loc["mismatches"])
        for mm_ in loc["mismatches"][:1]:
            ck.violation("Geometry::domain(p) / Domain::contains: point located in another compartment than the one it was drawn in",
                         "point %s lies in domain #%d (%s) of the generated head (%s; generator's own winding-number location, at least 0.09 R from every surface) but the library says: %s -- the dipole columns of DipSourceMat / DipSource2InternalPotMat then belong to the wrong compartment (%d of %d points of this head mislocated)"
                         % (mm_["point"], mm_["truth"], mm_["truth_name"], m["info"].get("frame", "as generated"), mm_["library_name"] or "no domain", len(loc["mismatches"]), loc["checked"]),
                         dict(kind="location", model=m, mid=mid, point=mm_["point"], truth=mm_["truth"], replay_cmd="./check C08 --replay <this file>"))
        info["location"] = dict(checked=loc["checked"], mismatches=len(loc["mismatches"])); info["frame"] = m["info"].get("frame", "as generated")
        for nth in (2, 4):
            ts = [t for t in threaded if t["threads"] == nth]
            nspec_fail += run_specs(ck, h, ts, mdl_of, env=dict(OMP_NUM_THREADS=str(nth))); allspecs += ts
        judge_values(h, values, vstats)
        nspec_fail += run_specs(ck, h, specs, mdl_of); allspecs += specs
        for s in specs:
            if s["rel"] == "add" and "_worst" in s:
                key = "%s %s" % (s["fn"], "adaptive tol=%g" % s["cfg"][2] if s["fn"] == "dsm" and s["cfg"][1] > 0 else "fixed")
                worst_add[key] = max(worst_add.get(key, 0.0), s["_worst"])
        a, b = judge_struct(ck, h, structs, m, mid); nstruct += a; struct_mis += b
    # every gain class of gain.h, batch sizes that cross any plausible block size
    gstats = {}
    for k, ndg in enumerate([70, 33] if quick else [70, 33, 65, 130]):
        run_gain_problem(ck, h, gain_problem(ck.rng, ndg, 500 + k), gstats)
    ms = meg_specs(ck.rng, quick); nspec_fail += run_specs(ck, h, ms, mdl_of); allspecs += ms
    if consts is not None:
        judge_values(h, [(core.fcase("c08m", [len(s["sens"]), len(s["dips"])], [consts["MagFactor"]] + flat(s["sens"]) + flat(s["dips"])), meg_line(s["sens"], s["dips"]), "DipSource2MEGMat")
                         for s in ms if s["rel"] == "locality"], vstats)
    if vstats["mismatches"]:
        # Not a violation of C08 by itself: the column theorems hold for *any* kernels; with the structure tie (S) and the
        # integrator tie (I) intact, a value difference means the kernel values / coefficients changed (C16 / C01 territory).
        ck.notes.append("value tie: %d of %d matrices differ from the complete float model (first: %s)" % (len(vstats["mismatches"]), vstats["cases"], vstats["mismatches"][0]))

    rel_dist = {}
    for s in allspecs:
        k = "%s/%s%s" % (s["fn"], s["rel"], "/threads=%d" % s["threads"] if s.get("threads", 1) > 1 else ""); rel_dist[k] = rel_dist.get(k, 0) + 1
    ck.cov.update(evaluations=h.calls + len(ic), distinct_nontrivial=len(allspecs) + nstruct + istats["nontrivial"],
                  rule="distinct = relation instances (model x integrator x relation) + structure cases + integrator cases with at least one refinement call or a non-zero value; "
                       "heads: nested / split hemispheres / sibling inclusions / non-conductive inclusion at 42-vertex meshes, half of them moved+scaled; "
                       "dipoles drawn in every domain incl. Air and zero-conductivity inclusions (located by the library itself); moments with magnitudes 1e-3..250; "
                       "scale factors incl. powers of two, 0, negative; re-indexing with repeats and omissions; split at a random cut incl. 0 and n",
                  samples=[json.dumps({k: v for k, v in allspecs[0].items() if k not in ("dips",)})[:300], ic[len(ic) // 2][1][:200]],
                  op_distribution=rel_dist, models=infos, integrator=istats, structure_cases=nstruct, structure_mismatches=struct_mis,
                  relation_failures=nspec_fail, traces_validated_against_impl=nstruct + len(ic) + vstats["agree_cases"],
                  dipole_gains=dict(gstats, classes=GAIN_CLASSES, note="every gain class of gain.h: each column of a batch vs the dipole alone and vs a permuted batch, at %g*max|gain|" % GAIN_REL),
                  point_location=dict(points_checked=loc_checked, mislocated=loc_bad, note="every generated dipole / potential point: the library's containing domains (Domain::contains for every domain) vs the generator's own winding-number location; includes points just inside and just outside the extreme vertices of every mesh along +-x, +-y, +-z"),
                  surf_source=dict(star_cases=sum(1 for s_ in allspecs if s_["rel"] == "star"), unchanged_columns_compared=sum(len(s_["same"]) for s_ in allspecs if s_["rel"] == "star"),
                                   threw=sum(s_.get("_threw", 0) for s_ in allspecs if s_["rel"] == "star"), of_which_nonzero=sum(s_.get("_nonzero", 0) for s_ in allspecs if s_["rel"] == "star"), columns_that_did_change=sum(s_.get("_changed", 0) for s_ in allspecs if s_["rel"] == "star"),
                                   note="SurfSourceMat on a 12-vertex source surface vs the same surface with one vertex displaced: columns of the source vertices sharing no triangle with it compared bitwise (ssm_column_star); the columns of the displaced vertex and its neighbours are expected to change"),
                  several_threads=dict(THREAD_STATS, threads=[2, 4], asserted="DipSourceMat: P0 rows (operatorDipolePot, owner computes) bitwise, P1 rows (operatorDipolePotDer, omp critical accumulation in arrival order) within %g*max|column|, zero columns exactly zero; DipSource2InternalPotMat (no parallel loop): bitwise; DipSource2MEGMat: no parallel loop, one-thread run only" % THREAD_REL),
                  value_tie=dict(vstats, mismatches=vstats["mismatches"][:5], note="complete float model (Sources.DSM/DS2IP/DS2MEG + AdaptInt.integrate + Geom/Kernels.v) vs the real matrices, rounding class 1e-10*max|column|; informative: a mismatch alone is reported as a note, not as a violation (the theorems are parametric in the kernels)"),
                  additivity_worst_relative_discrepancy=worst_add,
                  additivity_note="adaptive: measured |A(q1+q2)-A(q1)-A(q2)|/max|column| against %g*tolerance -- empirical, not a theorem (adaptive_additive_refuted)" % ADD_ADAPTIVE_FACTOR)
    ck.cov["trusted_base"] += ["hand-written Gallina models coq/Geom/{AdaptInt,Sources}.v; integrator tied by float runs of the extracted model against Integrator::integrate (tables read from the compiled library), loop/buffer model tied at the level of zero/equality patterns with provenance sets",
                               "extraction: ExtrOcamlBasic only; OCaml driver float record", "lib/models.py generator, harness/h_c08.cpp"]
    ck.assumptions += ["kernels (analyticDipPotDer::f, Dipole::potential) are abstract in the column theorems; their linearity in the moment is a premise (kernels_linear), satisfiable (Example) -- kernel values are C16's",
                       "Domain::contains is abstract (C11/C12); the structure tie takes containment from the library",
                       "one thread (OMP_NUM_THREADS=1): the accumulation order inside operatorDipolePotDer is the sequential one",
                       "Vector index assertions are modelled by a pre-check of all indices the loops touch (dom_ok), equivalent in outcome"]
    ck.drop_proof_violation_if(any(v[3] for v in ck.violations))
    return ck.finish()

def scaled_integ_line(hl, lam):
    """the same integrator case with the integrand multiplied by lam (kind 0: all coefficients; kinds 1,2: the moment)"""
    zi, fl = core.fparse(hl.split(" ", 1)[1])
    kind = zi[1]; head = fl[:10]; par = list(fl[10:])
    if kind == 0: par = [lam * x for x in par]
    else: par = par[:3] + [lam * x for x in par[3:6]] + par[6:]
    return core.fcase("c08", zi, head + par)

def judge_integ(ck, ic, mo, ho, h=None):
    st = dict(cases=len(ic), bitwise=0, rounding=0, refined=0, nontrivial=0, by_depth={}, tie_mismatches=0, homogeneity_checked=0)
    mism = []
    for (ml, hl, what), m, hres in zip(ic, mo, ho):
        mz, mf = core.fparse(m); hz, hf = hres
        st["by_depth"][str(what.get("depth"))] = st["by_depth"].get(str(what.get("depth")), 0) + 1
        bad = None
        if hz is None or mz is None or hz[0] != 0 or mz[0] != 0: bad = "status model=%s impl=%s" % (mz, hz)
        elif mz[1] != hz[1]: bad = "number of refinement calls: model %d, implementation %d" % (mz[1], hz[1])
        else:
            if mz[1] > 1: st["refined"] += 1
            if mz[1] > 0 or any(x != 0 for x in mf): st["nontrivial"] += 1
            if all(a.hex() == b.hex() or (a != a and b != b) for a, b in zip(mf, hf)): st["bitwise"] += 1
            else:
                s = max(abs(x) for x in mf + hf)
                if all(core.close(a, b, rel=1e-9, scale=s) for a, b in zip(mf, hf)): st["rounding"] += 1
                else: bad = "value: model %r implementation %r" % (mf, hf)
        if bad: mism.append((ml, hl, what, bad))
    st["tie_mismatches"] = len(mism)
    # the property's own relation at the level of the integrator, on the real template: integrate(4 f) = 4 integrate(f)
    # bitwise with the same number of refinement calls (adaptive_homogeneous / adaptive_same_tree; 4 is a power of two)
    found = False
    if h is not None:
        sel = [c for c in ic if not c[2].get("corpus")]
        pri = [(ml, hl, w) for (ml, hl, w, _) in mism if not w.get("corpus")]
        sel = (pri + sel)[:len(pri) + 150]
        hs = h.run([c[1] for c in sel] + [scaled_integ_line(c[1], 4.0) for c in sel]); n = len(sel)
        for k, (ml, hl, what) in enumerate(sel):
            (z1, f1), (z2, f2) = hs[k], hs[n + k]
            if z1 is None or z2 is None or z1[0] != 0 or z2[0] != 0: continue
            st["homogeneity_checked"] += 1
            if z1[1] != z2[1] or any(not (4.0 * a == b or (a != a and b != b)) for a, b in zip(f1, f2)):
                found = True
                ck.violation("integrator: integrate(4 f) differs from 4 integrate(f)",
                             "Integrator::integrate is not homogeneous: integrand scaled by 4 gives %r with %d refinement calls, unscaled %r with %d calls (kind %s order %s depth %s tol %s); case `%s`"
                             % (f2, z2[1], f1, z1[1], what.get("kind"), what.get("order"), what.get("depth"), what.get("tol"), hl[:200]),
                             dict(kind="integrator", model_case=ml, harness_case=hl, what=what, replay_cmd="./check C08 --replay <this file>"))
                break
    if mism:
        ml, hl, what, bad = mism[0]
        ck.violation("integrator: model and Integrator::integrate differ",
                     "the integrator model (Geom/AdaptInt.v, about which triangle_integration_linear / adaptive_homogeneous are proved) no longer matches Integrator::integrate on %d of %d cases; first: %s (kind %s order %s depth %s); case `%s`"
                     % (len(mism), len(ic), bad, what.get("kind"), what.get("order"), what.get("depth"), hl[:160]),
                     dict(kind="integrator", model_case=ml, harness_case=hl, what=what, replay_cmd="./check C08 --replay <this file>"), found_input=False)
    return st

GAIN_CLASSES = ["GainEEG", "GainEEGadjoint", "GainEEGMEGadjoint(EEG)", "GainMEG", "GainMEGadjoint", "GainEEGMEGadjoint(MEG)"]
GAIN_REL = 1e-9      # |difference| <= GAIN_REL * max|gain matrix| (solver class on a regular two-layer head; a correct blocked product may differ in the last bits)

def gain_problem(rng, nd, mid):
    """a regular two-layer head, few sensors, nd dipoles inside the inner compartment (some sharing a location)"""
    r1 = rng.uniform(0.75, 0.9); m = models.nested([r1, 1.0], [1.0, rng.choice([0.0125, 0.33])], 1); m["info"]["topology"] = "nested"
    me, mm = rng.choice([1, 2, 3]), rng.choice([2, 3, 4])
    eeg = models.sensors_on_sphere(rng, me, (0, 0, 0), 1.0); mpos = models.sensors_on_sphere(rng, mm, (0, 0, 0), 1.3); mori = [models.random_unit(rng) for _ in mpos]
    pos, momu = models.dipoles_in_ball(rng, nd, (0, 0, 0), 0.7 * r1, 0.9)
    dips = [tuple(p) + tuple(rng.choice([1.0, 1e-2, 30.0]) * x for x in q) for p, q in zip(pos, momu)]
    for k in range(3, nd, 17): dips[k] = dips[k - 1][:3] + models.random_unit(rng)      # a few sites with two orientations
    perm = list(range(nd)); rng.shuffle(perm)
    return dict(model=m, mid=mid, eeg=[list(x) for x in eeg], mpos=[list(x) for x in mpos], mori=[list(x) for x in mori], dips=[list(d) for d in dips], perm=perm)

def run_gain_problem(ck, h, gp, stats):
    d = os.path.join(h.wd, "m%d" % gp["mid"]); m = gp["model"]
    models.write_model(m, d)
    models.write_points(os.path.join(d, "eeg.txt"), [tuple(x) for x in gp["eeg"]])
    models.write_squids(os.path.join(d, "meg.txt"), [tuple(x) for x in gp["mpos"]], [tuple(x) for x in gp["mori"]])
    nd = len(gp["dips"])
    zi, fl = h.run([core.fcase("c08", [11, gp["mid"], nd] + gp["perm"], flat(gp["dips"]))])[0]
    rep = dict(kind="gains", problem=gp, replay_cmd="./check C08 --replay <this file>")
    if zi is None or zi[0] != 0:
        ck.violation("gains: a gain class of gain.h throws on a batch of dipoles", "one of the gain classes threw / the process ended for a batch of %d dipoles on a regular two-layer head" % nd, rep)
        return
    me, mm = zi[1], zi[2]; p = [0]
    def take6(n):
        out = []
        for rows in (me, me, me, mm, mm, mm):
            out.append([[fl[p[0] + i * n + j] for i in range(rows)] for j in range(n)]); p[0] += rows * n     # list of columns
        return out
    batch = take6(nd); permd = take6(nd); singles = [take6(1) for _ in range(nd)]
    stats["gain_batches"] = stats.get("gain_batches", 0) + 1; stats.setdefault("gain_batch_sizes", []).append(nd)
    for k, name in enumerate(GAIN_CLASSES):
        sc = max([abs(x) for c in batch[k] for x in c] + [1e-300])
        if k >= 3: sc = max(sc, max([abs(x) for c in batch[3] for x in c] + [0.0]))
        def differs(a, b): return any(not abs(x - y) <= GAIN_REL * sc for x, y in zip(a, b))
        for i in range(nd):
            stats["gain_columns"] = stats.get("gain_columns", 0) + 1
            if differs(batch[k][i], singles[i][k][0]):
                ck.violation("gains: %s column of a batch differs from the dipole alone" % name,
                             "%s: column %d of the batch of %d dipoles is %r, the same dipole alone gives %r (allowed %g*%g): a dipole's lead field depends on the batch it is computed in"
                             % (name, i, nd, batch[k][i][:3], singles[i][k][0][:3], GAIN_REL, sc), rep)
                break
        for j in range(nd):
            if differs(permd[k][j], batch[k][gp["perm"][j]]):
                ck.violation("gains: %s permuted batch" % name,
                             "%s: column %d of the permuted batch (dipole %d of the original batch of %d) is %r, in the original batch %r"
                             % (name, j, gp["perm"][j], nd, permd[k][j][:3], batch[k][gp["perm"][j]][:3]), rep)
                break

def judge_values(h, values, st):
    if not values: return
    mo = core.run_model([v[0] for v in values]); ho = h.run([v[1] for v in values])
    for (ml, hl, what), mline, hres in zip(values, mo, ho):
        st["cases"] += 1
        try: mz, mf = core.fparse(mline)
        except ValueError: mz, mf = None, None
        M = cols(hres)
        if mz is None or M is None or mz[0] != 0:
            if (mz is not None and mz[0] != 0) and M is None: st["agree_cases"] += 1      # both throw
            else: st["mismatches"].append("%s: model %s, implementation %s" % (what, "throws" if (mz is None or mz[0] != 0) else "returns", "throws" if M is None else "returns"))
            continue
        nc, nr = mz[1], mz[2]
        if nc != len(M) or (nc and nr != len(M[0])):
            st["mismatches"].append("%s: shape model %dx%d implementation %dx%d" % (what, nr, nc, len(M[0]) if M else 0, len(M))); continue
        ok = True
        for k in range(nc):
            a = mf[k * nr:(k + 1) * nr]; b = M[k]; sc = max(colmax(a), colmax(b))
            for x, y in zip(a, b):
                st["entries"] += 1
                if x.hex() == y.hex() or x == y: st["bitwise_entries"] += 1
                elif sc > 0:
                    r = abs(x - y) / sc; st["worst_rel"] = max(st["worst_rel"], r)
                    if not r <= 1e-10: ok = False
        if ok: st["agree_cases"] += 1
        else: st["mismatches"].append("%s: entries differ beyond the rounding class (worst so far %.3g of max|column|)" % (what, st["worst_rel"]))

def judge_struct(ck, h, structs, m, mid):
    mo = core.run_model([s[0] for s in structs]); ho = h.run([s[1] for s in structs]); mis = 0
    for (ml, hl, what), mline, hres in zip(structs, mo, ho):
        mp = parse_model_pattern(mline); M = cols(hres)
        bad = None
        if (mp is None) != (M is None): bad = "model %s, implementation %s" % ("throws" if mp is None else "returns", "throws" if M is None else "returns")
        elif mp is not None:
            rp = pattern_of(M)
            if len(rp) != len(mp): bad = "number of columns: model %d implementation %d" % (len(mp), len(rp))
            else:
                for k, ((fe1, s1), (fe2, s2)) in enumerate(zip(mp, rp)):
                    if s1 != s2:
                        extra = sorted(set(s2) - set(s1)); miss = sorted(set(s1) - set(s2))
                        bad = "column %d: rows predicted non-zero but zero %s, rows non-zero but predicted zero %s" % (k, miss[:8], extra[:8]); break
                    if fe1 != fe2: bad = "column %d: model says equal to column %d, implementation to column %d" % (k, fe1, fe2); break
        if bad:
            mis += 1
            ck.violation("structure: %s" % what.split(" named")[0],
                         "zero/equality pattern of %s differs from the one predicted by the loop/buffer model (Geom/Sources.v) on the geometry as loaded: %s" % (what, bad),
                         dict(kind="structure", model_case=ml, harness_case=hl, what=what, model=m, mid=mid, replay_cmd="./check C08 --replay <this file>"), found_input=False)
    return len(structs), mis
