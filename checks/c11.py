"""C11 - a loaded geometry is a consistent model: indices, orientations, domains.

Tie: every generated description (and its re-descriptions / concrete syntaxes) is loaded by the library built
from the current working tree (harness/h_c11.cpp) and handed, as an abstract description plus two geometric
oracles, to the extracted Gallina model (coq/Geom/GeomModel.v via RunC11.v); all derived quantities must agree
exactly.  On top of that the property's own relations are evaluated on the implementation output (index
bijection, pair symmetry, probe points in the geometrically right domain, conductivities by name)."""
import os, sys, json, math, shutil
import core, models, geomdesc as gd, bounded

PROP = "C11"

def preload_flag(cid):
    """every third case is loaded into a Geometry object that has already loaded the same description once: what a load
    leaves in the object (vertices, lookup tables, derived state) must not show in the next one - the loaded geometry is a
    function of the description (seeded C11-16: a vertex lookup table that survives clear())"""
    return 1 if cid % 3 == 0 else 0

def ombuild_repo():
    import ombuild
    return ombuild.REPO

# ------------------------------------------------------------------ case construction
def small_model(rng):
    """topologies aimed at the case splits of the proofs: nested 1-4, split hemispheres with shared vertices,
    sibling inclusions, non-conductive inclusions (isolated parts / barriers), doubly non-conductive shells"""
    r = rng.random()
    level = rng.choice([0, 0, 1])
    if r < 0.12:
        # a non-conductive layer between two conductive ones: inner surfaces become barriers, parts are cut
        n = rng.randint(2, 4); radii = [1.0]
        for _ in range(n - 1): radii.insert(0, radii[0] * rng.uniform(0.6, 0.9))
        sig = [rng.choice([1.0, 0.33, 0.0125]) for _ in range(n)]
        sig[rng.randrange(n)] = 0.0
        if rng.random() < 0.4 and n >= 3:
            k = rng.randrange(n - 1); sig[k] = 0.0; sig[k + 1] = 0.0        # mesh between two zero layers: isolated
        m = models.nested(radii, sig, level)
        m["info"]["topology"] = "nested-zero"
        return m
    if r < 0.2:
        m = models.nested([0.5, 0.8, 1.0][:rng.randint(1, 3)], [1.0, 0.0125, 1.0], level, air_sigma=rng.choice([0.0, 0.0, 0.2]))
        m["info"]["topology"] = "nested-air"
        return m
    if r < 0.26:
        # both hemispheres non-conductive: the cut is isolated, its rim vertices are shared with the (live) caps
        m = models.split_hemispheres(1.0, [1.2] * rng.randint(0, 1), (0.0, 0.0) if rng.random() < 0.7 else (0.0, 1.0), [0.33], rng.choice([1, 1, 2]))
        m["info"]["topology"] = "split-zero"
        return m
    if r < 0.40 and r >= 0.34:
        # interfaces stored as two cap meshes: two different meshes separate the same two domains
        n = rng.randint(1, 3); radii = [1.0]
        for _ in range(n - 1): radii.insert(0, radii[0] * rng.uniform(0.6, 0.9))
        return gd.capped_nested(radii, [rng.choice([1.0, 0.33, 0.0125]) for _ in range(n)], 1, rng.sample(range(n), rng.randint(1, n)), rng)
    if r < 0.34 and r >= 0.3:
        return gd.separate_conductors(rng, rng.randint(2, 3), rng.choice([0, 1]))
    if r < 0.3:
        # interface whose bounding-box centre is outside the enclosed volume (rejected as "not closed" before the fix)
        m = gd.bowl_model(rng.choice([1, 1, 2]), rng.choice([1.0, 0.33]), inside_sphere=rng.random() < 0.5)
        return m
    m = models.random_model(rng, level=1 if rng.random() < 0.3 else level)
    if m["info"]["topology"] == "split" and level == 0:
        pass
    return m

STYLES = ["1.1", "1.1", "1.1c", "1.1c", "1.1i", "1.1u", "1.1m", "1.1m", "1.0"]
REDESC = ["identity", "vertex_perm", "triangle_order", "triangle_rotation", "mesh_flip", "local_flips", "local_flips", "mesh_order", "interface_order",
          "domain_order", "boundary_order", "rename"]

def damage(m, rng):
    """error-path descriptions; returns (model, tag)"""
    k = rng.randrange(7)
    m = gd.redescribe(m, rng, "identity")
    if k == 0 and m["domains"]:
        n, bs = m["domains"][rng.randrange(len(m["domains"]))]; bs.append((+1, "nosuchinterface")); return m, "unknown-interface"
    if k == 1 and m["interfaces"]:
        n, ms = m["interfaces"][rng.randrange(len(m["interfaces"]))]; ms.append((+1, "nosuchmesh")); return m, "unknown-mesh"
    if k == 2:
        # no domain without an inside boundary
        m["domains"] = [(n, bs) for n, bs in m["domains"] if any(s < 0 for s, _ in bs)]
        m["cond"] = {n: m["cond"][n] for n, _ in m["domains"]}
        return m, "no-outermost"
    if k == 3:
        name, vs, ts = m["meshes"][0]
        ts = list(ts); a, b, c = ts[-1]; ts[-1] = (a, b, len(vs) + 3); m["meshes"][0] = (name, vs, ts); return m, "triangle-out-of-range"
    if k == 4 and len(m["meshes"]) >= 2:
        # an interface made of two disjoint closed meshes with opposite signs: solid angle 0 at one centre... not closed
        n, ms = m["interfaces"][0]
        other = [x for x, _, _ in m["meshes"] if x != ms[0][1]]
        ms.append((-1, other[0])); return m, "incoherent-interface"
    if k == 5:
        # a mesh with one triangle removed: open surface
        name, vs, ts = m["meshes"][-1]; m["meshes"][-1] = (name, vs, list(ts)[:-1]); return m, "open-mesh"
    return m, "old-ordering"

def make_case(ck, cid, m, style, old, nprobes, rng, has_cond=True, cond_extra=None, cond_drop=None, cond_header=True, cond_lines=None, tokens=None, probes=None):
    d = os.path.join(ck.workdir, "c%d" % cid)
    shutil.rmtree(d, ignore_errors=True); os.makedirs(d)
    g = gd.write_geom(m, d, "tri", style, rng, tokens=tokens)
    if g is None:
        style = "1.1"; g = gd.write_geom(m, d, "tri", style, rng)
    T = gd.write_geom.last
    lines = []
    if has_cond:
        mc = dict(m)
        if cond_drop is not None: mc["cond"] = {k: v for k, v in m["cond"].items() if k != cond_drop}
        if cond_lines is not None:       # replay: exactly the stored lines
            lines = [tuple(l) for l in cond_lines]
            with open(os.path.join(d, "model.cond"), "w") as fh:
                fh.write("# Properties Description 1.0 (Conductivit%s)\n" % ("ies" if cond_header else "y"))
                for l in lines: fh.write("# c\n" if l[0] == "c" else "%s %r\n" % (l[1], float(l[2])))
        else:
            _, lines = gd.write_cond(mc, d, rng, extra=cond_extra, header=cond_header)
    # the model sees the names the reader assigns in that style
    mn, inn = gd.style_names(m, style)
    mm = dict(m)
    if style in ("1.1i", "1.0"):
        mm["meshes"] = [(mn[k], vs, ts) for k, (_, vs, ts) in enumerate(m["meshes"])]
        mm["interfaces"] = [(inn[k], [(+1, mn[k])]) for k in range(len(m["interfaces"]))]
        ren = {n: inn[k] for k, (n, _) in enumerate(m["interfaces"])}
        mm["domains"] = [(n, [(s, ren.get(i, i)) for s, i in bs]) for n, bs in m["domains"]]
    elif style == "1.1m":
        mn, inn = T["mesh_names"], T["iface_names"]
        rm = {n: mn[k] for k, (n, _, _) in enumerate(m["meshes"])}; ri = {n: inn[k] for k, (n, _) in enumerate(m["interfaces"])}
        mm["meshes"] = [(mn[k], vs, ts) for k, (_, vs, ts) in enumerate(m["meshes"])]
        mm["interfaces"] = [(inn[k], [(s, rm.get(x, x)) for s, x in ms]) for k, (_, ms) in enumerate(m["interfaces"])]
        mm["domains"] = [(n, [(s, ri.get(i, i)) for s, i in bs]) for n, bs in m["domains"]]
    elif style == "1.1u":
        rm = {n: mn[k] for k, (n, _, _) in enumerate(m["meshes"])}; ri = {n: inn[k] for k, (n, _) in enumerate(m["interfaces"])}
        mm["meshes"] = [(mn[k], vs, ts) for k, (_, vs, ts) in enumerate(m["meshes"])]
        mm["interfaces"] = [(inn[k], [(s, rm.get(x, x)) for s, x in ms]) for k, (_, ms) in enumerate(m["interfaces"])]
        mm["domains"] = [(n, [(s, ri.get(i, i)) for s, i in bs]) for n, bs in m["domains"]]
    if style == "1.0":
        mm["domains"] = [(n.replace(":", "_"), bs) for n, bs in mm["domains"]]
    if not has_cond: mm = dict(mm); mm["cond"] = None
    if probes is None:
        probes = gd.probe_points(m, rng, nprobes) if nprobes else []
        if nprobes:
            # a few points well inside every separate object (they are rare among uniform points of the bounding box)
            for c_, r_ in m.get("info", {}).get("objects", []):
                for _ in range(3):
                    d_ = models.random_unit(rng); t_ = 0.5 * r_ * rng.random()
                    probes.append(tuple(c_[q] + t_ * d_[q] for q in range(3)))
    aux = gd.abstract(mm, probes, old)
    head, tail, ids = gd.file_wire(m, T)
    cw, fl = gd.cond_wire(mm, lines, has_cond, cond_header, ids)
    mline = core.fcase("c11", [1 if old else 0] + head + aux["isign"] + tail + aux["probe_wire"] + cw, fl)
    # the same case with the two files handed over as characters (coq/Geom/RunC11Lex.v)
    gtext = open(os.path.join(d, "model.geom"), "rb").read()
    ctext = open(os.path.join(d, "model.cond"), "rb").read() if has_cond else b""
    lex_args = dict(m=m, T=T, files=dict(gd.write_geom.files), has_cond=has_cond, old=old, isign=list(aux["isign"]), probe_wire=list(aux["probe_wire"]), fl=list(fl))
    lline = core.fcase("c11lex", gd.lex_wire(m, T, lex_args["files"], gtext, ctext, has_cond, old, aux["isign"], aux["probe_wire"]), fl)
    hline = core.fcase("c11", [1, cid, 1 if has_cond else 0, 1 if old else 0, preload_flag(cid)], [c for p in probes for c in p])
    # expected conductivity per domain name: the first entry of that name
    first = {}
    for l in lines:
        if l[0] == "e" and l[1] not in first: first[l[1]] = float(l[2])
    return dict(cid=cid, model=mm, mline=mline, lline=lline, lex_args=lex_args, hline=hline, probes=probes, aux=aux, style=style, old=old, has_cond=has_cond, dir=d,
                cond_lines=[list(l) for l in lines], cond_header=cond_header, cond_first=first, tokens=T, orig=m)

def feq(a, b): return (a == b) or (a != a and b != b)

# ------------------------------------------------------------------ the property's own relations on the implementation output
def decode(ints):
    """structured view of the integer output (layout of RunC11.run_case)"""
    it = iter(ints); nx = lambda: next(it)
    st = nx()
    if st != 0: return dict(status=st)
    nv = nx(); vidx = [nx() for _ in range(nv)]
    nm = nx(); meshes = []
    for _ in range(nm):
        cb, iso, out = nx(), nx(), nx()
        nvm = nx(); vs = [nx() for _ in range(nvm)]
        nt = nx(); tidx = [nx() for _ in range(nt)]; tris = [(nx(), nx(), nx()) for _ in range(nt)]
        meshes.append(dict(cb=cb, iso=iso, out=out, verts=vs, tidx=tidx, tris=tris))
    nparams, nbar, ninv, nested, outer = nx(), nx(), nx(), nx(), nx()
    npairs = nx(); pairs = [(nx(), nx(), nx()) for _ in range(npairs)]
    ro = [[nx() for _ in range(nm)] for _ in range(nm)]
    nparts = nx(); parts = []
    for _ in range(nparts):
        k = nx(); parts.append([nx() for _ in range(k)])
    rest = list(it)
    return dict(status=0, nv=nv, vidx=vidx, meshes=meshes, nparams=nparams, nbar=nbar, ninv=ninv, nested=nested, outer=outer,
                pairs=pairs, ro=ro, parts=parts, rest=rest)

def first_diff_field(mi, ii):
    """name of the first derived quantity on which two outputs differ"""
    try:
        A, B = decode(mi), decode(ii)
    except Exception:
        return "output layout"
    if A.get("status") != B.get("status"): return "load status"
    for k in ("nv", "vidx", "meshes", "nparams", "nbar", "ninv", "nested", "outer", "pairs", "ro", "parts"):
        if A.get(k) != B.get(k):
            if k == "meshes":
                for q, (x, y) in enumerate(zip(A[k], B[k])):
                    for f in ("cb", "iso", "out", "verts", "tidx", "tris"):
                        if x[f] != y[f]: return "mesh %d %s" % (q, {"cb": "current_barrier flag", "iso": "isolated flag", "out": "outermost flag", "verts": "vertex references", "tidx": "triangle indices", "tris": "triangle vertices (orientation)"}[f])
            return {"nv": "number of vertices", "vidx": "vertex indices", "nparams": "nb_parameters", "nbar": "nb_current_barrier_triangles", "ninv": "nb_invalid_vertices",
                    "nested": "is_nested", "outer": "outermost domain", "pairs": "communicating mesh pairs", "ro": "relative_orientation", "parts": "isolated parts"}.get(k, k)
    return "domain of probe points / interface orientations / saved .geom sections"

def own_relations(case, ints, floats):
    """violations of the property's statement that can be read off the implementation output alone"""
    bad = []
    D = decode(ints)
    if D["status"] != 0: return bad
    nm = len(D["meshes"])
    # indices: bijection onto [0,N) for valid vertices + current-carrying triangles, barriers after, excluded -1
    # OLD_ORDERING numbers vertex references mesh by mesh: old_ordering_bijection needs "no vertex referenced twice"; with
    # shared vertices (multi-mesh interfaces) the later mesh overwrites the index (old_ordering_needs_disjoint_meshes,
    # reproduces on the library) - the legacy ordering is then not judged
    allrefs = [v for M in D["meshes"] for v in M["verts"]]
    if case["old"] and len(set(allrefs)) != len(allrefs): return bad
    first = [i for i in D["vidx"] if i != -1]
    for M in D["meshes"]:
        if not M["cb"]: first += M["tidx"]
    N = len(first)
    if sorted(first) != list(range(N)): bad.append(("indices", "vertex/triangle indices are not a bijection onto [0,%d)" % N))
    second = []
    for M in D["meshes"]:
        if M["cb"] and not M["iso"]: second += M["tidx"]
        if M["cb"] and M["iso"] and any(t != -1 for t in M["tidx"]): bad.append(("indices", "isolated mesh triangle has an index"))
    if sorted(second) != list(range(N, N + len(second))): bad.append(("indices", "barrier triangles are not numbered [N,N+B)"))
    if D["nparams"] != N + len(second): bad.append(("indices", "nb_parameters=%d but N+B=%d" % (D["nparams"], N + len(second))))
    # pair quantities symmetric
    for i in range(nm):
        for j in range(nm):
            if D["ro"][i][j] != D["ro"][j][i]: bad.append(("pairs", "relative_orientation(%d,%d) != (%d,%d)" % (i, j, j, i)))
            for q in range(3):
                if not feq(floats[3 * (i * nm + j) + q], floats[3 * (j * nm + i) + q]):
                    bad.append(("pairs", "%s(%d,%d) != (%d,%d)" % (["sigma", "sigma_inv", "indicator"][q], i, j, j, i)))
    # {non-excluded vertices} = the vertices referenced by at least one mesh that is not isolated
    active = set(); passive = set()
    for M in D["meshes"]:
        (passive if M["iso"] else active).update(M["verts"])
    for q, M in enumerate(D["meshes"]):
        if not M["iso"]:
            ex = [v for v in M["verts"] if D["vidx"][v] == -1]
            if ex:
                bad.append(("indices", "%d of the %d vertices of the active mesh %d are excluded (index -1)" % (len(ex), len(M["verts"]), q))); break
    # (OLD_ORDERING numbers the vertex references of every mesh, isolated or not: documented in the model, not judged here)
    if not case["old"] and any(D["vidx"][v] != -1 for v in passive - active): bad.append(("indices", "a vertex referenced by isolated meshes only carries an unknown"))
    # sigma / sigma_inv / indicator of a pair = sums over ALL the domains whose boundary contains both meshes
    try:
        doms = decode_domains(D["rest"], len(case["probes"])); nd_ = len(doms)
        conds = floats[3 * nm * nm + nm: 3 * nm * nm + nm + nd_]
        member = [set(mk for _, oms in bs for _, mk in oms) for bs in doms]
        for i in range(nm):
            for j in range(nm):
                shared = [k for k in range(nd_) if i in member[k] and j in member[k]]
                want = 0.0
                for k in shared: want += conds[k]
                if not feq(floats[3 * (i * nm + j)], want) or floats[3 * (i * nm + j) + 2] != float(len(shared)):
                    bad.append(("pairs", "sigma/indicator of meshes (%d,%d) = %r/%r but they share %d domain(s) of total conductivity %r" % (i, j, floats[3 * (i * nm + j)], floats[3 * (i * nm + j) + 2], len(shared), want)))
                    raise StopIteration
    except StopIteration: pass
    except Exception: pass
    seen = set()
    for i, j, o in D["pairs"]:
        k = (min(i, j), max(i, j))
        if k in seen: bad.append(("pairs", "unordered mesh pair %s listed twice" % (k,)))
        seen.add(k)
    return bad

def expected_nested(m):
    """geometric truth of 'the interfaces form a chain under inclusion' for the generated topologies"""
    info = m.get("info", {})
    k = info.get("kind")
    if k == "nested": return True, "nested shells"
    if k == "inclusions": return (len(info.get("blobs", [])) <= 1), "%d sibling inclusion(s)" % len(info.get("blobs", []))
    if k == "split": return False, "split hemispheres"
    if k == "separate": return None, "separate conductors"
    if k == "bowl": return True, "a bowl-shaped shell (and its enclosing sphere)"
    return None, "?"

def laminar_forest(case):
    """parent forest of the interfaces when the description has the shape of unique_domain_general (one domain per
    interface: inside it and outside its children; the exterior: outside the roots); None otherwise"""
    doms = case["aux"]["doms"]; ni = len(case["aux"]["ifs"])
    parent = {}; owner = set(); outer = 0
    for d in doms:
        ins = [i for s_, i in d if s_]; outs = [i for s_, i in d if not s_]
        if len(ins) == 1 and ins[0] not in owner:
            owner.add(ins[0])
            for c_ in outs:
                if c_ in parent: return None
                parent[c_] = ins[0]
        elif len(ins) == 0:
            outer += 1
            for c_ in outs:
                if c_ in parent: return None
                parent[c_] = None
        else: return None
    if outer != 1 or owner != set(range(ni)) or set(parent) != set(range(ni)): return None
    return parent

def laminar_hypotheses_hold(case):
    """(number of probes checked, first violated hypothesis or None): inside a surface => inside its parent; two surfaces
    with the same parent have disjoint interiors - evaluated with the winding-number oracle"""
    parent = laminar_forest(case)
    if parent is None or not case["probes"]: return 0, None
    m = case["model"]; ifs = case["aux"]["ifs"]
    for p in case["probes"]:
        ins = [gd.inside_interface(m, ifc, p) for ifc in ifs]
        for i, pi in parent.items():
            if ins[i] and pi is not None and not ins[pi]: return 0, "probe %r inside interface %d but not inside its parent %d" % (p, i, pi)
        for i in parent:
            for j in parent:
                if i < j and parent[i] == parent[j] and ins[i] and ins[j]: return 0, "probe %r inside the siblings %d and %d" % (p, i, j)
    return len(case["probes"]), None

def expected_domains(case):
    """geometric truth for the probes: the unique domain of the description whose region contains the point
    (region = conjunction over the boundaries, computed from winding numbers); None if not exactly one"""
    m = case["model"]; ifs = case["aux"]["ifs"]; doms = case["aux"]["doms"]
    out = []
    for p in case["probes"]:
        ins = [gd.inside_interface(m, ifc, p) for ifc in ifs]
        hits = [k for k, d in enumerate(doms) if all(ins[i] == bool(s) for s, i in d)]
        out.append(hits)
    return out

def vertex_coordinates(m):
    """coordinates of the geometry vertices in the order add_vertex creates them (first appearance of each point)"""
    seen = {}; out = []
    for name, vs, ts in m["meshes"]:
        for v in vs:
            k = tuple(float(c) + 0.0 for c in v)
            if k not in seen: seen[k] = len(out); out.append(k)
    return out

def decode_domains(rest, nprobes):
    it = iter(rest[nprobes:]); nx = lambda: next(it)
    nd = nx(); doms = []
    for _ in range(nd):
        nb = nx(); bs = []
        for _ in range(nb):
            ins = nx(); no = nx(); bs.append((ins, [(nx(), nx()) for _ in range(no)]))
        doms.append(bs)
    return doms

def property_failures(c, ii, if_):
    """every relation of the property statement that can be evaluated on the implementation output alone:
    (signature, description) list + number of probe points looked at"""
    bad = []; nprobe = 0
    tagk = c["tag"].split(":")[-1]
    for kind, what in own_relations(c, ii, if_): bad.append(("%s: %s (%s)" % (kind, what, c["tag"]), what))
    D = decode(ii)
    # every interface oriented outward whatever the winding in the files: signed volume of (orientation x loaded winding)
    try:
        X = vertex_coordinates(c["model"]); doms = decode_domains(D["rest"], len(c["probes"]))
        for k, bs in enumerate(doms):
            for ins, oms in bs:
                vol = sum(o * gd.signed_volume6(X, D["meshes"][mk]["tris"]) for o, mk in oms)
                if not vol < 0:
                    bad.append(("orientation: interface not oriented outward (%s)" % tagk,
                                "domain %d: an interface (meshes %s) keeps orientation x winding with signed volume %+.3g; the library's outward convention needs a negative one" % (k, [mk for _, mk in oms], vol / 6)))
                    raise StopIteration
    except StopIteration: pass
    except Exception: pass
    if D["rest"] and D["rest"][-1] != 0:
        bad.append(("orientation: stored normals disagree with the vertex order (%s)" % tagk,
                    "%d triangles carry a normal / area that does not match their vertex order after the load (the local repair flipped them)" % D["rest"][-1]))
    if c["probes"]:
        got = D["rest"][:len(c["probes"])]
        for p, gk, hits in zip(c["probes"], got, expected_domains(c)):
            nprobe += 1
            if len(hits) != 1 or gk != hits[0]:
                names = [n for n, _ in c["model"]["domains"]]
                bad.append(("domain(p): %s" % tagk, "probe point %r lies in domain(s) %s geometrically but Geometry::domain returned %s" % (p, [names[h] for h in hits], names[gk] if 0 <= gk < len(names) else gk)))
                break
    if c["tag"].startswith("base:"):
        want, what = expected_nested(c["model"]); got = D["nested"]
        if want is not None and bool(got) != want:
            label = "sibling inclusions" if c["model"]["info"].get("kind") == "inclusions" else what
            bad.append(("nested classification: %s classified %s" % (label, "nested" if got else "non-nested"),
                        "is_nested() = %d for a model with %s (the interfaces %s a chain under inclusion); witness of nested_classification_correct_refuted replayed on the library" % (got, what, "form" if want else "do not form")))
    lf = os.path.join(c["dir"], "loaded.txt")
    if c["has_cond"] and os.path.exists(lf):
        for line in open(lf):
            t = line.split()
            if t and t[0] == "domain":
                want = c["cond_first"].get(t[1])
                if want is None or float.fromhex(t[2]) != float(want):
                    bad.append(("conductivity of %s" % c["tag"].split(":")[0], "domain %s got conductivity %s, file says %r" % (t[1], t[2], want))); break
    return bad, nprobe

# ------------------------------------------------------------------ main
def main(replay=None):
    ck = core.Check(PROP, "proof")
    quick = ck.tier != "thorough"
    bdir, hb = ck.prepare("Props/Properties_C11.v", "h_c11.cpp")
    if hb is None or bdir is None:
        return ck.finish()
    rng = ck.rng
    cases = []
    dist = {}
    def add(m, style, old, tag, nprobes=0, **kw):
        c = make_case(ck, len(cases), m, style, old, nprobes, rng, **kw); c["tag"] = tag
        if c["aux"].get("unstable"):
            dist["skipped:random-point-loop"] = dist.get("skipped:random-point-loop", 0) + 1; return c
        cases.append(c)
        dist[tag] = dist.get(tag, 0) + 1
        return c
    if replay:
        R = json.load(open(replay))
        for rc in R.get("cases", []):
            m = rc["orig"]; m["meshes"] = [(n, [tuple(v) for v in vs], [tuple(t) for t in ts]) for n, vs, ts in m["meshes"]]
            m["interfaces"] = [(n, [tuple(x) for x in ms]) for n, ms in m["interfaces"]]; m["domains"] = [(n, [tuple(x) for x in bs]) for n, bs in m["domains"]]
            T = rc["tokens"]
            T["meshes"] = [tuple(x) for x in T["meshes"]]; T["ifaces"] = [(g_, [tuple(t) for t in ts]) for g_, ts in T["ifaces"]]
            T["domains"] = [(n, [tuple(t) for t in ts]) for n, ts in T["domains"]]
            add(m, rc["style"], rc["old"], rc.get("tag", "replay"), 0, has_cond=rc.get("has_cond", True), tokens=T,
                cond_lines=rc.get("cond_lines"), cond_header=rc.get("cond_header", True), probes=[tuple(p) for p in rc.get("probes", [])])
    else:
        nbase = 26 if quick else 90
        # corpus first: refutation witness, repaired-defect witness, boundary topologies
        def corpus_model(name, args):
            import random as _r
            cr = _r.Random(4242)
            if name == "siblings":
                wm = models.inclusions(1.0, [((0.45, 0, 0), 0.3, 1.0), ((-0.45, 0.1, 0), 0.3, 0.33)], 1.0, level=0); wm["info"]["topology"] = "inclusions"; return wm
            if name == "bowl": return gd.bowl_model(1, 1.0, args[:1] == ["enclosed"])
            if name == "isolated-shell":
                wm = models.nested([0.5, 0.7, 0.85, 1.0], [1.0, 0.0, 0.0, 0.33], 0); wm["info"]["topology"] = "nested-zero"; return wm
            if name == "split":
                wm = models.split_hemispheres(1.0, [1.15], (1.0, 0.33), [0.0125], 1); wm["info"]["topology"] = "split"; return wm
            if name == "split-zero":
                wm = models.split_hemispheres(1.0, [1.2], (0.0, 0.0), [0.33], 1); wm["info"]["topology"] = "split-zero"; return wm
            if name == "capped":
                return gd.capped_nested([0.7, 1.0], [1.0, 0.33], 1, [0, 1], cr)
            if name == "outer-zero":
                wm = models.nested([0.7, 0.85, 1.0], [1.0, 0.0, 0.0], 0); wm["info"]["topology"] = "nested-zero"; return wm
            if name == "flips":
                wm = models.nested([0.6, 1.0], [1.0, 0.33], 0); wm["info"]["topology"] = "nested"
                return gd.redescribe(gd.redescribe(wm, cr, "mesh_flip"), cr, "local_flips")
            return None
        # an isolated mesh (the cut between two non-conductive half balls) sharing its rim with several active meshes, the
        # meshes declared in every order: the rescue of shared vertices must not depend on which active mesh comes first
        import itertools
        for nshell, lvl in ((1, 1), (2, 1)):
            wm = models.split_hemispheres(1.0, [1.2, 1.4][:nshell], (0.0, 0.0), [0.33, 1.0][:nshell], lvl); wm["info"]["topology"] = "split-zero"
            orders = list(itertools.permutations(range(len(wm["meshes"]))))
            if len(orders) > 24: orders = rng.sample(orders, 16 if quick else 60)
            for od in orders:
                v = gd.redescribe(wm, rng, "identity"); v["meshes"] = [wm["meshes"][k] for k in od]
                add(v, "1.1", False, "orders:split-zero", nprobes=0)
        # a lens: NORTH non-conductive, SOUTH conductive, first outer layer non-conductive -> the north cap is isolated and
        # shares its rim with the (active) cut and south cap
        wm = models.split_hemispheres(1.0, [1.2, 1.4], (0.0, 1.0), [0.0, 0.33], 1); wm["info"]["topology"] = "split-lens"
        for od in itertools.permutations(range(5)) if not quick else rng.sample(list(itertools.permutations(range(5))), 16):
            v = gd.redescribe(wm, rng, "identity"); v["meshes"] = [wm["meshes"][k] for k in od]
            add(v, "1.1", False, "orders:split-lens", nprobes=0)
        # separate conductors in one air: the outermost domain has several boundaries; every order of its boundary list
        for kk in (2, 3):
            wm = gd.separate_conductors(rng, kk, 0)
            ai = [q for q, (n_, _) in enumerate(wm["domains"]) if n_ == "Air"][0]
            for od in itertools.permutations(range(kk)):
                v = gd.redescribe(wm, rng, "identity"); bs = wm["domains"][ai][1]
                v["domains"][ai] = ("Air", [bs[q] for q in od])
                add(v, "1.1", False, "orders:separate", nprobes=10)
        cp = os.path.join(core.VERIF, "corpus", "C11.txt")
        if os.path.exists(cp):
            for line in open(cp):
                t = line.split()
                if not t or t[0].startswith("#"): continue
                wm = corpus_model(t[0], t[1:])
                if wm is not None: add(wm, "1.1", False, "base:" + wm["info"].get("topology", t[0]), nprobes=12)
        for b in range(nbase):
            m = small_model(rng)
            top = m["info"].get("topology", "?")
            add(m, "1.1", False, "base:" + top, nprobes=(40 if quick else 200))
            for kind in rng.sample(REDESC[1:], 3 if quick else 6):
                add(gd.redescribe(m, rng, kind), rng.choice(["1.1", "1.1c"]), False, "redesc:" + kind, nprobes=4)
            add(m, rng.choice(STYLES[2:]), False, "syntax", nprobes=4)
            if rng.random() < 0.5: add(m, "1.1", True, "old-ordering")
            if rng.random() < 0.35: add(m, "1.1", False, "no-cond", has_cond=False)
            if rng.random() < 0.5:
                dn = [n for n, _ in m["domains"]]
                k = rng.randrange(4)
                if k == 0: add(m, "1.1", False, "cond:duplicate-first-wins", cond_extra=[(rng.choice(dn), rng.choice([0.0, 2.5, 7.0])) for _ in range(2)])
                elif k == 1: add(m, "1.1", False, "cond:unknown-names", cond_extra=[("Nowhere", 3.0), ("X%d" % rng.randrange(9), 0.0)])
                elif k == 2: add(m, "1.1", False, "error:cond-missing-domain", cond_drop=rng.choice(dn))
                else: add(m, "1.1", False, "error:cond-header", cond_header=False)
            if rng.random() < 0.8:
                dm, tag = damage(m, rng)
                add(dm, "1.1", tag == "old-ordering", "error:" + tag)
    # the refutation witness on the suite's own data: data/HeadNNb1 (two spheres inside the cortex) - harness only
    nnb = None
    src = os.path.join(ombuild_repo(), "data", "HeadNNb1")
    if not replay and os.path.isdir(src):
        cid = 100000; d = os.path.join(ck.workdir, "c%d" % cid); shutil.rmtree(d, ignore_errors=True); shutil.copytree(src, d)
        shutil.copy(os.path.join(d, "HeadNNb1.geom"), os.path.join(d, "model.geom"))
        nnb = core.fcase("c11", [1, cid, 0, 0], [])
    # lexer-level variants of some cases: the text of model.geom / model.cond is altered, only the character-level
    # model and the library are compared on them
    lexcases = []; lexstat = {}
    if not replay:
        pool = [c for c in cases if not c["tag"].startswith("error")]
        for q in range(min(2 * len(pool), 90 if quick else 300)):
            c = pool[rng.randrange(len(pool))]; la = c["lex_args"]
            which = rng.choice(["geom", "geom", "cond"]) if c["has_cond"] else "geom"
            kind = rng.choice(gd.LEX_MUTATIONS if which == "geom" else gd.COND_MUTATIONS)
            gtext = open(os.path.join(c["dir"], "model.geom"), "rb").read()
            ctext = open(os.path.join(c["dir"], "model.cond"), "rb").read() if c["has_cond"] else b""
            new = gd.mutate_geom(gtext, kind, rng) if which == "geom" else gd.mutate_cond(ctext, kind, rng)
            if new is None: continue
            if which == "geom": gtext = new
            else: ctext = new
            cid = 200000 + q; d = os.path.join(ck.workdir, "c%d" % cid); shutil.rmtree(d, ignore_errors=True); shutil.copytree(c["dir"], d)
            open(os.path.join(d, "model.geom"), "wb").write(gtext)
            if c["has_cond"]: open(os.path.join(d, "model.cond"), "wb").write(ctext)
            lexcases.append(dict(tag="lex:%s:%s" % (which, kind), of=c["tag"], dir=d,
                                 lline=core.fcase("c11lex", gd.lex_wire(la["m"], la["T"], la["files"], gtext, ctext, la["has_cond"], la["old"], la["isign"], la["probe_wire"]), la["fl"]),
                                 hline=core.fcase("c11", [1, cid, 1 if la["has_cond"] else 0, 1 if la["old"] else 0, preload_flag(cid)], [x for p_ in c["probes"] for x in p_]),
                                 geom=gtext.decode(errors="replace"), cond=ctext.decode(errors="replace")))
            dist[lexcases[-1]["tag"]] = dist.get(lexcases[-1]["tag"], 0) + 1
    lo = core.run_model([c["lline"] for c in cases] + [c["lline"] for c in lexcases])
    if lexcases:
        _, lio, _ = core.run_harness(hb, [c["hline"] for c in lexcases], ck.workdir, timeout=90, tag="lex", max_restarts=3)
        for c, m_, i_ in zip(lexcases, lo[len(cases):], lio):
            mi, mf = core.fparse(m_); ii, if_ = (None, None) if i_.startswith("TIMEOUT") else core.fparse(i_)
            lexstat[c["tag"]] = lexstat.get(c["tag"], []) + [mi[0] if mi else None]
            if ii is None or mi != ii or len(mf) != len(if_) or not all(feq(a, b) for a, b in zip(mf, if_)):
                ck.violation("lexer %s" % c["tag"], "character-level reader model and library disagree on a textual variant (%s of a %s case): model %s, library %s"
                             % (c["tag"], c["of"], (mi or ["?"])[:1], (ii or [i_[:20]])[:1]),
                             dict(kind="lexer", geom=c["geom"], cond=c["cond"], model_out=m_[:2000], impl_out=i_[:2000]), found_input=False)
    lex_same = 0
    mo = core.run_model([c["mline"] for c in cases])
    for c, a, b in zip(cases, mo, lo):
        if a != b:
            ck.violation("lexer vs token-level reader (%s)" % c["tag"].split(":")[0], "the character-level and the token-level reader models disagree on %s (syntax %s)" % (c["tag"], c["style"]),
                         dict(kind="lexer-token", geom=open(os.path.join(c["dir"], "model.geom")).read(), token_out=a[:1500], lexer_out=b[:1500]), found_input=False)
        else: lex_same += 1
    if nnb:
        _, o_, _ = core.run_harness(hb, [nnb], ck.workdir, timeout=300, tag="nnb")
        zi, _ = core.fparse(o_[0])
        if zi and zi[0] == 0:
            if decode(zi)["nested"]:
                ck.violation("nested classification: data/HeadNNb1 classified nested",
                             "is_nested() = 1 for data/HeadNNb1 (SphereNorth and SphereSouth are siblings inside Cortex: not a chain under inclusion)",
                             dict(kind="data", path="data/HeadNNb1/HeadNNb1.geom"))
        else:
            ck.violation("data/HeadNNb1 does not load", "the suite's HeadNNb1 geometry no longer loads: %s" % o_[0][:100], dict(kind="data", path="data/HeadNNb1/HeadNNb1.geom"))
    rc_, io, err, tnotes = bounded.run_harness_bounded(hb, [c["hline"] for c in cases], ck.workdir, tier=ck.tier)
    ck.notes += tnotes
    nontriv = set(); mism = 0; nprobe = 0; errs = 0; nlam = 0
    for c, m_, i_ in zip(cases, mo, io):
        mi, mf = core.fparse(m_); ii, if_ = (None, None) if i_.startswith("TIMEOUT") else core.fparse(i_)
        rep = dict(kind="correspondence", cases=[dict(orig=c["orig"], tokens=c["tokens"], style=c["style"], old=c["old"], has_cond=c["has_cond"], tag=c["tag"], probes=c["probes"],
                                                     cond_lines=c["cond_lines"], cond_header=c["cond_header"])],
                   replay_cmd="./check C11 --replay <this file>")
        if i_.startswith("TIMEOUT"):
            ck.violation("time limit loading %s" % c["tag"], "time limit: the implementation does not terminate (%s) while loading a generated description (%s)" % (i_, c["tag"]), rep); continue
        if ii is None:
            ck.violation("crash loading %s" % c["tag"], "the library crashed while loading a generated description (%s): %s" % (c["tag"], i_), rep); continue
        if mi and mi[0] != 0: errs += 1
        same = (mi == ii) and len(mf) == len(if_) and all(feq(a, b) for a, b in zip(mf, if_))
        if not same:
            mism += 1
            where = next((k for k, (a, b) in enumerate(zip(mi, ii)) if a != b), min(len(mi), len(ii)))
            rep.update(model_out=m_[:4000], impl_out=i_[:4000], first_difference=where)
            # the model is proved to satisfy the index/pair/domain theorems: if the implementation output itself breaks one
            # of them the mismatch is a concrete failing input of the property; otherwise only the tie is broken
            bad, _ = property_failures(c, ii, if_) if ii and ii[0] == 0 else ([], 0)
            # a valid description that the library refuses to load violates "after loading any valid description ..."
            if ii and ii[0] != 0 and mi and mi[0] == 0 and not c["tag"].startswith("error"):
                bad = [("valid description rejected (%s)" % c["tag"].split(":")[-1], "the library refuses (status %d) a valid generated description (%s) that the model loads" % (ii[0], c["tag"]))]
            if bad:
                for sig, what in bad[:3]: ck.violation(sig, "loaded geometry violates the property: %s" % what, rep)
            else:
                fld = first_diff_field(mi, ii) if (mi == ii) is False and len(mf) == len(if_) else "float-valued accessors"
                if mi == ii: fld = "sigma / sigma_inv / indicator / conductivity_jump / conductivities"
                ck.violation("correspondence %s" % c["tag"].split(":")[0], "model and implementation disagree on a generated description (%s, syntax %s): first difference in %s (output position %d; model status %s, implementation status %s); none of the property's own relations fails on the implementation output, so only the tie between model and source is broken"
                             % (c["tag"], c["style"], fld, where, mi[:1], ii[:1]), rep, found_input=False)
            continue
        if mi[0] == 0: nontriv.add(c["mline"])
        bad, np_ = property_failures(c, ii, if_) if mi[0] == 0 else ([], 0)
        nprobe += np_
        if mi[0] == 0:
            nl, why = laminar_hypotheses_hold(c)
            nlam += nl
            if why: ck.violation("laminar hypotheses (%s)" % c["tag"].split(":")[-1], "the hypotheses of unique_domain_general do not hold for a generated model: %s" % why, rep, found_input=False)
        for sig, what in bad: ck.violation(sig, "loaded geometry violates the property: %s" % what, rep)
    ck.cov.update(evaluations=len(cases), distinct_nontrivial=len(nontriv),
                  rule="generated head descriptions (nested 1-4 layers, zero-conductivity layers, split hemispheres with shared vertices, sibling and non-conductive inclusions) x re-descriptions x concrete syntaxes (1.1 named/commented/interface-shorthand/unnamed, legacy 1.0), ~15% damaged descriptions; non-trivial = loads successfully; distinct = distinct abstract descriptions",
                  samples=[c["mline"][:300] for c in cases[:2]], op_distribution=dist, error_outcomes=errs,
                  correspondence_mismatches=mism, traces_validated_against_impl=len(cases) + len(lexcases), probe_points=nprobe,
                  probes_satisfying_laminar_hypotheses=nlam, lexer_cases=dict(same_as_token_level=lex_same, textual_variants=len(lexcases), load_status_by_variant={k: {str(x): v.count(x) for x in set(v)} for k, v in lexstat.items()}))
    ck.cov["trusted_base"] += ["hand-written Gallina model coq/Geom/GeomModel.v tied by exact differential runs (harness/h_c11.cpp vs extract/omm)",
                               "lib/geomdesc.py: name resolution, point identities, solid-angle sign and winding-number oracles (Python floats, margin from the surfaces)",
                               "extraction: ExtrOcamlBasic only"]
    ck.assumptions += ["Gauss' law (Section hypothesis): the solid angle of a closed coherently oriented surface at an interior point is -4pi when the normals point outward, 0 outside; supplied to the model as the per-interface sign and per-probe insideness",
                       "probe points keep a margin from every surface"]
    ck.drop_proof_violation_if(True)
    return ck.finish()
