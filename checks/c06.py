"""C06 - results do not depend on how the same head model is written down.

(1)-(3) theorems: coq/Geom/GainAlgebra.v (MathComp: permutation invariance of the gain, reference shift),
coq/Geom/Equivariance.v (relabelling / reordering / renaming on the GeomModel), coq/Geom/MeshTopo.v (winding).
(4) the property's own relation on the implementation: for generated models and every kind of re-description
the EEG gain (HeadMat -> invert -> DipSourceMat -> Head2EEGMat, re-referenced to the mean over sensors per
source) is compared with that of the original description.  Re-descriptions that keep triangle and mesh order
must agree to 1e-9 (relative Frobenius); those that change which triangle of a pair is integrated analytically
must stay within the measured asymmetry bound of calib/C06.json (measured, never a proof)."""
import os, sys, json, math, shutil
import core, models, geomdesc as gd, bounded

PROP = "C06"
EXACT_TOL = 1e-9
CALIB = os.path.join(core.VERIF, "calib", "C06.json")

# kind -> (class, formats it is run with)
KINDS = {
    "vertex_perm": "exact", "triangle_rotation": "exact", "rename": "exact", "boundary_order": "exact",
    "interface_order": "exact", "format_off": "exact", "format_bnd": "exact", "api": "exact", "syntax": "exact",
    "cond_order": "exact", "mesh_flip": "exact", "local_flips": "exact", "old_ordering": "exact", "reload": "exact",
    "domain_order": "exact", "domain_reverse": "exact", "interface_mesh_reverse": "exact", "load_then_finalize": "exact",
    "triangle_order": "asym", "mesh_order": "asym",
    "format_mesh32": "exact32",
}

def api_model(m):
    """orientation the programmatic API expects (no global repair there): Vect3::solid_angle must sum to -4pi at
    interior points, i.e. clockwise seen from outside for the generator's meshes -> flip every mesh whose interface
    sign is +1.  Every mesh belongs to interfaces with the same sign in the generated topologies."""
    ids = gd.point_ids(m["meshes"]); ifs, doms = gd.resolve(m)
    fixed = [list(ts) for _, _, ts in m["meshes"]]
    flip = {}
    for ifc in ifs:
        s = gd.interface_sign(m, ifc, ids, fixed)
        for sg, k in ifc: flip.setdefault(k, s)
    out = dict(m); out["meshes"] = [(n, vs, [(b, a, c) for a, b, c in ts] if flip.get(k, -1) == 1 else list(ts)) for k, (n, vs, ts) in enumerate(m["meshes"])]
    return out

def write_api(m, d):
    am = api_model(m)
    with open(os.path.join(d, "api.txt"), "w") as fh:
        fh.write("%d\n" % len(am["meshes"]))
        for n, vs, ts in am["meshes"]:
            fh.write("%s %d %d\n" % (n, len(vs), len(ts)))
            for v in vs: fh.write(" ".join(float(c).hex() for c in v) + "\n")
            for t in ts: fh.write("%d %d %d\n" % tuple(t))
        fh.write("%d\n" % len(am["interfaces"]))
        for n, ms in am["interfaces"]:
            fh.write("%s %d %s\n" % (n, len(ms), " ".join("%d %s" % (s, mn) for s, mn in ms)))
        fh.write("%d\n" % len(am["domains"]))
        for n, bs in am["domains"]:
            fh.write("%s %s %d %s\n" % (n, float(am["cond"][n]).hex(), len(bs), " ".join("%d %s" % (1 if s < 0 else 0, i) for s, i in bs)))

def round32(m):
    out = dict(m); out["meshes"] = [(n, [tuple(gd.f32(c) for c in v) for v in vs], ts) for n, vs, ts in m["meshes"]]
    return out

def base_model(rng, quick):
    # heads with a non-conductive inclusion stay out of the random sweep: their head matrix is regular since c10's cavity-wall
    # repair (2b0b76f), but the EEG sensor projection then depends on the order of the Domains section (known finding,
    # replayed below together with the former singular-matrix witness, which now agrees to rounding).
    # One-layer heads are regular since the repair of mark_current_barriers (parts of a single mesh are deflated).
    kind = rng.choice(["nested", "nested", "nested", "split", "inclusions", "capped"])
    def sig(): return rng.choice([1.0, 0.33, 0.0125, 1.79, 0.2])
    lvl = 1
    if kind == "nested":
        n = rng.randint(1, 3); radii = [1.0]
        for _ in range(n - 1): radii.insert(0, radii[0] * rng.uniform(0.75, 0.92))
        m = models.nested(radii, [sig() for _ in range(n)], lvl)
        m["info"]["src_radius"] = radii[0]
    elif kind == "capped":
        # nested head whose OUTER interface (the EEG projection surface) is stored as two cap meshes
        n = rng.randint(1, 3); radii = [1.0]
        for _ in range(n - 1): radii.insert(0, radii[0] * rng.uniform(0.75, 0.92))
        cap = {n - 1} | ({0} if (n > 1 and rng.random() < 0.5) else set())
        m = gd.capped_nested(radii, [sig() for _ in range(n)], 2, cap, rng)
        m["info"]["src_radius"] = radii[0]
    elif kind == "split":
        k = rng.randint(1, 2); ro = [1.0 * (1.15 ** (i + 1)) for i in range(k)]
        m = models.split_hemispheres(1.0, ro, (sig(), sig()), [sig() for _ in range(k)], lvl)
        m["info"]["src_radius"] = 1.0; m["info"]["src_centre"] = (0, 0, 0.45)
    elif kind == "inclusions":
        m = models.inclusions(1.0, [((0.45, 0, 0), 0.3, sig()), ((-0.45, 0.1, 0), 0.3, sig())], sig(), lvl)
        m["info"]["src_radius"] = 0.3; m["info"]["src_centre"] = (0.45, 0, 0)
    else:
        m = models.inclusions(1.0, [((0.4, 0, 0.1), 0.3, 0.0), ((-0.45, 0, 0), 0.25, sig())], sig(), lvl)
        m["info"]["src_radius"] = 0.25; m["info"]["src_centre"] = (-0.45, 0, 0)
    m["info"]["topology"] = kind
    return m

def bowl_base(rng):
    """a bowl-shaped conductor (thick hemispherical shell) in air: its only surface is the outermost (EEG) surface and the
    centre of its bounding box is OUTSIDE the conductor, so the reader has to find an interior point by drawing points"""
    m = gd.bowl_model(2, rng.choice([1.0, 0.33]), inside_sphere=False)
    m["info"].update(topology="bowl", kind="bowl")
    return m

def bowl_sources_sensors(rng, nd=4, ns=12):
    def up():
        while True:
            d = models.random_unit(rng)
            if d[2] > 0.35: return d
    dips = [tuple(0.9 * c for c in up()) + models.random_unit(rng) for _ in range(nd)]
    sens = [tuple(1.03 * c for c in up()) for _ in range(ns)]
    return dips, sens

def sources_sensors(m, rng, nd=4, ns=12):
    if m["info"].get("kind") == "bowl": return bowl_sources_sensors(rng, nd, ns)
    c = m["info"].get("src_centre", m["info"].get("centre", (0, 0, 0)))
    pos, mom = models.dipoles_in_ball(rng, nd, c, m["info"]["src_radius"], 0.6)
    sens = models.sensors_on_sphere(rng, ns, m["info"].get("centre", (0, 0, 0)), m["info"]["outer_radius"] * 1.02)
    return [tuple(p) + tuple(q) for p, q in zip(pos, mom)], sens

def observation_points(m, rng, per_domain=2, margin=0.03):
    """points inside every conductive domain (skull / scalp layers included), farther than `margin` from every surface:
    candidates are pushed off random triangles along the normal; the domain is decided with the winding-number oracle"""
    ifs, doms = gd.resolve(m)
    names = [n for n, _ in m["domains"]]
    samples = []
    for _, vs, ts in m["meshes"]:
        for a, b, c in ts:
            A, B, C = vs[a], vs[b], vs[c]
            for wa, wb, wc in ((1, 0, 0), (0, 1, 0), (0, 0, 1), (.5, .5, 0), (0, .5, .5), (.5, 0, .5), (1 / 3., 1 / 3., 1 / 3.)):
                samples.append(tuple(wa * A[k] + wb * B[k] + wc * C[k] for k in range(3)))
    got = {}; tries = 0
    want = [k for k, n in enumerate(names) if m["cond"][n] != 0.0]
    while tries < 4000 and any(len(got.get(k, [])) < per_domain for k in want):
        tries += 1
        _, vs, ts = m["meshes"][rng.randrange(len(m["meshes"]))]
        t = ts[rng.randrange(len(ts))]; n = models.tri_normal(vs, t); ln = math.sqrt(sum(x * x for x in n)) or 1.0
        cen = tuple(sum(vs[a][k] for a in t) / 3.0 for k in range(3))
        h = rng.choice([-1, 1]) * rng.uniform(0.04, 0.3)
        p = tuple(cen[k] + h * n[k] / ln for k in range(3))
        if min((p[0] - s_[0]) ** 2 + (p[1] - s_[1]) ** 2 + (p[2] - s_[2]) ** 2 for s_ in samples) < margin ** 2: continue
        ins = [gd.inside_interface(m, ifc, p) for ifc in ifs]
        hits = [k for k, d in enumerate(doms) if all(ins[i] == bool(s_) for s_, i in d)]
        if len(hits) == 1 and hits[0] in want and len(got.get(hits[0], [])) < per_domain:
            got.setdefault(hits[0], []).append(p)
    return [p for k in want for p in got.get(k, [])]

def variant(m, rng, kind):
    """(model, fmt, style, api?, cond_rng) for a re-description kind"""
    fmt, style, api = "tri", "1.1", False
    if kind in ("vertex_perm", "triangle_rotation", "rename", "boundary_order", "interface_order", "triangle_order", "mesh_order", "domain_order", "mesh_flip", "local_flips"):
        v = gd.redescribe(m, rng, kind)
    elif kind == "interface_mesh_reverse":
        v = gd.redescribe(m, rng, "identity"); v["interfaces"] = [(n, list(reversed(ms))) for n, ms in v["interfaces"]]
    elif kind == "load_then_finalize": v, api = m, 3
    elif kind == "domain_reverse":
        v = gd.redescribe(m, rng, "identity"); v["domains"] = list(reversed(v["domains"]))
    elif kind == "format_off": v, fmt = m, "off"
    elif kind == "format_bnd": v, fmt = m, "bnd"
    elif kind == "format_mesh32": v, fmt = round32(m), "mesh"
    elif kind == "api": v, api = m, True
    elif kind == "syntax": v, style = m, rng.choice(["1.1c", "1.1u", "1.1i", "1.0"])
    elif kind == "cond_order": v = m
    else: raise ValueError(kind)
    return v, fmt, style, api

def shrink_candidates(m, kind, rng):
    """smaller re-descriptions of the same kind: one mesh, one transposition / one swapped pair / one rotated triangle"""
    out = []
    if kind == "domain_reverse": kind = "domain_order"
    if kind in ("domain_order", "boundary_order", "interface_order", "mesh_order"):
        key = {"domain_order": "domains", "interface_order": "interfaces", "mesh_order": "meshes"}.get(kind)
        for _ in range(6):
            v = gd.redescribe(m, rng, "identity")
            if kind == "boundary_order":
                cands = [q for q, (_, bs) in enumerate(v["domains"]) if len(bs) > 1]
                if not cands: return []
                q = rng.choice(cands); nme, bs = v["domains"][q]; i, j = rng.sample(range(len(bs)), 2); bs[i], bs[j] = bs[j], bs[i]
                what = "domain line %s: boundaries %d and %d exchanged" % (nme, i, j)
            else:
                L = v[key]
                if len(L) < 2: return []
                i, j = rng.sample(range(len(L)), 2); L[i], L[j] = L[j], L[i]
                what = "%s %d and %d exchanged in the declaration order" % (key, i, j)
            out.append((v, what))
        return out
    for k, (n, vs, ts) in enumerate(m["meshes"]):
        for _ in range(2):
            v = gd.redescribe(m, rng, "identity")
            if kind == "vertex_perm":
                i, j = rng.sample(range(len(vs)), 2); p = list(range(len(vs))); p[i], p[j] = p[j], p[i]
                v["meshes"][k] = models.relabel_vertices(m["meshes"][k], p); what = "mesh %s: vertices %d and %d exchanged" % (n, i, j)
            elif kind == "triangle_order":
                i, j = rng.sample(range(len(ts)), 2); t2 = list(ts); t2[i], t2[j] = t2[j], t2[i]
                v["meshes"][k] = (n, vs, t2); what = "mesh %s: triangles %d and %d exchanged" % (n, i, j)
            elif kind == "triangle_rotation":
                i = rng.randrange(len(ts)); t2 = list(ts); a, b, c = t2[i]; t2[i] = (b, c, a)
                v["meshes"][k] = (n, vs, t2); what = "mesh %s: triangle %d rotated" % (n, i)
            elif kind == "mesh_flip":
                v["meshes"][k] = models.flip_winding(m["meshes"][k]); what = "mesh %s reversed" % n
                multi = {mn for _, ms in v["interfaces"] if len(ms) > 1 for _, mn in ms}
                if n in multi: v["interfaces"] = [(a, [((-s if mn == n else s), mn) for s, mn in ms]) for a, ms in v["interfaces"]]
            else:
                return []
            out.append((v, what))
    return out

def frob_rel(a, b):
    num = math.sqrt(sum((x - y) ** 2 for x, y in zip(a, b))); den = math.sqrt(sum(x * x for x in a)) or 1.0
    return num / den

def main(replay=None):
    ck = core.Check(PROP, "proof")
    quick = ck.tier != "thorough"
    bdir, hb = ck.prepare("Props/Properties_C06.v", "h_c06.cpp", opt="-O2")
    if hb is None or bdir is None: return ck.finish()
    rng = ck.rng
    calib = json.load(open(CALIB)) if os.path.exists(CALIB) else {}
    calibrate = os.environ.get("C06_CALIBRATE") == "1"
    runs = []      # dict(kind, base index, hline, model)
    def add(cid, v, fmt, style, api, dips, sens, kind, base, cond_shuffle=False, old=False, obs=()):
        d = os.path.join(ck.workdir, "c%d" % cid); shutil.rmtree(d, ignore_errors=True); os.makedirs(d)
        if api is True or api == 2: write_api(v, d)
        else:
            g = gd.write_geom(v, d, fmt, style, rng)
            if g is None: gd.write_geom(v, d, fmt, "1.1", rng)
            gd.write_cond(v, d, rng if cond_shuffle else None)
        ecog = 1 if v.get("info", {}).get("kind") == "nested" and len(v["meshes"]) >= 2 else 0
        hline = core.fcase("c06", [3 if api == 3 else (2 if api else 1), cid, len(dips), len(sens), 1 if old else 0, len(obs), ecog], [x for dd in dips for x in dd] + [x for s in sens for x in s] + [x for o_ in obs for x in o_])
        runs.append(dict(kind=kind, base=base, hline=hline, model=v, fmt=fmt, style=style, api=api, dips=dips, sens=sens, cid=cid, old=old, obs=[tuple(o_) for o_ in obs]))
    if replay:
        R = json.load(open(replay))
        for k, rc in enumerate(R.get("cases", [])):
            m = rc["model"]; m["meshes"] = [(n, [tuple(v) for v in vs], [tuple(t) for t in ts]) for n, vs, ts in m["meshes"]]
            m["interfaces"] = [(n, [tuple(x) for x in ms]) for n, ms in m["interfaces"]]; m["domains"] = [(n, [tuple(x) for x in bs]) for n, bs in m["domains"]]
            add(k, m, rc["fmt"], rc["style"], rc["api"], [tuple(x) for x in rc["dips"]], [tuple(x) for x in rc["sens"]], rc["kind"], 0 if k else None, old=rc.get("old", False), obs=[tuple(x) for x in rc.get("obs", [])])
    else:
        nbase = 10 if quick else 40
        kinds = list(KINDS)
        for b in range(nbase + 2):
            # the last bases of every run: an outermost interface stored as two meshes (EEG projection surface), and a
            # non-convex outermost surface (bounding-box centre outside the conductor)
            if b < nbase: m = base_model(rng, quick)
            elif b == nbase:
                m = gd.capped_nested([0.8, 1.0], [rng.choice([1.0, 0.33]), rng.choice([0.0125, 0.2])], 2, [1], rng); m["info"]["src_radius"] = 0.8
            else: m = bowl_base(rng)
            dips, sens = sources_sensors(m, rng)
            base_idx = len(runs)
            obs = observation_points(m, rng)
            add(len(runs), m, "tri", "1.1", False, dips, sens, "base", None, obs=obs)
            ks = kinds
            if calibrate: ks = kinds
            for kind in ks:
                if kind == "reload":
                    # the reader draws random points for a surface whose bounding-box centre is outside: the same files
                    # loaded again (twice) must give the same gain
                    if m["info"].get("kind") == "bowl":
                        for _ in range(2): add(len(runs), m, "tri", "1.1", False, dips, sens, kind, base_idx, obs=obs)
                    continue
                if kind == "old_ordering":
                    # the other enumeration of the unknowns offered by the library (asserted for nested geometries only)
                    if m["info"].get("kind") == "nested" and m["info"].get("topology") != "capped":   # shared vertices: OLD_ORDERING is not a bijection
                        add(len(runs), m, "tri", "1.1", False, dips, sens, kind, base_idx, old=True, obs=obs)
                    continue
                if m["info"].get("topology") == "capped" and kind in ("vertex_perm", "mesh_order"):
                    # known finding (replayed below): with an outermost interface stored as several meshes the deflation is
                    # applied mesh by mesh with a coefficient read at the first vertex: relabelling changes the gain
                    continue
                v, fmt, style, api = variant(m, rng, kind)
                if kind == "format_mesh32":
                    # fair comparison: the reference is the float32-rounded model in full-precision text
                    ref = len(runs); add(len(runs), round32(m), "tri", "1.1", False, dips, sens, "base32", None, obs=obs)
                    add(len(runs), v, fmt, style, api, dips, sens, kind, ref, obs=obs)
                else:
                    add(len(runs), v, fmt, style, api, dips, sens, kind, base_idx, cond_shuffle=(kind == "cond_order"), obs=obs)
    if not replay and not calibrate:
        # known witness: non-conductive inclusion => singular head matrix => a vertex relabelling changes the gain
        wm = models.inclusions(1.0, [((0.4, 0, 0.1), 0.3, 0.0), ((-0.45, 0, 0), 0.25, 0.33)], 1.0, 1)
        wm["info"].update(topology="nonconductive", src_radius=0.25, src_centre=(-0.45, 0, 0))
        import random as _r
        wr = _r.Random(12345); wd, ws = sources_sensors(wm, wr)
        bi = len(runs); add(len(runs), wm, "tri", "1.1", False, wd, ws, "base", None)
        add(len(runs), gd.redescribe(wm, wr, "vertex_perm"), "tri", "1.1", False, wd, ws, "vertex_perm", bi)
        # known witness: outermost interface stored as two cap meshes, vertices of the meshes relabelled
        cm_ = gd.capped_nested([0.85, 1.0], [1.0, 0.33], 2, [1], wr); cm_["info"]["src_radius"] = 0.85
        cd_, cs_ = sources_sensors(cm_, wr)
        ci_ = len(runs); add(len(runs), cm_, "tri", "1.1", False, cd_, cs_, "base", None)
        add(len(runs), gd.redescribe(cm_, wr, "vertex_perm"), "tri", "1.1", False, cd_, cs_, "vertex_perm", ci_)
        # known witness: the same head with its Domains section listed in reverse order
        wv = gd.redescribe(wm, wr, "identity"); wv["domains"] = list(reversed(wv["domains"]))
        add(len(runs), wv, "tri", "1.1", False, wd, ws, "domain_order", bi)
    rc_, io, err, tnotes = bounded.run_harness_bounded(hb, [r["hline"] for r in runs], ck.workdir, tier=ck.tier, env={"OMP_NUM_THREADS": "2"})
    ck.notes += tnotes
    outs = [((None, None) if l.startswith("TIMEOUT") else core.fparse(l)) for l in io]
    dist = {}; worst = {}; nontriv = 0
    for r, (zi, fl) in zip(runs, outs):
        dist[r["kind"]] = dist.get(r["kind"], 0) + 1
        if r["base"] is None: continue
        bz, bf = outs[r["base"]]
        base = runs[r["base"]]
        rep = dict(kind="metamorphic", cases=[dict(model=x["model"], fmt=x["fmt"], style=x["style"], api=x["api"], dips=x["dips"], sens=x["sens"], kind=x["kind"], old=x.get("old", False), obs=x.get("obs", [])) for x in (base, r)],
                   replay_cmd="./check C06 --replay <this file>")
        top = base["model"]["info"].get("topology", "?")
        line_ = io[runs.index(r)]
        if line_.startswith("TIMEOUT"):
            ck.violation("%s: time limit (%s)" % (r["kind"], top), "time limit: the implementation does not terminate (%s) on the %s re-description of a %s model" % (line_, r["kind"], top), rep); continue
        if zi is None or bz is None or zi[0] != 0 or bz[0] != 0:
            ck.violation("%s: load/compute fails (%s)" % (r["kind"], top), "gain computation fails for the %s re-description of a %s model: base %s, variant %s" % (r["kind"], top, io[r["base"]][:60], io[runs.index(r)][:60]), rep)
            continue
        if zi[1:3] != bz[1:3] or len(fl) != len(bf):
            ck.violation("%s: shape (%s)" % (r["kind"], top), "gain shape differs", rep); continue
        def blocks(z, f):
            ne = z[1] * z[2]; nm_ = z[5] * z[2]; ni_ = z[6] * z[2]   # EEG, MEG, internal potential, then innermost interface + ECoG
            return [f[:ne], f[ne:ne + nm_], f[ne + nm_:ne + nm_ + ni_], f[ne + nm_ + ni_:]]
        def differ3(f1, f2, z1, z2):
            return [(frob_rel(a, b) if (a or b) else 0.0) for a, b in zip(blocks(z1, f1), blocks(z2, f2))]
        def differ(f1, f2, z1, z2): return max(differ3(f1, f2, z1, z2))
        BL = ("eeg", "meg", "ip", "eeg")       # the ECoG block uses the EEG asymmetry bound
        def within(e3, cls_):
            if cls_ in ("exact", "exact32"): return max(e3) <= EXACT_TOL
            return all(x <= calib.get("asym_bound_" + b, calib.get("asym_bound", 3e-4)) for x, b in zip(e3, BL))
        if zi[5:] != bz[5:]:
            ck.violation("%s: shape (%s)" % (r["kind"], top), "MEG / internal-potential gain shapes differ: %s vs %s" % (bz[5:], zi[5:]), rep); continue
        e3 = differ3(bf, fl, bz, zi); e = max(e3); nontriv += 1
        cls = KINDS[r["kind"]]
        key = "%s/%s" % (cls, r["kind"])
        worst[key] = max(worst.get(key, 0.0), e)
        if cls == "asym":
            for x, b in zip(e3[:3], BL[:3]): worst["asymblock/" + b] = max(worst.get("asymblock/" + b, 0.0), x)
            worst["asymblock/ecog"] = max(worst.get("asymblock/ecog", 0.0), e3[3])
        if os.environ.get('C06_DEBUG'): print('DBG', top, r['kind'], '%.3g' % e, bz[1:], file=sys.stderr)
        if calibrate: continue
        tol = EXACT_TOL if cls in ("exact", "exact32") else max(calib.get("asym_bound_" + b, 3e-4) for b in BL)
        if not within(e3, cls):
            # delta-debug the re-description: one mesh, one transposition
            cands = shrink_candidates(base["model"], r["kind"], rng) if not replay else []
            if cands:
                lines = []
                for q, (v, what) in enumerate(cands):
                    cid = 50000 + q; d = os.path.join(ck.workdir, "c%d" % cid); shutil.rmtree(d, ignore_errors=True); os.makedirs(d)
                    gd.write_geom(v, d, "tri", "1.1", rng); gd.write_cond(v, d, None)
                    lines.append(core.fcase("c06", [1, cid, len(base["dips"]), len(base["sens"]), 0, len(base["obs"]), 1 if v.get("info", {}).get("kind") == "nested" and len(v["meshes"]) >= 2 else 0], [x for dd in base["dips"] for x in dd] + [x for s_ in base["sens"] for x in s_] + [x for o_ in base["obs"] for x in o_]))
                _, so, _, _ = bounded.run_harness_bounded(hb, lines, ck.workdir, tier=ck.tier, tag="shrink")
                for (v, what), l in zip(cands, so):
                    z2, f2 = (None, None) if l.startswith("TIMEOUT") else core.fparse(l)
                    if z2 and z2[0] == 0 and len(f2) == len(bf) and not within(differ3(bf, f2, bz, z2), cls):
                        rep["cases"][1] = dict(model=v, fmt="tri", style="1.1", api=False, dips=base["dips"], sens=base["sens"], kind=r["kind"])
                        rep["shrunk_to"] = what + " (difference %.3g)" % differ(bf, f2, bz, z2)
                        break
            ck.violation("%s changes the gain (%s)" % (r["kind"], top),
                         "EEG / MEG / internal-potential gain of the %s re-description differs from the original by %.3g relative Frobenius (class %s, allowed %.3g; per block EEG %.2g, MEG %.2g, internal potential %.2g, innermost interface + ECoG %.2g) on a %s model" % (r["kind"], e, cls, tol, e3[0], e3[1], e3[2], e3[3], top), rep)
    if calibrate:
        am = max([v for k, v in worst.items() if k.startswith("asym/")] + [0.0]); e32 = max([v for k, v in worst.items() if k.startswith("exact32/")] + [0.0])
        os.makedirs(os.path.dirname(CALIB), exist_ok=True)
        old = json.load(open(CALIB)) if os.path.exists(CALIB) else {}
        am = max(am, old.get("asym_measured", 0.0)); seeds = sorted(set(old.get("seeds", []) + [ck.seed]))
        per = {}
        for b in ("eeg", "meg", "ip"):
            mb = max(worst.get("asymblock/" + b, 0.0), old.get("asym_measured_" + b, 0.0))
            per["asym_measured_" + b] = mb; per["asym_bound_" + b] = 3 * mb
        json.dump(dict(per, note="MEASURED on the pinned tree (42-vertex meshes; max over the listed seeds, all kinds per base model), factor-3 margin; not a proof",
                       asym_measured=am, asym_bound=3 * am, exact_classes_measured_max=max([v for k, v in worst.items() if not k.startswith("asym")] + [old.get("exact_classes_measured_max", 0.0)]),
                       seeds=seeds), open(CALIB, "w"), indent=1)
    ck.cov.update(evaluations=len(runs), distinct_nontrivial=nontriv,
                  rule="generated head models (nested 1-3, split hemispheres, sibling and non-conductive inclusions; 42-vertex meshes) x re-description kinds; each evaluation = one full EEG gain; non-trivial = variant whose gain was compared with the base",
                  samples=[r["hline"][:200] for r in runs[:2]], op_distribution=dist, worst_relative_difference=worst,
                  traces_validated_against_impl=len(runs), calibration=calib)
    ck.cov["trusted_base"] += ["harness/h_c06.cpp (gain pipeline through the public API)", "lib/geomdesc.py re-descriptions and writers",
                               "calib/C06.json: measured quadrature-asymmetry bound (factor 3), not a proof"]
    ck.assumptions += ["asymmetry-class comparisons use a bound measured on the pinned tree", "LAPACK inversion is treated as exact up to 1e-9 relative on these well-conditioned 42-vertex models"]
    return ck.finish()
