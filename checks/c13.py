"""C13 — dense linear algebra (Vector / Matrix / SymMatrix) agrees with its mathematical definition.

proof part   : coq/Props/Properties_C13.v — every method of the model (BLAS reference semantics with the flags and
               leading dimensions the source passes, checked buffer reads) equals the definition for all shapes.
tie          : exact differential runs, extracted model vs the library rebuilt from the working tree, on
               integer-valued operands (exact in doubles) of all shapes incl. 0, 1, non-square, non-conformable.
measured part: LAPACK-backed results (inverse, pinverse, svd, solveLin, det, posdefinverse) checked against their
               defining equations in the harness at a tolerance scaled by the condition number (NOT proved).
"""
import os, sys, json, math
import core, ombuild, gen

PROP = "C13"
U32 = 4294967296
OPN = {1: "Matrix::operator()const", 2: "Matrix::operator()", 3: "Matrix::submat", 4: "Matrix::insertmat", 5: "Matrix::getcol",
       6: "Matrix::setcol", 7: "Matrix::getlin", 8: "Matrix::setlin", 9: "Matrix*Matrix", 10: "Matrix*SymMatrix", 11: "Matrix+Matrix",
       12: "Matrix-Matrix", 13: "Matrix*double", 14: "Matrix+=", 15: "Matrix-=", 16: "Matrix*=", 17: "Matrix*Vector",
       18: "Matrix::tmult(Vector)", 19: "Matrix::tmult", 20: "Matrix::multt", 21: "Matrix::tmultt", 22: "Matrix::transpose",
       23: "Matrix::frobenius_norm", 24: "Matrix::dot", 25: "Matrix::set", 26: "Matrix(SymMatrix)", 27: "Matrix(Vector,M,N)",
       30: "Vector::operator()", 31: "Vector+Vector", 32: "Vector-Vector", 33: "-Vector", 34: "Vector*double", 35: "Vector+double",
       36: "Vector-double", 37: "Vector*Vector", 38: "Vector::kmult", 39: "Vector::outer_product", 40: "Vector::sum", 41: "Vector::norm",
       42: "Vector::subvect", 43: "Vector*Matrix", 44: "Vector+=", 45: "Vector-=", 46: "Vector*=", 47: "Vector::set",
       50: "SymMatrix::operator()const", 51: "SymMatrix::operator()", 52: "SymMatrix::getlin", 53: "SymMatrix::setlin",
       54: "SymMatrix::submat(4)", 55: "SymMatrix::submat(2)", 56: "SymMatrix+SymMatrix", 57: "SymMatrix-SymMatrix",
       58: "SymMatrix*SymMatrix", 59: "SymMatrix*Matrix", 60: "SymMatrix*Vector", 61: "SymMatrix*double", 62: "SymMatrix+=",
       63: "SymMatrix-=", 64: "SymMatrix*=", 65: "SymMatrix(Matrix)", 66: "SymMatrix::operator()(4)", 70: "copy / DEEP_COPY"
       }
# pinned-model op code of each repaired method (regression witnesses)
PINNED = {21: 121, 55: 155, 17: 117, 18: 118, 3: 103}

def idx(rng, n, bad=0.15):
    """an index for a dimension n: mostly valid, else just past the end / far / near 2^32"""
    if n > 0 and rng.random() > bad:
        return rng.choice([0, n - 1, rng.randint(0, n - 1)])
    return rng.choice([n, n + 1, n + 7, U32 - 1, U32 - max(n, 1), 2147483648])

def rng_range(rng, n, bad=0.15):
    """(start,size) inside [0,n] mostly; else overflowing, incl. 32-bit wrap-around"""
    if rng.random() > bad:
        a = rng.randint(0, n); s = rng.randint(0, n - a)
        if rng.random() < 0.3: s = n - a
        return a, s
    return rng.choice([(n, 1), (0, n + 1), (n + 1, 0), (U32 - 1, 2), (1, U32 - 1), (U32 - 1, 1), (rng.randint(0, n), n + 1)])

def other(rng, n, bad):
    return n if rng.random() > bad else max(0, n + rng.choice([-1, 1, 2]))

def gen_case(rng, op, maxn, bad=0.15):
    sh = lambda: min(gen.shape(rng, max(maxn, 3)), maxn)
    D, V, S = gen.dense, gen.vec, gen.sym
    nl, nc, k = sh(), sh(), sh()
    w = [op]
    if op == 1: w += D(rng, nl, nc) + [idx(rng, nl, bad), idx(rng, nc, bad)]
    elif op == 2: w += D(rng, nl, nc) + [idx(rng, nl, bad), idx(rng, nc, bad), gen.rint(rng)]
    elif op == 3:
        a, b = rng_range(rng, nl, bad); c, d = rng_range(rng, nc, bad)
        if max(b, d) > 1000: b, d = (b, 1) if b > 1000 else (1, d)      # keep a wrapped request allocatable
        w += D(rng, nl, nc) + [a, b, c, d]
    elif op == 4:
        bl, bc = rng.randint(0, nl), rng.randint(0, nc)
        a = rng.randint(0, nl - bl); c = rng.randint(0, nc - bc)
        if rng.random() < bad:
            a, c = rng.choice([(nl - bl + 1, c), (a, nc - bc + 1), (U32 - 1, c), (a, U32 - bc if bc else U32 - 1)])
        w += D(rng, nl, nc) + [a, c] + D(rng, bl, bc)
    elif op in (5,): w += D(rng, nl, nc) + [idx(rng, nc, bad)]
    elif op == 6: w += D(rng, nl, nc) + [idx(rng, nc, bad)] + V(rng, other(rng, nl, bad))
    elif op == 7: w += D(rng, nl, nc) + [idx(rng, nl, bad)]
    elif op == 8: w += D(rng, nl, nc) + [idx(rng, nl, bad)] + V(rng, other(rng, nc, bad))
    elif op == 9: w += D(rng, nl, nc) + D(rng, other(rng, nc, bad), k)
    elif op == 10: w += D(rng, nl, nc) + S(rng, other(rng, nc, bad))
    elif op in (11, 12, 14, 15, 24):
        w += D(rng, nl, nc) + (D(rng, nl, nc) if rng.random() > bad else D(rng, other(rng, nl, 0.5), other(rng, nc, 0.5)))
    elif op in (13, 16, 25): w += D(rng, nl, nc) + [gen.rint(rng)]
    elif op == 17: w += D(rng, nl, nc) + V(rng, other(rng, nc, bad))
    elif op == 18: w += D(rng, nl, nc) + V(rng, other(rng, nl, bad))
    elif op == 19: w += D(rng, nl, nc) + D(rng, other(rng, nl, bad), k)
    elif op == 20: w += D(rng, nl, nc) + D(rng, k, other(rng, nc, bad))
    elif op == 21: w += D(rng, nl, nc) + D(rng, k, other(rng, nl, bad))
    elif op in (22, 23): w += D(rng, nl, nc)
    elif op == 26: w += S(rng, nl)
    elif op == 27: w += V(rng, nl * nc if rng.random() > bad else nl * nc + 1) + [nl, nc]
    elif op == 30: w += V(rng, nl) + [idx(rng, nl, bad)]
    elif op in (31, 32, 37, 38, 39, 44, 45): w += V(rng, nl) + V(rng, other(rng, nl, bad))
    elif op in (33, 40, 41): w += V(rng, nl)
    elif op in (34, 35, 36, 46, 47): w += V(rng, nl) + [gen.rint(rng)]
    elif op == 42:
        a, b = rng_range(rng, nl, bad)
        if b > 1000 and a < U32 - 1000: b = nl + 2
        w += V(rng, nl) + [a, b]
    elif op == 43: w += V(rng, other(rng, nl, bad)) + D(rng, nl, nc)
    elif op == 50: w += S(rng, nl) + [idx(rng, nl, bad), idx(rng, nl, bad)]
    elif op == 51: w += S(rng, nl) + [idx(rng, nl, bad), idx(rng, nl, bad), gen.rint(rng)]
    elif op == 52: w += S(rng, nl) + [idx(rng, nl, bad)]
    elif op == 53: w += S(rng, nl) + [idx(rng, nl, bad)] + V(rng, other(rng, nl, bad))
    elif op == 54:
        a, b = rng_range(rng, nl, bad); c, d = rng_range(rng, nl, bad)
        if max(b, d) > 1000: b, d = min(b, nl + 2), min(d, nl + 2)
        w += S(rng, nl) + [a, b, c, d]
    elif op == 55:
        a = rng.randint(0, max(nl - 1, 0)); b = rng.randint(a, max(nl - 1, a))
        if rng.random() < bad: a, b = rng.choice([(a, a), (b, a), (a, nl), (a, nl + 3), (nl, nl + 1), (0, U32 - 1), (1, U32 - 1)])
        w += S(rng, nl) + [a, b]
    elif op in (56, 57, 58, 62, 63): w += S(rng, nl) + S(rng, other(rng, nl, bad))
    elif op == 59: w += S(rng, nl) + D(rng, other(rng, nl, bad), k)
    elif op == 60: w += S(rng, nl) + V(rng, other(rng, nl, bad))
    elif op in (61, 64): w += S(rng, nl) + [gen.rint(rng)]
    elif op == 65:
        if rng.random() > bad: nc = nl + rng.choice([0, 0, 1, 2])
        w += D(rng, nl, nc)
    elif op == 66:
        a = rng.randint(0, max(nl - 1, 0)); b = rng.randint(a, max(nl - 1, a)); c = rng.randint(0, max(nl - 1, 0)); d = rng.randint(c, max(nl - 1, c))
        if rng.random() < bad: a, b, c, d = rng.choice([(b + 1, a, c, d), (a, nl, c, d), (a, b, c, nl + 1), (a, b, d + 1, c), (U32 - 1, 0, c, d)])
        w += S(rng, nl) + [a, b, c, d]
    elif op == 70:
        n = max(nl, 1)
        w += V(rng, n) + [rng.randint(0, 2), rng.randint(0, n - 1), 100 + gen.rint(rng)]
    return "c13 " + " ".join(map(str, w))

ALL_OPS = [o for o in OPN]

def gen_cases(rng, n, maxn):
    heavy = [9, 19, 20, 21, 21, 10, 17, 18, 58, 59, 60, 3, 4, 54, 55, 55, 66, 39, 43]
    cases = []
    for op in ALL_OPS:                       # every method at least a few times, incl. degenerate shapes
        for _ in range(4): cases.append(gen_case(rng, op, maxn))
        cases.append(gen_case(rng, op, 1))
    while len(cases) < n:
        op = rng.choice(heavy) if rng.random() < 0.5 else rng.choice(ALL_OPS)
        cases.append(gen_case(rng, op, maxn))
    return cases

def witness_dense(nl, nc):
    return [nl, nc] + [1 + (p % nl) + 10 * (p // nl) for p in range(nl * nc)] if nl else [nl, nc]

# (name, op, case words) of every `_refuted` theorem of Properties_C13.v: replayed on the real code each run.
def witnesses():
    return [
        ("tmultt: A 3x2, B 4x3", 21, [21] + witness_dense(3, 2) + witness_dense(4, 3)),
        ("SymMatrix::submat(1,2) of a 3x3", 55, [55, 3, 1, 2, 3, 4, 5, 6, 1, 2]),
        ("Matrix(3x0)*Vector(0)", 17, [17, 3, 0, 0]),
        ("Matrix(0x3).tmult(Vector(0))", 18, [18, 0, 3, 0]),
        ("Matrix(3x4)::submat(4294967295,2,0,1)", 3, [3] + witness_dense(3, 4) + [U32 - 1, 2, 0, 1]),
    ]

def classify(line):
    """canonical outcome class of a result line"""
    t = line.split()
    if line.startswith("CRASH"): return "crash"
    if not t: return "empty"
    if t[0] == "0":
        if "9223372036854775792" in t[1:]: return "indeterminate"
        if t[-1] == "99" and False: return "ok"
        return "ok"
    return {"1": "throw", "2": "maths-exception", "3": "other-exception", "4": "undef", "-1": "malformed"}.get(t[0], "other")

def lapack_cases(rng, n, maxn):
    """float-wire cases for the LAPACK-backed methods: kind, shape, rank and integer factors are on the integer
    side; the harness builds the matrix, calls the method and returns residuals of the defining equations."""
    cases = []
    def dim():
        c = rng.random()
        return 0 if c < 0.08 else 1 if c < 0.25 else 2 if c < 0.35 else rng.randint(3, maxn)
    # every LAPACK-backed method on every small shape (0..3 x 0..3: empty, 1x1, 1xN, Nx1, tall, wide, square), full rank and rank-deficient
    for kind in (1, 2, 3, 4, 5, 6, 7, 8, 9, 10):
        for m in range(4):
            for nn in range(4):
                for r in sorted({min(m, nn), max(min(m, nn) - 1, 0)}):
                    cases.append("c13l %d %d %d %d %d |" % (kind, m, nn, r, rng.randint(1, 2 ** 30)))
    while len(cases) < n:
        kind = rng.choice([1, 1, 2, 2, 2, 3, 3, 4, 4, 5, 6, 7, 8, 8, 8, 9, 9, 9, 10])
        m = dim(); nn = dim()
        r = min(m, nn) if rng.random() < 0.5 else rng.randint(0, min(m, nn))
        cases.append("c13l %d %d %d %d %d |" % (kind, m, nn, r, rng.randint(1, 2 ** 30)))
    return cases

# positions (after the condition number) of the bitwise receiver/argument comparisons in the harness output
PURITY = {1: [2], 2: [5], 8: [5], 3: [5], 4: [2, 3, 4], 5: [2], 6: [1], 7: [1], 9: [4], 10: [4]}
LK = {1: "Matrix::inverse", 2: "Matrix::pinverse", 3: "Matrix::svd", 4: "SymMatrix::solveLin", 5: "SymMatrix::inverse/invert",
      6: "SymMatrix::det", 7: "SymMatrix::posdefinverse", 8: "Matrix::pinverse(reltol)", 9: "nullspace_projector", 10: "nullspace_projector (rank-deficient input)"}

def main(replay=None):
    ck = core.Check(PROP, "proof")
    quick = ck.tier != "thorough"
    bdir, hb = ck.prepare("Props/Properties_C13.v", "h_c13.cpp")
    if hb is None or any(v[0] == "extract" for v in ck.violations):
        return ck.finish()
    maxn = 7 if quick else 40
    if replay:
        rp = json.load(open(replay))
        cases = rp.get("cases", []); lcases = rp.get("lapack_cases", [])
    else:
        corpus = []
        cp = os.path.join(core.VERIF, "corpus", "C13.txt")
        if os.path.exists(cp): corpus = [l.strip() for l in open(cp) if l.strip() and not l.startswith("#")]
        cases = [c for c in corpus if c.startswith("c13 ")] + gen_cases(ck.rng, 4000 if quick else 14000, maxn)
        lcases = [c for c in corpus if c.startswith("c13l ")] + lapack_cases(ck.rng, 400 if quick else 3000, 9 if quick else 40)

    # ---- exact correspondence -------------------------------------------------------------------------------
    mo = core.run_model(cases) if cases else []
    rc, io, err = core.run_harness(hb, cases, ck.workdir) if cases else (0, [], "")
    dist = {}; nontriv = set(); mism = 0; classes = {}
    for c, m, i in zip(cases, mo, io):
        op = int(c.split()[1]); name = OPN.get(op, str(op)); dist[name] = dist.get(name, 0) + 1
        cm, ci = classify(m), classify(i)
        classes[cm] = classes.get(cm, 0) + 1
        if cm == "malformed" or ci == "malformed":
            ck.notes.append("malformed case (generator bug): " + c[:80]); continue
        if len(c.split()) > 6: nontriv.add(c)
        if m == i: continue
        mism += 1
        it = i.split(); mt = m.split(); marks = []
        while it and it[-1] in ("97", "98", "99") and len(it) > len(mt): marks.append(it.pop())
        impure = bool(marks) and it == mt
        if impure:
            what = "%s: %s" % (name, "; ".join({"99": "modified an operand it must not write", "98": "returned an object that shares storage with an operand (writing into the result changed the operand)", "97": "returned an object that shares storage with an operand (writing into the operand changed the result)"}[x] for x in sorted(set(marks))))
        elif cm == "ok" and ci == "ok":
            what = "%s returned values that differ from the definition" % name
        elif cm == "ok":
            what = "%s on a valid call ended as %s instead of returning the defined value" % (name, ci)
        elif cm == "throw":
            what = "%s on an invalid call (out-of-range index / non-conformable shapes) ended as %s instead of throwing" % (name, ci)
        else:
            what = "%s: model %s, implementation %s" % (name, cm, ci)
        ws = c.split()[2:]
        sig = "%s: %s" % (name, (cm + "->" + ci) if not impure else "aliasing/purity " + "+".join(sorted(set(marks))))
        ck.violation(sig, "%s. The model outcome is the mathematically required one (Properties_C13.v proves the model equal to the definition for all shapes). case `%s` model=`%s` impl=`%s`" % (what, c[:300], m[:160], i[:160]),
                     dict(kind="correspondence", cases=[c], model=[m], impl=[i], replay_cmd="./check C13 --replay <this file>"))

    # ---- refutation witnesses replayed on the real code -----------------------------------------------------------
    wl = witnesses()
    wc = ["c13 " + " ".join(map(str, w)) for _, _, w in wl]
    wp = ["c13 " + " ".join(map(str, [PINNED[op]] + w[1:])) for _, op, w in wl]
    wm = core.run_model(wc); wpm = core.run_model(wp)
    rc2, wi, err2 = core.run_harness(hb, wc, ck.workdir, tag="wit")
    wrep = []
    for (name, op, w), c, m, pm, i in zip(wl, wc, wm, wpm, wi):
        reproduces = (i != m)
        wrep.append(dict(witness=name, model_now=m[:80], model_pinned=pm[:80], impl=i[:80], reproduces=reproduces))
        if pm == m:
            ck.violation("witness-model:" + name, "the pinned and the current model agree on the witness of a _refuted theorem: the regression witness is vacuous",
                         dict(kind="witness", cases=[c]), found_input=False)
        if reproduces:
            ck.violation(name, "defect witness of Properties_C13.v reproduces on the working tree (%s): required `%s`, got `%s` (the unrepaired code is modelled as `%s`)" % (OPN[op], m[:160], i[:160], pm[:160]),
                         dict(kind="witness", cases=[c], model=[m], impl=[i]))

    # ---- LAPACK-backed methods: defining equations, measured ------------------------------------------------
    lres = []; ldist = {}; lskipped = 0; lworst = {}
    if lcases:
        rc3, lo, err3 = core.run_harness(hb, lcases, ck.workdir, tag="lap", env={"C13_FLOAT": "1"})
        for c, o in zip(lcases, lo):
            kind = int(c.split()[1]); name = LK.get(kind, str(kind)); ldist[name] = ldist.get(name, 0) + 1
            zi, fl = core.fparse(o)
            if zi is None:
                ck.violation("%s: crash" % name, "%s crashed on a generated matrix: case `%s`" % (name, c), dict(kind="lapack", lapack_cases=[c], impl=[o])); continue
            if zi[0] == 5: lskipped += 1; continue                    # condition number above 1e8: discarded, counted
            if zi[0] != 0:
                ck.violation("%s: status %d" % (name, zi[0]), "%s %s where its definition gives a value (shape %sx%s, rank %s): case `%s` (kind m n rank seed)" % (name, {1: "threw std::invalid_argument", 2: "threw a maths exception", 3: "threw", 6: "returned a result of the wrong shape"}.get(zi[0], "ended with status %d" % zi[0]), c.split()[2], c.split()[3], c.split()[4], c), dict(kind="lapack", lapack_cases=[c], impl=[o])); continue
            cond = fl[0]; tol = 1e-9 * max(cond, 1.0)
            for k, r in enumerate(fl[1:]):
                lworst[name] = max(lworst.get(name, 0.0), r / max(cond, 1.0))
                if k in PURITY.get(kind, []) and not (r <= tol):
                    ck.violation("%s: const operand modified" % name, "%s changed its receiver or an argument that it must not write (bitwise comparison with the snapshot taken before the call, slot %d). case `%s`" % (name, k, c),
                                 dict(kind="lapack", lapack_cases=[c], impl=[o]))
                elif kind == 10 and k == 3 and not (r <= tol):
                    ck.violation("nullspace_projector: rank-deficient input", "nullspace_projector(M) of a rank-deficient M projects on a proper subspace of the null space: trace(P) differs from ncol-rank(M) by %.3g. case `%s` (kind m n rank seed)" % (r, c),
                                 dict(kind="lapack", lapack_cases=[c], impl=[o]))
                elif not (r <= tol):
                    ck.violation("%s: equation %d" % (name, k), "%s violates its defining equation #%d: residual %.3g > %.3g (cond %.3g). case `%s`" % (name, k, r, tol, cond, c),
                                 dict(kind="lapack", lapack_cases=[c], impl=[o]))
    ck.cov.update(evaluations=len(cases) + len(lcases) + len(wc), distinct_nontrivial=len(nontriv),
                  rule="exact correspondence cases: every public method of Vector/Matrix/SymMatrix on integer-valued operands (entries -9..9), shapes 0..%d biased to 0/1/2, ~15%% out-of-range indices (n, n+1, 2^31, 2^32-1, wrap-around ranges) and non-conformable operands; non-trivial = more than 5 integers of payload; distinct = distinct case lines" % maxn,
                  samples=cases[len(cases) // 2:len(cases) // 2 + 3] + lcases[:2], op_distribution=dist, model_outcome_classes=classes,
                  correspondence_mismatches=mism, traces_validated_against_impl=len(cases),
                  refutation_witnesses=wrep,
                  lapack_measured=dict(cases=len(lcases), distribution=ldist, discarded_cond_above_1e8=lskipped,
                                       worst_residual_over_cond=lworst, tolerance="1e-9*max(cond,1) on relative residuals",
                                       note="measured, not proved: LAPACK results cannot be derived from the source"))
    ck.cov["trusted_base"] += ["hand-written Gallina model coq/Maths/DenseModel.v (BLAS reference semantics written in Gallina, checked reads) tied by exact differential runs (harness/h_c13.cpp vs extracted extract/omm)",
                               "extraction: ExtrOcamlBasic only; OCaml driver extract/main.ml", "values are integers (exact in double)",
                               "harness replaces operator new[] to poison fresh arrays with NaN so unwritten result cells are visible"]
    ck.assumptions += ["BLAS routines (DGEMM DGEMV DSYMM DSPMV DGER DAXPY DCOPY DDOT DNRM2 DSCAL) behave as the reference semantics written in DenseModel.v, incl. the quick returns of DGEMV and the cblas leading-dimension tests",
                       "dimension products stay below 2^31 (no truncation in sizet_to_int); the accessors' 32-bit index arithmetic is the subject of C18",
                       "LAPACK-backed methods (inverse, pinverse, svd, solveLin, det, posdefinverse) are only measured against their defining equations"]
    if not replay and ck.cov.get("evaluations", 0) < 100:
        ck.violation("no-cases", "the check evaluated almost nothing (%s cases): the run is void" % ck.cov.get("evaluations", 0), dict(kind="void"), found_input=False)
    ck.drop_proof_violation_if(any(v[3] for v in ck.violations))
    return ck.finish()
