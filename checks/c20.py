"""C20 — command-line tools compute exactly what the library computes.

Proof part : coq/Props/Properties_C20.v over the table coq/Gen/GenCli.v regenerated from the sources (T4).
Tie        : every generated command line is (1) fed to the extracted model of commandline.h + the generated table,
             which predicts accept / exit status / which argv position every parameter is read from, (2) run on the
             executable built from the working tree, (3) for accepted lines the output file is compared with the
             result of the corresponding library call made by harness/h_c20.cpp on files assigned by DOCUMENTED ROLE.
Search     : when the table check (indices in range) breaks, the offending (tool, option, k) is turned into a
             command line and run; crash / wrong file / status 0 on an invalid line is the failing input."""
import os, sys, json, time, shutil, subprocess, importlib.util
import core, ombuild, models

PROP = "C20"
REPO = ombuild.REPO

# ------------------------------------------------------------------------------------------------ documented interface
# For each option (keyed by its first alias) the harness op that performs the corresponding library call.  The DOCUMENTED
# parameter order ("roles") is NOT written here: it is derived by the translator from the lines the tools' help()
# functions print (fill_documented_roles).  A role starting with '?' is optional, 'out:<kind>' is the output file.
ASSEMBLE = {
    "-HeadMat":                  dict(op="HM"),
    "-CorticalMat":              dict(op="CM"),
    "-SurfSourceMat":            dict(op="SSM"),
    "-DipSourceMat":             dict(op="DSM"),
    "-EITSourceMat":             dict(op="EITSM"),
    "-Head2EEGMat":              dict(op="H2EM"),
    "-Head2ECoGMat":             dict(op="H2ECOGM"),
    "-Head2MEGMat":              dict(op="H2MM"),
    "-SurfSource2MEGMat":        dict(op="SS2MM"),
    "-DipSource2MEGMat":         dict(op="DS2MM"),
    "-Head2InternalPotMat":      dict(op="H2IPM"),
    "-DipSource2InternalPotMat": dict(op="DS2IPM"),
}
GAIN = {
    "-EEG":                  dict(op="EEG"),
    "-EEGadjoint":           dict(op="EEGadjoint"),
    "-MEG":                  dict(op="MEG"),
    "-MEGadjoint":           dict(op="MEGadjoint"),
    "-EEGMEGadjoint":        dict(op="EEGMEGadjoint"),
    "-InternalPotential":    dict(op="IP"),
    "-EITInternalPotential": dict(op="EITIP"),
}
DOC = {"om_assemble": ASSEMBLE, "om_gain": GAIN}
OUTKIND = {"-HeadMat": "sym", "-Head2EEGMat": "sparse", "-Head2ECoGMat": "sparse"}

def roles_of(tname, b):
    """documented parameter order of an option block, as derived by the translator from the lines the tool's help()
    prints (role from the wording of each line); None when the help text does not mention the option"""
    if not b.get("doc"): return None
    roles = []; nout = 0
    for d in b["doc"]:
        r = d["role"]
        if r == "opt": continue                      # the free-form optional tail of -CorticalMat (alpha/beta/gamma/file)
        if r == "out":
            nout += 1; rr = ("out" if nout == 1 else "out2") + ":" + OUTKIND.get(b["aliases"][0], "matrix")
        elif r in ("domain", "iface"): rr = "=" + r
        else: rr = r
        if tname == "om_gain" and b["aliases"][0] == "-EITInternalPotential" and r == "dsm": rr = "eitsm"   # the source matrix of EIT
        roles.append(("?" if d["optional"] else "") + rr)
    return roles

def fill_documented_roles(ck, tools):
    for t in tools:
        doc = DOC.get(t["name"])
        if doc is None: continue
        for b in t["blocks"]:
            bname = b["aliases"][0]
            roles = roles_of(t["name"], b)
            if bname in doc and roles is not None: doc[bname]["roles"] = roles
            elif bname in doc:
                doc.pop(bname)
                ck.violation("undocumented option %s %s" % (t["name"], bname), "the help text of %s does not list the parameters of %s" % (t["name"], bname),
                             dict(kind="table", tool=t["name"], option=bname), found_input=False)
        for k in [k for k in doc if "roles" not in doc[k]]: doc.pop(k)
# aliases the help text of the tools documents (the translator table must accept every one of them)
SUFFIXES = [".bin", ".txt", ".mat"]
TOOL_PATH = {"om_assemble": "apps/om_assemble", "om_gain": "apps/om_gain", "om_minverser": "apps/om_minverser",
             "om_forward": "apps/om_forward", "om_matrix_convert": "apps/tools/om_matrix_convert",
             "om_check_geom": "apps/tools/om_check_geom", "om_mesh_convert": "apps/tools/om_mesh_convert",
             "om_mesh_concat": "apps/tools/om_mesh_concat"}

def load_translator():
    p = os.path.join(core.VERIF, "translators", "t_cli.py")
    spec = importlib.util.spec_from_file_location("t_cli", p)
    mod = importlib.util.module_from_spec(spec); spec.loader.exec_module(mod)
    return mod

# ------------------------------------------------------------------------------------------------ model wire
def enc(toolidx, argv):
    w = [toolidx, len(argv)]
    for a in argv:
        b = a.encode(); w += [len(b)] + list(b)
    return "c20 " + " ".join(map(str, w))

def parse_model(line):
    v = [int(x) for x in line.split()]
    if v[:1] in ([-1], [-2]): return None
    p = 0
    def get():
        nonlocal p
        x = v[p]; p += 1; return x
    def tok():
        n = get(); return bytes(get() for _ in range(n)).decode(errors="replace")
    fin, code, ne = get(), get(), get()
    execs = []
    for _ in range(ne):
        b, var, pos, nargs, nr = get(), get(), get(), get(), get()
        reads = [(get(), get()) for _ in range(nr)]
        execs.append(dict(block=b, variant=var, pos=pos, nargs=nargs, reads=reads))
    nd = get(); vals = []
    for _ in range(nd):
        kind, pos = get(), get(); t = tok(); sv = tok()
        vals.append(dict(kind=kind, pos=pos, token=t, value=sv))
    plan = None
    if p < len(v) and get() == 1:
        plan = dict(inp=tok(), in_fmt=tok(), out=tok(), out_fmt=tok())
    orderings = None
    if p < len(v):
        no = get(); orderings = [get() for _ in range(no)]
    return dict(final=["run", "exit", "crash"][fin], code=code, execs=execs, vals=vals, plan=plan, orderings=orderings)

# ------------------------------------------------------------------------------------------------ input files
def make_generated(rng, wd, name, nlayers, dense=False):
    d = os.path.join(wd, name); os.makedirs(d, exist_ok=True)
    radii = [1.0]
    for _ in range(nlayers - 1): radii.insert(0, round(radii[0] * rng.uniform(0.82, 0.92), 3))
    sig = [rng.choice([1.0, 0.33, 0.5, 1.79])] + [rng.choice([0.0125, 0.05, 0.2]) if k % 2 == 1 else rng.choice([1.0, 0.33]) for k in range(1, nlayers)]
    m = models.nested(radii, sig, level=1)
    g, c = models.write_model(m, d, fmt="tri", stem=name)
    r0 = radii[0]
    pos, mom = models.dipoles_in_ball(rng, rng.randint(2, 4), (0, 0, 0), r0, 0.7)
    for _ in range(2):            # dipoles close to the inner interface: adaptive integration must matter (DSM vs DSMNA)
        u = models.random_unit(rng); e = rng.uniform(0.9, 0.98)
        pos.append(tuple(r0 * e * x for x in u)); mom.append(models.random_unit(rng))
    f = dict(geom=g, cond=c, domain="D0", iface="I0", nested=True, ndip=len(pos), radii=radii)
    f["dip"] = os.path.join(d, "dipoles.dip"); models.write_dipoles(f["dip"], pos, mom)
    ne = rng.randint(3, 6)
    f["elec"] = os.path.join(d, "electrodes.patches"); models.write_points(f["elec"], models.sensors_on_sphere(rng, ne, (0, 0, 0), 1.0), ["E%03d" % k for k in range(ne)])
    f["ecog"] = os.path.join(d, "ecog.electrodes"); models.write_points(f["ecog"], models.sensors_on_sphere(rng, 3, (0, 0, 0), r0), ["G%03d" % k for k in range(3)])
    # dense=True: sensor arrays larger than any blocking a tool could apply to its products (row counts just past 256 and
    # not multiples of it: a tool that forms Head2Sensors*HeadMatInv slice by slice must still compute every row; seeded C20-16)
    sq = models.sensors_on_sphere(rng, rng.choice([257, 300, 389]) if dense else rng.randint(3, 5), (0, 0, 0), 1.25)
    f["squids"] = os.path.join(d, "sensors.squids"); models.write_squids(f["squids"], sq, [models.random_unit(rng) for _ in sq], ["M%03d" % k for k in range(len(sq))])
    f["points"] = os.path.join(d, "inner_points.txt"); models.write_points(f["points"], models.sensors_on_sphere(rng, rng.choice([258, 301, 390]) if dense else 4, (0, 0, 0), 0.5 * r0))
    with open(os.path.join(d, "eit.patches"), "w") as fh:
        for k, p in enumerate(models.sensors_on_sphere(rng, 2, (0, 0, 0), 1.0)):
            fh.write("T%03d %r %r %r %r\n" % (k, p[0], p[1], p[2], 0.3))
    f["eit"] = os.path.join(d, "eit.patches")
    v, t = models.icosphere(0)
    f["srcmesh"] = os.path.join(d, "sources.tri"); models.write_tri(f["srcmesh"], models.transform(v, 0.6 * r0), t)
    f["dir"] = d; f["name"] = name
    return f

def read_tri(path):
    """vertices and triangles of a .tri file"""
    L = [l.split() for l in open(path) if l.strip()]
    nv = int(L[0][1]); vs = [tuple(float(x) for x in l[:3]) for l in L[1:1 + nv]]
    ts = [tuple(int(x) for x in l[:3]) for l in L[2 + nv:]]
    return vs, ts

def make_head1(rng, wd):
    src0 = os.path.join(REPO, "data", "Head1")
    d = os.path.join(wd, "head1"); os.makedirs(d, exist_ok=True)
    # work on a copy: a broken tool that writes to an input position must not damage the repository's data
    src = os.path.join(d, "data"); os.makedirs(src, exist_ok=True)
    if os.path.isdir(src0):
        for f in os.listdir(src0):
            if os.path.isfile(os.path.join(src0, f)) and os.path.getsize(os.path.join(src0, f)) < 2000000:
                shutil.copy(os.path.join(src0, f), os.path.join(src, f))
    f = dict(geom=os.path.join(src, "Head1.geom"), cond=os.path.join(src, "Head1.cond"), dip=os.path.join(src, "Head1.dip"),
             elec=os.path.join(src, "Head1.patches"), ecog=os.path.join(src, "Head1-ecog.electrodes"),
             squids=os.path.join(src, "Head1.squids"), eit=os.path.join(src, "Head1-EIT.patches"),
             srcmesh=os.path.join(src, "Head1.tri"), domain="Brain", iface=None, nested=True, dir=d, name="head1")
    f["points"] = os.path.join(d, "inner_points.txt"); models.write_points(f["points"], models.sensors_on_sphere(rng, 3, (0, 0, 0), 0.4))
    f["ndip"] = sum(1 for l in open(f["dip"]) if l.strip()) if os.path.exists(f["dip"]) else 0
    for k in ("geom", "cond", "dip", "elec", "squids"):
        if not os.path.exists(f[k]): return None
    return f

# ------------------------------------------------------------------------------------------------ running things
def run_exe(bdir, tool, args, cwd, timeout=120):
    env = dict(os.environ); env["OMP_NUM_THREADS"] = "1"; env["OPENBLAS_NUM_THREADS"] = "1"
    exe = os.path.join(bdir, TOOL_PATH[tool])
    try:
        p = subprocess.run([exe] + args, stdout=subprocess.PIPE, stderr=subprocess.PIPE, cwd=cwd, env=env, timeout=timeout)
        return p.returncode, (p.stdout[-600:] + p.stderr[-600:]).decode(errors="replace")
    except subprocess.TimeoutExpired:
        return -999, "timeout"

SENTINEL = b"C20 sentinel: this file existed before the command was run and must survive a rejected or failed run\n"

def protect(c, scratch):
    """before a run that must be rejected or must fail: every argument that is a path gets a content snapshot; a path
    inside the scratch directory that does not exist yet (an output name) is pre-created with known content"""
    snap = {}
    for a in c["args"]:
        if not a.startswith("/"): continue
        if os.path.isfile(a):
            try: snap[a] = open(a, "rb").read()
            except OSError: pass
        elif a.startswith(scratch) and os.path.isdir(os.path.dirname(a)) and not os.path.exists(a) and not os.path.basename(a).startswith("does_not_exist") and not c.get("keep_missing", {}).get(a):
            with open(a, "wb") as fh: fh.write(SENTINEL)
            snap[a] = SENTINEL
    return snap

def damaged(snap):
    bad = []
    for a, content in snap.items():
        try: now = open(a, "rb").read()
        except OSError: now = None
        if now != content: bad.append(os.path.basename(a) + (" (removed)" if now is None else " (%d -> %d bytes)" % (len(content), len(now))))
    return bad

def listing(d):
    out = {}
    for root, dirs, files in os.walk(d):
        for f in files:
            p = os.path.join(root, f)
            try: out[os.path.relpath(p, d)] = (os.path.getsize(p), os.path.getmtime(p))
            except OSError: pass
    return out

def numbers(path):
    vals = []
    for tok in open(path, errors="replace").read().split():
        try: vals.append(float(tok))
        except ValueError: vals.append(tok)
    return vals

def same_file(a, b):
    """bitwise for .bin, text equal or 6 significant digits for .txt; .mat is compared through the library (CMP)"""
    if not (os.path.exists(a) and os.path.exists(b)): return False, "missing %s" % (a if not os.path.exists(a) else b)
    A, B = open(a, "rb").read(), open(b, "rb").read()
    if A == B: return True, ""
    if a.endswith(".txt") or a.endswith(".tri") or a.endswith(".off") or a.endswith(".bnd") or a.endswith(".mesh"):
        x, y = numbers(a), numbers(b)
        if len(x) != len(y): return False, "different token counts %d/%d" % (len(x), len(y))
        for u, v in zip(x, y):
            if isinstance(u, float) and isinstance(v, float):
                if not core.close(u, v, rel=2e-6, abs_=1e-300): return False, "value %r vs %r" % (u, v)
            elif u != v: return False, "token %r vs %r" % (u, v)
        return True, ""
    return False, "bytes differ (%d vs %d bytes)" % (len(A), len(B))

class Runner:
    def __init__(self, ck, bdir, hb, tools):
        self.ck = ck; self.bdir = bdir; self.hb = hb; self.tools = tools
        self.tidx = {t["name"]: k for k, t in enumerate(tools)}
        self.cases = []; self.dist = {}; self.nrej = 0; self.skipped = []

    def add(self, **c):
        c.setdefault("outs", []); c.setdefault("hcase", None); c.setdefault("probe", None)
        c["id"] = len(self.cases); self.cases.append(c); return c

# ------------------------------------------------------------------------------------------------ case generation
def block_of(tool, first_alias):
    for k, b in enumerate(tool["blocks"]):
        if b["aliases"][0] == first_alias: return k, b
    return None, None

def documented_noadapt(tool, alias):
    """documented meaning of an alias of the dipole source matrix option: the names the help text lists compute the
    (adaptive) library default DipSourceMat(geo,dipoles,domain); the ...NoAdapt / ...NA / ...na names switch the adaptive
    integration off.  Deliberately NOT taken from the alias subset found in the source."""
    if any(alias in g for g in tool.get("documented", [])): return False
    return alias.lower().endswith(("noadapt", "na"))

def build_option_case(R, tool, bname, alias, files, outdir, suffix, with_optional, cm_mode=None, old=False, tag=""):
    try:
        return build_option_case_(R, tool, bname, alias, files, outdir, suffix, with_optional, cm_mode, old, tag)
    except KeyError as e:          # an input of this option is produced by a tool that is not available in this run
        R.skipped.append("%s %s: no %s file" % (tool["name"], alias, e)); return None

def build_option_case_(R, tool, bname, alias, files, outdir, suffix, with_optional, cm_mode=None, old=False, tag=""):
    """command line for one option following the documented parameter order; returns the case dict"""
    doc = DOC[tool["name"]][bname]
    bidx, blk = block_of(tool, bname)
    args = [alias]; rolepos = {}; outs = []; hargs = {}
    stem = "%s_%s%s" % (alias.strip("-"), files["name"], tag)
    for r in doc["roles"]:
        opt = r.startswith("?")
        rr = r.lstrip("?")
        if opt and not with_optional:
            hargs[rr.lstrip("=")] = "-"; continue
        if rr.startswith("out"):
            rn, kind = rr.split(":")
            p = os.path.join(outdir, stem + ("" if rn == "out" else "_2") + suffix)
            outs.append((p, os.path.join(outdir, "ref_" + os.path.basename(p)), kind))
            args.append(p); rolepos[rn] = len(args) - 1; hargs[rn] = outs[-1][1]
        elif rr.startswith("="):
            val = files[rr[1:]]
            args.append(val); rolepos[rr[1:]] = len(args) - 1; hargs[rr[1:]] = val
        else:
            args.append(files[rr]); rolepos[rr] = len(args) - 1; hargs[rr] = files[rr]
    extra = []
    if bname == "-CorticalMat":
        cache = os.path.join(outdir, stem + "_cache.bin"); hcache = os.path.join(outdir, "ref_" + stem + "_cache.bin")
        mode, x, y, hf = "none", "0", "0", "-"
        if cm_mode == "gamma": extra = ["0.75"]; mode, x = "gamma", "0.75"
        elif cm_mode == "gamma+file": extra = ["0.75", cache]; mode, x, hf = "gamma", "0.75", hcache
        elif cm_mode == "alphabeta": extra = ["0.002", "90.5"]; mode, x, y = "alphabeta", "0.002", "90.5"
        elif cm_mode == "alphabeta+file": extra = ["0.002", "90.5", cache]; mode, x, y, hf = "alphabeta", "0.002", "90.5", hcache
        elif cm_mode == "file": extra = [cache]; hf = hcache
        args += extra
        h = ["CM", hargs["geom"], hargs["cond"], hargs["elec"], hargs["domain"], hargs["out"], mode, x, y, hf, "1" if old else "0"]
    else:
        o = "1" if old else "0"
        op = doc["op"]
        if op == "HM": h = [op, hargs["geom"], hargs["cond"], hargs["out"], o]
        elif op == "SSM": h = [op, hargs["geom"], hargs["cond"], hargs["srcmesh"], hargs["out"], o]
        elif op == "DSM":
            adapt = "0" if documented_noadapt(tool, alias) else "1"
            h = [op, hargs["geom"], hargs["cond"], hargs["dip"], hargs["out"], hargs["domain"], adapt, o]
        elif op == "EITSM": h = [op, hargs["geom"], hargs["cond"], hargs["eit"], hargs["out"], o]
        elif op == "H2EM": h = [op, hargs["geom"], hargs["cond"], hargs["elec"], hargs["out"], o]
        elif op == "H2ECOGM": h = [op, hargs["geom"], hargs["cond"], hargs["ecog"], hargs["iface"], hargs["out"], o]
        elif op == "H2MM": h = [op, hargs["geom"], hargs["cond"], hargs["squids"], hargs["out"], o]
        elif op == "SS2MM": h = [op, hargs["srcmesh"], hargs["squids"], hargs["out"]]
        elif op == "DS2MM": h = [op, hargs["dip"], hargs["squids"], hargs["out"]]
        elif op == "H2IPM": h = [op, hargs["geom"], hargs["cond"], hargs["points"], hargs["out"], o]
        elif op == "DS2IPM": h = [op, hargs["geom"], hargs["cond"], hargs["dip"], hargs["points"], hargs["out"], hargs["domain"], o]
        else:
            h = [op] + [hargs[r.lstrip("?=").split(":")[0]] for r in doc["roles"]]
    pre = ["-old-ordering"] if old and old != "after" else []
    post = ["-old-ordering"] if old == "after" else []
    npar = len(args) - 1
    return R.add(tool=tool["name"], args=pre + args + post, off=len(pre), expect="ok", block=bidx, bname=bname, alias=alias, npar=npar, old=bool(old),
                 loads_geometry=("geom" in rolepos), want_variant=(1 if documented_noadapt(tool, alias) else 0) if doc["op"] == "DSM" else None,
                 rolepos=rolepos, outs=outs, hcase=" ".join(h), cls="option", model=files["name"], suffix=suffix,
                 desc="%s %s on %s%s%s%s" % (tool["name"], alias, files["name"], " +optional" if with_optional else "", (" " + cm_mode) if cm_mode else "", " -old-ordering" if old else ""))

def gen_corpus(R, fsets):
    cp = os.path.join(core.VERIF, "corpus", "C20.txt")
    if not os.path.exists(cp): return
    tools = {t["name"]: t for t in R.tools}
    fs = fsets[0]; od = os.path.join(fs["dir"], "corpus"); os.makedirs(od, exist_ok=True)
    for n, line in enumerate(open(cp)):
        w = line.split()
        if not w or w[0].startswith("#"): continue
        t = tools.get(w[1])
        if t is None: continue
        if w[0] == "option":
            alias = w[2]
            blk = [b for b in t["blocks"] if alias in b["aliases"]]
            if not blk or blk[0]["aliases"][0] not in DOC.get(t["name"], {}): continue       # alias gone: the documented-alias check reports it
            c = build_option_case(R, t, blk[0]["aliases"][0], alias, fs, fs["dir"], w[4], w[3] == "1", tag="_corpus%d" % n)
            if c: c["desc"] = "corpus: " + c["desc"]
        elif w[0] == "reject":
            args = []
            for a in w[2:]:
                if a.startswith("{tmp}"): args.append(od + a[5:])
                elif a.startswith("{") and a.endswith("}"): args.append(str(fs.get(a[1:-1], a)))
                else: args.append(a)
            sym = " ".join(w[1:])
            R.add(tool=w[1], args=args, off=0, expect="reject", cls="reject:corpus", model=fs["name"], suffix="", sym=sym, cwd=od, desc="corpus: " + sym)

def gen_cases(R, rng, quick, wd, fsets):
    tools = {t["name"]: t for t in R.tools}
    ta, tg = tools.get("om_assemble"), tools.get("om_gain")
    sfx = lambda: rng.choice(SUFFIXES)
    # ---- phase A: canonical pipeline per model (first alias, .bin) : these outputs feed om_gain / om_minverser
    for fs in fsets:
        od = fs["dir"]
        if ta:
            for bname, key in [("-HeadMat", "hm"), ("-DipSourceMat", "dsm"), ("-Head2EEGMat", "h2em"), ("-Head2MEGMat", "h2mm"),
                               ("-DipSource2MEGMat", "ds2mm"), ("-Head2InternalPotMat", "h2ipm"), ("-DipSource2InternalPotMat", "ds2ipm"),
                               ("-EITSourceMat", "eitsm"), ("-SurfSourceMat", "ssm"), ("-SurfSource2MEGMat", "ss2mm")]:
                if block_of(ta, bname)[1] is None: continue
                c = build_option_case(R, ta, bname, bname, fs, od, ".bin", False, tag="_canon")
                if c: fs[key] = c["outs"][0][0]
        if "om_minverser" in tools and "hm" in fs:
            out = os.path.join(od, "hminv_canon.bin"); fs["hminv"] = out
            R.add(tool="om_minverser", args=[fs["hm"], out], off=0, expect="ok", outs=[(out, os.path.join(od, "ref_hminv_canon.bin"), "sym")],
                  hcase="MINV %s %s" % (fs["hm"], os.path.join(od, "ref_hminv_canon.bin")), cls="positional", model=fs["name"], suffix=".bin",
                  desc="om_minverser on %s" % fs["name"])
    gen_corpus(R, fsets)
    # ---- phase B: every alias of every option, rotating models / suffixes; optional arguments
    for tool in (ta, tg):
        if not tool: continue
        for b in tool["blocks"]:
            bname = b["aliases"][0]
            if bname not in DOC[tool["name"]]:
                R.ck.violation("undocumented option %s %s" % (tool["name"], bname),
                               "%s has an option block %s for which the check has no documented parameter order" % (tool["name"], bname),
                               dict(kind="table", tool=tool["name"], option=bname), found_input=False)
                continue
            roles = DOC[tool["name"]][bname]["roles"]
            has_opt = any(r.startswith("?") for r in roles)
            for alias in b["aliases"]:
                fs = rng.choice(fsets)
                if "iface" in "".join(roles) and not fs.get("iface"): fs = fsets[0]
                if bname == "-CorticalMat":
                    mode = rng.choice([None, "gamma", "alphabeta", "file", "gamma+file", "alphabeta+file"])
                    build_option_case(R, tool, bname, alias, fs, fs["dir"], sfx(), False, cm_mode=mode)
                else:
                    wo = has_opt and rng.random() < 0.5
                    if wo and "iface" in "".join(roles) and not fs.get("iface"): wo = False
                    build_option_case(R, tool, bname, alias, fs, fs["dir"], sfx(), wo)
            # each optional configuration at least once per run
            if has_opt:
                for wo in (False, True):
                    fs = fsets[0] if "iface" in "".join(roles) else rng.choice(fsets)
                    build_option_case(R, tool, bname, rng.choice(b["aliases"]), fs, fs["dir"], sfx(), wo, tag="_o%d" % wo)
            if bname == "-CorticalMat":
                for mode in ["gamma", "alphabeta", "file", "gamma+file", "alphabeta+file"]:
                    fs = rng.choice(fsets)
                    build_option_case(R, tool, bname, rng.choice(b["aliases"]), fs, fs["dir"], sfx(), False, cm_mode=mode, tag="_" + mode.replace("+", "_"))
    # -old-ordering (typed boolean flag of om_assemble): EVERY option that loads a geometry, with the flag before or after the
    # option, on nested models with >= 2 interfaces; compared with the library call made with OLD_ORDERING=true
    if ta and any(d["name"] == "-old-ordering" for d in ta["decls"]):
        for b in ta["blocks"]:
            bname = b["aliases"][0]
            if bname not in DOC["om_assemble"] or "geom" not in [r.lstrip("?=") for r in DOC["om_assemble"][bname]["roles"]]: continue
            for n, where in enumerate(["before", "after"]):
                fs = fsets[n % len(fsets)] if not ("iface" in "".join(DOC["om_assemble"][bname]["roles"])) else fsets[0]
                wo = any(r.startswith("?") for r in DOC["om_assemble"][bname]["roles"]) and rng.random() < 0.5 and bool(fs.get("iface") or "iface" not in "".join(DOC["om_assemble"][bname]["roles"]))
                build_option_case(R, ta, bname, rng.choice(b["aliases"]), fs, fs["dir"], sfx(), wo, old=where, tag="_old_" + where,
                                  cm_mode=rng.choice([None, "gamma", "alphabeta"]) if bname == "-CorticalMat" else None)
    # ---- positional tools
    for fs in fsets:
        if "om_minverser" in tools and "hm" in fs:
            s = sfx(); out = os.path.join(fs["dir"], "hminv_x" + s); ref = os.path.join(fs["dir"], "ref_hminv_x" + s)
            R.add(tool="om_minverser", args=[fs["hm"], out], off=0, expect="ok", outs=[(out, ref, "sym")], hcase="MINV %s %s" % (fs["hm"], ref),
                  cls="positional", model=fs["name"], suffix=s, desc="om_minverser on %s (%s)" % (fs["name"], s))
    return


def gen_pipeline(R, rng, fsets):
    """canonical om_gain runs on the canonical files (phase A2) + the in-memory pipeline reference"""
    tools = {t["name"]: t for t in R.tools}
    tg = tools.get("om_gain")
    for fs in fsets:
        od = fs["dir"]
        if tg and all(k in fs for k in ("hminv", "dsm", "h2em", "h2mm", "ds2mm")):
            c = build_option_case(R, tg, "-EEG", "-EEG", fs, od, ".bin", False, tag="_canon"); fs["gain_eeg"] = c["outs"][0][0]
            c = build_option_case(R, tg, "-MEG", "-MEG", fs, od, ".bin", False, tag="_canon"); fs["gain_meg"] = c["outs"][0][0]
            if "om_assemble" in tools and block_of(tools["om_assemble"], "-DipSourceMat")[1] is not None:
                R.add(tool=None, args=[], off=0, expect="ok", outs=[], hcase="DSMDIFF %s %s %s" % (fs["geom"], fs["cond"], fs["dip"]), cls="nonvacuous", model=fs["name"], suffix="",
                      sym="adaptive vs non-adaptive dipole source matrix", desc="DipSourceMat with and without adaptive integration must differ on %s (else the -DSM/-DSMNA cases are vacuous)" % fs["name"])
            pe, pm = os.path.join(od, "ref_pipe_eeg.bin"), os.path.join(od, "ref_pipe_meg.bin")
            R.add(tool=None, args=[], off=0, expect="ok", outs=[(fs["gain_eeg"], pe, "matrix"), (fs["gain_meg"], pm, "matrix")],
                  hcase="PIPE %s %s %s %s %s %s %s" % (fs["geom"], fs["cond"], fs["dip"], fs["elec"], fs["squids"], pe, pm),
                  cls="pipeline", model=fs["name"], suffix=".bin", sym="pipeline through .bin files vs in memory",
                  desc="file pipeline (HM, minverser, DSM, H2EM, H2MM, DS2MM, gain) vs the same calls in memory on %s" % fs["name"])
            ra = os.path.join(od, "ref_gainalt.txt")
            R.add(tool=None, args=[], off=0, expect="ok", outs=[], hcase="GAINALT %s %s %s %s %s" % (fs["hminv"], fs["dsm"], fs["h2mm"], fs["ds2mm"], fs["gain_meg"]),
                  cls="reassoc", model=fs["name"], suffix=".bin", sym="gain re-association", desc="(A*Hinv)*S vs A*(Hinv*S) on %s" % fs["name"])

def gen_tools_cases(R, rng, quick, fsets):
    tools = dict.fromkeys(TOOL_PATH); tools.update({t["name"]: t for t in R.tools})   # a tool the translator could not read is still run
    fs = fsets[0]; od = fs["dir"]
    sfx = lambda: rng.choice(SUFFIXES)
    if "om_forward" in tools and "gain_eeg" in fs:
        src = os.path.join(od, "sources.txt")
        with open(src, "w") as fh:
            for i in range(fs["ndip"]): fh.write(" ".join(repr(round(rng.uniform(-1, 1), 3)) for _ in range(3)) + "\n")
        for s in (".txt", ".bin"):
            out = os.path.join(od, "simulated" + s); ref = os.path.join(od, "ref_simulated" + s)
            R.add(tool="om_forward", args=[fs["gain_eeg"], src, out, "0"], off=0, expect="ok", outs=[(out, ref, "matrix")],
                  hcase="FWD %s %s %s 0" % (fs["gain_eeg"], src, ref), cls="positional", model=fs["name"], suffix=s,
                  sym="om_forward gain sources out 0", desc="om_forward, noise level 0 (%s)" % s)
    if "om_forward" in tools and "gain_eeg" in fs:
        lvl = rng.choice(["0.5", "2", "1e-3"])
        out = os.path.join(od, "simulated_noisy.txt")
        R.add(tool="om_forward", args=[fs["gain_eeg"], os.path.join(od, "sources.txt"), out, lvl], off=0, expect="noisy", outs=[], hcase=None, noisy=(out, os.path.join(od, "simulated.txt"), float(lvl)),
              cls="positional", model=fs["name"], suffix=".txt", sym="om_forward gain sources out " + lvl, desc="om_forward with noise level %s (not reproducible: std::random_device)" % lvl)
    if "om_matrix_convert" in tools:
        vec = os.path.join(od, "vector.txt")
        with open(vec, "w") as fh: fh.write("\n".join(repr(round(rng.uniform(-5, 5), 4)) for _ in range(5)) + "\n")
        srcs = [("vector", vec, "ascii")] + [(k, fs[key], "binary") for k, key in (("sym", "hm"), ("matrix", "dsm"), ("sparse", "h2em")) if key in fs]
        FMT = {".txt": "ascii", ".bin": "binary", ".mat": "matlab"}
        n = 0
        for kind, inp, infmt in srcs:
            # every combination: -if absent/present x -of absent/present, telling and non-telling output suffixes
            combos = [(ifg, ofg, osfx) for ifg in (False, True) for ofg in (None, "ascii", "binary", "matlab") for osfx in (".txt", ".bin", ".mat", ".dat")
                      if not (ofg is None and osfx == ".dat")]
            if quick: combos = rng.sample(combos, 9)
            for ifg, ofg, osfx in combos:
                n += 1
                out = os.path.join(od, "conv%d_%s%s" % (n, kind, osfx)); ref = os.path.join(od, "ref_conv%d_%s%s" % (n, kind, osfx))
                parts = [["-i", inp], ["-o", out]] + ([["-if", infmt]] if ifg else []) + ([["-of", ofg]] if ofg else [])
                rng.shuffle(parts)                                  # the order of typed options is free
                args = [x for pr in parts for x in pr]
                want = dict(inp=inp, in_fmt=infmt if ifg else "auto", out=out, out_fmt=ofg or FMT[osfx])
                outfmt = want["out_fmt"]
                R.add(tool="om_matrix_convert", args=args, off=0, expect="ok", outs=[(out, ref, kind if outfmt == "matlab" else "bytes")], hcase=None, conv=(kind, ref),
                      plan=want, cls="typed", model=fs["name"], suffix=osfx, typed={"-i": inp, "-o": out, "-if": infmt if ifg else "", "-of": ofg or ""},
                      sym="om_matrix_convert -i %s%s -o out%s%s%s" % (kind, os.path.splitext(inp)[1], osfx, " -if " + infmt if ifg else "", (" -of " + ofg) if ofg else ""),
                      desc="om_matrix_convert %s -> %s%s%s" % (kind, osfx, " -if" if ifg else "", (" -of " + ofg) if ofg else ""))
        # round trip through a file whose suffix tells nothing: the input format must come from -if or from the content
        for kind, inp, infmt in srcs[1:]:
            anon = os.path.join(od, "anon_%s.data" % kind); back = os.path.join(od, "back_%s.txt" % kind)
            R.add(tool="om_matrix_convert", args=["-i", inp, "-o", anon, "-of", "binary"], off=0, expect="ok", outs=[(anon, os.path.join(od, "ref_anon_%s.data" % kind), "bytes")], hcase=None,
                  conv=(kind, os.path.join(od, "ref_anon_%s.data" % kind)), plan=dict(inp=inp, in_fmt="auto", out=anon, out_fmt="binary"), cls="typed", model=fs["name"], suffix=".data",
                  typed={"-i": inp, "-o": anon, "-of": "binary"}, sym="om_matrix_convert -i %s -o anon.data -of binary" % kind, desc="om_matrix_convert %s -> anonymous binary" % kind)
            R.add(tool="om_matrix_convert", args=["-if", "binary", "-i", anon, "-o", back], off=0, expect="ok", outs=[(back, os.path.join(od, "ref_back_%s.txt" % kind), "bytes")], hcase=None,
                  conv=(kind, os.path.join(od, "ref_back_%s.txt" % kind)), plan=dict(inp=anon, in_fmt="binary", out=back, out_fmt="ascii"), cls="typed", model=fs["name"], suffix=".txt",
                  typed={"-i": anon, "-o": back, "-if": "binary"}, sym="om_matrix_convert -if binary -i anon.data(%s) -o back.txt" % kind, desc="om_matrix_convert anonymous binary %s -> txt with -if" % kind)
    if "om_check_geom" in tools:
        # every subset of the optional options (-m, -d, -v), each with a good and a bad input so that the individual verdicts
        # differ; the exit status must be that of the conjunction of the library checks
        for f2 in fsets:
            gd = os.path.dirname(f2["srcmesh"]) if f2["name"] != "head1" else f2["dir"]
            badmesh = os.path.join(f2["dir"], "shifted_sources.tri")
            if not os.path.exists(badmesh):
                vs, ts = read_tri(f2["srcmesh"])
                ext = max(abs(c) for v in vs for c in v) or 1.0
                models.write_tri(badmesh, [(v[0] + 0.9 * ext, v[1], v[2]) for v in vs], ts)        # crosses the inner interface
            baddip = os.path.join(os.path.dirname(f2["geom"]), "Head1_outside.dip") if f2["name"] == "head1" else os.path.join(f2["dir"], "outside.dip")
            if f2["name"] != "head1":
                with open(baddip, "w") as fh:
                    fh.write(open(f2["dip"]).readline())
                    fh.write("0 0 %r 0 0 1\n" % (0.5 * (f2["radii"][0] + f2["radii"][1])))             # one dipole in the second layer
            meshes = [None, f2["srcmesh"], badmesh]; dips = [None, f2["dip"], baddip]
            combos = [(m, d, v) for m in meshes for d in dips for v in (False, True)]
            if quick: combos = [c for c in combos if (c[0] and c[1]) or rng.random() < 0.5]
            for m, d, v in combos:
                parts = [["-g", f2["geom"]]] + ([["-m", m]] if m else []) + ([["-d", d]] if d else []) + ([["-v"]] if v else [])
                rng.shuffle(parts)
                args = [x for pr in parts for x in pr]
                tagm = {None: "", f2["srcmesh"]: " -m good", badmesh: " -m crossing"}[m]; tagd = {None: "", f2["dip"]: " -d inside", baddip: " -d outside"}[d]
                R.add(tool="om_check_geom", args=args, off=0, expect="status", hcase="CHECK %s %s %s" % (f2["geom"], m or "-", d or "-"), cls="typed", model=f2["name"], suffix="",
                      typed={"-g": f2["geom"], "-m": m or "", "-d": d or ""},
                      sym="om_check_geom -g geom%s%s%s" % (tagm, tagd, " -v" if v else ""), desc="om_check_geom on %s%s%s%s" % (f2["name"], tagm, tagd, " -v" if v else ""))
    if "om_mesh_convert" in tools:
        mat = os.path.join(od, "transform.txt")
        with open(mat, "w") as fh: fh.write("0 -1 0 0.5\n1 0 0 -0.25\n0 0 1 2\n0 0 0 1\n")
        variants = [([], ".tri"), (["-tx", "0.5", "-ty", "-1.25", "-tz", "2"], ".off"), (["-sx", "2", "-sy", "0.5", "-sz", "-1", "-invert"], ".bnd"),
                    (["-mat", mat], ".tri"), (["-invert"], ".mesh"), (["-tz", "-3", "-sx", "1.5", "-mat", mat, "-invert"], ".off")]
        opts = [["-tx", "0.5"], ["-ty", "-1.25"], ["-tz", "2"], ["-sx", "2"], ["-sy", "0.5"], ["-sz", "-1"], ["-mat", mat], ["-invert"]]
        for _ in range(6 if quick else 40):
            sub = [o for o in opts if rng.random() < 0.5]; rng.shuffle(sub)
            variants.append(([x for o in sub for x in o], rng.choice([".tri", ".off", ".bnd", ".mesh"])))
        for n, (extra, osfx) in enumerate(variants):
            out = os.path.join(od, "mesh_%d%s" % (n, osfx)); ref = os.path.join(od, "ref_mesh_%d%s" % (n, osfx))
            g = lambda name, d: extra[extra.index(name) + 1] if name in extra else d
            args = ["-i", fs["srcmesh"], "-o", out] + extra
            if n % 2: args = extra + ["-o", out, "-i", fs["srcmesh"]]
            R.add(tool="om_mesh_convert", args=args, off=0, expect="ok", outs=[(out, ref, "bytes")],
                  hcase="MESHCONV %s %s %s %s %s %s %s %s %s %s" % (fs["srcmesh"], ref, g("-tx", "0"), g("-ty", "0"), g("-tz", "0"), g("-sx", "1"), g("-sy", "1"), g("-sz", "1"), g("-mat", "-"), "1" if "-invert" in extra else "0"),
                  cls="typed", model=fs["name"], suffix=osfx, typed={"-i": fs["srcmesh"], "-o": out},
                  sym="om_mesh_convert -i src.tri -o out%s %s" % (osfx, " ".join(x if not x.startswith("/") else "mat" for x in extra)), desc="om_mesh_convert %s" % " ".join(e for e in extra if e.startswith("-") and not e[1:2].isdigit()))
    if "om_mesh_concat" in tools:
        other = os.path.join(fs["dir"], "m0.tri")
        for osfx in (".tri", ".off"):
            out = os.path.join(od, "concat" + osfx); ref = os.path.join(od, "ref_concat" + osfx)
            R.add(tool="om_mesh_concat", args=["-i1", fs["srcmesh"], "-i2", other, "-o", out], off=0, expect="ok", outs=[(out, ref, "bytes")],
                  hcase="MESHCAT %s %s %s" % (fs["srcmesh"], other, ref), cls="typed", model=fs["name"], suffix=osfx,
                  typed={"-i1": fs["srcmesh"], "-i2": other, "-o": out}, sym="om_mesh_concat -i1 a.tri -i2 b.tri -o out" + osfx, desc="om_mesh_concat " + osfx)

def gen_inplace_and_failing(R, rng, quick, fsets):
    tools = dict.fromkeys(TOOL_PATH); tools.update({t["name"]: t for t in R.tools})
    fs = fsets[0]; od = os.path.join(fs["dir"], "inplace"); os.makedirs(od, exist_ok=True)
    o = lambda n: os.path.join(od, n)
    def copy_later(src, dst):          # the source is produced by an earlier case of the same run: copied just before the run
        return {"copy": (src, dst)}
    # (b) output == input where the operation is well defined
    if "om_minverser" in tools and "hm" in fs:
        for sfx in (".bin", ".mat"):
            f = o("hm_inplace" + sfx)
            R.add(tool="om_minverser", args=[f, f], off=0, expect="ok", outs=[(f, o("ref_hm_inplace" + sfx), "sym")], hcase="MINV %s %s" % (o("hm_src" + sfx), o("ref_hm_inplace" + sfx)),
                  pre=[("convert", fs["hm"], o("hm_src" + sfx)), ("copy", o("hm_src" + sfx), f)], cls="inplace", model=fs["name"], suffix=sfx,
                  sym="om_minverser hm%s hm%s (in place)" % (sfx, sfx), desc="om_minverser with the same file as input and output (%s)" % sfx)
    if "om_matrix_convert" in tools and "dsm" in fs:
        for kind, key in (("matrix", "dsm"), ("sym", "hm"), ("sparse", "h2em")):
            if key not in fs: continue
            f = o("conv_inplace_%s.bin" % kind)
            R.add(tool="om_matrix_convert", args=["-i", f, "-o", f], off=0, expect="ok", outs=[(f, o("ref_conv_inplace_%s.bin" % kind), "bytes")], hcase=None, conv=(kind, o("ref_conv_inplace_%s.bin" % kind)),
                  conv_in=fs[key], plan=dict(inp=f, in_fmt="auto", out=f, out_fmt="binary"), pre=[("copy", fs[key], f)], cls="inplace", model=fs["name"], suffix=".bin", typed={"-i": f, "-o": f},
                  sym="om_matrix_convert -i %s.bin -o same file" % kind, desc="om_matrix_convert onto its own input (%s)" % kind)
    if "om_mesh_convert" in tools:
        f = o("mesh_inplace.tri")
        R.add(tool="om_mesh_convert", args=["-i", f, "-o", f, "-tx", "0.25", "-sz", "2"], off=0, expect="ok", outs=[(f, o("ref_mesh_inplace.tri"), "bytes")],
              hcase="MESHCONV %s %s 0.25 0 0 1 1 2 - 0" % (fs["srcmesh"], o("ref_mesh_inplace.tri")), pre=[("copy", fs["srcmesh"], f)], cls="inplace", model=fs["name"], suffix=".tri",
              typed={"-i": f, "-o": f}, sym="om_mesh_convert -i m.tri -o m.tri -tx 0.25 -sz 2 (in place)", desc="om_mesh_convert onto its own input")
    # (c) unusable inputs with an output file that already exists: the run must fail and leave the output as it was
    od2 = os.path.join(fs["dir"], "failing"); os.makedirs(od2, exist_ok=True)
    p = lambda n: os.path.join(od2, n)
    garbage = p("garbage.bin")
    with open(garbage, "wb") as fh: fh.write(bytes(rng.randrange(256) for _ in range(300)))
    trunc = p("truncated_hm.bin"); missing = p("does_not_exist_input.bin")
    bad_inputs = [("missing", missing, []), ("garbage", garbage, []), ("truncated", trunc, [("truncate", fs.get("hm", garbage), trunc)]),
                  ("of another kind", fs.get("dsm", garbage), [])]
    n = 0
    for why, bad, pre in bad_inputs:
        n += 1
        def fk(tool, args, sym):
            if tool in tools:
                R.add(tool=tool, args=args, off=0, expect="failkeep", why=why, pre=pre, cls="failing-input", model=fs["name"], suffix="", sym=sym + " (input %s)" % why, cwd=od2,
                      desc="%s with an input that is %s and an output file that already exists" % (tool, why))
        fk("om_minverser", [bad, p("inv_out%d.bin" % n)], "om_minverser bad out")
        if why != "of another kind" or True:
            fk("om_matrix_convert", ["-i", bad, "-o", p("conv_out%d.txt" % n)], "om_matrix_convert -i bad -o out") if why != "of another kind" else None
        fk("om_mesh_convert", ["-i", bad if why != "of another kind" else garbage + ".tri", "-o", p("mesh_out%d.tri" % n)], "om_mesh_convert -i bad -o out")
        fk("om_mesh_concat", ["-i1", fs["srcmesh"], "-i2", bad if why != "of another kind" else garbage + ".tri", "-o", p("cat_out%d.tri" % n)], "om_mesh_concat -i1 good -i2 bad -o out")
        if "gain_eeg" in fs and why != "of another kind": fk("om_forward", [bad, os.path.join(fs["dir"], "sources.txt"), p("fwd_out%d.txt" % n), "0"], "om_forward bad sources out 0")
        if all(k in fs for k in ("dsm", "h2em")): fk("om_gain", ["-EEG", bad, fs["dsm"], fs["h2em"], p("gain_out%d.bin" % n)], "om_gain -EEG bad dsm h2em out")
        fk("om_assemble", ["-HM", bad, fs["cond"], p("hm_out%d.bin" % n)], "om_assemble -HM bad cond out")

def gen_rejects(R, rng, quick, fsets):
    tools = {t["name"]: t for t in R.tools}
    fs = fsets[0]; od = os.path.join(fs["dir"], "rejects"); os.makedirs(od, exist_ok=True)
    def rej(tool, args, sym, why, expect="reject"):
        if tool in tools:
            R.add(tool=tool, args=args, off=0, expect=expect, cls="reject:" + why, model=fs["name"], suffix="", sym=sym, cwd=od, desc="%s (%s)" % (sym, why))
    o = lambda n: os.path.join(od, n)
    rej("om_assemble", [], "om_assemble", "no arguments")
    rej("om_assemble", [fs["geom"], fs["cond"], o("x.bin")], "om_assemble geom cond out", "no option")
    rej("om_assemble", ["-FOO", fs["geom"], fs["cond"], o("x.bin")], "om_assemble -FOO geom cond out", "unknown option")
    rej("om_assemble", ["-HM", fs["geom"], fs["cond"], o("a1.bin"), "-hm", fs["geom"], fs["cond"], o("a2.bin")], "om_assemble -HM geom cond out -hm geom cond out2", "same option by two aliases")
    rej("om_assemble", ["-DSM", fs["geom"], fs["cond"], fs["dip"], "-" + os.path.basename(o("neg.bin"))], "om_assemble -DSM geom cond dip -out", "a parameter starting with '-' ends the list")
    for tname, doc in DOC.items():
        t = tools.get(tname)
        if not t: continue
        for b in t["blocks"]:
            bname = b["aliases"][0]
            if bname not in doc: continue
            if quick and rng.random() < 0.5: continue
            roles = [r for r in doc[bname]["roles"] if not r.startswith("?")]
            drop = rng.randint(1, len(roles) if tname == "om_assemble" else min(len(roles), 2))
            args = [rng.choice(b["aliases"])]
            for r in roles[:len(roles) - drop]:
                rr = r.lstrip("=")
                args.append(o("never" + ".bin") if rr.startswith("out") else fs.get(rr.lstrip("="), "x"))
            while tname == "om_gain" and len(args) < 4: args.append(fs["geom"])      # pass the argc<5 gate: the option check must reject
            if tname == "om_gain" and len(args) - 1 >= len(roles): continue
            rej(tname, args, "%s %s with %d of %d mandatory parameters" % (tname, bname, len(args) - 1, len(roles)), "incomplete")
    # truncated parameter lists FOLLOWED by another flag: the parameters of an option end at the next '-' argument, so the
    # line is incomplete whatever is left on it (a flag that combines with every option, an unknown flag, a second option)
    for tname, doc in DOC.items():
        t = tools.get(tname)
        if not t: continue
        flags = [d["name"] for d in t.get("decls", []) if d["kind"] == "bool"]
        for b in t["blocks"]:
            bname = b["aliases"][0]
            if bname not in doc: continue
            roles = [r for r in doc[bname]["roles"] if not r.startswith("?")]
            others = [x["aliases"][0] for x in t["blocks"] if x is not b]
            tails = [[f] for f in flags] + [["-verbose"], [rng.choice(others), fs["geom"], fs["cond"], o("second.bin")]]
            if quick: tails = ([[f] for f in flags] or [["-verbose"]]) + [rng.choice(tails)]
            for tail in tails:
                drop = rng.randint(1, min(2, len(roles)))
                args = [rng.choice(b["aliases"])]
                for r in roles[:len(roles) - drop]:
                    rr = r.lstrip("=")
                    args.append(o("never2.bin") if rr.startswith("out") else str(fs.get(rr, "x")))
                args += tail
                while tname == "om_gain" and len(args) < 4: args.append(fs["geom"])
                rej(tname, args, "%s %s with %d of %d mandatory parameters followed by %s" % (tname, bname, len(roles) - drop, len(roles), tail[0]), "incomplete, then a flag")
    rej("om_gain", ["-EEG", fs.get("hminv", "x")], "om_gain -EEG hminv", "fewer than 4 arguments")
    rej("om_gain", ["-XYZ", "a", "b", "c", "d"], "om_gain -XYZ a b c d", "unknown option")
    rej("om_gain", [], "om_gain", "no arguments")
    rej("om_minverser", [], "om_minverser", "no arguments")
    rej("om_minverser", [fs.get("hm", "x")], "om_minverser hm", "missing output name")
    rej("om_forward", [fs.get("gain_eeg", "x"), "src.txt", o("sim.txt")], "om_forward gain src out", "missing noise level")
    rej("om_forward", [], "om_forward", "no arguments")
    rej("om_matrix_convert", [], "om_matrix_convert", "no arguments")
    rej("om_matrix_convert", ["-i", fs.get("hm", "x")], "om_matrix_convert -i hm", "missing -o")
    rej("om_matrix_convert", ["-o", o("y.txt")], "om_matrix_convert -o out", "missing -i")
    rej("om_matrix_convert", ["-i", fs.get("hm", "x"), "-o"], "om_matrix_convert -i hm -o", "-o is the last token")
    rej("om_check_geom", [], "om_check_geom", "no arguments")
    rej("om_check_geom", ["-m", fs["srcmesh"]], "om_check_geom -m mesh", "missing -g")
    rej("om_mesh_convert", ["-i", fs["srcmesh"]], "om_mesh_convert -i mesh", "missing -o")
    rej("om_mesh_convert", ["-o", o("m.tri"), "-tx", "1"], "om_mesh_convert -o out -tx 1", "missing -i")
    rej("om_mesh_concat", ["-i1", fs["srcmesh"], "-o", o("c.tri")], "om_mesh_concat -i1 a -o out", "missing -i2")
    rej("om_mesh_concat", ["foo"], "om_mesh_concat foo", "no option")
    rej("om_mesh_concat", [], "om_mesh_concat", "no arguments")
    for t in tools:
        rej(t, [rng.choice(["-h", "--help"])], "%s -h" % t, "help", expect="help")
    # former known findings (pinned tree), repaired: now plain rejected lines that must write nothing
    rej("om_assemble", ["-HM", fs["geom"], fs["cond"], o("conflict1.bin"), "-DSM", fs["geom"], fs["cond"], fs["dip"], o("conflict2.bin")],
        "om_assemble -HM geom cond out1 -DSM geom cond dip out2", "two mutually exclusive options")
    rej("om_assemble", ["-DSM", fs["geom"], fs["cond"], fs["dip"], o("conflict3.bin"), "-HM", fs["geom"], fs["cond"], o("conflict4.bin")],
        "om_assemble -DSM geom cond dip out1 -HM geom cond out2", "two mutually exclusive options, other order")
    rej("om_assemble", ["-HM", fs["geom"], fs["cond"], o("twice1.bin"), "-HM", fs["geom"], fs["cond"], o("twice2.bin")],
        "om_assemble -HM geom cond out1 -HM geom cond out2", "same option twice")
    rej("om_assemble", ["-CM", fs["geom"], fs["cond"], fs["elec"], fs["domain"], o("cmneg.bin"), "0.1", "-0.2"],
        "om_assemble -CM geom cond elec domain out 0.1 -0.2", "negative parameter")
    rej("om_assemble", ["-HM", fs["geom"], fs["cond"], o("stray.bin"), "-verbose"], "om_assemble -HM geom cond out -verbose", "stray second option")
    rej("om_gain", ["-EEG", fs.get("hminv", "x"), fs.get("dsm", "x"), fs.get("h2em", "x"), o("g1.bin"), "-MEG", fs.get("hminv", "x"), fs.get("dsm", "x"), fs.get("h2mm", "x"), fs.get("ds2mm", "x"), o("g2.bin")],
        "om_gain -EEG hminv dsm h2em out1 -MEG hminv dsm h2mm ds2mm out2", "two mutually exclusive options")
    rej("om_check_geom", ["-g", fs["geom"], "-q"], "om_check_geom -g geom -q", "unknown option")
    rej("om_check_geom", ["-g", fs["geom"], "extra"], "om_check_geom -g geom extra", "stray argument")
    rej("om_matrix_convert", ["-i", fs.get("dsm", "x"), "-o", o("fo.txt"), "-fo", "ascii"], "om_matrix_convert -i dsm.bin -o out.txt -fo ascii", "misspelt option")
    rej("om_matrix_convert", ["-i", fs.get("dsm", "x"), "-o", "-of", "ascii"], "om_matrix_convert -i dsm.bin -o -of ascii", "value of -o missing")
    rej("om_matrix_convert", ["-i", fs.get("dsm", "x"), "-o", o("dup.txt"), "-i", fs.get("hm", "x")], "om_matrix_convert -i a -o out -i b", "option given twice")
    rej("om_mesh_convert", ["-i", fs["srcmesh"], "-o", o("mc.tri"), "-scale", "2"], "om_mesh_convert -i mesh -o out -scale 2", "unknown option")
    rej("om_mesh_concat", ["-i1", fs["srcmesh"], "-i2", fs["srcmesh"], "-o", o("cc.tri"), "-i3", fs["srcmesh"]], "om_mesh_concat -i1 a -i2 b -o out -i3 c", "unknown option")

def gen_probes(R, rng, quick):
    """missing-file probes: replace one input parameter by a file that does not exist; if the model says the position is
    read, the executable must fail and write nothing."""
    cand = [c for c in R.cases if c.get("cls") == "option" and "_canon" not in c["outs"][0][0]]
    rng.shuffle(cand)
    for c in cand[:(14 if quick else len(cand))]:
        inputs = [(r, p) for r, p in c["rolepos"].items() if not r.startswith("out") and r not in ("domain", "iface")]
        if not inputs: continue
        r, p = rng.choice(sorted(inputs))
        args = list(c["args"]); args[c["off"] + p] = os.path.join(os.path.dirname(c["outs"][0][0]), "does_not_exist_%s.bin" % r)
        outs = []
        for k, (po, pr, kind) in enumerate(c["outs"]):
            q = po + ".probe" + os.path.splitext(po)[1]; outs.append(q)
            args[c["off"] + c["rolepos"]["out" if k == 0 else "out2"]] = q
        R.add(tool=c["tool"], args=args, off=c["off"], expect="probe", cls="probe", model=c["model"], suffix=c["suffix"], probe=(r, p), probe_outs=outs,
              block=c["block"], sym="%s %s with a missing %s file at parameter %d" % (c["tool"], c["alias"], r, p), desc="probe: %s, %s missing" % (c["desc"], r))

def symbolic(c):
    if c.get("sym"): return c["sym"]
    inv = {v: k for k, v in c.get("rolepos", {}).items()}
    parts = []
    for i, a in enumerate(c["args"]):
        j = i - c["off"]
        parts.append(inv.get(j, a if a.startswith("-") or len(a) < 12 else os.path.basename(a)) if j > 0 else a)
    return "%s %s" % (c["tool"], " ".join(parts))

def guard_holds(g, n):
    for k, cst in g:
        if k == "eq" and n != cst: return False
        if k == "ne" and n == cst: return False
        if k == "ge" and n < cst: return False
        if k == "lt" and n >= cst: return False
    return True

def search_offenders(ck, R, fsets, offenders):
    """T4 says (tool, block, k) can be read with fewer than k parameters: build that command line and run it."""
    fs = fsets[0]; od = os.path.join(fs["dir"], "search"); os.makedirs(od, exist_ok=True)
    found = 0
    for ti, bi, k in offenders:
        t = R.tools[ti]
        if bi < 0: continue
        b = t["blocks"][bi]
        nm = len(b["parms"]) - (sum(1 for p in b["parms"] if p.startswith("[")) if b["multi"] else 0)
        for u in b["uses"]:
            if u["k"] != k: continue
            ns = [n for n in range(nm, k) if guard_holds([tuple(a) for a in u["guard"]], n)]
            if not ns: continue
            n = ns[0]
            doc = DOC.get(t["name"], {}).get(b["aliases"][0])
            args = [b["aliases"][0]]
            roles = [r.lstrip("?=") for r in (doc["roles"] if doc else [])]
            for j in range(n):
                r = roles[j] if j < len(roles) else "x"
                args.append(os.path.join(od, "search_out%d.bin" % j) if r.startswith("out") else str(fs.get(r, "x%d" % j)))
            before = listing(od)
            rc, txt = run_exe(R.bdir, t["name"], args, od)
            after = listing(od)
            sym = "%s %s with %d parameters: opt_parms[%d] read under guard %s (sink %s)" % (t["name"], b["aliases"][0], n, k, u["guard"], u["sink"])
            what = "crashed (status %d)" % rc if rc < 0 or rc >= 128 else "exit status %d" % rc
            ck.violation("out-of-range read: " + sym, "%s reads a parameter it was not given: %s; the executable %s, files written: %s" % (t["name"], sym, what, sorted(set(after) - set(before))),
                         dict(kind="search", tool=t["name"], args=args, rc=rc, output=txt[-400:], replay_cmd="./check C20 --replay <this file>"), found_input=True)
            found += 1
            break
    return found

# ------------------------------------------------------------------------------------------------ documented aliases
def gen_documented(R, rng, fsets):
    """every alias the help text documents, when it is not (any more) in the parser table: run it, expecting acceptance"""
    for t in R.tools:
        doc = DOC.get(t["name"])
        if not doc: continue
        known = {a for b in t["blocks"] for a in b["aliases"]}
        for grp in t.get("documented", []):
            missing = [a for a in grp if a not in known]
            owner = [b for b in t["blocks"] if any(a in b["aliases"] for a in grp)]
            if not missing or not owner or owner[0]["aliases"][0] not in doc: continue
            for a in missing:
                fs = fsets[0]
                c = build_option_case(R, t, owner[0]["aliases"][0], a, fs, fs["dir"], ".bin", False, tag="_documented")
                if c: c["cls"] = "documented-alias"

# ------------------------------------------------------------------------------------------------ evaluation
def via_library(c, po, kind):
    """MATLAB (HDF5) files carry creation dates: they are compared by loading both with the library"""
    return kind != "bytes" and (po.endswith(".mat") or (c.get("plan") or {}).get("out_fmt") == "matlab")

def evaluate(ck, R, c, pred, rc, txt, before, after, hres):
    """returns list of (signature, description) problems for one case"""
    probs = []
    sym = symbolic(c)
    written = sorted(k for k in after if k not in before or after[k] != before[k])
    crashed = rc < 0 or rc >= 128
    def P(kind, msg):
        probs.append(("%s: %s" % (sym, kind), "%s -- %s [%s]; exit status %s%s" % (
            sym, msg, c["desc"], rc, (", output: " + txt[-200:].replace("\n", " | ")) if txt else "")))
    exp = c["expect"]
    if c["tool"] is not None:
        if pred is None:
            pred = dict(final="run" if exp in ("ok", "status", "noisy", "probe") else "exit", code=rc if exp != "ok" else 0, execs=[], vals=None, plan=c.get("plan"), absent=True)
        # ---- correspondence model <-> executable on the exit class
        if pred.get("absent"): pass
        elif pred["final"] == "exit":
            if rc != (pred["code"] & 0xff):
                P("exit status differs from the model", "the model of commandline.h predicts exit status %d" % pred["code"])
            if not pred["execs"] and written:
                P("rejected line writes files", "rejected by the argument handling (status %d) but files appeared: %s" % (pred["code"], written))
        elif pred["final"] == "crash":
            P("reads outside argv", "the generated table reads opt_parms/argv beyond the arguments given (reads %s, argc %d); the executable %s" % (
                [e["reads"] for e in pred["execs"]], len(c["args"]) + 1, "crashed" if crashed else "ended with status %d" % rc))
            return probs
    # ---- documented expectation
    if exp == "ok":
        if c["tool"] is not None:
            if pred["final"] != "run":
                P("documented line rejected", "a documented command line is not accepted (model: %s %s)" % (pred["final"], pred["code"]))
            elif c.get("cls") in ("option", "documented-alias"):
                ex = pred["execs"]
                ipos = c["off"] + 1          # position of the option name in argv (argv[0] is the program)
                want = {ipos + j for j in range(1, c["npar"] + 1)}
                if len(ex) != 1 or ex[0]["block"] != c["block"] or ex[0]["pos"] != ipos:
                    P("wrong option block", "model runs blocks %s, documented block %s at %d" % ([(e["block"], e["pos"]) for e in ex], c["block"], ipos))
                else:
                    got = {p for k, p in ex[0]["reads"] if k >= 1}
                    if got != want:
                        P("parameters read from other positions than documented", "positions read %s, parameters given at %s (reads (k,pos): %s)" % (sorted(got), sorted(want), ex[0]["reads"]))
            lib_fails = hres is not None and not hres.startswith("0")
            if rc != 0 and lib_fails and pred["final"] == "run":
                c["consistent_failure"] = hres[:80]      # the library call itself fails on these inputs, and so does the tool: not a C20 matter
                return probs
            if rc != 0:
                P("documented line fails", "expected success" + (" (crash)" if crashed else ""))
        if hres is not None and not hres.startswith("0"):
            P("library call fails", "the corresponding library call failed in the harness: %s" % hres)
        if rc == 0 and (hres is None or hres.startswith("0")):
            for po, pr, kind in c["outs"]:
                if via_library(c, po, kind):
                    continue                  # compared through the library afterwards (CMP)
                ok, why = same_file(po, pr)
                if not ok:
                    P("output differs from the library result", "file %s differs from the result of `%s`: %s" % (os.path.basename(po), (c["hcase"] or "").split(" ")[0], why))
    elif exp in ("reject", "help"):
        if exp == "reject" and not (pred["final"] == "exit" and pred["code"] != 0):
            P("invalid line not rejected by the model", "model: %s %s" % (pred["final"], pred["code"]))
        if exp == "reject" and rc == 0:
            P("invalid line ends with status 0", "an invalid or incomplete command line must end with a non-zero status")
        if exp == "reject" and crashed:
            P("invalid line crashes", "an invalid or incomplete command line must end with a diagnostic, not a crash")
        if exp == "help" and not (rc == 0 and pred["final"] == "exit" and pred["code"] == 0):
            P("help does not return 0", "model: %s %s" % (pred["final"], pred["code"]))
        if written:
            P("rejected line writes files", "files appeared: %s" % written)
    elif exp == "status":
        want = hres.split()[1] if hres and hres.startswith("0 ") else None
        if want is None: P("library call fails", "harness: %s" % hres)
        elif str(rc) != want: P("status differs from the library result", "library checks give status %s" % want)
        if pred["final"] != "run": P("documented line rejected", "model: %s %s" % (pred["final"], pred["code"]))
    elif exp == "probe":
        r, p = c["probe"]
        reads = {pp for e in pred["execs"] for k, pp in e["reads"]}
        if pred["final"] != "run" or (c["off"] + 1 + p) not in reads:
            P("probe position not read in the model", "parameter %d (%s) is not read according to the generated table" % (p, r))
        if rc == 0:
            P("missing input file ignored", "the %s file (parameter %d) does not exist but the tool succeeded: it is read from another position" % (r, p))
        bad = [os.path.basename(q) for q in c["probe_outs"] if not os.path.exists(q) or open(q, "rb").read() != SENTINEL]
        if bad: P("output touched although an input is missing", "pre-existing outputs changed: %s" % bad)
    if c.get("want_variant") is not None and pred is not None and not pred.get("absent") and pred["final"] == "run" and pred["execs"]:
        if pred["execs"][0]["variant"] != c["want_variant"]:
            P("alias selects another variant than documented", "according to the generated table %s %s the adaptive integration; documented: %s" % (
                c["alias"], "switches off" if pred["execs"][0]["variant"] else "keeps", "non adaptive" if c["want_variant"] else "adaptive (library default)"))
    if c.get("loads_geometry") and pred is not None and not pred.get("absent") and pred["final"] == "run" and pred.get("orderings") is not None:
        if not pred["orderings"] or any(o != (1 if c.get("old") else 0) for o in pred["orderings"]):
            P("-old-ordering does not reach the geometry", "OLD_ORDERING handed to the Geometry constructors of the block according to the generated table: %s, flag on the command line: %s" % (pred["orderings"], bool(c.get("old"))))
    if c.get("plan") and pred is not None and not pred.get("absent"):
        if pred.get("plan") != c["plan"]:
            P("conversion plan differs from the documentation", "model (generated from the source): %s, documented: %s" % (pred.get("plan"), c["plan"]))
    if exp == "noisy":
        out, clean, lvl = c["noisy"]
        if rc != 0 or not os.path.exists(out): P("documented line fails", "om_forward with a positive noise level")
        elif os.path.exists(clean):
            x, y = numbers(out), numbers(clean)
            if len(x) != len(y) or not all(isinstance(u, float) for u in x): P("noisy output has another shape", "%d vs %d values" % (len(x), len(y)))
            else:
                d = [u - v for u, v in zip(x, y)]; rms = (sum(e * e for e in d) / max(1, len(d))) ** 0.5
                if not (0.15 * lvl <= rms <= 4.0 * lvl): P("noise level not honoured", "rms difference to the noiseless data %.3g for level %g (%d values)" % (rms, lvl, len(d)))
    if c.get("damaged"):
        P("rejected or failed run modifies existing files", "files named on the command line changed although the run was rejected / failed: %s" % c["damaged"])
    if exp == "failkeep":
        if rc == 0: P("failing input accepted", "the input is %s but the tool reports success" % c.get("why", "unusable"))
        if written: P("failed run writes files", "files appeared: %s" % written)
    # ---- typed options: value the model extracts = value documented
    if c.get("typed") and pred is not None and pred.get("vals") is not None:
        t = R.tools[R.tidx[c["tool"]]]
        for name, val in c["typed"].items():
            idx = [k for k, d in enumerate(t["decls"]) if d["name"] == name]
            if not idx: P("typed option unknown", "option %s is not declared by the tool any more" % name); continue
            got = pred["vals"][idx[0]]["value"]
            if got != val: P("typed option value", "model reads %s = %r, given %r" % (name, got, val))
    return probs

def main(replay=None):
    rp = None
    if replay:
        rp = json.load(open(replay))
        os.environ["VERIF_SEED"] = str(rp.get("seed", 1)); os.environ["VERIF_TIER"] = rp.get("tier", "quick")
    ck = core.Check(PROP, "proof")
    quick = ck.tier != "thorough"
    bdir, hb = ck.prepare("Props/Properties_C20.v", "h_c20.cpp")
    if bdir is None or hb is None:
        return ck.finish()
    ck.log("prepared at %.1fs" % (time.time() - ck.t0))
    tcli = load_translator()
    tools, problems = tcli.parse_all(REPO)
    # a tool the translator can not read (reported above as a translator problem) is still run differentially, on the
    # command lines of the last table that could be read (translators/cli_snapshot.json); it gets no model prediction
    snap_used = []
    parsed_names = [t["name"] for t in tools]
    try: snap = json.load(open(os.path.join(core.VERIF, "translators", "cli_snapshot.json")))
    except (OSError, ValueError): snap = []
    gen_tools_list = list(tools)
    for t in snap:
        if t["name"] not in parsed_names:
            t["unparsed"] = True; gen_tools_list.append(t); snap_used.append(t["name"])
    R = Runner(ck, bdir, hb, gen_tools_list)
    R.tidx = {n: k for k, n in enumerate(parsed_names)}
    fill_documented_roles(ck, gen_tools_list)
    rng = ck.rng; wd = ck.workdir
    fsets = [make_generated(rng, wd, "m3", 3), make_generated(rng, wd, "m0", 2, dense=True)]
    h1 = make_head1(rng, wd)
    if h1: fsets.append(h1)
    # ---- table conditions (what the theorems are about), recomputed by the extracted model
    off = core.run_model(["c20 -1"])[0].split()
    offenders = [(int(off[i]), int(off[i + 1]), int(off[i + 2])) for i in range(0, len(off) - 2, 3)] if off and off[0] not in ("-1", "-2") else []
    nfound = 0
    if offenders:
        nfound = search_offenders(ck, R, fsets, [o for o in offenders if o[1] >= 0])
    # ---- cases
    gen_cases(R, rng, quick, wd, fsets)
    gen_pipeline(R, rng, fsets)
    gen_tools_cases(R, rng, quick, fsets)
    gen_documented(R, rng, fsets)
    gen_inplace_and_failing(R, rng, quick, fsets)
    gen_rejects(R, rng, quick, fsets)
    gen_probes(R, rng, quick)
    if rp and rp.get("case_sym"):
        want = rp["case_sym"]
        keep = [c for c in R.cases if "_canon" in "".join(o[0] for o in c["outs"]) or symbolic(c) == want]
        report_only = want
    else:
        keep = R.cases; report_only = None
    # ---- model predictions
    lines = [enc(R.tidx[c["tool"]], [c["tool"]] + c["args"]) for c in keep if c["tool"] is not None and c["tool"] in R.tidx]
    mo = core.run_model(lines) if lines else []
    preds = {}; k = 0
    for c in keep:
        if c["tool"] is not None and c["tool"] in R.tidx:
            preds[c["id"]] = parse_model(mo[k]); k += 1
    # om_matrix_convert: the library call is made with the file names and formats the MODEL predicts (no suffix logic in the harness)
    for c in keep:
        if c.get("conv"):
            pl = (preds.get(c["id"]) or {}).get("plan") or c["plan"]; kind, ref = c["conv"]     # documented plan when the tool could not be translated
            if pl["inp"] and pl["out_fmt"]:
                c["hcase"] = "MCONV %s %s %s %s %s" % (kind, c.get("conv_in") or pl["inp"], ref, "-" if pl["in_fmt"] == "auto" else pl["in_fmt"], pl["out_fmt"])
    # ---- executables (in order: later cases read files written by earlier ones)
    runs = {}
    for c in keep:
        if c["tool"] is None: continue
        cwd = c.get("cwd") or (os.path.dirname(c["outs"][0][0]) if c["outs"] else wd)
        for act in c.get("pre", []):
            try:
                if act[0] == "copy": shutil.copy(act[1], act[2])
                elif act[0] == "truncate":
                    data = open(act[1], "rb").read(); open(act[2], "wb").write(data[:max(40, len(data) // 2)])
                elif act[0] == "convert":
                    if act[2].endswith(os.path.splitext(act[1])[1]): shutil.copy(act[1], act[2])
                    else: run_exe(bdir, "om_matrix_convert", ["-i", act[1], "-o", act[2]], wd)
            except OSError: pass
        snap = protect(c, wd) if c["expect"] in ("reject", "help", "probe", "failkeep") else {}
        before = listing(cwd)
        rc, txt = run_exe(bdir, c["tool"], c["args"], cwd)
        runs[c["id"]] = (rc, txt, before, listing(cwd))
        c["damaged"] = damaged(snap)
    ck.log("%d executables run at %.1fs" % (len(runs), time.time() - ck.t0))
    # ---- library calls (harness), then .mat comparisons through the library
    hc = [c for c in keep if c["hcase"]]
    rch, hout, herr = core.run_harness(hb, [c["hcase"] for c in hc], wd, timeout=900) if hc else (0, [], "")
    hres = {c["id"]: (hout[k] if k < len(hout) else "CRASH") for k, c in enumerate(hc)}
    cmpc = []
    for c in keep:
        if c["expect"] == "ok" and (c["tool"] is None or runs[c["id"]][0] == 0):
            for po, pr, kind in c["outs"]:
                if via_library(c, po, kind) and os.path.exists(po) and os.path.exists(pr):
                    cmpc.append((c, "CMP %s %s %s matlab" % (kind, po, pr), po))
    rc2, cout, _ = core.run_harness(hb, [x[1] for x in cmpc], wd, tag="cmp") if cmpc else (0, [], "")
    ck.log("harness done at %.1fs" % (time.time() - ck.t0))
    # ---- decide
    nviol = 0; dist = {}; aliases_seen = set(); samples = []; reassoc = []; nontriv = set(); nonvac = []
    for c in keep:
        dist[c["cls"].split(":")[0]] = dist.get(c["cls"].split(":")[0], 0) + 1
        if c.get("alias"): aliases_seen.add((c["tool"], c["alias"]))
        sym = symbolic(c)
        nontriv.add(sym + "|" + c.get("model", "") + "|" + c.get("suffix", ""))
        if report_only and sym != report_only: continue
        pred = preds.get(c["id"]); rc, txt, before, after = runs.get(c["id"], (0, "", {}, {}))
        h = hres.get(c["id"])
        if c["cls"] == "nonvacuous":
            try: dv = float(h.split()[1])
            except (ValueError, IndexError, AttributeError): dv = -1.0
            nonvac.append("%s %s" % (c["model"], h))
            if not dv > 1e-3:
                ck.violation("vacuous DSM/DSMNA comparison on " + c["model"], "adaptive and non-adaptive DipSourceMat differ by %s only on the dipoles of %s: the alias families can not be told apart" % (h, c["model"]),
                             dict(kind="generator", hcase=c["hcase"]), found_input=False)
            continue
        if c["cls"] == "reassoc":
            reassoc.append(h)
            try:
                if float(h.split()[1]) > 1e-6:
                    ck.violation("gain re-association: " + c["model"], "A*(Hinv*S) and the tool's (A*Hinv)*S differ by %s relative" % h.split()[1], dict(kind="reassoc", hcase=c["hcase"]), found_input=True)
            except (ValueError, IndexError, AttributeError):
                ck.violation("gain re-association harness", "harness: %s" % h, dict(kind="reassoc", hcase=c["hcase"]), found_input=False)
            continue
        if c["expect"].startswith("witness"):
            wrote = bool(c.get("wrote")) and os.path.exists(c["wrote"])
            if c["expect"] == "witness-conflict":
                ok_model = bool(pred) and pred["final"] == "exit" and pred["code"] == 1 and len(pred["execs"]) == 1
                if ok_model and rc == 1 and wrote:
                    ck.violation("om_assemble -HM geom cond out1 -DSM geom cond dip out2: exit 1 after writing out1",
                                 "two mutually exclusive options: the first block has run and written its output before the second one is rejected", dict(kind="witness", args=c["args"]))
                elif ok_model:
                    ck.violation("witness conflicting options does not reproduce", "c20_rejected_runs_nothing_refuted: model %s, executable status %s, out1 written: %s" % (pred, rc, wrote),
                                 dict(kind="witness", args=c["args"], case_sym=sym), found_input=False)
                elif rc != 1 or wrote:
                    ck.violation(sym + ": conflicting options", "status %s, first output written: %s, model: %s" % (rc, wrote, pred), dict(kind="witness", args=c["args"], case_sym=sym), found_input=True)
            elif c["expect"] == "witness-stray":
                if pred and pred["final"] == "run" and rc == 0:
                    ck.violation("om_check_geom -g geom -q: unknown option ignored, exit 0", "typed-option tools never detect unknown options", dict(kind="witness", args=c["args"]))
                elif pred and pred["final"] == "run":
                    ck.violation("witness stray option does not reproduce", "model accepts, executable status %s" % rc, dict(kind="witness", args=c["args"], case_sym=sym), found_input=False)
            elif c["expect"] == "witness-dashvalue":
                v = pred["vals"][1]["value"] if pred else None
                if v == "-of" and rc == 0 and wrote:
                    ck.violation("om_matrix_convert -i dsm.bin -o -of ascii: exit 0, writes a file named -of", "the value of -o is missing; the next option name is used as the output file name", dict(kind="witness", args=c["args"]))
                elif v == "-of":
                    ck.violation("witness dash value does not reproduce", "model value of -o: %r, executable status %s, file written: %s" % (v, rc, wrote), dict(kind="witness", args=c["args"], case_sym=sym), found_input=False)
            continue
        for sig, desc in evaluate(ck, R, c, pred, rc, txt, before, after, h):
            nviol += 1
            ck.violation(sig, desc, dict(kind="case", case_sym=sym, tool=c["tool"], args=c["args"], expect=c["expect"], hcase=c["hcase"], model=pred,
                                         status=rc, replay_cmd="./check C20 --replay <this file>"), found_input=True)
        if len(samples) < 4 and c["cls"] in ("option", "typed") and c["id"] % 17 == 3: samples.append(sym)
    for (c, line, po), res in zip(cmpc, cout):
        if report_only and symbolic(c) != report_only: continue
        if res.strip() != "0 1":
            ck.violation("%s: output differs from the library result" % symbolic(c), "%s -- %s holds other values than the result of the library call (%s)" % (symbolic(c), os.path.basename(po), res),
                         dict(kind="case", case_sym=symbolic(c), tool=c["tool"], args=c["args"], hcase=c["hcase"]), found_input=True)
    if offenders and not nfound and not nviol:
        ck.violation("table", "the generated table violates a condition of the theorems (tool, block, k): %s but no failing command line was found" % offenders[:6],
                     dict(kind="table", offenders=offenders), found_input=False)
    cg = {}
    for c in keep:
        if c["tool"] == "om_check_geom" and c["expect"] == "status":
            k = "%s -> %s" % (symbolic(c).replace(" -v", ""), runs[c["id"]][0]); cg[k] = cg.get(k, 0) + 1
    oldc = sum(1 for c in keep if c.get("old") and c["expect"] == "ok" and runs.get(c["id"], (1,))[0] == 0)
    all_aliases = {(t["name"], a) for t in tools for b in t["blocks"] for a in b["aliases"]}
    ck.drop_proof_violation_if(any(v[3] for v in ck.violations))
    nrej = sum(v for k, v in dist.items() if k in ("reject", "probe", "witness"))
    ck.cov.update(evaluations=len(keep), distinct_nontrivial=len(nontriv),
                  rule="command lines built from the documented parameter order for every option block and alias of the generated table "
                       "(each alias at least once, optional arguments with/without, suffix in .bin/.txt/.mat, 2 generated nested models + data/Head1), "
                       "typed-option tools in both option orders, rejected lines (incomplete, unknown, conflicting, missing values, help), missing-file probes; "
                       "distinct = distinct (symbolic command line, model, suffix)",
                  samples=samples, op_distribution=dist, error_path_cases=nrej, error_path_fraction=round(nrej / max(1, len(keep)), 3),
                  aliases_in_table=len(all_aliases), aliases_exercised=len(aliases_seen & all_aliases),
                  traces_validated_against_impl=len(runs), harness_library_calls=len(hc), mat_comparisons=len(cmpc),
                  reassociation_relative_difference=reassoc, adaptive_vs_nonadaptive_dsm=nonvac, skipped_cases=R.skipped[:20], tools_from_snapshot=snap_used, check_geom_verdicts=cg, old_ordering_cases_compared=oldc,
                  library_call_fails_like_the_tool=sorted({"%s: %s" % (symbolic(c), c["consistent_failure"]) for c in keep if c.get("consistent_failure")}), table_offenders=offenders, translator_problems=problems)
    ck.cov["trusted_base"] += ["translator translators/t_cli.py (restricted C++ shapes; anything else is a reported problem)",
                               "hand-written Gallina model of commandline.h (coq/Geom/Cli.v) tied by running the executables built from the working tree on every generated command line",
                               "documented parameter order / library call per option: hand-written table in checks/c20.py (from the tools' help texts)",
                               "C++ harness harness/h_c20.cpp linked against the same build; extraction ExtrOcamlBasic only"]
    ck.assumptions += ["argv[argc] is a null pointer and reading it (or beyond) is undefined behaviour: modelled as FCrash",
                       "std::istringstream >> std::string extracts the first whitespace-delimited word (libstdc++); numeric typed options are parsed by the C++ side only",
                       "library calls inside the option blocks (exit(1) on intersecting meshes, dipole file format) are not part of the argument model",
                       "om_forward is compared at noise level 0 only (a positive level draws from std::random_device)"]
    return ck.finish()
