"""C09 - sensors attach to the nearest point of the right surface; weights sum to one.

Tie: the extracted rational instance of the Gallina model (coq/Geom/{Danielsson,SensorsModel}.v) against
harness/h_c09.cpp built on the working tree.  Inputs are dyadic rationals of small magnitude; every + - *
of the C++ code is then exact in double, only the divisions of dpc round.  So: decisions (clamped pattern,
`inside`, chosen triangle / mesh / interface) are compared exactly, the barycentric weights and distances are
compared as rationals against the doubles with a 1e-12 tolerance."""
import os, sys, json, math, shutil
from fractions import Fraction as Fr
import core, ombuild, gen, models

PROP = "C09"
TOL = 1e-12

# ------------------------------------------------------------------ helpers
def Q(n, d): return Fr(int(n), int(d))

def parse_tri_model(line):
    w = [int(x) for x in line.split()]
    if w[0] != 0: return dict(st=w[0])
    return dict(st=0, ins=w[1], al=[Q(w[2], w[3]), Q(w[4], w[5]), Q(w[6], w[7])], d2=Q(w[8], w[9]))

def parse_tri_impl(line):
    z, f = core.fparse(line)
    if z is None: return dict(st="CRASH")
    if z[0] != 0: return dict(st=z[0])
    return dict(st=0, ins=z[1], al=f[0:3], d=f[3])

def fclose(q, x, tol=TOL):
    return abs(float(q) - x) <= tol * max(1.0, abs(float(q)))

# exact closest point by Voronoi-region classification (Ericson), on Fractions: the reference of the search
def sub(a, b): return (a[0] - b[0], a[1] - b[1], a[2] - b[2])
def dot(a, b): return a[0] * b[0] + a[1] * b[1] + a[2] * b[2]
def closest_bary(p, a, b, c):
    ab, ac, ap = sub(b, a), sub(c, a), sub(p, a)
    d1, d2 = dot(ab, ap), dot(ac, ap)
    if d1 <= 0 and d2 <= 0: return (Fr(1), Fr(0), Fr(0))
    bp = sub(p, b); d3, d4 = dot(ab, bp), dot(ac, bp)
    if d3 >= 0 and d4 <= d3: return (Fr(0), Fr(1), Fr(0))
    vc = d1 * d4 - d3 * d2
    if vc <= 0 and d1 >= 0 and d3 <= 0:
        v = Fr(d1) / (d1 - d3); return (1 - v, v, Fr(0))
    cp = sub(p, c); d5, d6 = dot(ab, cp), dot(ac, cp)
    if d6 >= 0 and d5 <= d6: return (Fr(0), Fr(0), Fr(1))
    vb = d5 * d2 - d1 * d6
    if vb <= 0 and d2 >= 0 and d6 <= 0:
        w = Fr(d2) / (d2 - d6); return (1 - w, Fr(0), w)
    va = d3 * d6 - d5 * d4
    if va <= 0 and (d4 - d3) >= 0 and (d5 - d6) >= 0:
        w = Fr(d4 - d3) / ((d4 - d3) + (d5 - d6)); return (Fr(0), 1 - w, w)
    den = va + vb + vc
    v, w = Fr(vb) / den, Fr(vc) / den
    return (1 - v - w, v, w)
def recon(al, a, b, c): return tuple(al[0] * a[k] + al[1] * b[k] + al[2] * c[k] for k in range(3))
def dist2(p, q): return dot(sub(p, q), sub(p, q))

def plane_coords(p, a, b, c):
    e1, e2, w = sub(b, a), sub(c, a), sub(p, a)
    a00, a10, a11, b0, b1 = dot(e1, e1), dot(e1, e2), dot(e2, e2), dot(w, e1), dot(w, e2)
    d = a00 * a11 - a10 * a10
    if d == 0: return None
    r1, r2 = Fr(b0 * a11 - b1 * a10, d), Fr(a00 * b1 - a10 * b0, d)
    return (1 - r1 - r2, r1, r2)
def partial_hypothesis(p, a, b, c):
    """hypothesis of dpc_nearest_partial: whenever two plane coordinates are negative, the angle at the third
    vertex is not obtuse"""
    al = plane_coords(p, a, b, c); V = (a, b, c)
    for i, j, k in ((0, 1, 2), (0, 2, 1), (1, 2, 0)):
        if al[i] < 0 and al[j] < 0 and dot(sub(V[i], V[k]), sub(V[j], V[k])) < 0: return False
    return True

# ------------------------------------------------------------------ generators (op 1)
WITNESS13 = "c09 1 10 26 -10 0 0 0 0 40 0 0 -30 10 0"      # DESIGN 4 row 13

def rnd_pt(rng, R): return [rng.randint(-R, R) for _ in range(3)]

def gen_triangle_case(rng):
    """returns (kind, case line).  Aimed at the branches of dpc: interior, each edge, each vertex, t>1,
    obtuse corners (the refuted region), thin triangles, degenerate (d==0 -> om_error), points on the surface."""
    kind = rng.choice(["generic", "generic", "obtuse", "obtuse", "thin", "onsurface", "vertexedge", "degenerate", "planar", "perm13"])
    den = rng.choice([1, 1, 2, 4, 8]); R = 12 * den
    if kind == "degenerate":
        a = rnd_pt(rng, R); u = rnd_pt(rng, 4)
        k1, k2 = rng.randint(-3, 3), rng.randint(-3, 3)
        b = [a[i] + k1 * u[i] for i in range(3)]; c = [a[i] + k2 * u[i] for i in range(3)]; p = rnd_pt(rng, R)
    elif kind == "perm13":
        # rigidly moved / permuted / scaled copies of the known witness family: obtuse at one vertex, p beyond it
        s = rng.choice([1, 2, 3]); L = rng.randint(2, 6); H = rng.randint(1, 2); W = rng.randint(1, 5)
        A, B, C = (0, 0, 0), (L * s, 0, 0), (-W * s, H * s, 0)
        p = (rng.randint(0, L * s), -rng.randint(1, 3) * s, rng.choice([0, 0, 1]))
        ax = rng.sample([0, 1, 2], 3); sg = [rng.choice([-1, 1]) for _ in range(3)]; t = rnd_pt(rng, 5)
        f = lambda v: [sg[k] * v[ax[k]] * den + t[k] for k in range(3)]
        tri = [f(A), f(B), f(C)]; rng.shuffle(tri); a, b, c = tri; p = f(p)
    else:
        a = rnd_pt(rng, R)
        if kind == "thin":
            u = rnd_pt(rng, R); b = [a[i] + u[i] for i in range(3)]
            k = rng.randint(-2, 3); c = [a[i] + k * u[i] + rng.randint(-1, 1) for i in range(3)]
        elif kind == "obtuse":
            u = rnd_pt(rng, R // 2 + 1); b = [a[i] + u[i] for i in range(3)]
            c = [a[i] - rng.randint(1, 3) * u[i] + rng.randint(-2, 2) for i in range(3)]
        elif kind == "planar":
            a[2] = 0; b = rnd_pt(rng, R); b[2] = 0; c = rnd_pt(rng, R); c[2] = 0
        else:
            b, c = rnd_pt(rng, R), rnd_pt(rng, R)
        if kind == "onsurface":
            i, j = rng.randint(0, 4), rng.randint(0, 4); k = 8 - i - j if i + j <= 8 else 0
            s = i + j + k
            den2 = den * 8
            p = [(i * a[m] + j * b[m] + k * c[m]) for m in range(3)]   # p*8/den ; rescale everything to den*8
            a, b, c = [8 * x for x in a], [8 * x for x in b], [8 * x for x in c]
            if s != 8: p = [8 * x for x in rnd_pt(rng, R)]
            den = den2
        elif kind == "vertexedge":
            v = rng.choice([a, b, c]); w = rng.choice([a, b, c]); o = rnd_pt(rng, 3)
            p = [v[m] + (w[m] - v[m]) * rng.choice([0, 0, 1, 2, -1]) + o[m] * rng.choice([0, 1]) for m in range(3)]
        elif kind == "planar":
            p = rnd_pt(rng, R); p[2] = 0
        else:
            p = rnd_pt(rng, R + R // 2)
    return kind, "c09 1 %d %s" % (den, " ".join(str(x) for x in list(p) + list(a) + list(b) + list(c)))

def case_points(case):
    w = [int(x) for x in case.split()[2:]]
    den = w[0]; v = [Fr(x, den) for x in w[1:13]]
    return tuple(v[0:3]), tuple(v[3:6]), tuple(v[6:9]), tuple(v[9:12])

def gen_weights_case(rng):
    n = rng.choice([1, 1, 2, 3, 5, 8, 12]); k = max(1, rng.randint(1, max(1, n)))
    labels = [rng.randint(0, k - 1) for _ in range(n)]
    if rng.random() < 0.3: labels = sorted(labels)
    ws = [rng.randint(-4, 9) for _ in range(n)]
    return "c09 5 %d %s" % (n, " ".join(str(x) for x in labels + ws))

# ------------------------------------------------------------------ main
def compare_triangle(ck, case, kind, mo, io, stats):
    m = parse_tri_model(mo); i = parse_tri_impl(io)
    p, a, b, c = case_points(case)
    if m["st"] != 0 or i["st"] != 0:
        stats["errors"] += 1
        if m["st"] != i["st"]:
            return "dist_point_triangle: error status differs (model %s, implementation %s)" % (m["st"], i["st"])
        return None
    bad = []
    for k in range(3):
        if not fclose(m["al"][k], i["al"][k]): bad.append("alpha%d %s vs %.17g" % (k, m["al"][k], i["al"][k]))
        if (m["al"][k] == 0) != (i["al"][k] == 0.0) and not (m["ins"] == 1):
            bad.append("clamp pattern at %d" % k)
    if not fclose(m["d2"], i["d"] * i["d"], 4e-12): bad.append("distance^2 %s vs %.17g" % (m["d2"], i["d"] ** 2))
    fragile = (m["ins"] == 1 and any(x == 0 for x in m["al"]))
    if fragile: stats["fragile_boundary"] += 1
    elif m["ins"] != i["ins"]: bad.append("inside flag %d vs %d" % (m["ins"], i["ins"]))
    # property relation on the implementation, independent of the model: weights, reconstruction, nearest
    al = [Fr(x) for x in i["al"]]
    if min(i["al"]) < 0 or abs(sum(i["al"]) - 1.0) > 1e-12:
        return "dist_point_triangle: weights are not non-negative with sum one: %r" % (i["al"],)
    ob = closest_bary(p, a, b, c); od2 = dist2(p, recon(ob, a, b, c))
    id2 = dist2(p, recon(al, a, b, c))
    stats["branch"][("in" if m["ins"] else "clamp%d" % sum(1 for x in m["al"] if x == 0))] = stats["branch"].get(("in" if m["ins"] else "clamp%d" % sum(1 for x in m["al"] if x == 0)), 0) + 1
    if float(id2 - od2) > 1e-9 * max(1.0, float(od2)):
        stats["not_nearest"].append((case, float(od2), float(id2), partial_hypothesis(p, a, b, c)))
    if bad:
        return "dist_point_triangle: model and implementation differ (%s)" % "; ".join(bad)
    return None

def main(replay=None):
    ck = core.Check(PROP, "proof")
    quick = ck.tier != "thorough"
    bdir, hb = ck.prepare("Props/Properties_C09.v", "h_c09.cpp")
    if hb is None:
        return ck.finish()
    if replay:
        rp = json.load(open(replay)); cases = rp.get("cases", []); kinds = rp.get("kinds", ["replay"] * len(cases))
    else:
        cases = []; kinds = []
        cp = os.path.join(core.VERIF, "corpus", "C09.txt")
        if os.path.exists(cp):
            for l in open(cp):
                if l.strip() and not l.startswith("#"): cases.append(l.strip()); kinds.append("corpus")
        for _ in range(3000 if quick else 40000):
            k, c = gen_triangle_case(ck.rng); cases.append(c); kinds.append(k)
        for _ in range(150 if quick else 1500):
            cases.append(gen_weights_case(ck.rng)); kinds.append("weights")
    mo = core.run_model(cases)
    rc, io, err = core.run_harness(hb, cases, ck.workdir)
    stats = dict(errors=0, fragile_boundary=0, branch={}, not_nearest=[])
    dist = {}; mism = 0
    for c, k, m, i in zip(cases, kinds, mo, io):
        dist[k] = dist.get(k, 0) + 1
        op = int(c.split()[1])
        if op == 1:
            msg = compare_triangle(ck, c, k, m, i, stats)
            sig = "dist_point_triangle: model and implementation differ"
        elif op == 5:
            z, f = core.fparse(i)
            msg = None if (z is not None and [int(x) for x in m.split()] == z) else "getWeightsMatrix: model %s implementation %s" % (m[:100], i[:100])
            sig = "getWeightsMatrix: model and implementation differ"
        else:
            continue
        if msg:
            mism += 1
            ck.violation(sig, "%s on case `%s`; the model is the one the theorems of Properties_C09.v are proved about" % (msg, c),
                         dict(kind="correspondence", cases=[c], kinds=[k], model=[m], impl=[i]))
    # refutation replay / known finding: dpc is not the nearest point beyond an obtuse corner
    # a not-nearest answer under the hypothesis of dpc_nearest_partial contradicts the theorem (or the tie)
    for case, od2, id2, hyp in stats["not_nearest"]:
        if hyp:
            ck.violation("dpc_nearest_partial contradicted", "dist_point_triangle is not a nearest point (%.6g vs %.6g) although no obtuse corner is involved: case `%s`" % (id2, od2, case),
                         dict(kind="property", cases=[case]))
    w13 = [x for x in stats["not_nearest"] if x[0] == WITNESS13]
    if w13:
        ck.violation("dpc_nearest: A=(0,0,0) B=(4,0,0) C=(-3,1,0) p=(2.6,-1,0)",
                     "dist_point_triangle returns a point at squared distance %.6g where the triangle has a point at %.6g (obtuse corner)" % (w13[0][2], w13[0][1]),
                     dict(kind="refutation-replay", cases=[WITNESS13]))
    ck.cov.update(evaluations=len(cases), distinct_nontrivial=len(set(cases)),
                  rule="distinct case lines; triangle cases are aimed at the ten leaves of dpc (interior / 3 edges / vertices via t<0 and t>1), obtuse and thin triangles, points on the surface, degenerate triangles (om_error)",
                  samples=cases[len(cases) // 2:len(cases) // 2 + 3], op_distribution=dist,
                  branch_distribution=stats["branch"], error_outcomes=stats["errors"],
                  fragile_boundary_cases=stats["fragile_boundary"],
                  not_nearest_cases_all_in_refuted_region=len(stats["not_nearest"]),
                  correspondence_mismatches=mism, traces_validated_against_impl=len(cases))
    ck.cov["trusted_base"] += ["hand-written Gallina model coq/Geom/{Danielsson,SensorsModel}.v tied by differential runs (harness/h_c09.cpp vs extracted extract/omm, exact rational instance)",
                               "extraction: ExtrOcamlBasic only", "Python Fraction closest-point oracle (Ericson's Voronoi classification) in checks/c09.py"]
    ck.assumptions += ["distances are compared squared in the model (sqrt monotone)",
                       "weights and distances: rational model value vs double within 1e-12 (divisions round); decisions exact"]
    return ck.finish()
