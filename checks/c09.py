"""C09 - sensors attach to the nearest point of the right surface; weights sum to one.

Tie: the extracted rational instance of the Gallina model (coq/Geom/{Danielsson,SensorsModel}.v) against
harness/h_c09.cpp built on the working tree.  Inputs are dyadic rationals of small magnitude; every + - *
of the C++ code is then exact in double, only the divisions of dpc round.  So: decisions (clamped pattern,
`inside`, chosen triangle / mesh / interface) are compared exactly, the barycentric weights and distances are
compared as rationals against the doubles with a 1e-12 tolerance."""
import os, sys, json, math, shutil
from fractions import Fraction as Fr
import core, ombuild, gen, models

PROP = "C09"
TOL = 1e-12

# ------------------------------------------------------------------ helpers
def Q(n, d): return Fr(int(n), int(d))

def parse_tri_model(line):
    w = [int(x) for x in line.split()]
    if w[0] != 0: return dict(st=w[0])
    return dict(st=0, ins=w[1], al=[Q(w[2], w[3]), Q(w[4], w[5]), Q(w[6], w[7])], d2=Q(w[8], w[9]))

def parse_tri_impl(line):
    z, f = core.fparse(line)
    if z is None: return dict(st="CRASH")
    if z[0] != 0: return dict(st=z[0])
    return dict(st=0, ins=z[1], al=f[0:3], d=f[3])

def fclose(q, x, tol=TOL):
    return abs(float(q) - x) <= tol * max(1.0, abs(float(q)))

# exact closest point by Voronoi-region classification (Ericson), on Fractions: the reference of the search
def sub(a, b): return (a[0] - b[0], a[1] - b[1], a[2] - b[2])
def dot(a, b): return a[0] * b[0] + a[1] * b[1] + a[2] * b[2]
def closest_bary(p, a, b, c):
    ab, ac, ap = sub(b, a), sub(c, a), sub(p, a)
    d1, d2 = dot(ab, ap), dot(ac, ap)
    if d1 <= 0 and d2 <= 0: return (Fr(1), Fr(0), Fr(0))
    bp = sub(p, b); d3, d4 = dot(ab, bp), dot(ac, bp)
    if d3 >= 0 and d4 <= d3: return (Fr(0), Fr(1), Fr(0))
    vc = d1 * d4 - d3 * d2
    if vc <= 0 and d1 >= 0 and d3 <= 0:
        v = Fr(d1) / (d1 - d3); return (1 - v, v, Fr(0))
    cp = sub(p, c); d5, d6 = dot(ab, cp), dot(ac, cp)
    if d6 >= 0 and d5 <= d6: return (Fr(0), Fr(0), Fr(1))
    vb = d5 * d2 - d1 * d6
    if vb <= 0 and d2 >= 0 and d6 <= 0:
        w = Fr(d2) / (d2 - d6); return (1 - w, Fr(0), w)
    va = d3 * d6 - d5 * d4
    if va <= 0 and (d4 - d3) >= 0 and (d5 - d6) >= 0:
        w = Fr(d4 - d3) / ((d4 - d3) + (d5 - d6)); return (Fr(0), 1 - w, w)
    den = va + vb + vc
    v, w = Fr(vb) / den, Fr(vc) / den
    return (1 - v - w, v, w)
def recon(al, a, b, c): return tuple(al[0] * a[k] + al[1] * b[k] + al[2] * c[k] for k in range(3))
def dist2(p, q): return dot(sub(p, q), sub(p, q))

def plane_coords(p, a, b, c):
    e1, e2, w = sub(b, a), sub(c, a), sub(p, a)
    a00, a10, a11, b0, b1 = dot(e1, e1), dot(e1, e2), dot(e2, e2), dot(w, e1), dot(w, e2)
    d = a00 * a11 - a10 * a10
    if d == 0: return None
    r1, r2 = Fr(b0 * a11 - b1 * a10, d), Fr(a00 * b1 - a10 * b0, d)
    return (1 - r1 - r2, r1, r2)
def partial_hypothesis(p, a, b, c):
    """hypothesis of dpc_nearest_partial: whenever two plane coordinates are negative, the angle at the third
    vertex is not obtuse"""
    al = plane_coords(p, a, b, c); V = (a, b, c)
    for i, j, k in ((0, 1, 2), (0, 2, 1), (1, 2, 0)):
        if al[i] < 0 and al[j] < 0 and dot(sub(V[i], V[k]), sub(V[j], V[k])) < 0: return False
    return True

# ------------------------------------------------------------------ generators (op 1)
WITNESS13 = "c09 1 10 26 -10 0 0 0 0 40 0 0 -30 10 0"      # DESIGN 4 row 13

def rnd_pt(rng, R): return [rng.randint(-R, R) for _ in range(3)]

def gen_triangle_case(rng):
    """returns (kind, case line).  Aimed at the branches of dpc: interior, each edge, each vertex, t>1,
    obtuse corners (the refuted region), thin triangles, degenerate (d==0 -> om_error), points on the surface."""
    kind = rng.choice(["generic", "generic", "obtuse", "obtuse", "thin", "onsurface", "vertexedge", "degenerate", "planar", "perm13"])
    den = rng.choice([1, 1, 2, 4, 8]); R = 12 * den
    if kind == "degenerate":
        a = rnd_pt(rng, R); u = rnd_pt(rng, 4)
        k1, k2 = rng.randint(-3, 3), rng.randint(-3, 3)
        b = [a[i] + k1 * u[i] for i in range(3)]; c = [a[i] + k2 * u[i] for i in range(3)]; p = rnd_pt(rng, R)
    elif kind == "perm13":
        # rigidly moved / permuted / scaled copies of the known witness family: obtuse at one vertex, p beyond it
        s = rng.choice([1, 2, 3]); L = rng.randint(2, 6); H = rng.randint(1, 2); W = rng.randint(1, 5)
        A, B, C = (0, 0, 0), (L * s, 0, 0), (-W * s, H * s, 0)
        p = (rng.randint(0, L * s), -rng.randint(1, 3) * s, rng.choice([0, 0, 1]))
        ax = rng.sample([0, 1, 2], 3); sg = [rng.choice([-1, 1]) for _ in range(3)]; t = rnd_pt(rng, 5)
        f = lambda v: [sg[k] * v[ax[k]] * den + t[k] for k in range(3)]
        tri = [f(A), f(B), f(C)]; rng.shuffle(tri); a, b, c = tri; p = f(p)
    else:
        a = rnd_pt(rng, R)
        if kind == "thin":
            u = rnd_pt(rng, R); b = [a[i] + u[i] for i in range(3)]
            k = rng.randint(-2, 3); c = [a[i] + k * u[i] + rng.randint(-1, 1) for i in range(3)]
        elif kind == "obtuse":
            u = rnd_pt(rng, R // 2 + 1); b = [a[i] + u[i] for i in range(3)]
            c = [a[i] - rng.randint(1, 3) * u[i] + rng.randint(-2, 2) for i in range(3)]
        elif kind == "planar":
            a[2] = 0; b = rnd_pt(rng, R); b[2] = 0; c = rnd_pt(rng, R); c[2] = 0
        else:
            b, c = rnd_pt(rng, R), rnd_pt(rng, R)
        if kind == "onsurface":
            i, j = rng.randint(0, 4), rng.randint(0, 4); k = 8 - i - j if i + j <= 8 else 0
            s = i + j + k
            den2 = den * 8
            p = [(i * a[m] + j * b[m] + k * c[m]) for m in range(3)]   # p*8/den ; rescale everything to den*8
            a, b, c = [8 * x for x in a], [8 * x for x in b], [8 * x for x in c]
            if s != 8: p = [8 * x for x in rnd_pt(rng, R)]
            den = den2
        elif kind == "vertexedge":
            v = rng.choice([a, b, c]); w = rng.choice([a, b, c]); o = rnd_pt(rng, 3)
            p = [v[m] + (w[m] - v[m]) * rng.choice([0, 0, 1, 2, -1]) + o[m] * rng.choice([0, 1]) for m in range(3)]
        elif kind == "planar":
            p = rnd_pt(rng, R); p[2] = 0
        else:
            p = rnd_pt(rng, R + R // 2)
    return kind, "c09 1 %d %s" % (den, " ".join(str(x) for x in list(p) + list(a) + list(b) + list(c)))

def case_points(case):
    w = [int(x) for x in case.split()[2:]]
    den = w[0]; v = [Fr(x, den) for x in w[1:13]]
    return tuple(v[0:3]), tuple(v[3:6]), tuple(v[6:9]), tuple(v[9:12])

def gen_weights_case(rng):
    n = rng.choice([1, 1, 2, 3, 5, 8, 12]); k = max(1, rng.randint(1, max(1, n)))
    labels = [rng.randint(0, k - 1) for _ in range(n)]
    if rng.random() < 0.3: labels = sorted(labels)
    ws = [rng.randint(-4, 9) for _ in range(n)]
    return "c09 5 %d %s" % (n, " ".join(str(x) for x in labels + ws))



def gen_labelrule_case(rng):
    """files mixing integer-looking and float-looking first tokens in different line positions (first line integer-looking and a
    later one float-looking, the converse, all of one kind), 7 or 8 tokens per line, repeated first tokens, non-unit last column"""
    nt = rng.choice([7, 8]); n = rng.choice([1, 2, 3, 4, 6]); kind = rng.choice(["all-int", "all-float", "int-first-float-later", "float-first-int-later", "float-last-only", "mixed"])
    if kind == "all-int": ds = [0] * n
    elif kind == "all-float": ds = [1] * n
    elif kind == "int-first-float-later": ds = [0] + [rng.choice([0, 1]) for _ in range(n - 1)]; ds[-1] = 1 if n > 1 else 0
    elif kind == "float-first-int-later": ds = [1] + [0] * (n - 1)
    elif kind == "float-last-only": ds = [0] * (n - 1) + [1]
    else: ds = [rng.choice([0, 1]) for _ in range(n)]
    vs = [rng.randint(0, max(1, n // 2)) for _ in range(n)]
    ws = [rng.choice([-3, -2, 2, 3, 5, 7, 9]) for _ in range(n)]
    body = " ".join(map(str, [nt, n] + ds + vs + ws))
    return "c09 19 " + body, "c09 12 " + body, "labelrule:%s:%dtok" % (kind, nt)

def gen_file_case(rng):
    """file semantics of Sensors::load: labelled / unlabelled x number of numeric columns 3,4,5,6,7, non-unit weights"""
    lab = rng.random() < 0.5; ncol = rng.choice([3, 4, 5, 6, 7, 7, 7]); n = rng.choice([1, 2, 3, 5, 8])
    ls = [rng.randint(0, max(1, n // 2)) for _ in range(n)]
    ws = [rng.choice([-3, -2, 2, 3, 5, 7, 9]) for _ in range(n)]
    body = " ".join(map(str, [1 if lab else 0, ncol, n] + ls + ws))
    return "c09 18 " + body, "c09 11 " + body, "file:%s:%dcol" % ("labelled" if lab else "unlabelled", ncol)

def gen_ctor_case(rng):
    """label-based constructor: repeated labels in contiguous and NON contiguous order, all distinct, all equal"""
    n = rng.choice([1, 2, 3, 4, 6, 9]); kind = rng.choice(["distinct", "all-equal", "contiguous", "scattered", "scattered", "scattered"])
    if kind == "distinct": ls = rng.sample(range(20), n)
    elif kind == "all-equal": ls = [rng.randint(0, 5)] * n
    else:
        ls = [rng.randint(0, max(1, n // 2)) for _ in range(n)]
        if kind == "contiguous": ls.sort(key=lambda x: (x * 7) % 5)
    ws = [rng.randint(-4, 9) or 1 for _ in range(n)]
    body = " ".join(map(str, [n] + ls + ws))
    return "c09 17 " + body, "c09 10 " + body, "ctor:" + kind

def gen_history_case(rng):
    """(harness line op 15, model line op 5 of the second file alone, kind): a labelled file loaded into an object that has
    already loaded another labelled file - same labels, disjoint labels, overlapping labels, multi-point labels"""
    kind = rng.choice(["same", "disjoint", "overlap", "overlap", "permuted", "fewer", "more"])
    def one(pool, n):
        ls = [rng.choice(pool) for _ in range(n)]; ws = [rng.randint(-4, 9) for _ in range(n)]; return ls, ws
    n1 = rng.choice([1, 2, 3, 5, 8]); l1, w1 = one(list(range(0, 4)), n1)
    n2 = rng.choice([1, 2, 3, 5, 8])
    if kind == "same": l2, w2 = list(l1), [rng.randint(-4, 9) for _ in l1]
    elif kind == "disjoint": l2, w2 = one(list(range(10, 14)), n2)
    elif kind == "permuted": l2 = list(reversed(l1)); w2 = [rng.randint(-4, 9) for _ in l1]
    elif kind == "fewer": l2, w2 = one(list(set(l1))[:1] + [20], max(1, n1 - 1))
    elif kind == "more": l2, w2 = one(list(range(0, 7)), n1 + 3)
    else: l2, w2 = one(list(range(2, 8)), n2)
    f = lambda ls, ws: [len(ls)] + ls + ws
    return ("c09 15 " + " ".join(map(str, f(l1, w1) + f(l2, w2))), "c09 5 " + " ".join(map(str, f(l2, w2))), "history:" + kind)

# ------------------------------------------------------------------ interface level (op 2)
def gen_interface_case(rng):
    den = rng.choice([1, 2, 4]); R = 8 * den
    nv = rng.randint(4, 10)
    V = [rnd_pt(rng, R) for _ in range(nv)]
    nm = rng.randint(1, 3); meshes = []
    for _ in range(nm):
        ts = []
        for _ in range(rng.randint(1, 5)):
            t = rng.sample(range(nv), 3)
            ts.append(t)
            if rng.random() < 0.2: ts.append(list(t))               # exact duplicate: strict < keeps the first
        meshes.append(ts)
    if rng.random() < 0.3 and nm > 1: meshes[-1].append(list(meshes[0][0]))   # same triangle in two meshes
    p = rnd_pt(rng, R + R // 2)
    if rng.random() < 0.2: p = list(rng.choice(V))
    ids = list(range(nm)); rng.shuffle(ids)
    if rng.random() < 0.3: ids = ids[:max(1, nm - 1)]
    w = [2, den] + p + [nv] + [c for v in V for c in v] + [nm]
    for ts in meshes: w += [len(ts)] + [a for t in ts for a in t]
    w += [len(ids)] + ids
    return "c09 " + " ".join(map(str, w)), dict(V=V, den=den, p=p, meshes=meshes, ids=ids)

def compare_interface(case, info, mo, io, stats):
    m = [int(x) for x in mo.split()]; z, f = core.fparse(io)
    if z is None: return "harness crashed"
    if m[0] != 0 or z[0] != 0:
        stats["errors"] += 1
        return None if m[0] == z[0] else "dist_point_interface: status model %d implementation %d" % (m[0], z[0])
    mi, ti = m[1], m[2]; al = [Q(m[3 + 2 * k], m[4 + 2 * k]) for k in range(3)]; d2 = Q(m[9], m[10])
    n = m[11]; row = {m[12 + 3 * k]: Q(m[13 + 3 * k], m[14 + 3 * k]) for k in range(n)}
    den = info["den"]; V = [tuple(Fr(c, den) for c in v) for v in info["V"]]; p = tuple(Fr(c, den) for c in info["p"])
    bad = []
    if (mi, ti) != (z[1], z[2]):
        tm = info["meshes"][info["ids"][mi]][ti]; tiq = info["meshes"][info["ids"][z[1]]][z[2]]
        ob = closest_bary(p, *[V[a] for a in tiq]); od2 = dist2(p, recon(ob, *[V[a] for a in tiq]))
        if tm != tiq and od2 == d2: stats["rounding_ties"] = stats.get("rounding_ties", 0) + 1; return None
        bad.append("chosen triangle (mesh %d, triangle %d) vs (%d, %d)" % (mi, ti, z[1], z[2]))
    else:
        for k in range(3):
            if not fclose(al[k], f[k]): bad.append("alpha%d %s vs %.17g" % (k, al[k], f[k]))
    if not fclose(d2, f[3] ** 2, 4e-12): bad.append("distance^2 %s vs %.17g" % (float(d2), f[3] ** 2))
    return ("dist_point_interface: " + "; ".join(bad)) if bad else None

# ------------------------------------------------------------------ geometry level (ops 3/4)
GRID = 64
def snap(v): return tuple(int(round(c * GRID)) for c in v)

def geom_models(rng, quick):
    """whole head models with one, two or three non-conductive domains, vertices snapped to the 1/64 grid"""
    out = []
    def sig(): return rng.choice([1.0, 0.0125, 0.33])
    # HeadMN1-like: non-conductive innermost domain + air
    out.append(("nested-brain0", models.nested([0.45, 0.8, 1.0], [0.0, sig(), sig()], level=1)))
    out.append(("nested-2layers-brain0", models.nested([0.5, 1.0], [0.0, sig()], level=1)))
    out.append(("nested-plain", models.nested([0.6, 0.85, 1.0], [sig(), sig(), sig()], level=1)))
    out.append(("incl-1hole", models.inclusions(1.0, [((0.4, 0, 0.1), 0.3, 0.0)], sig(), level=1)))
    out.append(("incl-2holes", models.inclusions(1.0, [((0.45, 0, 0.1), 0.3, 0.0), ((-0.45, 0.1, 0), 0.28, 0.0)], sig(), level=1)))
    out.append(("incl-hole+blob", models.inclusions(1.0, [((0.45, 0, 0.1), 0.3, 0.0), ((-0.45, 0.1, 0), 0.28, sig())], sig(), level=1)))
    return out

def geom_case(rng, m, gid, workdir, order, npts, op=3):
    """writes the model under workdir/g<gid>/ (meshes renamed m0.., interfaces I0..) and returns an info dict; the case
    line is built by geom_line() once the harness has told in which order the loader keeps triangles and their vertices
    (Mesh::load may reorient triangles; stale weights are written by POSITION, so the order matters)"""
    inames = [n for n, _ in m["interfaces"]]; ren = {n: "I%d" % k for k, n in enumerate(inames)}
    mren = {n: "m%d" % k for k, (n, _, _) in enumerate(m["meshes"])}
    mm = dict(m)
    mm["meshes"] = [(mren[n], [tuple(c / GRID for c in snap(v)) for v in vs], ts) for n, vs, ts in m["meshes"]]
    mm["interfaces"] = [(ren[n], [(sg, mren[mn]) for sg, mn in ms]) for n, ms in m["interfaces"]]
    doms = [(n, [(s, ren[i]) for s, i in bs]) for n, bs in m["domains"]]
    mm["domains"] = [doms[k] for k in order]
    models.write_model(mm, os.path.join(workdir, "g%d" % gid), fmt="tri")
    vid = {}; V = []
    mesh_tris = []
    for n, vs, ts in mm["meshes"]:
        loc = []
        for v in vs:
            k = snap(v)
            if k not in vid: vid[k] = len(V); V.append(k)
            loc.append(vid[k])
        mesh_tris.append([tuple(loc[a] for a in t) for t in ts])
    R = m["info"].get("outer_radius", 1.0)
    pts = []
    for _ in range(npts):
        d = models.random_unit(rng); c = rng.random()
        if c < 0.6: r = R * rng.uniform(0.9, 1.5)
        elif c < 0.8: r = R * rng.uniform(0.5, 0.9)
        else: r = R * rng.uniform(0.05, 0.5)
        pts.append(snap(tuple(r * x for x in d)))
    ifs = [[int(mn[1:]) for _, mn in ms] for n, ms in mm["interfaces"]]
    dms = [(0 if m["cond"][n] == 0.0 else 1, [int(i[1:]) for _, i in bs]) for n, bs in mm["domains"]]
    return dict(V=V, pts=pts, den=GRID, gid=gid, op=op, mesh_tris=mesh_tris, ifs=ifs, doms=dms)

def geom_probe_line(info):
    return "c09 8 %d %d %d %s" % (info["gid"], GRID, len(info["V"]), " ".join(str(c) for v in info["V"] for c in v))

def geom_line(info, loaded=None):
    """case line; `loaded` = per-mesh triangle lists (wire vertex ids) as the loader keeps them"""
    mt = loaded if loaded is not None else info["mesh_tris"]
    info["mesh_tris"] = [[tuple(t) for t in ts] for ts in mt]
    w = [info["op"], info["gid"], GRID, len(info["pts"])] + [c for p in info["pts"] for c in p] + [len(info["V"])] + [c for v in info["V"] for c in v]
    w += [len(mt)]
    for ts in mt: w += [len(ts)] + [a for t in ts for a in t]
    w += [len(info["ifs"])]
    for ms in info["ifs"]: w += [len(ms)] + ms
    w += [len(info["doms"])]
    for sg, bs in info["doms"]: w += [sg, len(bs)] + bs
    return "c09 " + " ".join(str(x) for x in w)

def geom_last_candidates(info, e):
    """rows the code may legitimately write for electrode e when its weights are stale: weights of every triangle of the
    LAST zero-conductivity boundary at exactly the minimal distance within that boundary"""
    last = None
    for sg, bs in info["doms"]:
        if sg == 0 and bs: last = bs[-1]
    if last is None: return []
    tris = [t for mi in info["ifs"][last] for t in info["mesh_tris"][mi]]
    V = info["V"]; pz = list(info["pts"][e])
    lines = ["c09 1 %d %s" % (GRID, " ".join(str(x) for x in pz + list(V[t[0]]) + list(V[t[1]]) + list(V[t[2]]))) for t in tris]
    res = [r for r in (parse_tri_model(l) for l in core.run_model(lines)) if r["st"] == 0]
    if not res: return []
    dmin = min(r["d2"] for r in res)
    return [r["al"] for r in res if r["d2"] == dmin]

def parse_geom_model(line, npts):
    w = [int(x) for x in line.split()]
    if w[0] != 0: return None
    out = []; k = 1
    for _ in range(npts):
        if w[k] < 0: out.append(dict(err=w[k])); k += 1; continue
        iid = w[k]; tri = w[k + 1:k + 4]; al = [Q(w[k + 4 + 2 * j], w[k + 5 + 2 * j]) for j in range(3)]
        d2 = Q(w[k + 10], w[k + 11]); n = w[k + 12]; k += 13
        row = {}
        for _ in range(n):
            row[w[k]] = Q(w[k + 1], w[k + 2]); k += 3
        out.append(dict(iid=iid, tri=tri, al=al, d2=d2, row=row))
    return out

def parse_geom_impl(line, npts):
    z, f = core.fparse(line)
    if z is None or z[0] != 0: return None
    out = []; k = 1; j = 0
    for _ in range(npts):
        iid = z[k]; tri = z[k + 1:k + 4]; al = f[j:j + 3]; d = f[j + 3]; n = z[k + 4]; k += 5; j += 4
        row = {}
        for _ in range(n):
            row[z[k]] = f[j]; k += 1; j += 1
        out.append(dict(iid=iid, tri=tri, al=al, d=d, row=row))
    return out

def compare_geom(model, impl, info):
    """model vs implementation per electrode.  Returns (bad, relfail):
    bad     = [(electrode, message)] correspondence mismatches and structural faults of the implementation's row;
    relfail = [(electrode, reconstructed distance, returned distance)] where the property's own relation fails on the
              implementation: the point reconstructed from the row is not at the returned distance."""
    bad = []; relfail = []
    for e, (m, i) in enumerate(zip(model, impl)):
        if "err" in m: bad.append((e, "model error %d" % m["err"])); continue
        msgs = []
        if m["iid"] != i["iid"]: msgs.append("interface I%d vs I%d" % (m["iid"], i["iid"]))
        if not fclose(m["d2"], i["d"] ** 2, 4e-12): msgs.append("distance^2 %s vs %.17g" % (float(m["d2"]), i["d"] ** 2))
        mrow = {c: v for c, v in m["row"].items() if v != 0}
        irow = {c: v for c, v in i["row"].items() if abs(v) > 1e-13}
        if set(mrow) != set(irow) or any(not fclose(mrow[c], irow[c]) for c in mrow):
            msgs.append("row %s vs %s" % ({c: float(v) for c, v in sorted(mrow.items())}, dict(sorted(irow.items()))))
        if "tri" in i:
            if len(i["row"]) > 3 or not set(i["row"]).issubset(set(i["tri"])): msgs.append("row support %s not within returned triangle %s" % (sorted(i["row"]), i["tri"]))
            if abs(sum(i["row"].values()) - 1.0) > 1e-12: msgs.append("row sums to %.17g" % sum(i["row"].values()))
            V = info["V"]; den = info["den"]; p = tuple(Fr(c, den) for c in info["pts"][e])
            h = tuple(sum(Fr(v) * Fr(V[c][k], den) for c, v in i["row"].items()) for k in range(3))
            rd = math.sqrt(float(dist2(p, h)))
            if abs(rd - i["d"]) > 1e-9: relfail.append((e, rd, i["d"]))
        if msgs: bad.append((e, "; ".join(msgs)))
    return bad, relfail

def rows_differ(ma, mb):
    ra = {c: v for c, v in ma["row"].items() if v != 0}; rb = {c: v for c, v in mb["row"].items() if v != 0}
    return ra != rb

# ------------------------------------------------------------------ soup-level geometry (ops 6/7): dist_point_geom on domains built in memory
WITNESS12 = "c09 6 4 1 1 4 6 0 0 0 4 0 0 0 4 0 0 0 -20 16 0 -20 0 4 -20 2 1 0 1 2 1 3 4 5 2 1 0 1 1 2 0 1 0 0 1 1"   # Coq witness w12
SIG12 = "dist_point_geom stale alphas: domains {(0,0,0)(1,0,0)(0,1,0)} then {(0,0,-5)(4,0,-5)(0,1,-5)}, both sigma=0, p=(1/4,1/4,1)"

def gen_soup_geom(rng):
    den = rng.choice([1, 2, 4]); R = 8 * den
    nv = rng.randint(6, 12); V = [rnd_pt(rng, R) for _ in range(nv)]
    nm = rng.randint(2, 4); meshes = [[rng.sample(range(nv), 3) for _ in range(rng.randint(1, 3))] for _ in range(nm)]
    ni = rng.randint(2, 4); ifs = [rng.sample(range(nm), rng.randint(1, min(2, nm))) for _ in range(ni)]
    nd = rng.randint(2, 4); doms = []
    for k in range(nd):
        doms.append((0 if rng.random() < 0.65 else rng.choice([1, 2]), rng.sample(range(ni), rng.randint(1, min(2, ni)))))
    if all(sg != 0 for sg, _ in doms): doms[rng.randrange(nd)] = (0, doms[0][1])
    rng.shuffle(doms)
    p = rnd_pt(rng, R + R // 2)
    w = [6, den] + p + [nv] + [c for v in V for c in v] + [nm]
    for ts in meshes: w += [len(ts)] + [a for t in ts for a in t]
    w += [ni]
    for ms in ifs: w += [len(ms)] + ms
    w += [nd]
    for sg, bs in doms: w += [sg, len(bs)] + bs
    return "c09 " + " ".join(map(str, w)), dict(V=V, den=den, p=p)

def parse_soup(case):
    w = [int(x) for x in case.split()[1:]]
    den = w[1]; p = tuple(Fr(c, den) for c in w[2:5]); nv = w[5]
    V = [tuple(Fr(c, den) for c in w[6 + 3 * k:9 + 3 * k]) for k in range(nv)]
    return p, V

def last_boundary_candidates(case):
    """weights the code may legitimately hand back: those of every triangle of the LAST zero-conductivity boundary
    scanned that is at exactly the minimal distance within that boundary (the doubles may order exact ties either way)"""
    w = [int(x) for x in case.split()[1:]]
    den = w[1]; pz = w[2:5]; nv = w[5]; k = 6; Vz = [w[k + 3 * j:k + 3 * j + 3] for j in range(nv)]; k += 3 * nv
    nm = w[k]; k += 1; meshes = []
    for _ in range(nm):
        nt = w[k]; k += 1; meshes.append([w[k + 3 * j:k + 3 * j + 3] for j in range(nt)]); k += 3 * nt
    ni = w[k]; k += 1; ifs = []
    for _ in range(ni):
        n = w[k]; k += 1; ifs.append(w[k:k + n]); k += n
    nd = w[k]; k += 1; last = None
    for _ in range(nd):
        sg, nb = w[k], w[k + 1]; bs = w[k + 2:k + 2 + nb]; k += 2 + nb
        if sg == 0 and bs: last = bs[-1]
    if last is None: return []
    tris = [t for mi in ifs[last] for t in meshes[mi]]
    lines = ["c09 1 %d %s" % (den, " ".join(str(x) for x in pz + Vz[t[0]] + Vz[t[1]] + Vz[t[2]])) for t in tris]
    res = [parse_tri_model(l) for l in core.run_model(lines)]
    res = [r for r in res if r["st"] == 0]
    if not res: return []
    dmin = min(r["d2"] for r in res)
    return [r["al"] for r in res if r["d2"] == dmin]

def compare_soup_geom(case, mo, io, stats):
    """returns (mismatch message or None, relation_failed, model dict)"""
    m = [int(x) for x in mo.split()]; z, f = core.fparse(io)
    if z is None: return "harness crashed", False, None
    if m[0] != 0 or z[0] != 0:
        stats["errors"] += 1
        return (None if m[0] == z[0] else "dist_point_geom: status model %d implementation %d" % (m[0], z[0])), False, None
    iid, tri = m[1], m[2:5]; al = [Q(m[5 + 2 * k], m[6 + 2 * k]) for k in range(3)]; d2 = Q(m[11], m[12])
    p, V = parse_soup(case)
    bad = []
    same_tri = (tri == z[2:5])
    if iid != z[1] or not same_tri:
        ob = closest_bary(p, *[V[a] for a in z[2:5]]); od2 = dist2(p, recon(ob, *[V[a] for a in z[2:5]]))
        if od2 == d2 and tri != z[2:5]:      # another triangle (or the same one with its vertices in another order) at exactly the same distance: the doubles may order them either way
            stats["rounding_ties"] = stats.get("rounding_ties", 0) + 1; return None, False, None
        bad.append("returned interface/triangle I%d %s vs I%d %s" % (iid, tri, z[1], z[2:5]))
    else:
        for k in range(3):
            if not fclose(al[k], f[k]): bad.append("alpha%d %s vs %.17g" % (k, al[k], f[k]))
        if bad:
            cands = last_boundary_candidates(case)
            if len(cands) > 1 and any(all(fclose(a[k], f[k]) for k in range(3)) for a in cands):
                stats["rounding_ties"] = stats.get("rounding_ties", 0) + 1; return None, False, None
    if not fclose(d2, f[3] ** 2, 4e-12): bad.append("distance^2 %s vs %.17g" % (float(d2), f[3] ** 2))
    if bad: return "dist_point_geom: " + "; ".join(bad), False, None
    # property relation on the implementation: the returned weights reconstruct a point of the returned triangle at the returned distance
    h = recon([Fr(x) for x in f[0:3]], *[V[a] for a in z[2:5]])
    rel = abs(math.sqrt(float(dist2(p, h))) - f[3]) > 1e-9
    return None, rel, dict(iid=iid, tri=tri, al=al, d2=d2, rec=math.sqrt(float(dist2(p, h))), d=f[3])

# ------------------------------------------------------------------ main
ORACLE = {}
def compare_triangle(ck, case, kind, mo, io, stats):
    m = parse_tri_model(mo); i = parse_tri_impl(io)
    p, a, b, c = case_points(case)
    if m["st"] != 0 or i["st"] != 0:
        stats["errors"] += 1
        if m["st"] != i["st"]:
            return "dist_point_triangle: error status differs (model %s, implementation %s)" % (m["st"], i["st"])
        return None
    bad = []
    for k in range(3):
        if not fclose(m["al"][k], i["al"][k]): bad.append("alpha%d %s vs %.17g" % (k, m["al"][k], i["al"][k]))
        if (m["al"][k] == 0) != (i["al"][k] == 0.0) and not (m["ins"] == 1):
            bad.append("clamp pattern at %d" % k)
    if not fclose(m["d2"], i["d"] * i["d"], 4e-12): bad.append("distance^2 %s vs %.17g" % (m["d2"], i["d"] ** 2))
    fragile = (m["ins"] == 1 and any(x == 0 for x in m["al"]))
    if fragile: stats["fragile_boundary"] += 1
    elif m["ins"] != i["ins"]: bad.append("inside flag %d vs %d" % (m["ins"], i["ins"]))
    # property relation on the implementation, independent of the model: weights, reconstruction, nearest
    al = [Fr(x) for x in i["al"]]
    if min(i["al"]) < 0 or abs(sum(i["al"]) - 1.0) > 1e-12:
        return "dist_point_triangle: weights are not non-negative with sum one: %r" % (i["al"],)
    ow = [int(x) for x in ORACLE.get(case, "7").split()]
    pyd2 = dist2(p, recon(closest_bary(p, a, b, c), a, b, c))
    if ow[0] != 0:
        stats["oracle_none"] = stats.get("oracle_none", 0) + 1; od2 = pyd2
    else:
        od2 = Q(ow[7], ow[8])
        if od2 != pyd2: stats["oracle_disagree_python"] = stats.get("oracle_disagree_python", 0) + 1
    id2 = dist2(p, recon(al, a, b, c))
    stats["branch"][("in" if m["ins"] else "clamp%d" % sum(1 for x in m["al"] if x == 0))] = stats["branch"].get(("in" if m["ins"] else "clamp%d" % sum(1 for x in m["al"] if x == 0)), 0) + 1
    if float(id2 - od2) > 1e-9 * max(1.0, float(od2)):
        stats["not_nearest"].append((case, float(od2), float(id2), partial_hypothesis(p, a, b, c)))
    if bad:
        return "dist_point_triangle: model and implementation differ (%s)" % "; ".join(bad)
    return None

def main(replay=None):
    ck = core.Check(PROP, "proof")
    quick = ck.tier != "thorough"
    bdir, hb = ck.prepare("Props/Properties_C09.v", "h_c09.cpp")
    if hb is None:
        return ck.finish()
    if replay:
        rp = json.load(open(replay)); cases = rp.get("cases", []); kinds = rp.get("kinds", ["replay"] * len(cases))
    else:
        cases = []; kinds = []
        cp = os.path.join(core.VERIF, "corpus", "C09.txt")
        if os.path.exists(cp):
            for l in open(cp):
                if l.strip() and not l.startswith("#"): cases.append(l.strip()); kinds.append("corpus")
        for _ in range(3000 if quick else 40000):
            k, c = gen_triangle_case(ck.rng); cases.append(c); kinds.append(k)
        for _ in range(150 if quick else 1500):
            cases.append(gen_weights_case(ck.rng)); kinds.append("weights")
    iinfo = {}
    if replay:
        iinfo = {int(k): v for k, v in rp.get("iinfo", {}).items()}
    else:
        for _ in range(800 if quick else 8000):
            c, info = gen_interface_case(ck.rng); iinfo[len(cases)] = info; cases.append(c); kinds.append("interface")
    if not replay:
        for _ in range(600 if quick else 6000):
            c, info = gen_soup_geom(ck.rng); cases.append(c); kinds.append("soup-geometry")
    # geometry-level cases: whole models in several declaration orders
    ginfo = {}
    if replay:
        for gid, files in rp.get("files", {}).items():
            d = os.path.join(ck.workdir, "g%s" % gid); os.makedirs(d, exist_ok=True)
            for fn, txt in files.items(): open(os.path.join(d, fn), "w").write(txt)
        ginfo = {int(k): v for k, v in rp.get("ginfo", {}).items()}
    else:
        import itertools
        gid = 0
        for name, m in geom_models(ck.rng, quick):
            nd = len(m["domains"])
            orders = list(itertools.permutations(range(nd)))
            ck.rng.shuffle(orders)
            orders = [tuple(range(nd))] + orders[:(3 if quick else 23)]
            for order in orders:
                info = geom_case(ck.rng, m, gid, ck.workdir, order, 10 if quick else 30)
                info["name"] = name + " order=" + "".join(map(str, order))
                ginfo[gid] = info; gid += 1
        # first pass: ask the loader for the triangle lists it keeps (order of triangles and of their vertices)
        probes = [geom_probe_line(ginfo[g]) for g in sorted(ginfo)]
        rc0, pout, _ = core.run_harness(hb, probes, ck.workdir, tag="probe")
        for g, line in zip(sorted(ginfo), pout):
            z, _f = core.fparse(line); loaded = None
            if z is not None and z[0] == 0:
                loaded = []; k = 2
                for _ in range(z[1]):
                    nt = z[k]; k += 1; loaded.append([tuple(z[k + 3 * j:k + 3 * j + 3]) for j in range(nt)]); k += 3 * nt
            cases.append(geom_line(ginfo[g], loaded)); kinds.append("geom:" + ginfo[g]["name"].split(" ")[0])
    mo = core.run_model(cases)
    rc, io, err = core.run_harness(hb, cases, ck.workdir)
    # the Gallina oracle (coq/Geom/ClosestOracleModel.v, soundness theorem closest_oracle_sound) on every triangle case
    tri_idx = [k for k, c in enumerate(cases) if c.split()[1] == "1"]
    oo = core.run_model([cases[k].replace("c09 1 ", "c09 9 ", 1) for k in tri_idx])
    ORACLE.clear(); ORACLE.update({cases[k]: o for k, o in zip(tri_idx, oo)})
    stats = dict(errors=0, fragile_boundary=0, branch={}, not_nearest=[], stale=[])
    dist = {}; mism = 0
    for cn, (c, k, m, i) in enumerate(zip(cases, kinds, mo, io)):
        dist[k] = dist.get(k, 0) + 1
        op = int(c.split()[1])
        if op == 1:
            msg = compare_triangle(ck, c, k, m, i, stats)
            sig = "dist_point_triangle: model and implementation differ"
        elif op == 5:
            z, f = core.fparse(i)
            msg = None if (z is not None and [int(x) for x in m.split()] == z) else "getWeightsMatrix: model %s implementation %s" % (m[:100], i[:100])
            sig = "getWeightsMatrix: model and implementation differ"
        elif op == 2:
            msg = compare_interface(c, iinfo[cn], m, i, stats)
            sig = "dist_point_interface: model and implementation differ"
        elif op in (6, 7):
            sig = "dist_point_geom (in-memory domains): model and implementation differ"
            msg, rel, md = compare_soup_geom(c, m, i, stats)
            stats["soup_geom"] = stats.get("soup_geom", 0) + 1
            if msg is None and rel:
                # model = implementation and the property relation fails: is it the stale-alphas mechanism?
                rm = [int(x) for x in core.run_model([c.replace("c09 6 ", "c09 7 ", 1)])[0].split()]
                ral = [Q(rm[5 + 2 * k], rm[6 + 2 * k]) for k in range(3)] if rm[0] == 0 else None
                if ral is not None and rm[1:5] == [md["iid"]] + md["tri"] and ral != md["al"]:
                    stats["stale"].append((c, md["rec"], md["d"]))
                else:
                    msg = "dist_point_geom: reconstructed point is %.6g away for a returned distance %.6g, and this is not the stale-weights mechanism (the variant keeping the minimum's weights gives the same weights)" % (md["rec"], md["d"])
                    sig = "dist_point_geom: weights do not reconstruct a point at the returned distance"
        elif op in (3, 4):
            gid = int(c.split()[2]); info = ginfo[gid]; npts = len(info["pts"])
            mm = parse_geom_model(m, npts); ii = parse_geom_impl(i, npts)
            sig = "dist_point_geom/Head2EEGMat: model and implementation differ"
            if mm is None or ii is None:
                msg = "geometry case failed: model `%s` implementation `%s`" % (m[:80], i[:80])
            else:
                bad, relfail = compare_geom(mm, ii, info)
                stats["geom_electrodes"] = stats.get("geom_electrodes", 0) + npts
                # a row that differs only because the last boundary has several triangles at exactly the same distance
                keep = []
                for e, t in bad:
                    ok = False
                    if t.startswith("row ") and ";" not in t:
                        same = mm[e]["tri"] == ii[e]["tri"]
                        if not same:     # another triangle at exactly the same distance was returned (stale weights are written by position)
                            Vq = [tuple(Fr(c, info["den"]) for c in v) for v in info["V"]]; pq = tuple(Fr(c, info["den"]) for c in info["pts"][e])
                            tq = [Vq[a] for a in ii[e]["tri"]]
                            same = dist2(pq, recon(closest_bary(pq, *tq), *tq)) == mm[e]["d2"]
                        if same:
                            for al in [mm[e]["al"]] + geom_last_candidates(info, e):
                                if all(fclose(al[j], ii[e]["al"][j]) for j in range(3)): ok = True
                    if ok: stats["rounding_ties"] = stats.get("rounding_ties", 0) + 1
                    else: keep.append((e, t))
                bad = keep
                msg = None
                other = core.run_model([c.replace("c09 3 ", "c09 4 ", 1)])[0] if (bad or relfail) else None
                omm = parse_geom_model(other, npts) if other else None
                if bad:
                    e, t = bad[0]
                    msg = "%s, electrode %d at %s/64: %s (%d of %d electrodes differ)" % (info.get("name"), e, info["pts"][e], t, len(bad), npts)
                    if omm is not None and not compare_geom(omm, [dict(iid=x["iid"], d=x["d"], row=x["row"]) for x in ii], info)[0]:
                        msg += " -- the implementation agrees with the variant that keeps the weights of the minimum: dist_point_geom was repaired, the model (which follows the code as it was) and findings.d must follow"
                elif relfail:
                    for e, rd, d in relfail:
                        if omm is not None and "err" not in omm[e] and rows_differ(omm[e], mm[e]) and omm[e]["iid"] == mm[e]["iid"]:
                            stats["stale"].append(("%s electrode %s/64" % (info.get("name"), info["pts"][e]), rd, d))
                        else:
                            msg = "%s, electrode %d at %s/64: the row reconstructs a point %.6g away for a returned distance %.6g, and this is not the stale-weights mechanism" % (info.get("name"), e, info["pts"][e], rd, d)
                            sig = "Head2EEGMat: row does not reconstruct a point at the returned distance"
        else:
            continue
        if msg:
            mism += 1
            rpd = dict(kind="correspondence", cases=[c], kinds=[k], model=[m], impl=[i])
            if op == 2: rpd["iinfo"] = {"0": iinfo[cn]}
            if op in (3, 4):
                d = os.path.join(ck.workdir, "g%d" % gid)
                rpd["files"] = {str(gid): {fn: open(os.path.join(d, fn)).read() for fn in os.listdir(d)}}
                rpd["ginfo"] = {str(gid): ginfo[gid]}
            ck.violation(sig, "%s on case `%s`; the model is the one the theorems of Properties_C09.v are proved about" % (msg, c[:300]), rpd)
            continue
        if False:
            ck.violation(sig, "%s on case `%s`; the model is the one the theorems of Properties_C09.v are proved about" % (msg, c),
                         dict(kind="correspondence", cases=[c], kinds=[k], model=[m], impl=[i]))
    # the labelled / unlabelled rule of Sensors::load on files mixing integer-looking and float-looking first tokens
    if not replay or rp.get("labelrule"):
        lc = [tuple(x) for x in rp["labelrule"]] if replay else [gen_labelrule_case(ck.rng) for _ in range(400 if quick else 4000)]
        lmo = core.run_model([b for _, b, _ in lc]); rcl, lio, _e = core.run_harness(hb, [a for a, _, _ in lc], ck.workdir, tag="labelrule")
        for (a, b, k), m, i in zip(lc, lmo, lio):
            dist[k] = dist.get(k, 0) + 1
            z, _f = core.fparse(i); mz = [int(x) for x in m.split()]
            if z is None or (mz[0] == 0 and mz != z) or (mz[0] != 0 and z[0] == 0):
                mism += 1
                ck.violation("Sensors::load labelled/unlabelled rule: result differs", "Sensors::load of a file of kind %s gives (status, labelled, sensors, weight matrix) %s, the model (labelled iff no line starts with a float-looking token) %s; case `%s`" % (k, i[:150], m[:150], a),
                             dict(kind="labelrule", labelrule=[[a, b, k]]))
    # file semantics of Sensors::load: which column is what, labelled and unlabelled, non-unit weights
    if not replay or rp.get("file"):
        fc = [tuple(x) for x in rp["file"]] if replay else [gen_file_case(ck.rng) for _ in range(400 if quick else 4000)]
        fmo = core.run_model([b for _, b, _ in fc]); rcf, fio, _e = core.run_harness(hb, [a for a, _, _ in fc], ck.workdir, tag="file")
        for (a, b, k), m, i in zip(fc, fmo, fio):
            dist[k] = dist.get(k, 0) + 1
            z, _f = core.fparse(i); mz = [int(x) for x in m.split()]
            if z is None or (mz[0] == 0 and mz != z) or (mz[0] != 0 and z[0] == 0):
                mism += 1
                ck.violation("Sensors::load file semantics: weight matrix differs", "Sensors::load of a %s then getWeightsMatrix gives %s, the model (file semantics of load) %s; case `%s`" % (k, i[:150], m[:150], a),
                             dict(kind="file", file=[[a, b, k]]))
    # the weight-matrix clause through the label-based constructors (not only the file loader)
    if not replay or rp.get("ctor"):
        cc = [tuple(x) for x in rp["ctor"]] if replay else [gen_ctor_case(ck.rng) for _ in range(300 if quick else 3000)]
        cmo = core.run_model([b for _, b, _ in cc]); rcc, cio, _e = core.run_harness(hb, [a for a, _, _ in cc], ck.workdir, tag="ctor")
        for (a, b, k), m, i in zip(cc, cmo, cio):
            dist[k] = dist.get(k, 0) + 1
            z, _f = core.fparse(i); mz = [int(x) for x in m.split()]
            msg = None
            if z is None or mz != z: msg = "model %s implementation %s" % (m[:150], i[:150])
            elif z[0] == 0:
                # the property's own relation on the implementation: points with the same label share one row, different labels never do
                w = [int(x) for x in a.split()[2:]]; n = w[0]; ls = w[1:1 + n]; nb = z[1]; M = z[2:]
                rows_of = [[s_ for s_ in range(nb) if M[s_ * n + i_] != 0] for i_ in range(n)]
                for i_ in range(n):
                    for j_ in range(n):
                        if rows_of[i_] and rows_of[j_] and ((rows_of[i_] == rows_of[j_]) != (ls[i_] == ls[j_])): msg = "points %d and %d: labels %s/%s, rows %s/%s" % (i_, j_, ls[i_], ls[j_], rows_of[i_], rows_of[j_])
            if msg:
                mism += 1
                ck.violation("getWeightsMatrix of the label-based constructor: not grouped by label",
                             "Sensors(labels,positions,orientations,weights,radii).getWeightsMatrix(): %s; case `%s`" % (msg, a), dict(kind="ctor", ctor=[[a, b, k]]))
    # history on the weight-matrix clause: a second load() into an object that already holds labelled sensors must give
    # the weight matrix of a fresh object (the model of load starts from an empty name list)
    if not replay or rp.get("history"):
        hc = [tuple(x) for x in rp["history"]] if replay else [gen_history_case(ck.rng) for _ in range(300 if quick else 3000)]
        hm = core.run_model([b for _, b, _ in hc]); rch, hi, _e = core.run_harness(hb, [a for a, _, _ in hc], ck.workdir, tag="history")
        for (a, b, k), m, i in zip(hc, hm, hi):
            dist[k] = dist.get(k, 0) + 1
            z, _f = core.fparse(i)
            if z is None or [int(x) for x in m.split()] != z:
                mism += 1
                ck.violation("getWeightsMatrix after a second load: differs from a fresh object",
                             "Sensors::load of a labelled file into an object that already holds labelled sensors, then getWeightsMatrix: %s; a fresh object (and the model) gives %s; case `%s`" % (i[:120], m[:120], a),
                             dict(kind="history", history=[[a, b, k]]))
    # a not-nearest answer under the hypothesis of dpc_nearest_partial contradicts the theorem (or the tie)
    for case, od2, id2, hyp in stats["not_nearest"]:
        if hyp:
            ck.violation("dpc_nearest_partial contradicted", "dist_point_triangle is not a nearest point (%.6g vs %.6g) although no obtuse corner is involved: case `%s`" % (id2, od2, case),
                         dict(kind="property", cases=[case]))
    w13 = [x for x in stats["not_nearest"] if x[0] == WITNESS13]
    if w13:
        ck.violation("dpc_nearest: A=(0,0,0) B=(4,0,0) C=(-3,1,0) p=(2.6,-1,0)",
                     "dist_point_triangle returns a point at squared distance %.6g where the triangle has a point at %.6g (obtuse corner)" % (w13[0][2], w13[0][1]),
                     dict(kind="refutation-replay", cases=[WITNESS13]))
    # refutation replay / known finding: weights of the last boundary scanned (theorem geom_alphas_belong_to_returned_triangle_refuted).
    # Raised once, keyed by the minimal witness; every other instance above was admitted only because the model of the
    # code as it is reproduces the implementation exactly AND the variant keeping the minimum's weights differs.
    w12 = [x for x in stats["stale"] if x[0] == WITNESS12]
    if w12:
        ck.violation(SIG12, "dist_point_geom hands back weights that reconstruct a point %.6g away for a returned distance %.6g (weights of the last boundary scanned, not of the nearest triangle); %d further generated instances of the same mechanism this run" % (w12[0][1], w12[0][2], len(stats["stale"]) - 1),
                     dict(kind="refutation-replay", cases=[WITNESS12]))
    elif stats["stale"] and not replay:
        ck.violation("dist_point_geom stale alphas without the witness", "stale-weights instances were seen (%d) but the minimal witness did not reproduce: corpus line missing or model out of date" % len(stats["stale"]),
                     dict(kind="refutation-replay", cases=[WITNESS12]), found_input=False)
    ck.cov.update(evaluations=len(cases), distinct_nontrivial=len(set(cases)),
                  rule="distinct case lines; triangle cases are aimed at the ten leaves of dpc (interior / 3 edges / vertices via t<0 and t>1), obtuse and thin triangles, points on the surface, degenerate triangles (om_error)",
                  samples=cases[len(cases) // 2:len(cases) // 2 + 3], op_distribution=dist,
                  branch_distribution=stats["branch"], error_outcomes=stats["errors"],
                  fragile_boundary_cases=stats["fragile_boundary"], gallina_oracle_returned_nothing=stats.get('oracle_none', 0), gallina_oracle_vs_python_oracle_disagreements=stats.get('oracle_disagree_python', 0),
                  not_nearest_cases_all_in_refuted_region=len(stats["not_nearest"]),
                  correspondence_mismatches=mism, geometry_electrodes=stats.get('geom_electrodes', 0), soup_geometry_cases=stats.get('soup_geom', 0), stale_weight_instances_explained_by_model=len(stats['stale']), interface_rounding_ties=stats.get('rounding_ties', 0), traces_validated_against_impl=len(cases))
    ck.cov["trusted_base"] += ["hand-written Gallina model coq/Geom/{Danielsson,SensorsModel}.v tied by differential runs (harness/h_c09.cpp vs extracted extract/omm, exact rational instance)",
                               "extraction: ExtrOcamlBasic only", "reference of the nearest-point search: Gallina certifying oracle coq/Geom/ClosestOracleModel.v (sound by theorem closest_oracle_sound); the Python Fraction oracle is kept only as a cross-check and for tie classification"]
    ck.assumptions += ["distances are compared squared in the model (sqrt monotone)",
                       "weights and distances: rational model value vs double within 1e-12 (divisions round); decisions exact"]
    return ck.finish()
