"""C02 - rigid-motion invariance: every gain kind of the moved problem equals that of the original problem.
Proof part: coq/Props/Properties_C02.v (rigid maps, kernel invariance).  Tie / property's own relation on the
implementation: harness/h_c02.cpp (whole pipeline in memory + kernels), lib/headcases.py (cases, motions, bisection)."""
import os, sys, json, math
import core, ombuild, models
import headcases as hc

PROP = "C02"
PROPFILE = "Props/Properties_C02.v"

def motion(rng, diam):
    R = models.rational_quaternion(rng)
    d = models.random_unit(rng); m = rng.uniform(0.0, 3.0) * diam
    return R, tuple(m * c for c in d)

# fixed witnesses (independent of VERIF_SEED): the two model classes whose head matrix is singular on the pinned tree
Q1 = [[x / 30.0 for x in row] for row in ([-20, 4, 22], [20, -10, 20], [10, 28, 4])]      # quaternion (1,2,3,4)/sqrt(30)
WITNESSES = [("witness one-layer sphere (r=1, sigma=1, 42 vertices), quaternion (1,2,3,4), t=(3,-2,1)", "nested1"),
             ("witness non-conductive blob in a sphere (models.inclusions(1,[((0.4,0,0.1),0.3,0)],1)), quaternion (1,2,3,4), t=(3,-2,1)", "nonconductive1")]

EIT_TIE = "witness corpus/C02_eit_tie.json: EIT electrode 2 (radius 0) equidistant from triangles 54 and 51 of a split-hemisphere model"

def witness_case(tag):
    import random
    rng = random.Random(424242)
    for _ in range(200):
        c = hc.make_case(rng, 1, ("nested",) if tag == "nested1" else ("nonconductive",))
        if tag == "nested1" and len(c["model"]["meshes"]) == 1: break
        if tag == "nonconductive1" and len(c["model"]["meshes"]) == 2: break
    m = c["model"]
    m["cond"] = {d: (0.0 if v == 0.0 else 1.0) for d, v in m["cond"].items()}
    return c

def main(replay=None):
    ck = core.Check(PROP, "proof")
    quick = ck.tier != "thorough"
    pf = PROPFILE if os.path.exists(os.path.join(core.COQ, PROPFILE)) else None
    bdir, hb = ck.prepare(pf, "h_c02.cpp")
    hc.clean_axiom_accounting(ck)
    if hb is None: return ck.finish()
    try:
        _run(ck, hb, quick, replay)
    except Exception as e:      # a check never dies: whatever went wrong inside is reported, with the traceback as replay
        import traceback
        ck.violation("check-internal", "the check itself failed (%r): treated as a broken tie, not as a verdict on the property" % (e,),
                     dict(kind="internal", traceback=traceback.format_exc()[-4000:]), found_input=False)
    return ck.finish()

def _run(ck, hb, quick, replay):
    stats = {}
    if replay:
        hc.replay_any(ck, hb, json.load(open(replay)), "moved")
        return
    # 1. fixed witnesses: gains of a model with singular head matrix are frame dependent (known findings, root cause C10)
    for label, tag in WITNESSES:
        c = witness_case(tag)
        lines = ["gains " + hc.write_case(c, os.path.join(ck.workdir, "w_ref")),
                 "gains " + hc.write_case(hc.transform_case(c, Q1, (3.0, -2.0, 1.0)), os.path.join(ck.workdir, "w_mov"))]
        r0, r1 = hc.run_lines(hb, ck.workdir, lines, tag="witness")
        ab = [a for a in (hc.abnormal(r0), hc.abnormal(r1)) if a]
        if ab:
            # not the known finding: the witness could not even be computed in one of the frames
            stats.setdefault("witnesses", []).append(dict(label=label, abnormal=ab))
            ck.violation("witness run abnormal: " + label, "the witness model could not be computed: original frame: %s; moved frame: %s" % (hc.abnormal(r0) or "ok", hc.abnormal(r1) or "ok"),
                         dict(kind="pair", label=label, case=hc.case_to_json(c), transform=hc.tr_dict(Q1, (3.0, -2.0, 1.0), 1.0, 1.0), tol=1e-9, what=""))
            continue
        fails, levels = hc.compare_gains(r0, r1, c)
        cd = hc.cond_of(r0)
        stats.setdefault("witnesses", []).append(dict(label=label, cond=cd, levels=levels))
        if fails:
            ck.violation(label, "gains %s differ between the two frames (relative Frobenius up to %.2e); eigenvalue ratio of the head matrix %.2e: the system is numerically singular (missing deflation, C10), so the computed gain is not a function of the physical problem" %
                         (",".join(f[0] for f in fails), max([v for v in levels.values() if v == v] or [0]), cd or 0),
                         dict(kind="pair", label=label, case=hc.case_to_json(c), transform=hc.tr_dict(Q1, (3.0, -2.0, 1.0), 1.0, 1.0), tol=1e-9, what=""))
    #    and the EIT tie: an electrode whose closest point lies on an edge shared by two triangles (exact tie of the two
    #    distances, decided by rounding) injects its current into a different triangle after the motion
    wp = os.path.join(core.VERIF, "corpus", "C02_eit_tie.json")
    if os.path.exists(wp):
        rp = json.load(open(wp)); c = hc.case_from_json(rp["case"]); tr = rp["transform"]
        mv = hc.transform_case(c, tr["R"], tuple(tr["t"]), tr["s"], tr["k"])
        r0, r1 = hc.run_lines(hb, ck.workdir, ["gains %s dec,eit" % hc.write_case(c, os.path.join(ck.workdir, "w_ref")),
                                              "gains %s dec,eit" % hc.write_case(mv, os.path.join(ck.workdir, "w_mov"))], tag="witness")
        ab = [a for a in (hc.abnormal(r0), hc.abnormal(r1)) if a]
        fails, levels, dec = [], {}, []
        if ab:
            stats.setdefault("witnesses", []).append(dict(label=EIT_TIE, abnormal=ab))
            ck.violation("witness run abnormal: " + EIT_TIE, "the witness model could not be computed: original frame: %s; moved frame: %s" % (hc.abnormal(r0) or "ok", hc.abnormal(r1) or "ok"), rp)
        else:
            fails, levels = hc.compare_gains(r0, r1, c); dec = hc.compare_decisions(r0, r1)
            stats.setdefault("witnesses", []).append(dict(label=EIT_TIE, levels=levels, decisions=[d[2] for d in dec]))
        if fails:
            ck.violation(EIT_TIE, "EIT gains differ between the two frames (GainEIT %.2e, GainEITInternalPot %.2e relative Frobenius): %s" %
                         (levels.get("GainEIT", 0), levels.get("GainEITInternalPot", 0), "; ".join(d[2] for d in dec) or "no decision difference seen"), rp)
    # 2. generated models x motions
    nmod = 18 if quick else 60; nmot = 2 if quick else 4; level = 1
    kinds = ["nested", "capball", "isolated", "nested", "split", "split", "inclusions", "capball", "nonconductive", "isolated", "nested", "inclusions", "capball"]
    items = []
    for n in range(nmod):
        kd = kinds[n % len(kinds)] if n < len(kinds) else ck.rng.choice(kinds)
        lv = level if (quick or n % 6) else 2
        c = hc.make_case(ck.rng, lv, (kd,))
        trs = [motion(ck.rng, 2 * c["R"]) + (1.0, 1.0) for _ in range(nmot)]
        if c["model"]["info"].get("seam") or c["model"]["info"].get("kind") in ("split", "capball"):
            # a pure translation with every component between 1.75 and 3 diameters: coordinate magnitudes change by a large
            # factor in all three coordinates at once (magnitude-dependent vertex identification, absolute/relative tolerances)
            d = 2 * c["R"]; trs.append((None, tuple(ck.rng.choice((-1, 1)) * ck.rng.uniform(1.75, 3.0) * d for _ in range(3)), 1.0, 1.0))
        items.append(("model %d (%s)" % (n, c["model"]["info"]["topology"]), c, trs))
    recs = hc.run_pairs(ck, hb, items, tol=1e-9, stats=stats)
    # 2b. the decision models of Geom/Decisions.v (float instance, extracted) against Geometry::domain / dist_point_geom,
    #     on the generated models and on their first moved copy
    dm_cases = []
    for label, c, trs in items:
        dm_cases.append(c); R, t, s, k = trs[0]; dm_cases.append(hc.transform_case(c, R, t, s, k))
    dm = hc.check_decision_models(ck, hb, dm_cases)
    # 3. kernels on moved arguments
    kdist, kbad = hc.run_kernel_metamorphic(ck, hb, 3000 if quick else 30000, lambda rng, size: motion(rng, 2 * size) + (1.0,), "moved")
    topo = {}
    for r in recs: topo[r["topology"]] = topo.get(r["topology"], 0) + 1
    topo["pairs_with_an_inward_wound_mesh_(orientation_repair)"] = sum(1 for r in recs if r.get("flipped"))
    nontriv = sum(1 for r in recs if not r["singular"] and r["levels"])
    ck.cov.update(evaluations=len(recs) + sum(kdist.values()), distinct_nontrivial=nontriv + sum(kdist.values()),
                  rule="pairs (model, rigid motion) with a well-conditioned head matrix whose gains were all compared at 1e-9 relative Frobenius, plus kernel calls on random arguments vs moved arguments; distinct = distinct generated inputs",
                  samples=[dict(label=r["label"], cond=r.get("cond"), levels=r["levels"]) for r in recs[:3]],
                  op_distribution=dict(topologies=topo, kernels=kdist), measured_rounding_level=stats.get("level", {}),
                  singular_pairs_compared_at_operator_level=stats.get("singular", 0), nearest_triangle_ties=stats.get("nearest_ties", 0),
                  witnesses=stats.get("witnesses", []), kernel_mismatches=kbad, decision_model_correspondence=dm, traces_validated_against_impl=len(recs) + sum(kdist.values()))
    ck.cov["selfcheck_verdict_flips"] = len(hc.SELFCHECK_FLIPS)   # raised as decision violations, see headcases.compare_decisions
    ck.cov["trusted_base"] += ["extraction (ExtrOcamlBasic only) of Geom/RunC02.v and the OCaml float record, for the decision-model correspondence",
                               "C++ harness harness/h_c02.cpp (calls HeadMat, invert, DipSourceMat, Head2EEGMat, Head2ECoGMat, Head2MEGMat, DipSource2MEGMat, Surf2VolMat, DipSource2InternalPotMat, EITSourceMat, SurfSourceMat, SurfSource2MEGMat and the Gain* classes of the rebuilt working tree)",
                               "Python generators lib/models.py, lib/headcases.py (models written at 17 significant digits)"]
    ck.assumptions += ["rounding is measured, not proved: tolerance 1e-9 relative Frobenius on gains (measured level reported in coverage.measured_rounding_level)",
                       "models whose head matrix is numerically singular (eigenvalue ratio > 1e12) are compared operator by operator instead of by gains"]
