"""C10 — algebraic structure of the head matrix: model of Details::HeadMatrix / deflate / operators.h blocks over
abstract kernels (coq/Geom/Assembly.v) against the real assembly on generated head models."""
import os, sys, json, math, time
import core, ombuild, models
import c10_ops

PROP = "C10"

# ---------------------------------------------------------------- model generation
def sig(rng):
    return math.exp(rng.uniform(math.log(0.01), math.log(100.0))) if rng.random() < 0.5 else rng.choice([1.0, 0.0125, 0.33, 1.79])

def make_model(rng, kind, level):
    """returns (model dict, old_ordering_allowed)"""
    if kind.startswith("nested"):
        n = int(kind[6:]); radii = [1.0]
        for _ in range(n - 1): radii.insert(0, radii[0] * rng.uniform(0.6, 0.9))
        return models.nested(radii, [sig(rng) for _ in range(n)], level), True
    if kind == "split0z":   # ball cut by a disc, SOUTH and Air non-conductive: `south` is excluded and shares the equator rim with `north` and `cut`
        return models.split_hemispheres(1.0, [], (sig(rng), 0.0), [], level), False
    if kind.startswith("split"):
        k = int(kind[5:]); ro = [1.0 * (1.2 ** (i + 1)) for i in range(k)]
        return models.split_hemispheres(1.0, ro, (sig(rng), sig(rng)), [sig(rng) for _ in range(k)], level), False
    if kind == "siblings":
        return models.inclusions(1.0, [((0.45, 0, 0), 0.3, sig(rng)), ((-0.45, 0.1, 0), 0.3, sig(rng))], sig(rng), level), False
    if kind == "hole":      # interior non-conductive domain: the blob is a current barrier
        return models.inclusions(1.0, [((0.4, 0, 0.1), 0.3, 0.0)], sig(rng), level), False
    if kind == "hole+blob":
        return models.inclusions(1.0, [((0.4, 0, 0.1), 0.3, 0.0), ((-0.45, 0, 0), 0.25, sig(rng))], sig(rng), level), False
    if kind == "shell0":    # nested with a non-conductive middle layer: two unrelated parts, one of them a single mesh
        m = models.nested([0.5, 0.7, 1.0], [sig(rng), 0.0, sig(rng)], level); return m, True
    if kind == "shell00":   # two adjacent non-conductive layers: the mesh between them is isolated
        m = models.nested([0.4, 0.6, 0.8, 1.0], [sig(rng), 0.0, 0.0, sig(rng)], level); return m, True
    raise ValueError(kind)

KINDS = ["nested1", "nested2", "nested3", "nested4", "split0", "split0z", "split1", "split2", "siblings", "hole", "hole+blob", "shell0", "shell00"]

# ---------------------------------------------------------------- comparison
def packed(n, i, j):
    if i > j: i, j = j, i
    return i + j * (j + 1) // 2

def compare_packed(mo, im, n, rel=1e-11):
    """model vs implementation, packed upper storage.  Exact zero pattern; values at the rounding class relative to
    the largest magnitude of the two rows involved.  Returns list of (i,j,model,impl)."""
    bad = []
    if len(mo) != len(im): return [(-1, -1, len(mo), len(im))]
    rowmax = [0.0] * n
    k = 0
    for j in range(n):
        for i in range(j + 1):
            a = abs(mo[k]);
            if a > rowmax[i]: rowmax[i] = a
            if a > rowmax[j]: rowmax[j] = a
            k += 1
    k = 0
    for j in range(n):
        for i in range(j + 1):
            a, b = mo[k], im[k]; k += 1
            if a == b: continue
            if a != a or b != b or a == 0.0 or b == 0.0 or abs(a - b) > rel * max(rowmax[i], rowmax[j]):
                bad.append((i, j, a, b))
    return bad

def describe_entry(shape_ints, i, j):
    """which vertices / triangles (mesh, local number) carry unknown indices i and j"""
    z = shape_ints; p = 0
    nv = z[p]; p += 1; vix = z[p:p + nv]; p += nv
    nm = z[p]; p += 1
    out = {i: [], j: []}
    for m in range(nm):
        nvm = z[p]; p += 1; vs = z[p:p + nvm]; p += nvm
        for k, v in enumerate(vs):
            if vix[v] in out: out[vix[v]].append("vertex %d (#%d of mesh %d)" % (v, k, m))
        nt = z[p]; p += 1
        for k in range(nt):
            a, b, c, ix = z[p:p + 4]; p += 4
            if ix in out: out[ix].append("triangle #%d of mesh %d (vertices %d %d %d)" % (k, m, a, b, c))
        p += 3
    return "row %d = %s; column %d = %s" % (i, " / ".join(out[i]) or "?", j, " / ".join(out[j]) or "?")

# ---------------------------------------------------------------- running
def write_models(ck, specs):
    """specs: list of (kind, level, old, seed) -> writes ./m<k>/ into the workdir"""
    import random
    infos = []
    for k, (kind, level, old, seed) in enumerate(specs):
        rng = random.Random(seed)
        m, _ = make_model(rng, kind, level)
        models.write_model(m, os.path.join(ck.workdir, "m%d" % k), fmt="tri")
        c10_ops.write_extras(random.Random(seed + 1), kind, m, os.path.join(ck.workdir, "m%d" % k))
        infos.append(m)
    return infos

def assemble_cases(ck, hb, specs, ids):
    """op 1 on the harness, then the model on the dumped indexed geometry + kernels. yields per-model results"""
    cases = ["c10 1 %d %d" % (k, 1 if specs[k][2] else 0) for k in ids]
    rc, io, err = core.run_harness(hb, cases, ck.workdir, timeout=900)
    res = []
    mcases = []; keep = []
    for k, line in zip(ids, io):
        zi, fi = core.fparse(line)
        if zi is not None and zi and zi[0] == 1 and len(zi) > 4:      # HeadMat hit an om_assert: the indexed geometry is still there
            res.append(dict(id=k, status="impl-error", line="om_assert in HeadMat", shape=zi[1:-1])); continue
        if zi is None or not zi or zi[0] != 0:
            res.append(dict(id=k, status="impl-error", line=line[:200])); continue
        n = zi[-1]; shape = zi[1:-1]; nh = n * (n + 1) // 2
        kern = fi[:len(fi) - nh]; H = fi[len(fi) - nh:]
        mcases.append(core.fcase("c10", [1] + shape, kern)); keep.append((k, shape, H, n))
        res.append(None)
    mo = core.run_model(mcases) if mcases else []
    it = iter(zip(keep, mo))
    for idx in range(len(res)):
        if res[idx] is not None: continue
        (k, shape, H, n), mline = next(it)
        zm, fm = core.fparse(mline)
        res[idx] = dict(id=k, shape=shape, H=H, n=n, mz=zm, mf=fm, status="ok")
    return res

def invalid_vertices_of_participating_meshes(z):
    """(mesh, vertex, index) for vertices of non-isolated meshes whose unknown index is not a row of the head matrix"""
    p = 0; nv = z[p]; p += 1; vix = z[p:p + nv]; p += nv
    nm = z[p]; p += 1; meshes = []
    for m in range(nm):
        nvm = z[p]; vs = z[p + 1:p + 1 + nvm]; p += 1 + nvm; nt = z[p]; p += 1 + 4 * nt
        fl = z[p:p + 3]; p += 3; meshes.append((vs, fl))
    npairs = z[p]; p += 1 + 3 * npairs
    nparts = z[p]; p += 1
    for _ in range(nparts): p += 1 + z[p]
    dim = z[p] - z[p + 1]
    return [(m, v, vix[v]) for m, (vs, fl) in enumerate(meshes) if not fl[2] for v in vs if not (0 <= vix[v] < dim)], dim

def rows_of_excluded_vertices(z):
    """vertices that belong to isolated (excluded) meshes only and nevertheless carry an unknown, and the number of rows
    of the potential block: "one row per non-excluded vertex" read from right to left (seeded C10-16)"""
    p = 0; nv = z[p]; p += 1; vix = z[p:p + nv]; p += nv
    nm = z[p]; p += 1; meshes = []
    for m in range(nm):
        nvm = z[p]; vs = z[p + 1:p + 1 + nvm]; p += 1 + nvm; nt = z[p]; p += 1 + 4 * nt
        fl = z[p:p + 3]; p += 3; meshes.append((vs, fl))
    used = set(v for vs, fl in meshes if not fl[2] for v in vs)
    listed = set(v for vs, fl in meshes for v in vs)
    return [(v, vix[v]) for v in sorted(listed - used) if vix[v] != 4294967295]

def shape_summary(z):
    p = 0; nv = z[p]; p += 1; vix = z[p:p + nv]; p += nv
    nm = z[p]; p += 1; meshes = []
    for m in range(nm):
        nvm = z[p]; v0 = z[p + 1] if nvm else None; p += 1 + nvm; nt = z[p]; p += 1; tix = [z[p + 4 * k + 3] for k in range(nt)]; p += 4 * nt
        fl = z[p:p + 3]; p += 3
        meshes.append(dict(nv=nvm, nt=nt, outer=fl[0], barrier=fl[1], isolated=fl[2], tix0=tix[0] if tix else None, vix_first=vix[v0] if v0 is not None else None))
    npairs = z[p]; p += 1; pairs = [tuple(z[p + 3 * k:p + 3 * k + 3]) for k in range(npairs)]; p += 3 * npairs
    nparts = z[p]; p += 1; parts = []
    for _ in range(nparts):
        l = z[p]; p += 1; parts.append(z[p:p + l]); p += l
    return dict(nv=nv, invalid=sum(1 for x in vix if x == 4294967295), vix0=vix[0] if vix else None, meshes=meshes, pairs=pairs, parts=parts,
                nparams=z[p], nbarrier=z[p + 1])

def main(replay=None):
    ck = core.Check(PROP, "proof")
    quick = ck.tier != "thorough"
    bdir, hb = ck.prepare("Props/Properties_C10.v", "h_c10.cpp")
    if hb is None or not os.path.exists(os.path.join(core.EXTRACT, "omm")):
        return ck.finish()
    rng = ck.rng
    # ---- specs
    if replay:
        rp = json.load(open(replay)); specs = [tuple(s) for s in rp.get("specs", [])]
    else:
        specs = []
        cp = os.path.join(core.VERIF, "corpus", "C10.txt")
        if os.path.exists(cp):
            for l in open(cp):
                t = l.split()
                if len(t) == 4 and not l.startswith("#"): specs.append((t[0], int(t[1]), t[2] != "0", int(t[3])))
        for kind in KINDS:                      # values tie on small meshes (12/18 vertices): every topology, both orderings
            old_ok = kind.startswith("nested") or kind.startswith("shell")
            specs.append((kind, 0, False, rng.randrange(1 << 30)))
            if old_ok: specs.append((kind, 0, True, rng.randrange(1 << 30)))
        big = ["nested1", "nested3", "split1", "hole+blob", "shell0"] if quick else KINDS
        for kind in big:                        # 42-vertex meshes
            old_ok = kind.startswith("nested") or kind.startswith("shell")
            specs.append((kind, 1, old_ok and rng.random() < 0.5, rng.randrange(1 << 30)))
        # excluded (isolated) meshes on the symmetric 42-vertex spheres, default ordering: the bookkeeping of excluded vertices
        # (an ordered set keyed by coordinates) is exercised with many equal and zero coordinates (seeded C10-16)
        specs.append(("shell00", 1, False, rng.randrange(1 << 30)))
    write_models(ck, specs)
    ids = list(range(len(specs)))
    t0 = time.time()
    res = assemble_cases(ck, hb, specs, ids)
    dist = {}; nentries = 0; maxdev = 0.0; samples = []; sentinel_cases = []
    for r in res:
        kind, level, old, seed = specs[r["id"]]
        dist["%s/L%d/%s" % (kind, level, "old" if old else "new")] = dist.get("%s/L%d/%s" % (kind, level, "old" if old else "new"), 0) + 1
        if r["status"] != "ok" and r.get("shape"):
            badv, dimz = invalid_vertices_of_participating_meshes(r["shape"])
            if badv:
                ck.violation("indices: vertex of a participating mesh without a row (%s)" % kind,
                             "%s: HeadMat fails with an om_assert; %d vertices of meshes that take part in the computation have no valid unknown index (first: mesh %d vertex %d index %d, dimension nb_parameters-nb_current_barrier_triangles = %d); theorem participating_mesh_vertices_have_rows" % (kind, len(badv), badv[0][0], badv[0][1], badv[0][2], dimz),
                             dict(kind="indices", specs=[specs[r["id"]]], bad=badv[:10]))
        if r["status"] != "ok":
            ck.violation("assembly: implementation failed on %s" % kind, "HeadMat threw on a valid generated model (%s): %s" % (kind, r.get("line")),
                         dict(kind="correspondence", specs=[specs[r["id"]]]))
            continue
        summ = shape_summary(r["shape"])
        badv, dimz = invalid_vertices_of_participating_meshes(r["shape"])
        if badv:
            ck.violation("indices: vertex of a participating mesh without a row (%s)" % kind,
                         "%s: %d vertices of meshes that take part in the computation have no valid unknown index (first: mesh %d vertex %d index %d, dimension %d); theorem participating_mesh_vertices_have_rows" % (kind, len(badv), badv[0][0], badv[0][1], badv[0][2], dimz),
                         dict(kind="indices", specs=[specs[r["id"]]], bad=badv[:10]))
        exv = rows_of_excluded_vertices(r["shape"]) if not old else []     # OLD_ORDERING numbers every vertex reference, excluded ones included
        if exv:
            ck.violation("indices: excluded vertex with a row (%s)" % kind,
                         "%s: %d vertices that belong only to isolated (excluded) meshes carry an unknown (first: vertex %d index %d): rows that no operator fills - the head matrix has one row per NON-excluded vertex (headmat_dimension)" % (kind, len(exv), exv[0][0], exv[0][1]),
                         dict(kind="indices", specs=[specs[r["id"]]], bad=exv[:10]))
        # hypothesis of deflate_applied_to_every_conductive_component, checked on the real bookkeeping
        for km, mm in enumerate(summ["meshes"]):
            if mm["outer"] and not mm["isolated"] and not any(km in part for part in summ["parts"]):
                ck.violation("deflate: outermost mesh in no part (%s)" % kind,
                             "mesh %d of %s is outermost and not isolated but belongs to no isolated part: deflate() skips it and (theorem single-mesh component) every row of its component sums to zero" % (km, kind),
                             dict(kind="parts", specs=[specs[r["id"]]], mesh=km, parts=summ["parts"]))
        # the i_first==0 sentinel: does it pick the first vertex of another mesh here?
        for part in summ["parts"]:
            firsts = [summ["meshes"][km]["vix_first"] for km in part if summ["meshes"][km]["outer"]]
            if firsts and firsts[0] == 0 and any(x != 0 for x in firsts): sentinel_cases.append("%s/%s" % (kind, "old" if old else "new"))
        if len(samples) < 3: samples.append(dict(spec=list(specs[r["id"]]), n=r["n"], summary={k: summ[k] for k in ("nv", "invalid", "pairs", "parts", "nparams", "nbarrier")}))
        if r["mz"][0] != 0:
            ck.violation("assembly: model rejects %s" % kind, "the model flags an out-of-range access where the implementation succeeds (%s)" % kind,
                         dict(kind="correspondence", specs=[specs[r["id"]]]), found_input=True); continue
        if r["mz"][1] != r["n"]:
            ck.violation("dimension: %s" % kind, "head matrix dimension %d differs from the model's %d (%s)" % (r["n"], r["mz"][1], kind),
                         dict(kind="dimension", specs=[specs[r["id"]]])); continue
        bad = compare_packed(r["mf"], r["H"], r["n"])
        nentries += len(r["H"])
        if bad:
            i, j, a, b = bad[0]
            ck.violation("assembly: entry differs (%s, %s ordering)" % (kind, "old" if old else "new"),
                         "HeadMat entry (%d,%d) = %r but the model of the symmetric-BEM assembly (proved structure, same kernels) gives %r; %d entries differ; %s"
                         % (i, j, b, a, len(bad), describe_entry(r["shape"], i, j)),
                         dict(kind="correspondence", specs=[specs[r["id"]]], entry=[i, j], model=a, impl=b, ndiff=len(bad)))
    # ---- (b) N from an injected integer S through the private templates, areas = powers of two: exact
    small = [k for k in ids if specs[k][1] == 0]
    ncases = []
    for k in small:
        r = res[k]
        if r["status"] != "ok": continue
        npairs = len(shape_summary(r["shape"])["pairs"])
        if replay and "pair" in rp:          # exactly the stored N-block case
            ncases.append((k, rp["pair"], rp.get("sseed", 0))); continue
        for pk in sorted(rng.sample(range(npairs), min(npairs, 2 if quick else npairs))):
            ncases.append((k, pk, rng.randrange(1000)))
    lines = ["c10 2 %d %d %d %d" % (k, 1 if specs[k][2] else 0, pk, sd) for k, pk, sd in ncases]
    rc, io, err = core.run_harness(hb, lines, ck.workdir, timeout=900, tag="ncases")
    mcases = []; keepn = []
    for (k, pk, sd), line in zip(ncases, io):
        zi, fi = core.fparse(line)
        if zi is None or zi[0] != 0:
            ck.violation("N block: implementation failed", "N(coeff,S,matrix) threw for pair %d of %s: %s" % (pk, specs[k][0], line[:100]),
                         dict(kind="nblock", specs=[specs[k]], pair=pk, sseed=sd)); continue
        np_ = zi[-1]; nh = np_ * (np_ + 1) // 2
        mcases.append(core.fcase("c10", [2] + zi[1:-1], fi[:len(fi) - nh])); keepn.append((k, pk, sd, zi[1:-2], fi[len(fi) - nh:], np_))
    mo = core.run_model(mcases) if mcases else []
    nblock_entries = 0
    for (k, pk, sd, shape, H, np_), mline in zip(keepn, mo):
        zm, fm = core.fparse(mline)
        bad = compare_packed(fm, H, np_, rel=1e-13)
        nblock_entries += len(H)
        if bad:
            i, j, a, b = bad[0]
            ck.violation("N block: value differs (%s)" % specs[k][0],
                         "N computed from an injected integer S (pair %d of %s, S seed %d): entry (%d,%d) = %r, the model of operators.h:131-146 gives %r; %d entries differ; %s"
                         % (pk, specs[k][0], sd, i, j, b, a, len(bad), describe_entry(shape, i, j)),
                         dict(kind="nblock", specs=[specs[k]], pair=pk, sseed=sd, entry=[i, j], model=a, impl=b))
    # ---- widened: the other assembly functions (library kernels), then everything with injected integer kernels
    hbs = None
    try:
        hbs = os.path.join(bdir, "h_c10s")
        srcs = os.path.join(core.VERIF, "harness", "h_c10s.cpp")
        deps = [srcs, os.path.join(core.VERIF, "harness", "c10_ops.h"), os.path.join(core.VERIF, "harness", "wire.h")]
        if not os.path.exists(hbs) or os.path.getmtime(hbs) < max(os.path.getmtime(d) for d in deps):
            ombuild.build_harness(bdir, srcs, hbs, extra=["-I%s/OpenMEEG/src" % ombuild.REPO])
    except RuntimeError as e:
        ck.violation("harness-build (injected kernels)", "assembleHeadMat.cpp / assembleSourceMat.cpp / operators.h no longer compile with synthetic kernel classes: %s" % e,
                     dict(kind="build", error=str(e)), found_input=False); hbs = None
    desc = lambda z, i, j: describe_entry(z[1:-1], i, j)
    okids = [k for k in small if res[k]["status"] == "ok"]
    n_ops, e_ops, err_ops = c10_ops.run_ops(ck, hb, specs, okids, [4, 5, 6, 7, 8], False, 1e-11, compare_packed, desc)
    n_syn = e_syn = 0; err_syn = []
    if hbs:
        n_syn, e_syn, err_syn = c10_ops.run_ops(ck, hbs, specs, okids, [9, 4, 5, 7], True, 1e-13, compare_packed, desc)
    # ---- one loaded Geometry, finalize() again with the other ordering(s): dimension and matrix as for a fresh load
    lines = ["c10 10 %d %d" % (k, 1 if (specs[k][0].startswith("nested") or specs[k][0].startswith("shell")) else 0) for k in ids]
    rc, io, err = core.run_harness(hb, lines, ck.workdir, timeout=900, tag="refinalize")
    refinalize_steps = 0
    for k, line in zip(ids, io):
        kind = specs[k][0]; rp = dict(kind="refinalize", specs=[list(specs[k])])
        zi, fi = core.fparse(line)
        if zi is None or zi[0] != 0:
            ck.violation("finalize again: harness failed (%s)" % kind, "re-finalizing the loaded geometry of %s failed: %s" % (kind, line[:100]), rp); continue
        for st in range(zi[1]):
            o, status, expect, dim, fdim, eq = zi[2 + 6 * st: 8 + 6 * st]; refinalize_steps += 1
            if status != 0 or dim != fdim or expect != fdim or not eq:
                ck.violation("finalize again: head matrix differs from a fresh load (%s)" % kind,
                             "%s: after %d finalize() call(s) on the same loaded Geometry (last with OLD_ORDERING=%d) nb_parameters-nb_current_barrier_triangles = %d and HeadMat %s, while a fresh load with that ordering gives dimension %d%s"
                             % (kind, st + 1, o, expect, ("throws (status %d)" % status) if status else ("has dimension %d" % dim), fdim, "" if status or dim != fdim else " and a different matrix"),
                             dict(rp, step=st, old=o, expect=expect, dim=dim, fresh=fdim)); break
    # ---- (c) numeric spec checks (measured): potential row sums, conditioning after deflation, A*inv(A)=I
    lines = ["c10 3 %d %d" % (k, 1 if specs[k][2] else 0) for k in ids]
    extra = []
    h1 = os.path.join(ombuild.REPO, "data", "Head1")
    if not replay and os.path.exists(os.path.join(h1, "Head1_1_layer.geom")):
        with open(os.path.join(ck.workdir, "paths.txt"), "w") as fh:
            fh.write("%s %s\n" % (os.path.join(h1, "Head1_1_layer.geom"), os.path.join(h1, "Head1_1_layer.cond")))
        lines.append("c10 3 -1 0"); extra.append("Head1_1_layer")
    rc, io, err = core.run_harness(hb, lines, ck.workdir, timeout=900, tag="numeric")
    numeric = []
    for idx, line in enumerate(io):
        name = ("%s/L%d/%s" % (specs[idx][0], specs[idx][1], "old" if specs[idx][2] else "new")) if idx < len(ids) else extra[idx - len(ids)]
        kind = specs[idx][0] if idx < len(ids) else extra[idx - len(ids)]
        rp = dict(kind="numeric", specs=[specs[idx]] if idx < len(ids) else [], model=name)
        zi, fi = core.fparse(line)
        if zi is None or zi[0] != 0:
            ck.violation("numeric: implementation failed on %s" % kind, "HeadMat/SVD/invert failed on %s: %s" % (name, line[:100]), rp); continue
        n, npot, ndefl, nparts, nmesh, ncav, changed, nzero = zi[1:9]; worst, smin, smax, resid, cav, resid_ip, routes, sres, serr = fi
        numeric.append(dict(model=name, n=n, potentials=npot, deflated_rows=ndefl, parts=nparts, rowsum_rel=worst, smin=smin, smax=smax, resid=resid,
                            resid_invert_in_place=resid_ip, inverse_vs_invert=routes, solveLin_residual=sres, solveLin_error=serr, receiver_changed=changed, zero_rows=nzero,
                            cavity_walls=ncav, cavity_indicator_residual=cav))
        if changed & 1:
            ck.violation("inverse: A.inverse() const modifies A (%s)" % kind,
                         "after `Ainv = A.inverse()` on the head matrix of %s the object A is no longer bitwise the matrix it was (a const method), and max|A*Ainv-I| computed with the same A is %.3g" % (name, resid), rp)
        if changed & 2:
            ck.violation("solveLin: modifies A (%s)" % kind, "SymMatrix::solveLin changed the matrix it was called on (%s)" % name, rp)
        if smin > 1e-10 * smax:
            cond = smax / smin
            if not (0 <= resid_ip < 1e-9 * cond):
                ck.violation("inverse: in-place invert() (%s)" % kind, "B = copy(A); B.invert(): |A*B-I|max = %.3g exceeds 1e-9*cond (cond %.3g) on %s" % (resid_ip, cond, name), rp)
            if not (0 <= routes < 1e-9 * cond):
                ck.violation("inverse: inverse() and invert() disagree (%s)" % kind, "A.inverse() and invert() on a copy differ by %.3g relative on %s" % (routes, name), rp)
            if not (0 <= sres < 1e-9 * cond and 0 <= serr < 1e-9 * cond):
                ck.violation("solveLin: residual (%s)" % kind, "SymMatrix::solveLin (Vector / Matrix / Vector* forms) on %s: |A x - b|/|b| = %.3g, |x - x0|/|x0| = %.3g, bound 1e-9*cond = %.3g" % (name, sres, serr, 1e-9 * cond), rp)
        if ncav > 0 and cav > 1e-9:
            ck.violation("cavity wall: indicator not in the kernel (%s)" % kind,
                         "%s has %d current-barrier mesh(es) that deflate never touches, but |A*1_W|/max|A| = %.3g: theorem cavity_wall_indicator_in_kernel predicts 0 (Gauss' law for the D kernel or the block structure no longer holds)" % (name, ncav, cav), rp)
        if worst > 1e-9:
            ck.violation("row sums: %s" % kind, "a potential row off the deflated outer surfaces does not sum to zero over the potential columns on %s: |sum|/sum|.| = %.3g (theorem potential_rows_sum_zero_off_outer)" % (name, worst), rp)
        if not (smin > 1e-10 * smax):
            ordering = "old ordering" if (idx < len(ids) and specs[idx][2]) else "default ordering"
            ratio = smin / smax if smax else 0.0
            if nzero > 0:
                ck.violation("singular head matrix: all-zero rows (%s, %s)" % (kind, ordering),
                             "the head matrix of %s has %d all-zero rows (unknowns that no block ever writes): sigma_min/sigma_max = %.3g" % (name, nzero, ratio), rp)
            elif ncav > 0 or nparts == 0:
                what = "no part at all: the component bounded by a single mesh is skipped" if nparts == 0 else "%d part(s), %d of %d potential rows regularised, %d current-barrier mesh(es) never deflated" % (nparts, ndefl, npot, ncav)
                ck.violation("singular head matrix: %s" % kind,
                             "the head matrix of %s is singular at rounding level after deflation: sigma_min/sigma_max = %.3g (%s)" % (name, ratio, what), rp)
            else:
                ck.violation("singular head matrix without a cavity wall: %s" % kind,
                             "the head matrix of %s is singular (sigma_min/sigma_max = %.3g) although every current-barrier mesh is deflated and no row is empty: not explained by cavity_wall_indicator_in_kernel" % (name, ratio), rp)
        elif not (resid >= 0 and resid < 1e-9 * (smax / smin)):
            ck.violation("inverse: %s" % kind, "|A*inv(A)-I|max = %.3g exceeds 1e-9*cond (cond %.3g) on %s" % (resid, smax / smin, name), rp)
    ck.cov.update(evaluations=len(specs), distinct_nontrivial=len(set(specs)),
                  rule="generated head models (nested 1-4, split hemispheres with shared vertices, sibling inclusions, non-conductive inclusions/layers, random sigma, both orderings); distinct = distinct (topology, level, ordering, seed)",
                  samples=samples, op_distribution=dist, entries_compared=nentries, nblock_cases=len(ncases), nblock_entries_compared=nblock_entries,
                  numeric_measured=numeric, refinalize_steps=refinalize_steps, ops_cases=n_ops, ops_entries_compared=e_ops, ops_assert_outcomes=err_ops,
                  injected_kernel_cases=n_syn, injected_kernel_entries_compared=e_syn, injected_kernel_assert_outcomes=err_syn, ifirst_sentinel_picks_other_mesh=sentinel_cases, traces_validated_against_impl=len(specs) + len(ncases))
    ck.assumptions += [
        "wf_indexed (index bijection of the dumped geometry): Section hypothesis of the structural theorems, discharged for every geometry accepted by finalize (default ordering) by C11's bridge coq/Geom/IndexBridgeC10.v",
        "cavity_wall_indicator_in_kernel: Gauss' law for the abstract D kernel on the cavity wall seen from its partner meshes (hypothesis W_gauss), no shared vertices with the wall; replayed numerically on the real matrices",
        "inside one N block of the head matrix the model reads S from the matrix as it was at block start (equal to the live reads when no vertex index equals a triangle index)",
        "kernels (analyticS, analyticD3, Integrator) are abstract in the theorems; the ties run them as library code and as injected integer-valued classes compiled into operators.h / assembleHeadMat.cpp / assembleSourceMat.cpp",
        "invertibility after deflation and |A*inv(A)-I| are measured (SVD, SymMatrix::invert), not proved"]
    ck.cov["trusted_base"] += ["hand-written Gallina models coq/Geom/{Assembly,AssemblyOps}.v tied by entry-by-entry runs (harness/h_c10.cpp, h_c10s.cpp vs extracted extract/omm)",
                               "extraction: ExtrOcamlBasic only; OCaml float record of extract/prelude.ml", "C++ harnesses, lib/models.py generators",
                               "Reals axioms of the Coq standard library (R-instance theorems); MathComp file closed under the global context"]
    return ck.finish()
