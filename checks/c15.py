"""C15 - meshes survive a save/load round trip and keep their orientation.

Model: coq/Geom/MeshCodec.v (+MeshCodecProofs.v), theorems coq/Props/Properties_C15.v, entry point coq/Geom/RunC15.v.
Tie: the extracted model and harness/h_c15.cpp (compiled against the scratch build of the working tree) get the same
mesh; structure is compared exactly, coordinates bit-exactly against the rnd images computed here
(text: float('%.6g' % x), .mesh: float32).  The files the writers produce are compared token by token /
byte by byte with the model's streams.  The property's own relation (mesh before vs mesh after) is evaluated on the
implementation's output directly."""
import os, sys, json, struct, math, time, subprocess
import core, ombuild, gen, models

PROP = "C15"
FMT = ["tri", "off", "bnd", "mesh", "vtk"]
NORMALS = {0, 3, 4}           # writers that call mesh.normal(vertex)
WORDS = {0: "-", 1: "OFF", 2: "#", 3: None, 4: "Type=", 5: "Unknown", 6: "NumberPositions=", 7: "UnitPosition", 8: "mm",
         9: "Positions", 10: "NumberPolygons=", 11: "TypePolygons=", 12: "Polygons",
         20: "vtk", 21: "DataFile", 22: "Version", 23: "2.0", 24: "Mesh", 25: "file", 26: "generated", 27: "by",
         28: "OpenMEEG", 29: "ASCII", 30: "DATASET", 31: "POLYDATA", 32: "POINTS", 33: "float", 34: "POLYGONS",
         35: "CELL_DATA", 36: "POINT_DATA", 37: "NORMALS", 38: "normals"}

# ---------------------------------------------------------------- coordinates
def bits(x): return struct.unpack("<Q", struct.pack("<d", x))[0]
def unbits(b): return struct.unpack("<d", struct.pack("<Q", b))[0]
def hl(x): b = bits(x); return [b >> 32, b & 0xffffffff]
def rnd6(x): return float("%.6g" % x)
def rnd32(x): return struct.unpack("<f", struct.pack("<f", x))[0]
def rnd_of(fmt): return rnd32 if fmt == 3 else rnd6

def table(values, f):
    seen = {}; w = []
    for x in values:
        b = bits(x)
        if b in seen: continue
        seen[b] = 1
        y = f(x)
        if bits(y) != b: w += hl(x) + hl(y)        # the model's table is the identity outside its entries
    return [len(w) // 4] + w

def mesh_wire(vs, ts):
    w = [len(vs)]
    for v in vs:
        for c in v: w += hl(c)
    w.append(len(ts))
    for t in ts: w += list(t)
    return w

def allcoords(vs): return [c for v in vs for c in v]

# ---------------------------------------------------------------- mesh generators
def disc(n):
    vs = [(0.0, 0.0, 0.0)] + [(math.cos(2 * math.pi * k / n), math.sin(2 * math.pi * k / n), 0.1 * (k % 2)) for k in range(n)]
    ts = [(0, 1 + k, 1 + (k + 1) % n) for k in range(n)]
    return vs, ts

def patch(rng, w, h):
    vs = [(float(i) + 0.3 * rng.random(), float(j) + 0.3 * rng.random(), rng.random()) for j in range(h + 1) for i in range(w + 1)]
    ts = []
    for j in range(h):
        for i in range(w):
            a = j * (w + 1) + i; b = a + 1; c = a + w + 1; d = c + 1
            if rng.random() < 0.5: ts += [(a, b, d), (a, d, c)]
            else: ts += [(a, b, c), (b, d, c)]
    if rng.random() < 0.4 and len(ts) > 2:          # punch a hole
        del ts[rng.randrange(len(ts))]
    return vs, ts

def hemisphere(level, upper=True):
    vs, ts = models.octasphere(level)
    keep = (lambda t: sum(vs[a][2] for a in t) > 0) if upper else (lambda t: sum(vs[a][2] for a in t) < 0)
    return models.submesh(vs, ts, keep)

def base_mesh(rng, big=False):
    k = rng.choice(["ico0", "ico0", "ico1", "octa1", "hemi", "hemi", "disc", "disc", "patch", "patch", "patch", "tetra", "one"] + (["ico2", "octa2"] if big else []))
    if k == "ico0": vs, ts = models.icosphere(0)
    elif k == "ico1": vs, ts = models.icosphere(1)
    elif k == "ico2": vs, ts = models.icosphere(2)
    elif k == "octa1": vs, ts = models.octasphere(1)
    elif k == "octa2": vs, ts = models.octasphere(2)
    elif k == "hemi": vs, ts = hemisphere(rng.choice([0, 1]), rng.random() < 0.5)
    elif k == "disc": vs, ts = disc(rng.randint(3, 9))
    elif k == "patch": vs, ts = patch(rng, rng.randint(1, 4), rng.randint(1, 3))
    elif k == "tetra": vs, ts = [(0, 0, 0), (1, 0, 0), (0, 1, 0), (0, 0, 1)], [(0, 2, 1), (0, 1, 3), (1, 2, 3), (2, 0, 3)]
    else: vs, ts = [(0, 0, 0), (1, 0, 0), (0, 1, 0)], [(0, 1, 2)]
    return k, [tuple(float(c) for c in v) for v in vs], [tuple(t) for t in ts]

def gen_mesh(rng, big=False, allow_bad=True):
    """returns (tags, vs, ts).  tags name the features the proofs split on."""
    kind, vs, ts = base_mesh(rng, big)
    tags = [kind]
    # magnitude, sign, generic digits
    mag = 10.0 ** rng.randint(-6, 6); tags.append("mag%+d" % round(math.log10(mag)))
    sx, sy, sz = (rng.choice([1, 1, -1]) for _ in range(3))
    cx, cy, cz = ((rng.random() - 0.5) * 4 * mag * rng.choice([0, 1, 1]) for _ in range(3))
    jit = rng.choice([0.0, 1e-3, 1e-3])
    vs = [((v[0] * (1 + jit * rng.random())) * sx * mag + cx, (v[1] * (1 + jit * rng.random())) * sy * mag + cy,
           (v[2] * (1 + jit * rng.random())) * sz * mag + cz) for v in vs]
    if sx * sy * sz < 0: ts = [(a, c, b) for a, b, c in ts]          # keep the winding outward after a mirror
    # winding
    c = rng.random()
    if c < 0.3: ts = [(a, c_, b) for a, b, c_ in ts]; tags.append("inward")
    else: tags.append("outward")
    if rng.random() < 0.5:
        out = []
        for t in ts:
            k = rng.randint(0, 2); out.append(t[k:] + t[:k])
        ts = out
    if rng.random() < 0.5:   # relabel vertices
        perm = list(range(len(vs))); rng.shuffle(perm)
        nvs = [None] * len(vs)
        for i, v in enumerate(vs): nvs[perm[i]] = v
        vs = nvs; ts = [tuple(perm[a] for a in t) for t in ts]; tags.append("relabel")
    if rng.random() < 0.3: rng.shuffle(ts)
    if allow_bad:
        c = rng.random()
        if c < 0.22 and len(ts) > 1:
            n = rng.randint(1, max(1, len(ts) // 3))
            for i in rng.sample(range(len(ts)), n):
                a, b, c_ = ts[i]; ts[i] = (b, a, c_)
            tags.append("flipped")
        c = rng.random()
        if c < 0.10:
            for _ in range(rng.randint(1, 2)):
                vs.insert(rng.randint(0, len(vs)), None)
            # re-index around the inserted vertices
            old = [i for i, v in enumerate(vs) if v is not None]; m = {}
            k = 0
            for i, v in enumerate(vs):
                if v is not None: m[k] = i; k += 1
            ts = [tuple(m[a] for a in t) for t in ts]
            vs = [v if v is not None else ((rng.random() - .5) * 7 * mag, (rng.random() - .5) * 7 * mag, (rng.random() - .5) * 7 * mag) for v in vs]
            tags.append("unused-vertex")
        elif c < 0.20:
            i = rng.randrange(len(vs)); v = vs[i]
            eps = rng.choice([1e-9, 1e-12, 0.0])
            d = tuple(x * (1 + eps) if x != 0 else 0.0 for x in v)
            j = len(vs); vs.append(d)
            # let some triangles use the twin
            ts = [tuple((j if (a == i and rng.random() < 0.5) else a) for a in t) for t in ts]
            tags.append("collide" if eps else "duplicate")
        elif c < 0.26:
            i = rng.randrange(len(ts)); t = list(ts[i]); t[rng.randint(0, 2)] = len(vs) + rng.randint(0, 2); ts[i] = tuple(t)
            tags.append("bad-index")
    return tags, vs, ts

def nan_normal_risk(vs, ts):
    """a vertex whose adjacent unit triangle normals (nearly) cancel, or a (nearly) zero-area triangle: the tri writer
    printed nan before fix 7496085; kept as a label of the feature distribution (these meshes now go through .tri too)"""
    acc = {}
    for t in ts:
        if max(t) >= len(vs): return False
        n = models.tri_normal(vs, t); l = math.sqrt(n[0] ** 2 + n[1] ** 2 + n[2] ** 2)
        e = max(max(abs(c) for c in vs[a]) for a in t) or 1.0
        if l <= 1e-9 * e * e: return True
        for a in set(t):
            x = acc.setdefault(a, [0.0, 0.0, 0.0])
            for k in range(3): x[k] += n[k] / l
    return any(math.sqrt(x[0] ** 2 + x[1] ** 2 + x[2] ** 2) < 1e-6 for x in acc.values())

# ---------------------------------------------------------------- cases
def case_roundtrip(fmt, flags, vs, ts):
    return "c15 " + " ".join(map(str, [1, fmt, flags] + mesh_wire(vs, ts) + table(allcoords(vs), rnd_of(fmt))))
def case_writer(fmt, flags, cid, vs, ts):
    return "c15 " + " ".join(map(str, [2, fmt, flags, cid] + mesh_wire(vs, ts) + table(allcoords(vs), rnd_of(fmt))))
def case_merge(flags, m1, m2):
    return "c15 " + " ".join(map(str, [3, flags] + mesh_wire(*m1) + mesh_wire(*m2)))
def case_convert(fa, fb, flags, cid, vs, ts):
    ra, rb = rnd_of(fa), rnd_of(fb)
    cs = allcoords(vs)
    return "c15 " + " ".join(map(str, [4, fa, fb, flags, cid] + mesh_wire(vs, ts) + table(cs, ra) + table([ra(x) for x in cs], rb)))
def case_concat(fmt, flags, cid, m1, m2):
    cs = allcoords(m1[0]) + allcoords(m2[0])
    return "c15 " + " ".join(map(str, [5, fmt, flags, cid] + mesh_wire(*m1) + mesh_wire(*m2) + table(cs, rnd_of(fmt))))

def chain_rnd(fa, fb, fc):
    ra, rb, rc = rnd_of(fa), rnd_of(fb), rnd_of(fc)
    return lambda x: rc(rb(ra(x)))
def case_chain(fa, fb, fc, flags, cid, vs, ts):
    ra, rb, rc = rnd_of(fa), rnd_of(fb), rnd_of(fc)
    cs = allcoords(vs); c1 = [ra(x) for x in cs]; c2 = [rb(x) for x in c1]
    return "c15 " + " ".join(map(str, [6, fa, fb, fc, flags, cid] + mesh_wire(vs, ts) + table(cs, ra) + table(c1, rb) + table(c2, rc)))

def case_reload(fmt, flags, cid, m1, m2):
    cs = allcoords(m1[0]) + allcoords(m2[0])
    return "c15 " + " ".join(map(str, [7, fmt, flags, cid] + mesh_wire(*m1) + mesh_wire(*m2) + table(cs, rnd_of(fmt))))

def seam_mesh(rng):
    """a closed or open surface in which some points are listed twice (a seam): each twin is used by part of the triangles
    around the point.  Exact twins: the file written from it repeats the point."""
    kind, vs, ts = base_mesh(rng)
    mag = 10.0 ** rng.randint(-3, 3)
    vs = [tuple(c * mag for c in v) for v in vs]; ts = list(ts)
    for _ in range(rng.randint(1, 3)):
        i = rng.randrange(len(vs)); j = len(vs)
        vs.append(vs[i] if rng.random() < 0.4 else tuple(c * (1 + 1e-10) for c in vs[i]))   # exact twin, or a twin that collides once written
        use = [k for k, t in enumerate(ts) if i in t]
        for k in use[:max(1, len(use) // 2)]: ts[k] = tuple(j if a == i else a for a in ts[k])
    return vs, ts

def relation_reload(fresh, used):
    """loading a file into a used Mesh gives the same mesh as loading it into a fresh one (vertex entries, distinct vertices,
    local triangles, coordinates); None if it holds"""
    if fresh["nv"] != used["nv"]: return "vertex entries %d (fresh) vs %d (reused)" % (fresh["nv"], used["nv"])
    if len(set(fresh["gidx"])) != len(set(used["gidx"])): return "distinct vertices %d (fresh) vs %d (reused)" % (len(set(fresh["gidx"])), len(set(used["gidx"])))
    if local_tris(fresh) != local_tris(used): return "triangles differ: %s (fresh) vs %s (reused)" % (local_tris(fresh)[:4], local_tris(used)[:4])
    if [[bits(x + 0.0) for x in v] for v in fresh["coords"]] != [[bits(x + 0.0) for x in v] for v in used["coords"]]: return "coordinates differ"
    return None

# ---------------------------------------------------------------- file names (format selection)
REG = {"tri": 0, "off": 1, "bnd": 2, "mesh": 3, "vtk": 4, "gii": 5}
def py_format(name):
    base = name.rsplit("/", 1)[-1]; k = base.rfind(".")
    return REG.get(base[k + 1:].lower()) if k > 0 else None
def case_name(flags, name, vs, ts):
    f = py_format(name)
    return "c15 " + " ".join(map(str, [8, flags, len(name)] + [ord(c) for c in name] + mesh_wire(vs, ts) + table(allcoords(vs), rnd_of(f if f in (0, 1, 2, 3) else 0))))
def name_of_case(w): return "".join(chr(c) for c in w[3:3 + w[2]])
def gen_name(rng):
    d = rng.choice(["", "", "d.ir/", "sub.x/y.z/", "UP/"]); stem = rng.choice(["HEAD", "x", "a.b", "scalp.1", "m", "Cortex.v2.final"])
    c = rng.random()
    if c < 0.75:
        e = rng.choice(["tri", "off", "bnd", "mesh", "vtk"]); v = rng.choice([e, e.upper(), e.capitalize(), e[0] + e[1:].upper(), e.upper()])
        return d + stem + "." + v
    return d + rng.choice([stem + ".gii", stem + ".GII", stem + ".trx", stem + ".", stem, ".tri", stem + ".tri.bak", stem + ".TRI.BAK", stem + ".msh"])

# ---------------------------------------------------------------- meshes of a multi-mesh Geometry
def write_geometry(dirpath, rng, kind):
    """writes <dir>/model.geom (+ model.cond, mesh files); returns a description"""
    os.makedirs(dirpath, exist_ok=True)
    if kind == "Head1":
        src = os.path.join(ombuild.REPO, "data", "Head1")
        import shutil
        for f in ("cortex.1.tri", "skull.1.tri", "scalp.1.tri"): shutil.copy(os.path.join(src, f), dirpath)
        shutil.copy(os.path.join(src, "Head1.geom"), os.path.join(dirpath, "model.geom"))
        shutil.copy(os.path.join(src, "Head1.cond"), os.path.join(dirpath, "model.cond"))
        return "data/Head1"
    m = models.random_model(rng, level=rng.choice([0, 1]), kinds=(kind,))
    models.write_model(m, dirpath, fmt=rng.choice(["tri", "off", "bnd"]), stem="model")
    return "%s model, meshes %s" % (kind, [n for n, _, _ in m["meshes"]])

def state_case(fmt, before):
    """op 10: the mesh as dumped (geometry positions), for the model"""
    ng = before["ng"]; g = [(0.0, 0.0, 0.0)] * ng
    g = list(g)
    for k, c in zip(before["gidx"], before["coords"]): g[k] = c
    w = [10, fmt, ng]
    for v in g:
        for c in v: w += hl(c)
    w += [before["nv"]] + list(before["gidx"]) + [len(before["tris"])]
    for t in before["tris"]: w += list(t)
    w += table(allcoords(before["coords"]), rnd_of(fmt))
    return "c15 " + " ".join(map(str, w))

def geometry_pass(ck, hb, tooldir, rng, quick):
    """saves every mesh of loaded multi-mesh geometries in every format, reloads, evaluates the before/after relation on the
    implementation and compares the reloaded mesh with the model run on the dumped state.  Returns (count, meshes)"""
    kinds = ["Head1", "nested", "split", "inclusions", "nonconductive", "nested"] if quick else ["Head1"] + ["nested", "split", "inclusions", "nonconductive"] * 6
    gcases = []; desc = {}
    for n, kind in enumerate(kinds):
        gid = 700000 + n
        desc[gid] = write_geometry(os.path.join(ck.workdir, "g_%d" % gid), rng, kind)
        cond = 1 if (kind == "Head1" or n % 2 == 0) else 0
        for fmt in range(4):
            gcases.append("c15 9 %d %d %d %d" % (fmt, gid, cond, 1 if (kind in ("nested", "Head1") and n % 2 == 1) else 0))
    io = run_harness_bounded(ck, hb, gcases, ck.workdir, tooldir, phase_budget(ck, gcases, 40.0))
    mcases = []; expect = []; nmesh = 0
    for c, i in zip(gcases, io):
        w = [int(x) for x in c.split()[1:]]; fmt, gid = w[1], w[2]
        what = "meshes of a Geometry (%s) saved as %s" % (desc[gid], FMT[fmt])
        if i == "CRASH skipped": continue
        if i.startswith("CRASH") or i.split()[0] != "0":
            ck.violation("geometry load: %s" % desc[gid], "the generated geometry could not be loaded by the implementation (%s): %s" % (i[:40], what),
                         dict(kind="geometry", cases=[c]), found_input=False)
            continue
        o = [int(x) for x in i.split()]; k = o[1]; p = 2
        for mi in range(k):
            before, p = parse_dump(o, p); st = o[p]; p += 1; after = None
            if st == 0: after, p = parse_dump(o, p)
            nmesh += 1
            r = relation_roundtrip(fmt, before, after)
            if r and len(ck.violations) < 8:
                ck.violation("mesh %d of %s saved as %s" % (mi, desc[gid], FMT[fmt]),
                             "mesh %d of a multi-mesh Geometry is not the same after save+load (%s): %s; first triangle (geometry positions) %s, vertices() starts at geometry position %s" % (mi, r, what, before["tris"][:1], before["gidx"][:1]),
                             dict(kind="property-relation", cases=[c], geometry=desc[gid], mesh=mi, replay_cmd="./check C15 (regenerates the geometry from the seed)"))
            mcases.append(state_case(fmt, before)); expect.append((c, mi, st, after, what))
    mo = core.run_model(mcases) if mcases else []
    for mc, m, (c, mi, st, after, what) in zip(mcases, mo, expect):
        mw = [int(x) for x in m.split()]
        if (mw[0] != st or (st == 0 and mw[1:] != dump_ints(after))) and len(ck.violations) < 10:
            ck.violation("mesh %d: model and implementation differ: %s" % (mi, what),
                         "saving mesh %d and loading it back does not give what the model proved in Properties_C15.v gives (%s): model %s | implementation status %d" % (mi, what, m[:120], st),
                         dict(kind="correspondence", cases=[mc], geometry_case=[c], replay_cmd="./check C15 --replay <this file>"))
    return len(gcases), nmesh

def dump_ints(d):
    w = [d["nv"]]
    for g, v in zip(d["gidx"], d["coords"]):
        w.append(g)
        for c in v: w += hl(c)
    w += [d["ng"], len(d["tris"])]
    for t in d["tris"]: w += list(t)
    return w

def strip(n, rng=None):
    """open strip with exactly n triangles and n+2 vertices, consistently wound; generic coordinates"""
    jx = rng.random() if rng else 0.5
    vs = [(0.1 * (k // 2) + 0.0371 * (k % 2) + jx, float(k % 2) * 1.7 - 0.3, 0.25 * ((k // 2) % 3)) for k in range(n + 2)]
    ts = [(k, k + 1, k + 2) if k % 2 == 0 else (k + 1, k, k + 2) for k in range(n)]
    return vs, ts
def fan(n):
    """closed-loop fan: n triangles around a centre, n+1 vertices"""
    vs = [(0.0, 0.0, 0.0)] + [(math.cos(2 * math.pi * k / n) * 50, math.sin(2 * math.pi * k / n) * 50, 0.01 * (k % 5)) for k in range(n)]
    return vs, [(0, 1 + k, 1 + (k + 1) % n) for k in range(n)]

def torus(p, q, R=3.0, r=1.0):
    """closed genus-1 surface: p x q grid, p*q vertices, 2*p*q triangles (more than 2n-4), consistently wound"""
    vs = []
    for i in range(p):
        for j in range(q):
            a = 2 * math.pi * i / p; b = 2 * math.pi * j / q
            vs.append(((R + r * math.cos(b)) * math.cos(a), (R + r * math.cos(b)) * math.sin(a), r * math.sin(b)))
    ts = []
    for i in range(p):
        for j in range(q):
            a = i * q + j; b = ((i + 1) % p) * q + j; c = ((i + 1) % p) * q + (j + 1) % q; d = i * q + (j + 1) % q
            ts += [(a, b, c), (a, c, d)]
    return vs, ts

def double_torus(p, q):
    """genus 2: two tori side by side, one quad (two triangles) removed from each and the two holes joined by a tube of 8 triangles"""
    v1, t1 = torus(p, q); v2, t2 = torus(p, q)
    n = len(v1); v2 = [(x + 9.0, y, z) for x, y, z in v2]
    def quad(off): return [off + 0, off + q, off + q + 1, off + 1]          # cell (0,0): a, b, c, d
    t1 = t1[2:]; t2 = t2[2:]                                                  # drop cell (0,0) of each
    A = quad(0); B = quad(n)
    base = list(t1) + [tuple(x + n for x in t) for t in t2]
    # tube between the two square holes: try the few ways of pairing/winding and keep the one that is consistently wound
    for rev in (False, True):
        for rot in range(4):
            for flipt in (False, True):
                L1 = A; L2 = [B[(rot + (-k if rev else k)) % 4] for k in range(4)]
                tube = []
                for k in range(4):
                    u0, u1 = L1[k], L1[(k + 1) % 4]; w0, w1 = L2[k], L2[(k + 1) % 4]
                    tube += [(u0, u1, w1), (u0, w1, w0)]
                if flipt: tube = [(a_, c_, b_) for a_, b_, c_ in tube]
                if locally_consistent(base + tube): return v1 + v2, base + tube
    return v1 + v2, base + tube

def three_sheets(k=3):
    """non-manifold: three fans of k triangles meeting along the common edge 0-1 (three triangles on that edge)"""
    vs = [(0.0, 0.0, 0.0), (0.0, 0.0, 1.0)]; ts = []
    for s in range(3):
        a = 2 * math.pi * s / 3 + 0.2; prev = None
        for j in range(1, k + 1):
            vs.append((j * math.cos(a), j * math.sin(a), 0.5 + 0.1 * j)); cur = len(vs) - 1
            ts.append((0, 1, cur) if prev is None else (prev, 1, cur) if j % 2 == 0 else (0, prev, cur)); prev = cur
    return vs, ts

def size_pass(ck, hb, tooldir, rng, quick):
    """block-size boundaries, implementation only (no model run: these meshes are large): triangle and vertex counts at powers of
    two and their neighbours, every format; the before/after relation must hold"""
    sizes = [4095, 4096, 4097, 8192] if quick else [4095, 4096, 4097, 8191, 8192, 8193, 16384, 65536]
    cases = []
    for n in sizes:
        for mk, nm in ((lambda k: strip(k, rng), "strip"), (fan, "fan")):
            for tri_count in (n, n - 2 if nm == "strip" else n - 1):      # exactly n triangles / exactly n vertices
                vs, ts = mk(tri_count)
                for fmt in range(4):
                    cases.append(("%s with %d triangles, %d vertices" % (nm, len(ts), len(vs)), fmt,
                                  "c15 " + " ".join(map(str, [1, fmt, 1] + mesh_wire(vs, ts) + [0]))))
    lines = [c for _, _, c in cases]
    io = run_harness_bounded(ck, hb, lines, ck.workdir, tooldir, phase_budget(ck, lines, 45.0))
    bad = 0
    for (what, fmt, c), i in zip(cases, io):
        if i == "CRASH skipped": continue
        r = ("time limit" if i == "CRASH timeout" else "crash") if i.startswith("CRASH") else None
        if r is None:
            o = [int(x) for x in i.split()]
            if o[0] != 0: r = "build failed"
            else:
                before, p = parse_dump(o, 1); after = parse_dump(o, p + 1)[0] if o[p] == 0 else None
                r = relation_roundtrip(fmt, before, after)
        if r and bad < 4:
            bad += 1
            ck.violation("roundtrip %s: %s" % (FMT[fmt], what),
                         "a mesh is not the same after save+load in format %s (%s): %s (generated by checks/c15.py strip()/fan(), no random part in the structure)" % (FMT[fmt], r, what),
                         dict(kind="property-relation", cases=[c], replay_cmd="./check C15 --replay <this file>"))
    return len(cases)

def second_mesh(rng, vs, ts):
    """a mesh sharing some vertices (exact coordinates) with (vs, ts): shifted copy glued along coincident points, or a random one"""
    c = rng.random()
    if c < 0.5 and len(vs) > 3:
        # mirror image across the plane x = max x: vertices on the plane coincide
        mx = max(v[0] for v in vs)
        vs2 = [(2 * mx - v[0], v[1], v[2]) for v in vs]; ts2 = [(a, c_, b) for a, b, c_ in ts]
        return vs2, ts2
    if c < 0.75:
        k = rng.randint(1, len(vs))
        idx = rng.sample(range(len(vs)), k)
        _, v2, t2 = gen_mesh(rng, allow_bad=False)
        for n, i in enumerate(idx[:len(v2)]): v2[n] = vs[i]
        return v2, t2
    _, v2, t2 = gen_mesh(rng, allow_bad=False)
    return v2, t2

def parse_case(line):
    w = [int(x) for x in line.split()[1:]]
    return w

def read_mesh(w, p):
    n = w[p]; p += 1; vs = []
    for _ in range(n):
        v = []
        for _ in range(3):
            v.append(unbits((w[p] << 32) | w[p + 1])); p += 2
        vs.append(tuple(v))
    k = w[p]; p += 1; ts = []
    for _ in range(k):
        ts.append((w[p], w[p + 1], w[p + 2])); p += 3
    return vs, ts, p

def parse_dump(o, p):
    """-> dict(nv, gidx, coords, ng, tris), next position"""
    n = o[p]; p += 1; g = []; cs = []
    for _ in range(n):
        g.append(o[p]); p += 1; v = []
        for _ in range(3):
            v.append(unbits((o[p] << 32) | o[p + 1])); p += 2
        cs.append(tuple(v))
    ng = o[p]; k = o[p + 1]; p += 2; ts = []
    for _ in range(k):
        ts.append((o[p], o[p + 1], o[p + 2])); p += 3
    return dict(nv=n, gidx=g, coords=cs, ng=ng, tris=ts), p

def local_tris(d):
    pos = {}
    for i, g in enumerate(d["gidx"]): pos[g] = i
    return [tuple(pos.get(a, -1) for a in t) for t in d["tris"]]

def dedges(t): return [(t[1], t[2]), (t[2], t[0]), (t[0], t[1])]
def locally_consistent(ts):
    seen = set()
    for t in ts:
        for e in dedges(t):
            if e in seen: return False
            seen.add(e)
    return True

def relation_roundtrip(fmt, before, after):
    """the property's own relation, on the implementation's dumps; returns None if it holds (or its premises do not), else text.
    fmt: a format number, or the rounding function itself (tool chains: composition of the formats' roundings)"""
    f = fmt if callable(fmt) else rnd_of(fmt)
    rc = [tuple(f(c) for c in v) for v in before["coords"]]
    if len(set(rc)) != len(rc): return None                        # premise: distinct after rounding
    if not locally_consistent(before["tris"]): return None          # premise: consistent winding
    if after is None: return "save or load failed"
    if after["nv"] != before["nv"]: return "vertex count %d -> %d" % (before["nv"], after["nv"])
    if len(after["tris"]) != len(before["tris"]): return "triangle count %d -> %d" % (len(before["tris"]), len(after["tris"]))
    lb, la = local_tris(before), local_tris(after)
    for k, (a, b) in enumerate(zip(lb, la)):
        if a != b: return "triangle %d: %s -> %s" % (k, a, b)
    for k, (a, b) in enumerate(zip(rc, after["coords"])):
        if [bits(x + 0.0) for x in a] != [bits(x + 0.0) for x in b]: return "vertex %d: stored %s, read back %s" % (k, a, b)
    return None

# ---------------------------------------------------------------- writer output vs model stream
def compare_text(fmt, model, path):
    """model: list of ints (token codes).  Returns None or a description of the first difference."""
    try: txt = open(path).read()
    except OSError: return "file was not written"
    flines = [l.split() for l in txt.split("\n")]
    if flines and flines[-1] == []: flines.pop()
    mlines = [[]]; p = 0
    while p < len(model):
        c = model[p]
        if c == 0: mlines.append([]); p += 1
        elif c in (1, 2): mlines[-1].append((c, model[p + 1])); p += 2
        elif c == 3: mlines[-1].append((3, unbits((model[p + 1] << 32) | model[p + 2]))); p += 3
        else: mlines[-1].append((4, None)); p += 1
    if mlines[-1] == []: mlines.pop()
    if len(flines) != len(mlines): return "file has %d lines, model %d" % (len(flines), len(mlines))
    for n, (fl, ml) in enumerate(zip(flines, mlines)):
        if len(fl) != len(ml): return "line %d: file has %d tokens (%s), model %d" % (n + 1, len(fl), " ".join(fl)[:60], len(ml))
        for ft, (c, v) in zip(fl, ml):
            if c == 1:
                if WORDS.get(v) is not None and ft != WORDS[v]: return "line %d: word %r, model %r" % (n + 1, ft, WORDS[v])
            elif c == 2:
                if ft != str(v): return "line %d: number %r, model %d" % (n + 1, ft, v)
            elif c == 3:
                try: x = float(ft)
                except ValueError: return "line %d: %r is not a number" % (n + 1, ft)
                if x != v or ft != "%.6g" % v: return "line %d: coordinate %r, model %r" % (n + 1, ft, "%.6g" % v)
            else:
                try: x = float(ft)
                except ValueError: return "line %d: normal component %r is not a number" % (n + 1, ft)
                if x != x or x in (float("inf"), float("-inf")): return "line %d: normal component %r" % (n + 1, ft)
    return None

def compare_bytes(model, path):
    try: data = open(path, "rb").read()
    except OSError: return "file was not written"
    p = 0; q = 0
    while p < len(model):
        c = model[p]
        if c == 0:
            if q >= len(data) or data[q] != model[p + 1]: return "byte %d: file %s, model %d" % (q, data[q] if q < len(data) else "EOF", model[p + 1])
            p += 2; q += 1
        elif c == 3:
            v = unbits((model[p + 1] << 32) | model[p + 2])
            if data[q:q + 4] != struct.pack("<f", v): return "float at byte %d: file %r, model %r" % (q, data[q:q + 4], struct.pack("<f", v))
            p += 3; q += 4
        else:
            if q + 4 > len(data): return "file ends inside the normals"
            p += 1; q += 4
    if q != len(data): return "file has %d bytes, model %d" % (len(data), q)
    return None

# ---------------------------------------------------------------- fixed witnesses (refuted theorems, replayed every run)
def witnesses():
    w = []
    # collision after rounding: two vertices 1e-9 apart are one vertex after a text round trip (premise of mesh_roundtrip is necessary)
    fan = [(0.5, 0.5, 0.0), (0.500000001, 0.5, 0.0), (0.0, 0.0, 0.0), (1.0, 0.0, 0.0), (1.0, 1.0, 0.0), (0.0, 1.0, 0.0)]
    w.append(("collide-tri", case_roundtrip(0, 1, fan, [(0, 2, 3), (0, 3, 4), (1, 4, 5), (1, 5, 2)])))
    # c15_flood_fill_consistent_refuted: the pair (2,3,4),(3,4,5) hangs on triangle (0,1,2) by vertex 2 only and stays inconsistent after load
    bt = [(0.0, 0.0, 0.0), (1.0, 0.0, 0.0), (0.5, 1.0, 0.0), (0.0, 2.0, 0.0), (1.0, 2.0, 0.0), (0.5, 3.0, 0.0)]
    w.append(("bowtie", case_roundtrip(1, 0, bt, [(0, 1, 2), (2, 3, 4), (3, 4, 5)])))
    return w

OPN = {1: "roundtrip", 2: "writer", 3: "merge", 4: "om_mesh_convert", 5: "om_mesh_concat", 6: "om_mesh_convert chain", 7: "load into fresh and used Mesh", 8: "file name", 10: "mesh state"}

def describe(line):
    w = parse_case(line); op = w[0]
    if op == 1: return "roundtrip %s" % FMT[w[1]], read_mesh(w, 3)[:2]
    if op == 2: return "writer %s" % FMT[w[1]], read_mesh(w, 4)[:2]
    if op == 3:
        vs, ts, p = read_mesh(w, 2); return "merge", (vs, ts) + read_mesh(w, p)[:2]
    if op == 4: return "om_mesh_convert %s->%s" % (FMT[w[1]], FMT[w[2]]), read_mesh(w, 5)[:2]
    if op == 5:
        vs, ts, p = read_mesh(w, 4); return "om_mesh_concat %s" % FMT[w[1]], (vs, ts) + read_mesh(w, p)[:2]
    if op == 8: return "save/load as '%s'" % name_of_case(w), read_mesh(w, 3 + w[2])[:2]
    if op == 10: return "mesh state saved as %s" % FMT[w[1]], ()
    if op == 7:
        vs, ts, p = read_mesh(w, 4); return "load %s into fresh/used Mesh" % FMT[w[1]], (vs, ts) + read_mesh(w, p)[:2]
    if op == 6: return "om_mesh_convert chain %s->%s->%s" % (FMT[w[1]], FMT[w[2]], FMT[w[3]]), read_mesh(w, 6)[:2]
    return "?", ()

def short(line):
    name, ms = describe(line)
    if not ms: return name
    s = "%s: %d vertices %s, triangles %s" % (name, len(ms[0]), [tuple(float("%.9g" % c) for c in v) for v in ms[0]][:6], ms[1][:8])
    if len(ms) > 2: s += " + %d vertices %s, triangles %s" % (len(ms[2]), [tuple(float("%.9g" % c) for c in v) for v in ms[2]][:6], ms[3][:8])
    return s[:600]

def rebuild(line, ts_new, which=0):
    """same case with the triangle list of mesh `which` replaced (for shrinking)"""
    w = parse_case(line); op = w[0]
    hdr = {1: 3, 2: 4, 3: 2, 4: 5, 5: 4, 6: 6, 7: 4, 8: 3 + w[2]}[op]
    vs, ts, p = read_mesh(w, hdr)
    if op in (3, 5, 7):
        vs2, ts2, p2 = read_mesh(w, p)
        if which == 0: mid = mesh_wire(vs, ts_new) + mesh_wire(vs2, ts2)
        else: mid = mesh_wire(vs, ts) + mesh_wire(vs2, ts_new)
        rest = w[p2:]
    else:
        mid = mesh_wire(vs, ts_new); rest = w[p:]
    return "c15 " + " ".join(map(str, w[:hdr] + mid + rest))

def phase_budget(ck, cases, quick_cap, model_time=None):
    """wall-clock budget of one harness phase.  quick tier: a fixed cap (the failing-tree bound of the quick tier depends on it).
    thorough tier: at least 5x the quick cap, and scaled with the work: 20x what the extracted model needed for the same cases
    when that is known, else 30 s + 60 us per character of case text (a 65536-triangle mesh is ~6 MB)."""
    if ck.tier != "thorough": return quick_cap
    chars = sum(len(c) for c in cases)
    return max(5.0 * quick_cap, 20.0 * model_time if model_time else 0.0, 30.0 + 6e-5 * chars)

def run_harness_once(hb, cases, workdir, tooldir, limit):
    e = dict(os.environ); e["OMP_NUM_THREADS"] = "1"; e["OPENBLAS_NUM_THREADS"] = "1"; e["OM_TOOLS"] = tooldir
    cf = os.path.join(workdir, "bcases.txt")
    with open(cf, "w") as fh: fh.write("\n".join(cases) + "\n")
    try:
        p = subprocess.run([hb, cf], stdout=subprocess.PIPE, stderr=subprocess.PIPE, timeout=limit, env=e, cwd=workdir)
        rc = p.returncode; so = p.stdout
    except subprocess.TimeoutExpired as te:
        rc = None; so = te.stdout or b""
    out = so.decode(errors="replace").split("\n")
    if out and out[-1] == "": out.pop()
    if rc is None and out and not so.endswith(b"\n"): out.pop()      # partial last line
    return rc, out[:len(cases)]

def run_harness_bounded(ck, hb, cases, workdir, tooldir, budget, max_timeouts=2):
    """Runs the harness over the cases with a hard wall-clock bound whatever the implementation does.
    A case in flight when the budget runs out is RE-RUN ALONE with a generous limit (quick 180 s - less when the run is already
    long -, thorough 900 s): a slow first attempt on a loaded machine is a note in the evidence, not a finding.  Only a case that
    does not finish alone either is answered 'CRASH timeout' (reported as '(time limit)').  A crash is 'CRASH <rc>'.  After
    max_timeouts confirmed timeouts the remaining cases are answered 'CRASH skipped' (not judged)."""
    quick = ck.tier != "thorough"
    if quick: max_timeouts = 1          # one confirmed hang ends the phase in the quick tier (overall bound on a failing tree)
    deadline = time.time() + budget
    outs = []; start = 0; timeouts = 0
    while start < len(cases):
        if timeouts >= max_timeouts:
            outs += ["CRASH skipped"] * (len(cases) - start); break
        n = len(cases) - start
        left = deadline - time.time()
        if left <= 1.0:
            # the phase budget is used up although nothing hung for certain: give the rest one more budget (loaded machine)
            deadline = time.time() + budget; left = budget
            ck.notes.append("harness phase exceeded its budget of %.0f s with %d cases left; continued" % (budget, n))
        rc, out = run_harness_once(hb, cases[start:], workdir, tooldir, left)
        outs += out
        if rc == 0 and len(out) == n: break
        if len(out) < n:
            k = start + len(out)
            if rc is None:
                lim = 900.0 if not quick else max(60.0, min(180.0, 280.0 - (time.time() - ck.t0)))
                t1 = time.time(); rc2, out2 = run_harness_once(hb, [cases[k]], workdir, tooldir, lim)
                if rc2 is not None and len(out2) == 1:
                    outs.append(out2[0])
                    ck.notes.append("a case did not finish within the phase budget (%.0f s) and finished alone in %.1f s: %s" % (budget, time.time() - t1, short(cases[k])[:120]))
                    deadline = max(deadline, time.time() + budget / 2)
                elif rc2 is None:
                    outs.append("CRASH timeout"); timeouts += 1
                else:
                    outs.append("CRASH %d" % rc2)
            else: outs.append("CRASH %d" % rc)
        start = len(outs)
    return outs

def run_both(ck, hb, cases, tooldir, budget=60.0):
    mo = core.run_model(cases)
    io = run_harness_bounded(ck, hb, cases, ck.workdir, tooldir, budget)
    return mo, io

def judge(ck, line, m, i, cid):
    """returns None when the case agrees, else (kind, text)"""
    w = parse_case(line); op = w[0]
    if i == "CRASH skipped": return None
    if i == "CRASH timeout": return ("time limit", "the implementation did not answer within the time limit of the harness run (time limit)")
    if m == "-1" or i == "-1": return ("malformed", "generator produced a malformed case")
    if op == 2:
        mw = [int(x) for x in m.split()]
        path = os.path.join(ck.workdir, "w_%d.%s" % (w[3], FMT[w[1]]))
        if i.split()[0] != str(mw[0]):
            return ("differ", "writer status: model %s, implementation %s" % (mw[0], i.split()[0]))
        if mw[0] != 0: return None
        d = compare_bytes(mw[1:], path) if w[1] == 3 else compare_text(w[1], mw[1:], path)
        try: os.unlink(path)
        except OSError: pass
        return ("file", d) if d else None
    if m != i:
        return ("differ", "model %s | implementation %s" % (m[:160], i[:160]))
    return None

def shrink(ck, hb, tooldir, line, pred, rounds=6):
    """greedy removal of triangles while pred(model_out, impl_out, line) still holds"""
    cur = line
    if not hasattr(ck, "shrink_deadline"): ck.shrink_deadline = time.time() + 60.0      # the whole shrink phase gets 60 s
    if len(line) > 20000: return cur          # large meshes (size-boundary cases) are reported as they are: each candidate costs seconds
    for _ in range(rounds):
        name, ms = describe(cur)
        cands = []
        for which in range(len(ms) // 2):
            ts = ms[2 * which + 1]
            if len(ts) <= 1: continue
            for k in range(len(ts)):
                cands.append(rebuild(cur, ts[:k] + ts[k + 1:], which))
        cands = cands[:24]
        if not cands or time.time() > ck.shrink_deadline: break
        mo, io = run_both(ck, hb, cands, tooldir, budget=max(2.0, min(20.0, ck.shrink_deadline - time.time())))
        nxt = None
        for c, m, i in zip(cands, mo, io):
            if pred(c, m, i): nxt = c; break
        for f in os.listdir(ck.workdir):
            if f.startswith("w_"):
                try: os.unlink(os.path.join(ck.workdir, f))
                except OSError: pass
        if nxt is None: break
        cur = nxt
    return cur

def main(replay=None):
    ck = core.Check(PROP, "proof")
    quick = ck.tier != "thorough"
    bdir, hb = ck.prepare("Props/Properties_C15.v", "h_c15.cpp")
    if not bdir or not hb:
        return ck.finish()
    tooldir = os.path.join(bdir, "apps", "tools")
    rng = ck.rng
    wit = witnesses()
    if replay:
        cases = json.load(open(replay)).get("cases", [])
        labels = ["replay"] * len(cases)
    else:
        corpus = []
        cp = os.path.join(core.VERIF, "corpus", "C15.txt")
        if os.path.exists(cp): corpus = [l.strip() for l in open(cp) if l.strip() and not l.startswith("#")]
        cases = list(corpus); labels = ["corpus"] * len(corpus)
        for name, c in wit: cases.append(c); labels.append("witness:" + name)
        nmesh = 130 if quick else 1500
        for k in range(nmesh):
            tags, vs, ts = gen_mesh(rng, big=(k % 16 == 0))   # icosphere/octasphere level 2 (320 / 512 triangles)
            flags = 0 if ("flipped" in tags and rng.random() < 0.6) else 1
            lab = ",".join(tags)
            risky = nan_normal_risk(vs, ts)
            if risky: lab += ",null-normal"
            for fmt in range(4):
                cases.append(case_roundtrip(fmt, flags, vs, ts)); labels.append("roundtrip:" + lab)
            for _ in range(2 if k % 4 == 0 else 1):
                fmt = rng.randint(0, 4)
                cases.append(case_writer(fmt, flags, len(cases), vs, ts)); labels.append("writer:" + lab)
            if k % 3 == 0:
                v2, t2 = second_mesh(rng, vs, ts)
                cases.append(case_merge(1, (vs, ts), (v2, t2))); labels.append("merge:" + lab)
                if k % 6 == 0:
                    cases.append(case_concat(rng.randint(0, 3), 1, len(cases), (vs, ts), (v2, t2))); labels.append("concat:" + lab)
            if k % 5 == 0:
                cases.append(case_convert(rng.randint(0, 3), rng.randint(0, 3), flags, len(cases), vs, ts)); labels.append("convert:" + lab)
        # level-3 spheres (642 vertices / 1280 triangles; 258 / 512), consistent windings (the fill itself is exercised on level <= 2)
        for n, (mk, lvl) in enumerate([(models.icosphere, 3), (models.octasphere, 3)] if quick else [(models.icosphere, 3), (models.octasphere, 3), (models.octasphere, 4)]):
            vs, ts = mk(lvl); mag = 10.0 ** rng.randint(-3, 3)
            vs = [tuple(float(c) * mag * (1 + 1e-4 * rng.random()) for c in v) for v in vs]
            if n % 2: ts = [(a, c_, b) for a, b, c_ in ts]
            for fmt in ((0, 3) if n == 0 else (1, 2)):
                cases.append(case_roundtrip(fmt, 1, vs, ts)); labels.append("roundtrip:level3,%s" % ("inward" if n % 2 else "outward"))
            cases.append(case_writer(rng.randint(0, 4), 1, len(cases), vs, ts)); labels.append("writer:level3")
        # level-2 sphere with every 7th triangle flipped, written unrepaired: the readers' flood fill on 320 triangles
        vs, ts = models.icosphere(2); vs = [tuple(float(c) * 87.3 for c in v) for v in vs]; ts = list(ts)
        for i in range(rng.randint(0, 6), len(ts), 7): a, b, c_ = ts[i]; ts[i] = (b, a, c_)
        for fmt in (0, 1):
            cases.append(case_roundtrip(fmt, 0, vs, ts)); labels.append("roundtrip:ico2,flipped")
        # level-3 sphere (1280 triangles) with every 5th triangle flipped, written unrepaired
        vs, ts = models.icosphere(3); vs = [tuple(float(c) * 0.0913 for c in v) for v in vs]; ts = list(ts)
        for i in range(rng.randint(0, 4), len(ts), 5): a, b, c_ = ts[i]; ts[i] = (b, a, c_)
        cases.append(case_roundtrip(rng.choice([1, 2, 3]), 0, vs, ts)); labels.append("roundtrip:level3,flipped")
        # files that list a point twice (seams), loaded into a fresh Mesh and into a Mesh that already loaded another file
        for n in range(24 if quick else 240):
            v2, t2 = seam_mesh(rng)
            _, v1, t1 = gen_mesh(rng, allow_bad=False)
            if n % 3 == 0: v1, t1 = v2, t2                      # the same file twice
            elif n % 3 == 1 and len(v1) > 2: v1[0] = v2[0]; v1[-1] = v2[-1]   # earlier content shares points with the file
            cases.append(case_reload(n % 4, 1, len(cases), (v1, t1), (v2, t2))); labels.append("reload:seam")
        # file names: suffix in any case, several dots, directories with dots, unknown suffixes
        fixed = ["HEAD.TRI", "x.Mesh", "SCALP.BND", "a.b.tri", "d.ir/x.off", "d.tri/x", ".tri", "m.Off", "UP/Y.VTK", "q.gii", "noext"]
        for n in range(40 if quick else 300):
            _, vs, ts = gen_mesh(rng, allow_bad=False)
            name = fixed[n] if n < len(fixed) else gen_name(rng)
            cases.append(case_name(1, name, vs, ts)); labels.append("name:%s" % ("known" if py_format(name) is not None else "unknown-suffix"))
        # programmatic meshes saved before any update (Vertex::index() unset), all formats
        for n in range(6 if quick else 40):
            _, vs, ts = gen_mesh(rng, allow_bad=False)
            for fmt in range(4):
                cases.append(case_roundtrip(fmt, 2, vs, ts)); labels.append("roundtrip:no-update")
        # topology family (deterministic): tori p x q (2n triangles), genus 2, three sheets on one edge, doubled triangles with both windings
        topo = [("torus%dx%d" % (p, q), torus(p, q)) for p, q in ((3, 3), (3, 4), (4, 6), (5, 5), (6, 8))]
        topo += [("genus2", double_torus(3, 4)), ("genus2b", double_torus(4, 5)), ("three-sheets", three_sheets(3)),
                 ("both-windings", ([(0.0, 0.0, 0.0), (1.0, 0.0, 0.0), (0.0, 1.0, 0.0), (0.0, 0.0, 1.0)], [(0, 1, 2), (0, 2, 1), (0, 1, 3), (0, 3, 1), (1, 2, 3), (1, 3, 2)]))]
        for nm, (vs, ts) in topo:
            mag = 10.0 ** rng.randint(-3, 3); vs = [tuple(c * mag for c in v) for v in vs]
            for fmt in range(4):
                for flags in ((1, 0) if nm in ("three-sheets", "both-windings") else (1,)):
                    cases.append(case_roundtrip(fmt, flags, vs, ts)); labels.append("roundtrip:" + nm)
            cases.append(case_writer(rng.randint(0, 4), 1, len(cases), vs, ts)); labels.append("writer:" + nm)
        # block-size boundaries (model and implementation): exactly 2^k triangles, exactly 2^k vertices, and neighbours, every format
        near = [511, 513, 1023, 1025, 2047, 2049, 255, 257]
        for fmt in range(4):
            ns = [512, 1024, 1022, 2048] + [near[(2 * fmt + ck.seed) % len(near)], near[(2 * fmt + 1 + ck.seed) % len(near)]]
            if not quick: ns += near + [4096, 4094]
            for n in ns:
                vs, ts = strip(n, rng)
                cases.append(case_roundtrip(fmt, 1, vs, ts)); labels.append("roundtrip:size%d" % n)
            vs, ts = fan(1023 if fmt % 2 else 1024)              # 1024 vertices / 1024 triangles
            cases.append(case_roundtrip(fmt, 1, vs, ts)); labels.append("roundtrip:fan")
        vs, ts = strip(1024, rng)
        cases.append(case_writer(3, 1, len(cases), vs, ts)); labels.append("writer:size1024")
        # tool-level round trips through om_mesh_convert: closed and open surfaces, both windings, all format pairs over a run
        chains = [(0, 1, 0), (1, 0, 1), (0, 2, 0), (2, 3, 2), (3, 0, 3), (1, 3, 1), (0, 3, 1), (2, 1, 0), (3, 2, 0), (1, 2, 3)]
        shapes = [("closed", lambda: models.icosphere(rng.choice([0, 1]))), ("closed", lambda: models.octasphere(1)),
                  ("open", lambda: hemisphere(1, rng.random() < 0.5)), ("open", lambda: disc(rng.randint(3, 9))), ("open", lambda: patch(rng, 3, 2))]
        for n in range(20 if quick else 200):
            topo, mk = shapes[n % len(shapes)]; vs, ts = mk()
            mag = 10.0 ** rng.randint(-6, 6); off = [(rng.random() - 0.5) * 3 * mag for _ in range(3)]
            vs = [tuple(float(v[k]) * mag * (1 + 1e-3 * rng.random()) + off[k] for k in range(3)) for v in vs]
            wind = "outward" if (n // len(shapes)) % 2 == 0 else "inward"
            if wind == "inward": ts = [(a, c_, b) for a, b, c_ in ts]
            fa, fb, fc = chains[(n + ck.seed) % len(chains)]
            cases.append(case_chain(fa, fb, fc, 1, len(cases), vs, ts)); labels.append("chain:%s,%s,mag%+d" % (topo, wind, round(math.log10(mag))))
    # small cases first, in their own harness invocation; the large meshes (size boundaries, level-3 spheres) afterwards
    small = [k for k, c in enumerate(cases) if len(c) <= 20000]; large = [k for k, c in enumerate(cases) if len(c) > 20000]
    mo = [None] * len(cases); io = [None] * len(cases)
    for idx, budget in ((small, 70.0), (large, 50.0)):
        if not idx: continue
        sub = [cases[k] for k in idx]
        t1 = time.time(); mo_s = core.run_model(sub); mt = time.time() - t1
        io_s = run_harness_bounded(ck, hb, sub, ck.workdir, tooldir, phase_budget(ck, sub, budget, mt))
        for k, m_, i_ in zip(idx, mo_s, io_s): mo[k] = m_; io[k] = i_
    dist = {}; tagdist = {}; nontriv = set(); mism = []; relfail = []; errpaths = 0; files_cmp = 0
    for cid, (c, lab, m, i) in enumerate(zip(cases, labels, mo, io)):
        op = int(c.split()[1]); dist[OPN[op]] = dist.get(OPN[op], 0) + 1
        for t in lab.split(":")[-1].split(","): tagdist[t] = tagdist.get(t, 0) + 1
        j = judge(ck, c, m, i, cid)
        if op == 2 and j is None and m.split()[0] == "0": files_cmp += 1
        if m.split()[0] != "0" or " 31" in m[-4:] or " 32" in m[-4:]: errpaths += 1
        if len(c.split()) > 40: nontriv.add(c)
        if j: mism.append((c, lab, m, i, j))
        # the property's own relation, evaluated on the implementation
        if op == 8 and not i.startswith("CRASH"):
            o = [int(x) for x in i.split()]; f8 = py_format(name_of_case(parse_case(c)))
            if o[0] == 0 and f8 in (0, 1, 2, 3):
                before, p = parse_dump(o, 1); after = parse_dump(o, p + 1)[0] if o[p] == 0 else None
                r = relation_roundtrip(f8, before, after)
                if r: relfail.append((c, lab, f8, r, False))
        if op in (1, 6) and not i.startswith("CRASH"):
            o = [int(x) for x in i.split()]
            if o[0] == 0:
                before, p = parse_dump(o, 1)
                after = parse_dump(o, p + 1)[0] if o[p] == 0 else None
                cw = c.split()
                fmt = int(cw[2]) if op == 1 else chain_rnd(int(cw[2]), int(cw[3]), int(cw[4]))
                unused = set(before["gidx"]) - {a for t in before["tris"] for a in t}
                r = relation_roundtrip(fmt, before, after)
                if r: relfail.append((c, lab, fmt, r, bool(unused)))
    ngeo = (0, 0); nsize = 0
    if not replay:
        ngeo = geometry_pass(ck, hb, tooldir, rng, quick)
    # loading into a used object (op 7): fresh and reused loads must describe the same mesh
    for c, lab, m, i in zip(cases, labels, mo, io):
        if c.split()[1] != "7" or i.startswith("CRASH"): continue
        o = [int(x) for x in i.split()]
        if o[0] != 0: continue
        fresh, p = parse_dump(o, 1); used = parse_dump(o, p + 1)[0]
        r = relation_reload(fresh, used)
        if r:
            ck.violation("%s: %s" % (describe(c)[0], short(c)[:200]),
                         "a mesh file loads differently into a fresh Mesh and into a Mesh that has already loaded a file (%s): %s" % (r, short(c)),
                         dict(kind="property-relation", cases=[c], replay_cmd="./check C15 --replay <this file>"))
            break
    # ---- decide
    relfail.sort(key=lambda x: len(x[0]))          # smallest failing meshes first
    for n, (c, lab, fmt, r, unused) in enumerate(relfail[:6]):
        pred = lambda cc, mm, ii: _rel_fails(cc, ii)
        if n < 2: c = shrink(ck, hb, tooldir, c, pred)
        sig = "%s: %s" % (describe(c)[0], short(c)[:200])
        ck.violation(sig, "a mesh is not the same after %s (%s): %s" % ("save+load in format " + FMT[fmt] if not callable(fmt) else "the om_mesh_convert chain", r, short(c)),
                     dict(kind="property-relation", cases=[c], replay_cmd="./check C15 --replay <this file>"))
    known_model_agrees = 0
    mism.sort(key=lambda x: len(x[0]))
    for n, (c, lab, m, i, (kind, text)) in enumerate(mism[:6]):
        op = int(c.split()[1])
        pred = lambda cc, mm, ii: judge(ck, cc, mm, ii, 0) is not None
        c2 = shrink(ck, hb, tooldir, c, pred) if (kind not in ("malformed", "time limit") and n < 2) else c
        name = describe(c2)[0]
        ck.violation(("%s (time limit): %s" if kind == "time limit" else "%s: model and implementation differ: %s") % (name, short(c2)[:200]),
                     "%s: the implementation does not behave like the model proved in Properties_C15.v (%s) on %s" % (name, text[:300], short(c2)),
                     dict(kind="correspondence", cases=[c2], original=[c], model=[m[:2000]], impl=[i[:2000]], replay_cmd="./check C15 --replay <this file>"),
                     found_input=True)
    if not replay and not (quick and ck.violations and time.time() - ck.t0 > 200):
        nsize = size_pass(ck, hb, tooldir, rng, quick)      # large meshes last: small failing cases are reported first
    # refuted theorems must reproduce on the real code (else the model is wrong)
    if not replay:
        for (name, c) in wit:
            k = cases.index(c); i = io[k]; m = mo[k]
            if i.startswith("CRASH"):
                if i != "CRASH skipped":
                    ck.violation("witness %s does not reproduce" % name, "the witness case crashed or timed out on the implementation (%s): %s" % (i, short(c)),
                                 dict(kind="witness", cases=[c], impl=[i]), found_input=True)
                continue
            o = [int(x) for x in i.split()]
            before, p = parse_dump(o, 1); after = parse_dump(o, p + 1)[0] if o[p] == 0 else None
            if name == "bowtie":
                ok = after is not None and m == i and local_tris(after) == [(0, 1, 2), (2, 3, 4), (3, 4, 5)] and not locally_consistent(after["tris"])
            else:
                ok = after is not None and after["ng"] == before["ng"] - 1 and m == i
            if not ok:
                ck.violation("witness %s does not reproduce" % name, "the witness of a _refuted theorem does not reproduce on the implementation: the model is wrong (%s)" % short(c),
                             dict(kind="witness", cases=[c], model=[m[:1000]], impl=[i[:1000]]), found_input=False)
    ck.cov.update(evaluations=len(cases), distinct_nontrivial=len(nontriv),
                  rule="generated triangulations (icosphere/octasphere/hemisphere/disc/random patch/tetrahedron/single triangle; magnitudes 1e-6..1e6, both signs, "
                       "inward/outward/partly flipped windings, relabelled vertices, unused vertices, vertices colliding after rounding, exact duplicates, out-of-range indices) "
                       "x {tri,off,bnd,mesh} round trips + writer streams (incl. vtk) + merge + om_mesh_convert/om_mesh_concat; non-trivial = more than 40 integers; distinct = distinct case lines",
                  samples=[short(c) for c in cases[len(cases) // 2:len(cases) // 2 + 3]], op_distribution=dist, feature_distribution=tagdist,
                  error_outcomes=errpaths, correspondence_mismatches=len(mism), property_relation_failures=len(relfail),
                  writer_files_compared=files_cmp, large_size_roundtrips_impl_only=nsize, skipped_cases_time_budget=sum(1 for x in io if x == "CRASH skipped"), geometry_saves=ngeo[0], geometry_meshes_roundtripped=ngeo[1], traces_validated_against_impl=len(cases))
    ck.cov["trusted_base"] += ["hand-written Gallina model coq/Geom/MeshCodec.v tied by exact differential runs (harness/h_c15.cpp vs extracted extract/omm) and by token/byte comparison of the written files",
                               "extraction: ExtrOcamlBasic only; OCaml driver extract/main.ml",
                               "Python: rnd images float('%.6g' % x) and float32 via struct; tokenisation of the written files by whitespace"]
    ck.assumptions += ["operator<< of double at the default stream precision prints '%.6g'; operator>> reads it back correctly rounded (libc/libstdc++ formatting, assumed; checked on every compared file)",
                       "static_cast<float> rounds to nearest float32 (struct.pack('<f') on the Python side)",
                       "pointers into Geometry::vertices() are modelled as positions; Edge::operator== (by coordinates) is modelled as position equality, valid in a geometry filled through add_vertex",
                       "normals are opaque number tokens (since fix 7496085 Mesh::normal never returns NaN; checked on every compared tri/vtk file)",
                       "streams in fail state (truncated/foreign files) are outside the model (Fail); that is C19's subject",
                       "private members reached through #define private public in the harness TU"]
    return ck.finish()

def _rel_fails(c, i):
    if i.startswith("CRASH"): return False
    cw = c.split()
    if cw[1] == "8":
        o = [int(x) for x in i.split()]
        if o[0] != 0: return False
        before, p = parse_dump(o, 1); after = parse_dump(o, p + 1)[0] if o[p] == 0 else None
        return relation_roundtrip(py_format(name_of_case(parse_case(c))), before, after) is not None
    if cw[1] == "6":
        o = [int(x) for x in i.split()]
        if o[0] != 0: return False
        before, p = parse_dump(o, 1); after = parse_dump(o, p + 1)[0] if o[p] == 0 else None
        return relation_roundtrip(chain_rnd(int(cw[2]), int(cw[3]), int(cw[4])), before, after) is not None
    o = [int(x) for x in i.split()]
    if o[0] != 0: return False
    before, p = parse_dump(o, 1)
    after = parse_dump(o, p + 1)[0] if o[p] == 0 else None
    return relation_roundtrip(int(c.split()[2]), before, after) is not None
