"""C12 - geometry validity checks are sound and complete.

Tie: (a) the hand-transcribed Guigue-Devillers decision tree (coq/Geom/TriTri.v, exact rational instance) against
Triangle::intersects on dyadic triangle pairs - every product of the C++ code is exact in double on these inputs, so
any disagreement is a real divergence; both against an independent exact oracle (edge pierces triangle) on pairs in
generic position.  (b) the orchestration model (coq/Geom/Checks.v, instantiated with that predicate) against
Mesh::has_self_intersection, Mesh::intersection, Geometry::selfCheck/check/check_inner and the exit status of
om_check_geom on triangle soups, clean generated head models and damaged ones."""
import os, sys, json, math, subprocess, itertools
import core, ombuild, gen, models

PROP = "C12"
GRID = 64
ASYM = "c12 20 1 1 0 13 9 2 -7 1 0 9 1 0 8 9 -2 -6 5 -1 9"      # theorem tritri_symmetry_refuted
ASYM_SWAPPED = "c12 20 1 1 0 8 9 -2 -6 5 -1 9 1 0 13 9 2 -7 1 0 9"
SIG_ASYM = "Triangle::intersects asymmetric: T1=(1,0,13)(9,2,-7)(1,0,9) T2=(1,0,8)(9,-2,-6)(5,-1,9)"
CROSSING = "c12 10 1 6 0 0 0 4 0 0 0 4 0 1 1 -1 1 1 1 2 2 1 2 0 1 2 3 4 5"   # two crossing triangles (DESIGN 4 row 15)

def rpt(rng, R): return [rng.randint(-R, R) for _ in range(3)]

def gen_pair(rng):
    """triangle pairs aimed at the branches of the decision tree: far apart (plane rejection either way), piercing,
    touching at a vertex / along an edge, coplanar (overlapping, nested, disjoint, sharing an edge), vertex in the other plane"""
    kind = rng.choice(["random", "random", "near", "near", "pierce", "coplanar", "coplanar", "vertex_on_plane", "edge_touch", "shared_vertex", "axis"])
    den = rng.choice([1, 1, 2, 4]); R = 10 * den
    a, b, c = rpt(rng, R), rpt(rng, R), rpt(rng, R)
    if kind == "random":
        d, e, f = rpt(rng, R), rpt(rng, R), rpt(rng, R)
    elif kind == "near":
        o = rpt(rng, 3); d, e, f = [[x + rng.randint(-4, 4) + o[k] for k, x in enumerate(v)] for v in (a, b, c)]
    elif kind == "pierce":
        g = [(a[k] + b[k] + c[k]) // 3 for k in range(3)]; u = rpt(rng, 6)
        d = [g[k] + u[k] for k in range(3)]; e = [g[k] - u[k] * rng.randint(1, 2) for k in range(3)]; f = rpt(rng, R)
    elif kind == "coplanar":
        ax = rng.randint(0, 2); h = rng.randint(-3, 3)
        pts = [rpt(rng, R) for _ in range(6)]
        for p in pts: p[ax] = h
        if rng.random() < 0.4:     # general plane: combinations of two integer directions
            o, u, v = rpt(rng, 4), rpt(rng, 3), rpt(rng, 3)
            pts = [[o[k] + i * u[k] + j * v[k] for k in range(3)] for i, j in [(rng.randint(-4, 4), rng.randint(-4, 4)) for _ in range(6)]]
        a, b, c, d, e, f = pts
        if rng.random() < 0.3: d = list(a)
        if rng.random() < 0.2: e = list(b)
    elif kind == "vertex_on_plane":
        i, j = rng.randint(-2, 3), rng.randint(-2, 3)
        d = [a[k] + i * (b[k] - a[k]) + j * (c[k] - a[k]) for k in range(3)]; e, f = rpt(rng, R), rpt(rng, R)
    elif kind == "edge_touch":
        t = rng.randint(0, 2); d = [a[k] + (b[k] - a[k]) * t for k in range(3)]; e = [a[k] + (b[k] - a[k]) * rng.randint(-1, 2) for k in range(3)]; f = rpt(rng, R)
    elif kind == "shared_vertex":
        d = list(rng.choice([a, b, c])); e, f = rpt(rng, R), rpt(rng, R)
    else:
        ax = rng.randint(0, 2); a[ax] = b[ax] = c[ax] = 0
        d, e, f = rpt(rng, R), rpt(rng, R), rpt(rng, R)
    pts = [a, b, c, d, e, f]
    if rng.random() < 0.3:
        t1 = pts[:3]; t2 = pts[3:]; rng.shuffle(t1); rng.shuffle(t2); pts = t1 + t2
    if rng.random() < 0.3: pts = pts[3:] + pts[:3]
    return kind, "c12 20 %d %s" % (den, " ".join(str(x) for p in pts for x in p))

def gen_soup(rng, two=False):
    den = rng.choice([1, 2]); R = rng.choice([3, 4, 6]) * den
    nv = rng.randint(6, 12); V = [rpt(rng, R) for _ in range(nv)]
    half = nv // 2
    if two:
        off = rng.choice([(0, 0, 0), (0, 0, 0), (R, 0, 0), (3 * R, 0, 0), (0, 2 * R, R)])
        V = [v if k < half else [v[c] + off[c] for c in range(3)] for k, v in enumerate(V)]
    def tris(n, pool):
        return [rng.sample(pool, 3) for _ in range(n)]
    if rng.random() < 0.25 and not two:   # a fan around vertex 0: every pair shares a vertex -> never reported
        m1 = [[0] + rng.sample(range(1, nv), 2) for _ in range(rng.randint(2, 4))]
    else:
        m1 = tris(rng.randint(1, 6), list(range(half)) if two else list(range(nv)))
    w = [11 if two else 10, den, nv] + [c for v in V for c in v] + [len(m1)] + [a for t in m1 for a in t]
    if two:
        pool2 = list(range(half, nv)) if rng.random() < 0.8 else list(range(nv))
        m2 = tris(rng.randint(1, 4), pool2); w += [len(m2)] + [a for t in m2 for a in t]
    return "c12 " + " ".join(map(str, w))


# ------------------------------------------------------------------ near-coplanar pairs on generic doubles (float wire, h_c12f)
NEARCOPL_WITNESS = ("c12f 21 | -0x1.8541b72461fd4p+3 -0x1.852ae6803aeacp+6 0x1.9dc7f57830ce8p+5 0x1.653f49076824ap+4 -0x1.34293a5672996p+6 0x1.f4b420b8d4a24p+5 "
                    "-0x1.97839719fc7ecp+3 -0x1.a7faf809c3945p+6 0x1.ea725111090f2p+5 0x1.67b57a75665afp+7 0x1.d8c957e35ebfcp+4 0x1.7f0a5ffe30fdap+6 "
                    "0x1.002e94db3ef2bp+7 0x1.372a55873fce0p+1 0x1.2e89c34def7c4p+6 0x1.33f4d977522b8p+7 0x1.bc714e975e370p+2 0x1.81063f3ea562ap+6")
def gen_nearcoplanar(rng):
    """two triangles of one plane (apart / close / overlapping by construction), rigidly moved by a rational rotation and a
    translation: exactly coplanar before the motion, coplanar up to rounding after it"""
    L = rng.choice([1.0, 1.0, 100.0, 0.01]); kind = rng.choice(["apart", "apart", "close", "overlap"])
    t1 = [(rng.uniform(0, 1) * L, rng.uniform(0, 1) * L, 0.0) for _ in range(3)]
    if kind == "apart": t2 = [(rng.uniform(2, 3) * L, rng.uniform(0, 1) * L, 0.0) for _ in range(3)]
    elif kind == "close": t2 = [(rng.uniform(1.05, 2) * L, rng.uniform(0, 1) * L, 0.0) for _ in range(3)]
    else:
        g = [sum(v[k] for v in t1) / 3 for k in range(3)]; t2 = [tuple(g)] + [(rng.uniform(0, 3) * L, rng.uniform(0, 1) * L, 0.0) for _ in range(2)]
    R = models.rational_quaternion(rng, den=7); tr = [rng.uniform(-1, 1) * L for _ in range(3)]
    pts = [tuple(c + tt for c, tt in zip(models.apply_R(R, v), tr)) for v in t1 + t2]
    return kind, core.fcase("c12f", [21], [c for p in pts for c in p])


# ------------------------------------------------------------------ Interface::contains (float wire, op 30)
def gen_contains(rng):
    """(kind, case line, expected or None): closed surfaces (one or two meshes, either orientation), open caps, points
    inside / outside / close to the surface / at a vertex / in the plane of a triangle"""
    kind = rng.choice(["sphere", "sphere", "sphere-flipped", "ellipsoid", "two-mesh", "open-cap", "octa"])
    lvl = rng.choice([0, 0, 1]); c = tuple(rng.uniform(-1, 1) for _ in range(3)); r = rng.choice([1.0, 0.37, 85.0])
    if kind == "octa": v, t = models.octasphere(1)
    else: v, t = models.icosphere(lvl)
    ax = (1, 1, 1) if kind != "ellipsoid" else (rng.uniform(0.5, 2), rng.uniform(0.5, 2), 1.0)
    V = models.transform(v, r, c, ax)
    if kind == "two-mesh":
        up = [x for x in t if sum(v[a][2] for a in x) > 0]; dn = [x for x in t if x not in up]; meshes = [(1, up), (1, dn)]
    elif kind == "open-cap":
        meshes = [(1, [x for x in t if sum(v[a][2] for a in x) > 0])]
    elif kind == "sphere-flipped":
        meshes = [(-1, list(t))]
    else:
        meshes = [(1, list(t))]
    w = rng.random(); d = models.random_unit(rng); expected = None
    inr = 0.75 if lvl else 0.6
    if w < 0.35: rho = rng.uniform(0.0, inr); expected = 1
    elif w < 0.7: rho = rng.uniform(1.3, 3.0); expected = 0
    elif w < 0.85: rho = rng.uniform(0.8, 1.2)
    else: rho = None
    if rho is None:
        k = rng.randrange(len(V)); p = V[k] if rng.random() < 0.5 else tuple((V[t[0][0]][i] + V[t[0][1]][i]) / 2 for i in range(3))
    else:
        p = tuple(c[i] + r * ax[i] * rho * d[i] for i in range(3))
    if kind == "ellipsoid" and expected == 1 and rho > 0.45: expected = None
    if kind == "open-cap": expected = None
    ints = [30, len(V), len(meshes)]
    for sg, ts in meshes: ints += [sg, len(ts)] + [a for x in ts for a in x]
    return kind, core.fcase("c12f", ints, list(p) + [x for q in V for x in q]), expected

# ------------------------------------------------------------------ geometry level
def snap(v): return tuple(int(round(c * GRID)) for c in v)

def damaged_models(rng, quick):
    """(name, model, extra mesh or None, dipoles or None, expected dict) - ground truth known by construction"""
    out = []
    lvl = 0
    def base(): return models.nested([0.5, 0.8, 1.0], [1.0, 0.0125, 1.0], level=lvl)
    def sphere(r, c=(0, 0, 0)):
        v, t = models.icosphere(lvl); return models.transform(v, r, c), list(t)
    def inner_dips(n, rmax): return [tuple(rmax * rng.uniform(0.1, 0.9) * x for x in models.random_unit(rng)) for _ in range(n)]
    out.append(("clean", base(), None, None, dict(self=1)))
    out.append(("clean+dipoles-inside", base(), None, inner_dips(5, 0.3), dict(self=1, inner=1)))
    d = inner_dips(4, 0.3); d.append((0.0, 0.0, 0.9))
    out.append(("clean+one-dipole-outside-inner", base(), None, d, dict(self=1, inner=0)))
    out.append(("clean+source-mesh-inside", base(), sphere(0.3), None, dict(self=1, mesh=1)))
    out.append(("source-mesh-across-boundary", base(), sphere(0.3, (0.35, 0.0, 0.0)), None, dict(self=1, mesh=0)))
    # a vertex pushed through the surface: (a) the source mesh cuts itself (vertex sent through the opposite side),
    # (b) a vertex of a shell slid across its neighbour along the surface: the shell folds over itself but stays closed
    sv, st = sphere(0.3); sv = list(sv); k = rng.randrange(len(sv)); sv[k] = tuple(-1.3 * c for c in sv[k])
    out.append(("source-mesh-vertex-pushed-through", base(), (sv, st), None, dict(self=1, mesh=0)))
    m = base(); n, vs, ts = m["meshes"][1]; vs = list(vs)
    k = rng.randrange(len(vs)); j = [b for t in ts if k in t for b in t if b != k][0]
    vs[k] = tuple(vs[j][c] + 0.7 * (vs[j][c] - vs[k][c]) for c in range(3)); m["meshes"][1] = (n, vs, ts)
    out.append(("vertex-slid-across-neighbour", m, None, None, dict(self=0)))
    # a shell grown through its neighbour (stretched along x only, so it is not a homothetic copy)
    m = base(); n, vs, ts = m["meshes"][0]; m["meshes"][0] = (n, [(2.0 * v[0], v[1], v[2]) for v in vs], ts)
    out.append(("shell-grown-through-neighbour", m, None, None, dict(self=0)))
    m = base(); n, vs, ts = m["meshes"][2]; m["meshes"][2] = (n, [(v[0] + 0.45, v[1], v[2]) for v in vs], ts)
    out.append(("outer-shell-translated", m, None, inner_dips(3, 0.3), dict(self=0)))
    # two shells only: the single (adjacent) pair intersects
    m = models.nested([0.5, 1.0], [1.0, 0.33], level=lvl); n, vs, ts = m["meshes"][0]; m["meshes"][0] = (n, [(v[0] + 0.5, v[1], v[2]) for v in vs], ts)
    out.append(("two-shells-inner-translated", m, None, None, dict(self=0)))
    m = models.nested([0.5, 1.0], [1.0, 0.33], level=lvl)
    out.append(("two-shells-clean+source-mesh", m, sphere(0.25, (0.1, 0.0, 0.0)), inner_dips(3, 0.3), dict(self=1, mesh=1, inner=1)))
    # a flat cut surface (exactly coplanar, non adjacent triangles) after a generic rotation: valid model, must pass
    R = models.rational_quaternion(rng, den=7)
    out.append(("rotated-flat-cut", models.move_model(models.split_hemispheres(1.0, [1.2], (1.0, 0.33), [0.5], level=1), R=R, t=(0.1, -0.2, 0.05)), None, None, dict(self=1, nosnap=1)))
    # structured dipole sets on the clean model: source grids stored x-, y- and z-fastest that leave the inner compartment,
    # repeated positions, rows sharing two of the three coordinates - first rows inside, later ones outside, and the reverse
    ins = [-0.2, 0.0, 0.15]; cross = [0.0, 0.2, 0.65, 0.7]           # |p| <= 0.3: inside the inner shell; >= 0.6: between the shells
    def grid(fast):
        rows = []
        for u in ins[:2]:
            for v in ins[1:]:
                for w in cross:
                    q = {0: (w, u, v), 1: (u, w, v), 2: (u, v, w)}[fast]; rows.append(q)
        return rows
    sets = [("grid-x-fastest", grid(0)), ("grid-y-fastest", grid(1)), ("grid-z-fastest", grid(2)),
            ("grid-z-fastest-reversed", list(reversed(grid(2)))),
            ("repeated-position-inside", [(0.1, 0.05, 0.0)] * 3 + [(0.0, 0.1, -0.1)] * 2),
            ("repeated-position-then-outside", [(0.1, 0.05, 0.0)] * 3 + [(0.1, 0.05, 0.65)]),
            ("outside-then-same-xy-inside", [(0.1, 0.05, 0.7), (0.1, 0.05, 0.0), (0.1, 0.05, 0.1)]),
            ("same-xz-inside-then-outside", [(0.1, 0.0, 0.05), (0.1, 0.66, 0.05)]),
            ("same-yz-inside-then-outside", [(0.0, 0.1, 0.05), (0.68, 0.1, 0.05)]),
            ("same-xy-inside-then-outside", [(0.05, 0.1, 0.0), (0.05, 0.1, 0.66)]),
            ("all-inside-columns", [(u, v, w) for u in ins for v in ins[:2] for w in ins])]
    for nm_, rows in sets:
        allin = all(math.sqrt(sum(c * c for c in q)) <= 0.39 for q in rows)     # inradius of the inner icosahedron: 0.397
        out.append(("dipoles:" + nm_, base(), None, rows, dict(self=1, inner=1 if allin else 0, diponly=1)))
    # conductivity patterns: each mesh in turn bounded by two non-conductive domains (isolated) or by one (current barrier);
    # clean and self-intersecting (a vertex slid across its neighbour) variants; loaded with and without the .cond file,
    # through Geometry::selfCheck, om_check_geom and om_assemble -HM
    patterns = {"usual": {}, "outer-isolated": {"D2": 0.0}, "middle-isolated": {"D1": 0.0, "D2": 0.0, "Air": 1.0} , "inner-isolated": {"D0": 0.0, "D1": 0.0},
                "barrier-D1": {"D1": 0.0}, "barrier-D0": {"D0": 0.0}}
    # shells far apart and each rotated differently (no homothetic copies: generic mutual position), so that folding one
    # shell creates a self-intersection of that shell ONLY
    rots = [models.rational_quaternion(rng, den=5) for _ in range(3)]
    def gbase():
        m = models.nested([0.2, 0.6, 1.8], [1.0, 0.0125, 1.0], level=lvl)
        m["meshes"] = [(n, [models.apply_R(rots[k], v) for v in vs], ts) for k, (n, vs, ts) in enumerate(m["meshes"])]
        return m
    folded = {}
    for dmg in (0, 1, 2):
        n, vs, ts = gbase()["meshes"][dmg]; vs = list(vs)
        k = rng.randrange(len(vs)); j = [b for t in ts if k in t for b in t if b != k][0]
        vs[k] = tuple(vs[j][c] + 0.7 * (vs[j][c] - vs[k][c]) for c in range(3)); folded[dmg] = (n, vs, ts)
    plan = {"usual": (0, 1, 2), "outer-isolated": (None, 0, 1, 2), "middle-isolated": (None, 0, 1, 2), "inner-isolated": (None, 0),
            "barrier-D1": (None, 1), "barrier-D0": (None,)}
    if not quick: plan = {k: (None, 0, 1, 2) for k in plan}; plan["usual"] = (0, 1, 2)
    for pn, over in patterns.items():
        for dmg in plan[pn]:
            m = gbase(); m["cond"] = dict(m["cond"]); m["cond"].update(over)
            if dmg is not None: m["meshes"][dmg] = folded[dmg]
            out.append(("cond:%s:%s" % (pn, "clean" if dmg is None else "mesh%d-folded" % dmg), m, None, None, dict(self=1 if dmg is None else 0, hm=1, only_self=dmg)))
    # every declaration order class of the domains x dipoles in every compartment (brain / skull / scalp / air)
    v0, t0 = models.icosphere(lvl); fn = [sum(v0[a][c] for a in t0[0]) / 3 for c in range(3)]; fl = math.sqrt(sum(c * c for c in fn)); fn = [c / fl for c in fn]
    along = lambda r_: tuple(r_ * c for c in fn)            # along a face normal: shells are met at 0.795 x their radius
    brain = [(0.1, 0.05, 0.0), (-0.2, 0.1, 0.1), along(0.3)]
    where = {"brain-only": [], "one-in-skull": [along(0.5)], "one-in-scalp": [along(0.7)], "one-in-air": [along(1.5)], "skull-first-row": None}
    orders = {"air-last": (0, 1, 2, 3), "air-first": (3, 0, 1, 2), "air-second": (0, 3, 1, 2), "air-first-brain-last": (3, 2, 1, 0), "brain-last": (1, 2, 3, 0)}
    for on, order in orders.items():
        for wn, extra_rows in where.items():
            rows = ([along(0.5)] + brain) if extra_rows is None else (brain + extra_rows)
            out.append(("dipoles:%s:%s" % (on, wn), base(), None, rows, dict(self=1, inner=1 if wn == "brain-only" else 0, diponly=1, order=order)))
    # non-adjacent shells crossing (a shell shrunk / grown / translated past TWO neighbours without touching the one in
    # between), and adjacent shells crossing through a compartment that may be non-conductive: all conductivity patterns
    def moved(k, f):
        m = gbase(); n, vs, ts = m["meshes"][k]; m["meshes"][k] = (n, [f(v) for v in vs], ts); return m
    crossings = {"outer-shrunk-onto-inner": moved(2, lambda v: (v[0] * 0.28 / 1.8, v[1] * 0.15 / 1.8, v[2] * 0.2 / 1.8)),
                 "inner-grown-through-outer": moved(0, lambda v: (v[0] * 9.0, v[1] * 9.0, v[2] * 11.5)),
                 "inner-translated-through-outer": moved(0, lambda v: (2 * v[0] + 1.6, 2 * v[1] + 0.1, 2 * v[2] - 0.05)),
                 "inner-crosses-middle": moved(0, lambda v: (v[0] + 0.45, v[1] + 0.02, v[2] + 0.03)),
                 "middle-crosses-outer": moved(1, lambda v: (v[0] + 1.3, v[1] + 0.04, v[2] - 0.02))}
    cplan = {"outer-shrunk-onto-inner": ("usual", "barrier-D1"), "inner-grown-through-outer": ("usual",), "inner-translated-through-outer": ("usual", "middle-isolated"),
             "inner-crosses-middle": ("usual", "barrier-D1", "inner-isolated", "middle-isolated"), "middle-crosses-outer": ("usual", "outer-isolated", "middle-isolated")}
    for cn, cm in crossings.items():
        for pn in cplan[cn]:
            m = dict(cm); m["cond"] = dict(cm["cond"]); m["cond"].update(patterns[pn])
            out.append(("cross:%s:%s" % (cn, pn), m, None, None, dict(self=0, hm=1)))
    # om_check_geom with every subset of {-m, -d} x {good, bad}: the exit status is the conjunction of the library verdicts
    good_m = sphere(0.3); bad_m = sphere(0.3, (0.35, 0.0, 0.0))
    good_d = inner_dips(4, 0.3); bad_d = inner_dips(3, 0.3) + [(0.0, 0.0, 0.9)]
    for mn, mm_ in (("good", good_m), ("bad", bad_m)):
        for dn, dd in (("good", good_d), ("bad", bad_d)):
            out.append(("tool:mesh-%s+dipoles-%s" % (mn, dn), base(), mm_, dd, dict(self=1, mesh=1 if mn == "good" else 0, inner=1 if dn == "good" else 0)))
    # source meshes with several connected components, in both component orders: a component cleanly inside the brain, another
    # one (a small octahedron) crossing the outer shell / the middle shell / lying cleanly in the brain as well
    ov, ot = models.octasphere(0)
    def octa(c_, r_): return models.transform(ov, r_, c_), list(ot)
    def union(parts):
        vs = []; ts = []
        for pv, pt in parts:
            off = len(vs); vs += list(pv); ts += [tuple(a + off for a in t) for t in pt]
        return vs, ts
    brainpart = sphere(0.3)
    oc_out = tuple(c + d_ for c, d_ in zip(along(0.795), (0.013, -0.007, 0.004)))     # on a face of the outer shell
    oc_mid = tuple(c + d_ for c, d_ in zip(along(0.636), (0.011, 0.006, -0.009)))     # on a face of the middle shell
    comps = {"octahedron-crossing-outer-shell": (octa(oc_out, 0.08), 0), "octahedron-crossing-middle-shell": (octa(oc_mid, 0.07), 0),
             "octahedron-inside-brain": (octa((0.05, 0.02, -0.03), 0.1), None)}
    for cn, (part, bad) in comps.items():
        for first in ("brain-component-first", "other-component-first"):
            parts = [brainpart, part] if first.startswith("brain") else [part, brainpart]
            if bad is None: parts = [octa((0.05, 0.02, -0.03), 0.1), octa((-0.15, 0.1, 0.12), 0.08)] if first.startswith("brain") else [octa((-0.15, 0.1, 0.12), 0.08), octa((0.05, 0.02, -0.03), 0.1)]
            out.append(("multi-component-source:%s:%s" % (cn, first), base(), union(parts), None, dict(self=1, mesh=1 if bad is None else 0)))
    # non nested models: mesh/mesh intersections are not examined by selfCheck; dipoles are refused
    out.append(("siblings-clean", models.inclusions(1.0, [((0.45, 0, 0), 0.3, 1.0), ((-0.45, 0.1, 0), 0.3, 0.33)], 1.0, level=lvl), None, inner_dips(2, 0.2), dict(self=1, inner=0)))
    return out

def write_geom_case(rng, gid, workdir, m, extra, dips, order=None):
    mm = dict(m)
    if order is not None: mm["domains"] = [m["domains"][k] for k in order]
    mm["meshes"] = [(n, [tuple(c / GRID for c in snap(v)) for v in vs], ts) for n, vs, ts in m["meshes"]]
    d = os.path.join(workdir, "g%d" % gid)
    g, c = models.write_model(mm, d, fmt="tri")
    vid = {}; V = []
    def ids(vs):
        out = []
        for v in vs:
            k = snap(v)
            if k not in vid: vid[k] = len(V); V.append(k)
            out.append(vid[k])
        return out
    meshes = []
    for n, vs, ts in mm["meshes"]:
        loc = ids(vs); meshes.append([tuple(loc[a] for a in t) for t in ts])
    ex = None
    if extra is not None:
        evs = [tuple(c / GRID for c in snap(v)) for v in extra[0]]
        models.write_tri(os.path.join(d, "extra.tri"), evs, extra[1])
        # a separately loaded mesh has its own vertices: fresh identities
        base = len(V); V += [snap(v) for v in evs]; ex = [tuple(base + a for a in t) for t in extra[1]]
    if dips is not None:
        with open(os.path.join(d, "dip.txt"), "w") as fh:
            for p in dips: fh.write("%r %r %r 1.0 0.0 0.0\n" % tuple(float(x) for x in p))
    return dict(V=V, meshes=meshes, extra=ex, ndips=(len(dips) if dips is not None else None), dir=d)

def model_geom_line(gid, info, nested, inside_flags):
    w = [12, gid, GRID, 1 if nested else 0, len(info["V"])] + [c for v in info["V"] for c in v]
    w += [len(info["meshes"])]
    for ts in info["meshes"]: w += [len(ts)] + [a for t in ts for a in t]
    if info["extra"] is not None: w += [1, len(info["extra"])] + [a for t in info["extra"] for a in t]
    else: w += [0]
    if info["ndips"] is not None: w += [1, len(inside_flags)] + list(inside_flags)
    else: w += [0, 0]
    return "c12 " + " ".join(map(str, w))

def run_tool(bdir, info):
    exe = None
    for root, dirs, files in os.walk(bdir):
        if "om_check_geom" in files: exe = os.path.join(root, "om_check_geom"); break
    if exe is None: return None
    cmd = [exe, "-g", os.path.join(info["dir"], "model.geom")]
    if info["extra"] is not None: cmd += ["-m", os.path.join(info["dir"], "extra.tri")]
    if info["ndips"] is not None: cmd += ["-d", os.path.join(info["dir"], "dip.txt")]
    p = subprocess.run(cmd, stdout=subprocess.DEVNULL, stderr=subprocess.DEVNULL, timeout=300)
    return p.returncode

def model_inside_flags(info, dips, inner_mesh=0):
    """Interface::contains of the KNOWN innermost shell (mesh number inner_mesh of the generated model) for every dipole row,
    by the float instance of coq/Geom/Contains.v - independent of Geometry::innermost_interface"""
    V = [tuple(c / GRID for c in v) for v in info["V"]]; ts = info["meshes"][inner_mesh]
    ints = [30, len(V), 1, 1, len(ts)] + [a for t in ts for a in t]
    lines = [core.fcase("c12f", ints, [float(x) for x in p] + [x for q in V for x in q]) for p in dips]
    out = []
    for l in core.run_model(lines):
        z, _f = core.fparse(l); out.append(z[1] if z and z[0] == 0 else -1)
    return out

def run_assemble(bdir, info):
    exe = os.path.join(bdir, "apps", "om_assemble")
    if not os.path.exists(exe): return None
    outp = os.path.join(info["dir"], "hm.bin")
    e = dict(os.environ); e["OMP_NUM_THREADS"] = "1"; e["OPENBLAS_NUM_THREADS"] = "1"
    try:
        p = subprocess.run([exe, "-HM", os.path.join(info["dir"], "model.geom"), os.path.join(info["dir"], "model.cond"), outp],
                           stdout=subprocess.DEVNULL, stderr=subprocess.DEVNULL, timeout=300, env=e)
    except subprocess.TimeoutExpired:
        return "timeout"
    return p.returncode

# ------------------------------------------------------------------ main
def main(replay=None):
    ck = core.Check(PROP, "proof")
    quick = ck.tier != "thorough"
    bdir, hb = ck.prepare("Props/Properties_C12.v", "h_c12.cpp")
    if hb is None:
        return ck.finish()
    cases = []; kinds = []; scaled_of = {}
    if replay:
        rp = json.load(open(replay)); cases = rp.get("cases", []); kinds = rp.get("kinds", ["replay"] * len(cases))
    else:
        cp = os.path.join(core.VERIF, "corpus", "C12.txt")
        if os.path.exists(cp):
            for l in open(cp):
                if l.strip() and not l.startswith("#"): cases.append(l.strip()); kinds.append("corpus")
        for _ in range(20000 if quick else 200000):
            k, c = gen_pair(ck.rng); cases.append(c); kinds.append(k)
            # uniformly scaled copies (powers of two, exact): the exact verdict is scale invariant (exact_verdict_scale_invariant),
            # absolute thresholds in the predicate are not
            if ck.rng.random() < 0.3:
                w = c.split(); den = int(w[2]); sc = ck.rng.choice([-13, -10, 10])
                if sc < 0: c2 = " ".join(w[:2] + [str(den * 2 ** (-sc))] + w[3:])
                else: c2 = " ".join(w[:3] + [str(int(x) * 2 ** sc) for x in w[3:]])
                cases.append(c2); kinds.append("scaled2^%d:%s" % (sc, k)); scaled_of[c2] = c
        for _ in range(600 if quick else 6000):
            cases.append(gen_soup(ck.rng)); kinds.append("soup-self")
        for _ in range(400 if quick else 4000):
            cases.append(gen_soup(ck.rng, two=True)); kinds.append("soup-pair")
    cases = [c for c in cases if int(c.split()[1]) in (10, 11, 20)] if not replay else cases
    mo = core.run_model(cases)
    rc, io, err = core.run_harness(hb, cases, ck.workdir)
    dist = {}; stats = dict(pairs=0, oracle_checked=0, oracle_noclear=0, isect_true=0, self_true=0, pair_true=0, mism=0)
    crossing_seen = None
    impl_of = {c_: ([int(x) for x in i_.split()] if not i_.startswith("CRASH") else [-9]) for c_, i_ in zip(cases, io) if c_.split()[1] == "20"}
    for c, k, m, i in zip(cases, kinds, mo, io):
        dist[k] = dist.get(k, 0) + 1
        op = int(c.split()[1])
        if op == 12: continue
        mz = [int(x) for x in m.split()]; iz = [int(x) for x in i.split()] if not i.startswith("CRASH") else [-9]
        if op == 20:
            stats["pairs"] += 1; stats["isect_true"] += mz[1] if len(mz) > 1 else 0
            if mz[:2] != iz[:2]:
                stats["mism"] += 1
                ck.violation("Triangle::intersects: decision tree model and implementation differ",
                             "Triangle::intersects returns %s where the transcribed decision tree gives %s on the dyadic pair `%s` (all products exact in double)" % (iz[1:], mz[1:2], c),
                             dict(kind="correspondence", cases=[c], kinds=[k], model=[m], impl=[i]))
            if c in scaled_of and len(mz) > 2 and mz[2] != 2:
                stats["scaled_checked"] = stats.get("scaled_checked", 0) + 1
                base_impl = impl_of.get(scaled_of[c])
                if base_impl is not None and base_impl[:2] != iz[:2]:
                    ck.violation("Triangle::intersects: not scale invariant", "Triangle::intersects answers %s on `%s` and %s on its uniformly scaled copy `%s` (pair in generic position)" % (base_impl[1:2], scaled_of[c], iz[1:2], c),
                                 dict(kind="property", cases=[scaled_of[c], c], kinds=[k, k]))
            if len(mz) > 2 and mz[2] != 2:
                stats["oracle_checked"] += 1
                if iz[:2] != [0, mz[2]]:
                    ck.violation("Triangle::intersects: disagrees with exact geometry",
                                 "Triangle::intersects returns %s on the pair `%s` in generic position where the exact edge-pierces-triangle oracle gives %d" % (iz[1:], c, mz[2]),
                                 dict(kind="property", cases=[c], kinds=[k], model=[m], impl=[i]))
            else: stats["oracle_noclear"] += 1
        elif op == 10:
            stats["self_true"] += mz[1]
            if c == CROSSING: crossing_seen = (mz, iz)
            if iz[:2] != mz[:2]:
                stats["mism"] += 1
                extra = " -- the implementation agrees with the pinned guard (tit1->contains(tit1->vertex(2)): never reports)" if iz[1:2] == mz[2:3] else ""
                sig = "has_self_intersection: two crossing triangles" if c == CROSSING else "has_self_intersection: model and implementation differ"
                ck.violation(sig, "Mesh::has_self_intersection returns %s, the model (pairs sharing no vertex that intersect) gives %d on `%s`%s" % (iz[1:], mz[1], c, extra),
                             dict(kind="correspondence", cases=[c], kinds=[k], model=[m], impl=[i]))
        elif op == 11:
            stats["pair_true"] += mz[1]
            if iz[:2] != mz[:2]:
                stats["mism"] += 1
                ck.violation("Mesh::intersection: model and implementation differ", "Mesh::intersection returns %s, model %d on `%s`" % (iz[1:], mz[1], c),
                             dict(kind="correspondence", cases=[c], kinds=[k], model=[m], impl=[i]))
    # ---- refutation replay: asymmetry on a non-generic pair (known finding)
    am = core.run_model([ASYM, ASYM_SWAPPED]); rca, ai, _e = core.run_harness(hb, [ASYM, ASYM_SWAPPED], ck.workdir, tag="asym")
    if not replay:
        if [x.split()[:2] for x in am] != [x.split()[:2] for x in ai]:
            ck.violation("Triangle::intersects: decision tree model and implementation differ", "on the asymmetry witness: model %s implementation %s" % (am, ai), dict(kind="correspondence", cases=[ASYM, ASYM_SWAPPED]))
        elif ai[0].split()[1] != ai[1].split()[1]:
            ck.violation(SIG_ASYM, "Triangle::intersects answers %s for (T1,T2) and %s for (T2,T1) on two disjoint triangles of non-zero area in non-generic position" % (ai[0].split()[1], ai[1].split()[1]),
                         dict(kind="refutation-replay", cases=[ASYM, ASYM_SWAPPED]))
    # ---- nearly coplanar pairs (generic doubles): ground truth by construction, both argument orders
    nc = dict(cases=0, apart=0, close=0, overlap=0, wrong=0)
    hbf = None
    try:
        hbf = os.path.join(bdir, "h_c12f")
        srcf = os.path.join(core.VERIF, "harness", "h_c12f.cpp")
        if not os.path.exists(hbf) or os.path.getmtime(hbf) < os.path.getmtime(srcf): ombuild.build_harness(bdir, srcf, hbf)
    except RuntimeError as e:
        ck.violation("harness-build", "float harness does not compile: %s" % e, dict(kind="build"), found_input=False); hbf = None
    if hbf and not replay:
        fc = [("witness-apart", NEARCOPL_WITNESS)] + [gen_nearcoplanar(ck.rng) for _ in range(6000 if quick else 60000)]
        rcf, fo, _e = core.run_harness(hbf, [c for _, c in fc], ck.workdir, tag="nearcopl")
        for (kind, c), o in zip(fc, fo):
            z, _f = core.fparse(o); nc["cases"] += 1
            k = "apart" if kind.endswith("apart") else kind
            nc[k] += 1
            want = 1 if k == "overlap" else 0
            if z is None or z[0] != 0 or z[1] != want or z[2] != want:
                nc["wrong"] += 1
                ck.violation("Triangle::intersects: nearly coplanar pair" + (" (witness)" if kind == "witness-apart" else ""),
                             "Triangle::intersects answers %s (T1 vs T2, T2 vs T1) on two triangles of one plane that are %s by construction, after a rigid motion: `%s`" % (z[1:3] if z else o, "disjoint (well separated)" if want == 0 else "overlapping", c),
                             dict(kind="property", fcases=[c]))
    if replay and hbf and rp.get("fcases"):
        rcf, fo, _e = core.run_harness(hbf, rp["fcases"], ck.workdir, tag="nearcopl")
        for c, o in zip(rp["fcases"], fo):
            z, _f = core.fparse(o)
            if z is None or z[1] != z[2]:
                ck.violation("Triangle::intersects: nearly coplanar pair", "replayed pair `%s` -> %s" % (c, o), dict(kind="property", fcases=[c]))
    # ---- Interface::contains: float instance of coq/Geom/Contains.v against the implementation
    cs = dict(cases=0, inside=0, bitwise_equal_angle=0, max_abs_angle_diff=0.0, expected_checked=0, mism=0)
    if hbf and not replay:
        cc = [gen_contains(ck.rng) for _ in range(1500 if quick else 15000)]
        cm = core.run_model([c for _, c, _ in cc])
        rcf, co, _e = core.run_harness(hbf, [c for _, c, _ in cc], ck.workdir, tag="contains")
        for (kind, c, exp), m, o in zip(cc, cm, co):
            mz, mf = core.fparse(m); z, f = core.fparse(o); cs["cases"] += 1
            dist["contains:" + kind] = dist.get("contains:" + kind, 0) + 1
            if z is None or mz is None or z[0] != 0 or mz[0] != 0 or z[1] != mz[1] or not core.close(mf[0], f[0], rel=1e-12, abs_=1e-12):
                cs["mism"] += 1
                ck.violation("Interface::contains: model and implementation differ", "Interface::contains/solid_angle gives %s where the float instance of the model (Geom/Contains.v over Kernels.solid_angle) gives %s on `%s`" % (o, m, c[:300]),
                             dict(kind="correspondence", fcases=[c], model=[m], impl=[o])); continue
            cs["inside"] += z[1]; cs["bitwise_equal_angle"] += (mf[0] == f[0]); cs["max_abs_angle_diff"] = max(cs["max_abs_angle_diff"], abs(mf[0] - f[0]))
            if exp is not None:
                cs["expected_checked"] += 1
                want = exp
                if z[1] != want:
                    ck.violation("Interface::contains: wrong answer on a closed surface", "Interface::contains answers %d for a point that is %s the closed surface by construction (%s): `%s`" % (z[1], "inside" if exp else "outside", kind, c[:300]),
                                 dict(kind="property", fcases=[c]))
    # ---- geometry level
    gstats = []; mcache = {}
    if not replay or rp.get("geom"):
        import random as _random
        grng = _random.Random((int(rp.get("seed", ck.seed)) if replay else ck.seed) * 7919 + 12)
        todo = damaged_models(grng, quick)
        if replay: todo = [t for t in todo if t[0] in rp.get("geom", [])]
        for gid, (name, m, extra, dips, expect) in enumerate(todo):
            if expect.get("nosnap"):
                models.write_model(m, os.path.join(ck.workdir, "g%d" % gid), fmt="tri")
                rc, out, err = core.run_harness(hb, ["c12 13 %d" % gid], ck.workdir, tag="geom")
                z = [int(x) for x in out[0].split()] if out and not out[0].startswith("CRASH") else [-9]
                gstats.append(dict(name=name, harness=z[:3]))
                if z[0] != 0 or z[2] != expect["self"]:
                    ck.violation("geometry checks: " + name, "generated model `%s` (valid by construction): selfCheck/harness gives %s" % (name, z[:3]), dict(kind="geometry", geom=[name]))
                continue
            info = write_geom_case(grng, gid, ck.workdir, m, extra, dips, order=expect.get("order"))
            rc, out, err = core.run_harness(hb, ["c12 13 %d" % gid], ck.workdir, tag="geom")
            z = [int(x) for x in out[0].split()] if out and not out[0].startswith("CRASH") else [-9]
            if z[0] != 0:
                ck.violation("geometry case could not be run: " + name, "harness status %s on generated model %s" % (z, name), dict(kind="harness", geom=[name]), found_input=False); continue
            nested, selfc, chk, inner, nd = z[1], z[2], z[3], z[4], z[5]; flags = z[6:6 + nd]
            flag_msgs = []
            if dips is not None and nested and m["info"].get("kind") == "nested":
                mflags = model_inside_flags(info, dips)
                if mflags != flags:
                    bad = [k for k, (a, b) in enumerate(zip(mflags, flags)) if a != b]
                    flag_msgs.append("innermost_interface().contains differs from Interface::contains of the innermost shell (model Geom/Contains.v) on rows %s, e.g. row %d at %s: implementation %d, model %d" % (bad[:6], bad[0], dips[bad[0]], flags[bad[0]], mflags[bad[0]]))
                flags = mflags
            if expect.get("diponly"):      # the clean base model: only the dipole part is of interest; model without meshes
                ml = model_geom_line(gid, dict(info, V=[], meshes=[]), nested, flags)
            else:
                ml = model_geom_line(gid, info, nested, flags)
            mkey = " ".join(ml.split()[:2] + ml.split()[3:])      # the model line without the case number
            if mkey not in mcache: mcache[mkey] = [int(x) for x in core.run_model([ml])[0].split()]
            mz = mcache[mkey]
            tool = run_tool(bdir, info)
            gstats.append(dict(name=name, nested=nested, selfCheck=selfc, check=chk, check_inner=inner, tool_exit=tool, model=mz[1:]))
            msgs = list(flag_msgs)
            if not expect.get("diponly"):
                # the same geometry loaded WITHOUT conductivities (as om_check_geom does): the model has no index / flag input at all
                rc2, out2, _e2 = core.run_harness(hb, ["c12 13 %d 0" % gid], ck.workdir, tag="geom")
                z2 = [int(x) for x in out2[0].split()] if out2 and not out2[0].startswith("CRASH") else [-9]
                gstats[-1]["selfCheck_without_cond"] = z2[2] if z2[0] == 0 else z2
                if z2[0] != 0 or z2[2] != mz[1]: msgs.append("selfCheck of the geometry loaded without conductivities returns %s, model %d" % (z2[2] if z2[0] == 0 else z2, mz[1]))
            if expect.get("hm"):
                hm = run_assemble(bdir, info)
                gstats[-1]["om_assemble_HM_exit"] = hm
                want = 0 if mz[1] == 1 else 1
                if hm is not None and hm != want: msgs.append("om_assemble -HM exits %s, model %d (selfCheck %s)" % (hm, want, "passes" if mz[1] else "fails"))
            if mz[1] != selfc: msgs.append("selfCheck returns %d, model %d" % (selfc, mz[1]))
            if mz[2] != chk: msgs.append("check(mesh) returns %d, model %d" % (chk, mz[2]))
            if info["ndips"] is not None and mz[3] != inner: msgs.append("check_inner returns %d, model %d" % (inner, mz[3]))
            if tool is not None and tool != mz[4]: msgs.append("om_check_geom exits %d, model %d" % (tool, mz[4]))
            # ground truth by construction
            if "self" in expect and selfc != expect["self"]: msgs.append("selfCheck returns %d on a model that is %s by construction" % (selfc, "clean" if expect["self"] else "defective"))
            if "mesh" in expect and chk != expect["mesh"]: msgs.append("check(mesh) returns %d, expected %d by construction" % (chk, expect["mesh"]))
            if "inner" in expect and inner != expect["inner"]: msgs.append("check_inner returns %d, expected %d by construction" % (inner, expect["inner"]))
            if msgs:
                files = {}
                for fn in sorted(os.listdir(info["dir"])):
                    if fn.endswith((".geom", ".cond", ".tri", ".txt")): files[fn] = open(os.path.join(info["dir"], fn)).read()
                ck.violation("geometry checks: " + name, "generated model `%s`: %s" % (name, "; ".join(msgs)),
                             dict(kind="geometry", geom=[name], cases=[ml[:2000]], files=files, dipoles=dips,
                                  commands=["om_check_geom -g model.geom [-m extra.tri] [-d dip.txt]", "om_assemble -HM model.geom model.cond hm.bin"]))
    # ---- few intersecting triangle pairs, several OpenMP thread counts, repeated: the verdict must never change
    tstats = []
    if not replay or rp.get("threads"):
        import random as _r2
        trng = _r2.Random(ck.seed * 104729 + 5)
        v1, t1 = models.icosphere(1)
        def shell(r): return models.transform(v1, r, (0, 0, 0))
        def poke(vs, k, r): 
            vs = list(vs); n_ = math.sqrt(sum(c * c for c in vs[k])); vs[k] = tuple(c * r / n_ for c in vs[k]); return vs
        mclean = models.nested([0.5, 0.8, 1.0], [1.0, 0.0125, 1.0], level=1)
        src = (poke(shell(0.3), trng.randrange(len(v1)), 0.62), list(t1))                 # one source vertex through the cortex
        mpoke = models.nested([0.5, 0.8, 1.0], [1.0, 0.0125, 1.0], level=1)
        n_, vs_, ts_ = mpoke["meshes"][0]; mpoke["meshes"][0] = (n_, poke(vs_, trng.randrange(len(vs_)), 0.88), ts_)   # one cortex vertex through the skull
        tcases = [("threads:source-vertex-through-cortex", mclean, src, 1), ("threads:cortex-vertex-through-skull", mpoke, None, 0)]
        for tk, (tname, tm, textra, mode) in enumerate(tcases):
            gid = 900 + tk
            info = write_geom_case(trng, gid, ck.workdir, tm, textra, None)
            reps = 40 if quick else 200
            rec = dict(name=tname, reps=reps, ok_counts={})
            for nth in ("1", "2", "4", "8"):
                rct, to, _e = core.run_harness(hb, ["c12 16 %d %d %d" % (gid, reps, mode)], ck.workdir, tag="threads", env={"OMP_NUM_THREADS": nth})
                z = [int(x) for x in to[0].split()] if to and not to[0].startswith("CRASH") else [-9, -9]
                rec["ok_counts"][nth] = z[1] if z[0] == 0 else str(z)
                if z[0] != 0 or z[1] != 0:
                    files = {fn: open(os.path.join(info["dir"], fn)).read() for fn in sorted(os.listdir(info["dir"])) if fn.endswith((".geom", ".cond", ".tri"))}
                    ck.violation("geometry checks under OpenMP: " + tname,
                                 "%s of a model that is defective by construction (few intersecting triangle pairs) answered 'fine' in %s of %d repetitions with OMP_NUM_THREADS=%s" % ("Geometry::check(mesh)" if mode else "Geometry::selfCheck", z[1] if z[0] == 0 else z, reps, nth),
                                 dict(kind="threads", threads=[tname], files=files, omp_num_threads=nth, commands=["OMP_NUM_THREADS=%s om_check_geom -g model.geom%s   (repeat)" % (nth, " -m extra.tri" if mode else "")]))
                    break
            tstats.append(rec)
    # ---- the loops of the validity checks are modelled as sequential folds: a parallel loop in these files is outside the model
    for rel in ("OpenMEEG/src/mesh.cpp", "OpenMEEG/src/geometry.cpp", "OpenMEEG/src/interface.cpp", "OpenMEEG/src/triangle.cpp", "OpenMEEG/include/Triangle_triangle_intersection.h"):
        try: txt = open(os.path.join(ombuild.REPO, rel)).read()
        except OSError: continue
        if "pragma omp" in txt:
            ck.violation("parallel loop in a file modelled sequentially: " + rel, "%s now contains an OpenMP pragma; coq/Geom/Checks.v models Mesh::intersection / has_self_intersection / selfCheck as sequential folds (see the thread-count runs for a failing input)" % rel,
                         dict(kind="source-gate", file=rel), found_input=False)
    ck.cov.update(evaluations=len(cases) + len(gstats), distinct_nontrivial=len(set(cases)) + len(gstats),
                  rule="distinct case lines; triangle pairs aimed at the branches of the decision tree (plane rejections, canonical permutations, coplanar fallback with its three projections, touching configurations); soups for the loops; generated clean/damaged head models",
                  samples=cases[len(cases) // 2:len(cases) // 2 + 2], op_distribution=dist, triangle_pairs=stats["pairs"],
                  pairs_intersecting=stats["isect_true"], oracle_checked=stats["oracle_checked"], scaled_copies_checked=stats.get("scaled_checked", 0), oracle_no_clearance=stats["oracle_noclear"],
                  soups_self_intersecting=stats["self_true"], soup_pairs_intersecting=stats["pair_true"],
                  correspondence_mismatches=stats["mism"], geometry_models=gstats, near_coplanar_pairs=nc, thread_count_runs=tstats, contains_cases=cs, traces_validated_against_impl=len(cases) + len(gstats))
    ck.cov["trusted_base"] += ["hand-written Gallina models coq/Geom/{TriTri,Checks}.v tied by exact differential runs (harness/h_c12.cpp vs extracted extract/omm)",
                               "extraction: ExtrOcamlBasic only", "Interface::contains (solid angle) is an abstract predicate of the model; its values are taken from the implementation"]
    ck.assumptions += ["triangle-triangle predicate: symmetry and agreement with exact geometry are validated against the oracle on pairs in generic position, not proved",
                       "point-in-interface predicate (solid angle) is abstract in the orchestration theorems"]
    return ck.finish()
